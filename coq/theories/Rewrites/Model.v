(* C17 - model of Arc's performance rewrites (internal/api/query.go rewriteTimeBucket,
   rewriteDateTrunc, intervalToSeconds; regex_rewriter.go; like_optimizer.go) together with
   the DuckDB primitives the rewritten and the original expressions are made of.

   Executable definitions only.  The DuckDB half (epoch()::BIGINT, //, to_timestamp,
   time_bucket, date_trunc, LIKE, substr, split_part, regexp_replace / regexp_extract via a
   small backtracking matcher, Kleene logic) is the ORACLE half of the model: every run
   evaluates these definitions against a real DuckDB through the harness.  The Go half is
   the transcription of what the rewrite functions emit.

   Timestamps are microseconds since the Unix epoch (Z), strings are byte lists (list N). *)
From Coq Require Import List ZArith NArith Bool String Ascii.
Import ListNotations.
Open Scope Z_scope.

(* ------------------------------------------------------------------------------------ *)
(* bytes                                                                                 *)
(* ------------------------------------------------------------------------------------ *)

Definition bytes := list N.

Definition B (s : string) : bytes := map N_of_ascii (list_ascii_of_string s).

Fixpoint bytes_eqb (a b : bytes) : bool :=
  match a, b with
  | [], [] => true
  | x :: a', y :: b' => N.eqb x y && bytes_eqb a' b'
  | _, _ => false
  end.

Fixpoint prefixb (p s : bytes) : bool :=
  match p, s with
  | [], _ => true
  | x :: p', y :: s' => N.eqb x y && prefixb p' s'
  | _ :: _, [] => false
  end.

Fixpoint containsb (needle hay : bytes) : bool :=
  prefixb needle hay ||
  match hay with
  | [] => false
  | _ :: h' => containsb needle h'
  end.

Definition lower1 (c : N) : N := if (N.leb 65 c && N.leb c 90)%bool then (c + 32)%N else c.
Definition upper1 (c : N) : N := if (N.leb 97 c && N.leb c 122)%bool then (c - 32)%N else c.
Definition lowerb (s : bytes) : bytes := map lower1 s.
Definition upperb (s : bytes) : bytes := map upper1 s.

Fixpoint take_until (c : N) (s : bytes) : bytes :=
  match s with
  | [] => []
  | x :: s' => if N.eqb x c then [] else x :: take_until c s'
  end.

Definition opt_bytes_eqb (a b : option bytes) : bool :=
  match a, b with
  | None, None => true
  | Some x, Some y => bytes_eqb x y
  | _, _ => false
  end.

Definition opt_Z_eqb (a b : option Z) : bool :=
  match a, b with
  | None, None => true
  | Some x, Some y => Z.eqb x y
  | _, _ => false
  end.

(* ------------------------------------------------------------------------------------ *)
(* 1. time_bucket / date_trunc                                                           *)
(* ------------------------------------------------------------------------------------ *)

Definition MICROS : Z := 1000000.
(* DuckDB's default time_bucket origin for widths below one month: Monday 2000-01-03 00:00 UTC *)
Definition default_origin_s : Z := 946857600.

(* CAST(double AS BIGINT): round to nearest, ties to even (DuckDB v1.x uses nearbyint).
   a / b with b > 0 stands for the exact real quotient. *)
Definition round_half_even (a b : Z) : Z :=
  let q := a / b in
  let r := a mod b in
  if 2 * r <? b then q
  else if b <? 2 * r then q + 1
  else if Z.even q then q else q + 1.

(* epoch(ts)::BIGINT.  epoch() is the DOUBLE t / 1e6; for |t| < 2^53 the correctly rounded
   quotient rounds to the same integer as the exact one. *)
Definition epoch_bigint (t : Z) : Z := round_half_even t MICROS.

(* a // b on BIGINT: truncation toward zero *)
Definition idiv (a b : Z) : Z := Z.quot a b.

(* to_timestamp(seconds) as microseconds *)
Definition to_timestamp (s : Z) : Z := s * MICROS.

(* time_bucket(width, ts, origin) for widths without a month part (all in microseconds):
   origin + floor((ts - origin) / width) * width *)
Definition time_bucket (w t o : Z) : Z := o + ((t - o) / w) * w.

Inductive tunit := USecond | UMinute | UHour | UDay | UWeek | UMonth.

Definition unit_seconds (u : tunit) : Z :=
  match u with
  | USecond => 1 | UMinute => 60 | UHour => 3600 | UDay => 86400 | UWeek => 604800
  | UMonth => 0
  end.

(* date_trunc(unit, ts) for the fixed-length units; 'week' is the ISO week (Monday), i.e. the
   1-week bucket of the default origin.  None = not modelled (month: calendar arithmetic,
   never rewritten). *)
Definition date_trunc (u : tunit) (t : Z) : option Z :=
  match u with
  | UMonth => None
  | UWeek => Some (time_bucket (604800 * MICROS) t (default_origin_s * MICROS))
  | _ => Some ((t / (unit_seconds u * MICROS)) * (unit_seconds u * MICROS))
  end.

(* Go: intervalToSeconds(amount, unit) on a 64-bit int.  strconv.Atoi fails above 2^63-1
   (-> 0); the multiplication wraps. *)
Definition wrap64 (x : Z) : Z := (x + 2 ^ 63) mod 2 ^ 64 - 2 ^ 63.

Definition interval_to_seconds (n : Z) (u : tunit) : Z :=
  if 2 ^ 63 <=? n then 0 else wrap64 (n * unit_seconds u).

(* the expressions the two rewrite functions recognise (column = a plain identifier) *)
Inductive texpr :=
| TB2 (amount : Z) (u : tunit)                 (* time_bucket(INTERVAL 'n unit', col) *)
| TB3 (amount : Z) (u : tunit) (origin_us : Z) (* time_bucket(INTERVAL 'n unit', col, TIMESTAMP 'origin');
                                                  Go's time.Parse accepts a fractional second in every layout *)
| TB3Off (amount : Z) (u : tunit) (wall_us off_s : Z)
                                               (* time_bucket(INTERVAL 'n unit', col, TIMESTAMP '<wall clock><+hh:mm>'): an origin
                                                  with a numeric UTC offset.  None of parseTimeBucketOrigin's layouts has a numeric
                                                  zone (ArcGen.Params_Rewrites / Obligations.v), so the call is left to DuckDB,
                                                  whose TIMESTAMP literal ignores the offset *)
| DT (u : tunit)                               (* date_trunc('unit', col) *)
| TOpaque.                                     (* a call the regexps leave alone: parenthesised column
                                                  argument, origin outside the five Go layouts, other units *)

(* what the Go code emits, as a structure:
   E2 s1 s2       = to_timestamp((epoch(col)::BIGINT // s1) * s2)
   E3 o1 o2 s1 s2 = to_timestamp(o1 + ((epoch(col)::BIGINT - o2) // s1) * s2) *)
Inductive emitted := EUnch | E2 (s1 s2 : Z) | E3 (o1 o2 s1 s2 : Z) | EOther.

Definition rewrite_texpr (e : texpr) : emitted :=
  match e with
  | TB2 n u => let s := interval_to_seconds n u in if s =? 0 then EUnch else E2 s s
  | TB3 n u o => let s := interval_to_seconds n u in
                 if negb (o mod MICROS =? 0) then EUnch        (* originTime.Nanosecond() != 0: left to DuckDB *)
                 else if s =? 0 then EUnch else E3 (o / MICROS) (o / MICROS) s s     (* originTime.Unix() *)
  | TB3Off _ _ _ _ => EUnch
  | DT u => let s := interval_to_seconds 1 u in if s =? 0 then EUnch else E2 s s
  | TOpaque => EUnch
  end.

(* DuckDB value of the original expression (None = not modelled: month widths) *)
Definition eval_orig (e : texpr) (t : Z) : option Z :=
  match e with
  | TB2 n u => match u with
               | UMonth => None
               | _ => Some (time_bucket (n * unit_seconds u * MICROS) t (default_origin_s * MICROS))
               end
  | TB3 n u o => match u with
                 | UMonth => None
                 | _ => Some (time_bucket (n * unit_seconds u * MICROS) t o)
                 end
  | TB3Off n u o _ => match u with
                      | UMonth => None
                      | _ => Some (time_bucket (n * unit_seconds u * MICROS) t o)
                      end
  | DT u => date_trunc u t
  | TOpaque => None
  end.

(* DuckDB value of the emitted expression *)
Definition eval_emitted (em : emitted) (e : texpr) (t : Z) : option Z :=
  match em with
  | EUnch => eval_orig e t
  | E2 s1 s2 => Some (to_timestamp (idiv (epoch_bigint t) s1 * s2))
  | E3 o1 o2 s1 s2 => Some (to_timestamp (o1 + idiv (epoch_bigint t - o2) s1 * s2))
  | EOther => None
  end.

Definition rewritten_value (e : texpr) (t : Z) : option Z := eval_emitted (rewrite_texpr e) e t.

(* hypotheses of the guarded theorems, as executable predicates *)
Definition rounds_down (t : Z) : bool := epoch_bigint t =? t / MICROS.
Definition subsecond (t : Z) : Z := t mod MICROS.

Definition emitted_eqb (a b : emitted) : bool :=
  match a, b with
  | EUnch, EUnch => true
  | E2 a1 a2, E2 b1 b2 => (a1 =? b1) && (a2 =? b2)
  | E3 a1 a2 a3 a4, E3 b1 b2 b3 b4 => (a1 =? b1) && (a2 =? b2) && (a3 =? b3) && (a4 =? b4)
  | _, _ => false
  end.

(* --- correspondence cases for the time rewrites ---
   one case = one expression, what Go emitted for it (parsed), and per shared row the two
   values DuckDB returned (original, rewritten).  Observations are written relative to the
   row's timestamp to keep the literals small:  TObs ds dr  means
   original = (floor(t / 1e6) - ds) s,  rewritten = original + dr s. *)
Inductive tobs := TNull | TObs (ds dr : Z) | TObsRaw (a b : option Z).

Definition tobs_decode (t : Z) (o : tobs) : option Z * option Z :=
  match o with
  | TNull => (None, None)
  | TObs ds dr => let orig := (t / MICROS - ds) * MICROS in (Some orig, Some (orig + dr * MICROS))
  | TObsRaw a b => (a, b)
  end.

Record tcase := {
  tc_expr : texpr;
  tc_emit : emitted;
  tc_obs : list tobs
}.

(* per row: model = DuckDB on both sides (when the original is modelled) *)
Definition trow_agrees (c : tcase) (t : option Z) (ob : tobs) : bool :=
  match t with
  | None => match ob with TNull | TObsRaw None None => true | _ => false end
  | Some x =>
      let o := tobs_decode x ob in
      match eval_orig (tc_expr c) x with
      | None => true                                   (* month widths: value not modelled *)
      | Some v => opt_Z_eqb (fst o) (Some v)
      end &&
      match tc_emit c with
      | EUnch => true                                  (* same text evaluated twice *)
      | em => opt_Z_eqb (snd o) (eval_emitted em (tc_expr c) x)
      end
  end.

Definition trow_oracle (t : option Z) (ob : tobs) : bool :=
  match ob with
  | TNull => true
  | TObs _ dr => dr =? 0
  | TObsRaw a b => opt_Z_eqb a b
  end.

Fixpoint failing2 {A C} (f : A -> C -> bool) (n : N) (l : list A) (m : list C) : list N :=
  match l, m with
  | x :: l', y :: m' => if f x y then failing2 f (n + 1)%N l' m' else n :: failing2 f (n + 1)%N l' m'
  | [], [] => []
  | _, _ => [n]                                        (* length mismatch is a disagreement *)
  end.

(* emitted text agrees with the model of the Go code *)
Definition tcase_emit_agrees (c : tcase) : bool := emitted_eqb (rewrite_texpr (tc_expr c)) (tc_emit c).
(* row indices on which DuckDB and the model differ *)
Definition tcase_disagree (rows : list (option Z)) (c : tcase) : list N :=
  failing2 (trow_agrees c) 0%N rows (tc_obs c).
(* row indices on which DuckDB's two values differ (property oracle on the implementation) *)
Definition tcase_oraclefail (rows : list (option Z)) (c : tcase) : list N :=
  failing2 trow_oracle 0%N rows (tc_obs c).

(* validation cases for the single primitives; the *Rows forms carry one small number per
   non-NULL shared row *)
Inductive pcase :=
| PIdiv (a b obs : Z)                    (* a // b *)
| PToTimestamp (s obs : Z)               (* epoch_us(to_timestamp(s)) *)
| PEpochRows (ds : list Z)               (* epoch(t)::BIGINT - floor(t / 1e6) *)
| PBucketRows (w o : Z) (ds : list Z)    (* t - epoch_us(time_bucket(to_microseconds(w), t, make_timestamp(o))) *)
| PTruncRows (u : tunit) (ds : list Z).  (* t - epoch_us(date_trunc(unit, t)) *)

Fixpoint nonnull (rows : list (option Z)) : list Z :=
  match rows with
  | [] => []
  | None :: r => nonnull r
  | Some t :: r => t :: nonnull r
  end.

Fixpoint all2 {A C} (f : A -> C -> bool) (l : list A) (m : list C) : bool :=
  match l, m with
  | x :: l', y :: m' => f x y && all2 f l' m'
  | [], [] => true
  | _, _ => false
  end.

Definition pcase_agrees (rows : list (option Z)) (p : pcase) : bool :=
  match p with
  | PIdiv a b obs => idiv a b =? obs
  | PToTimestamp s obs => to_timestamp s =? obs
  | PEpochRows ds => all2 (fun t d => epoch_bigint t =? t / MICROS + d) (nonnull rows) ds
  | PBucketRows w o ds => all2 (fun t d => time_bucket w t o =? t - d) (nonnull rows) ds
  | PTruncRows u ds => all2 (fun t d => opt_Z_eqb (date_trunc u t) (Some (t - d))) (nonnull rows) ds
  end.

(* ------------------------------------------------------------------------------------ *)
(* 2. SQL LIKE, substr, split_part                                                       *)
(* ------------------------------------------------------------------------------------ *)

(* LIKE without ESCAPE: % = any sequence, _ = any single character (bytes = characters on
   the ASCII inputs the correspondence uses) *)
Fixpoint like (p s : bytes) : bool :=
  match p with
  | [] => match s with [] => true | _ => false end
  | c :: p' =>
      if N.eqb c 37 (* % *) then
        (fix skip (s : bytes) : bool :=
           like p' s || match s with [] => false | _ :: s' => skip s' end) s
      else if N.eqb c 95 (* _ *) then
        match s with [] => false | _ :: s' => like p' s' end
      else
        match s with [] => false | x :: s' => N.eqb c x && like p' s' end
  end.

Definition substr_from (s : bytes) (k : nat) : bytes := skipn (k - 1) s.   (* substr(s, k), 1-based *)
Definition split_part1 (s : bytes) : bytes := take_until 47 s.            (* split_part(s, '/', 1) *)

(* buildURLDomainCASE(col) evaluated on a non-NULL string *)
Definition url_case (s : bytes) : bytes :=
  if like (B "https://www.%") s then split_part1 (substr_from s 13)
  else if like (B "http://www.%") s then split_part1 (substr_from s 12)
  else if like (B "https://%") s then split_part1 (substr_from s 9)
  else if like (B "http://%") s then split_part1 (substr_from s 8)
  else split_part1 s.

(* the text buildURLDomainCASE emits for column u *)
Definition url_case_text : bytes :=
  B "CASE WHEN u LIKE 'https://www.%' THEN split_part(substr(u, 13), '/', 1) WHEN u LIKE 'http://www.%' THEN split_part(substr(u, 12), '/', 1) WHEN u LIKE 'https://%' THEN split_part(substr(u, 9), '/', 1) WHEN u LIKE 'http://%' THEN split_part(substr(u, 8), '/', 1) ELSE split_part(u, '/', 1) END".

(* trigger of rewriteURLDomainExtraction / ...Extract on the pattern literal *)
Definition url_trigger (pat : bytes) : bool :=
  containsb (B "https") (lowerb pat) &&
  (containsb (B "[^/]") pat || containsb [91; 94; 92; 47; 93]%N pat).       (* "[^/]" or "[^\/]" *)

(* ------------------------------------------------------------------------------------ *)
(* 3. a small backtracking regex matcher (leftmost, greedy, first alternative wins), the  *)
(*    semantics RE2 gives to the patterns used here                                       *)
(* ------------------------------------------------------------------------------------ *)

Inductive re :=
| RChar (c : N)
| RAny                                   (* .  : any character but newline *)
| RSet (neg : bool) (ranges : list (N * N))
| REps
| RSeq (a b : re)
| RAlt (a b : re)
| RStar (a : re)                         (* greedy; an iteration must consume input *)
| RGroup (n : nat) (a : re)              (* capturing group n *)
| RBol | REol.

Definition RPlus (a : re) : re := RSeq a (RStar a).
Definition ROpt (a : re) : re := RAlt a REps.
Fixpoint RLit (s : bytes) : re :=
  match s with
  | [] => REps
  | c :: s' => RSeq (RChar c) (RLit s')
  end.

Definition caps := list (nat * bytes).

Fixpoint cap_get (n : nat) (c : caps) : option bytes :=
  match c with
  | [] => None
  | (k, v) :: c' => if Nat.eqb k n then Some v else cap_get n c'
  end.

Definition in_ranges (x : N) (rs : list (N * N)) : bool :=
  existsb (fun r => N.leb (fst r) x && N.leb x (snd r)) rs.

Definition mres := option (nat * caps).
Definition mcont := nat -> bytes -> caps -> mres.

(* greedy iteration: try one more `step` (which must consume input), else continue with k *)
Fixpoint star_loop (step : nat -> bytes -> caps -> mcont -> mres) (k : mcont)
         (n : nat) (i : nat) (s : bytes) (c : caps) {struct n} : mres :=
  match n with
  | O => k i s c
  | S n' =>
      match step i s c (fun i' s' c' =>
                          if Nat.ltb (List.length s') (List.length s) then star_loop step k n' i' s' c' else None) with
      | Some x => Some x
      | None => k i s c
      end
  end.

(* continuation-passing matcher.  i = number of characters before s in the subject
   (for ^); k receives the position, the rest and the captures after a match of r. *)
Fixpoint rmatch (r : re) (i : nat) (s : bytes) (c : caps) (k : mcont) {struct r} : mres :=
  match r with
  | RChar x => match s with y :: s' => if N.eqb x y then k (S i) s' c else None | [] => None end
  | RAny => match s with y :: s' => if N.eqb y 10 then None else k (S i) s' c | [] => None end
  | RSet neg rs => match s with
                   | y :: s' => if xorb neg (in_ranges y rs) then k (S i) s' c else None
                   | [] => None
                   end
  | REps => k i s c
  | RSeq a b => rmatch a i s c (fun i' s' c' => rmatch b i' s' c' k)
  | RAlt a b => match rmatch a i s c k with
                | Some x => Some x
                | None => rmatch b i s c k
                end
  | RStar a => star_loop (rmatch a) k (List.length s) i s c
  | RGroup n a => rmatch a i s c (fun i' s' c' => k i' s' ((n, firstn (i' - i) s) :: c'))
  | RBol => if Nat.eqb i 0 then k i s c else None
  | REol => match s with [] => k i s c | _ => None end
  end.

(* match anchored at the current position; returns end position and captures *)
Definition rmatch_here (r : re) (i : nat) (s : bytes) : option (nat * caps) :=
  rmatch r i s [] (fun i' _ c' => Some (i', c')).

(* unanchored search: leftmost start position *)
Fixpoint rsearch_from (r : re) (i : nat) (s : bytes) : option (nat * nat * caps) :=
  match rmatch_here r i s with
  | Some (e, c) => Some (i, e, c)
  | None => match s with
            | [] => None
            | _ :: s' => rsearch_from r (S i) s'
            end
  end.
Definition rsearch (r : re) (s : bytes) : option (nat * nat * caps) := rsearch_from r 0 s.

Definition group1 (c : caps) : bytes := match cap_get 1 c with Some v => v | None => [] end.

(* regexp_replace(s, pattern, '\1') (first match only); no match -> s *)
Definition re_replace1 (r : re) (s : bytes) : bytes :=
  match rsearch r s with
  | None => s
  | Some (a, e, c) => firstn a s ++ group1 c ++ skipn e s
  end.

(* regexp_extract(s, pattern, 1); no match -> '' *)
Definition re_extract1 (r : re) (s : bytes) : bytes :=
  match rsearch r s with
  | None => []
  | Some (_, _, c) => group1 c
  end.

Definition noslash : re := RSet true [(47, 47)%N].
Definition scheme_re : re := RSeq (RLit (B "http")) (RSeq (ROpt (RChar 115)) (RLit (B "://"))).

(* ^https?://(?:www\.)?([^/]+)/.*$   (the REGEXP_REPLACE pattern the rewrite was written for) *)
Definition canon_replace_re : re :=
  RSeq RBol (RSeq scheme_re (RSeq (ROpt (RLit (B "www."))) (RSeq (RGroup 1 (RPlus noslash))
       (RSeq (RChar 47) (RSeq (RStar RAny) REol))))).
(* ^https?://(?:www\.)?([^/]+)       (the REGEXP_EXTRACT pattern) *)
Definition canon_extract_re : re :=
  RSeq RBol (RSeq scheme_re (RSeq (ROpt (RLit (B "www."))) (RGroup 1 (RPlus noslash)))).
(* ^https?://([^/]+)                 (triggers the rewrite as well, no www group) *)
Definition nowww_extract_re : re :=
  RSeq RBol (RSeq scheme_re (RGroup 1 (RPlus noslash))).

Inductive ufn := FReplace | FExtract.

Definition eval_regex (f : ufn) (r : re) (s : bytes) : bytes :=
  match f with FReplace => re_replace1 r s | FExtract => re_extract1 r s end.

(* one URL-rewrite expression: fn(col, 'pat', '\1' | 1) with the pattern given both as the
   literal text (what the Go trigger looks at) and as its AST (what DuckDB does with it) *)
Record uexpr := {
  u_fn : ufn;
  u_shape_ok : bool;       (* the call has the shape the outer regexp accepts: bare column,
                              replacement '\1' resp. group index 1 *)
  u_pat : string;
  u_ast : re
}.

Definition url_rewrites (e : uexpr) : bool := u_shape_ok e && url_trigger (B (u_pat e)).

(* value of the rewritten expression on a non-NULL string *)
Definition url_rewritten_value (e : uexpr) (s : bytes) : bytes :=
  if url_rewrites e then url_case s else eval_regex (u_fn e) (u_ast e) s.

(* DuckDB's answers per shared row (strings as Coq string literals: cheap to parse) *)
Inductive uobs := UNull | UObs (orig rew : string) | UObsRaw (orig rew : option string).

Definition uobs_decode (o : uobs) : option bytes * option bytes :=
  match o with
  | UNull => (None, None)
  | UObs a b => (Some (B a), Some (B b))
  | UObsRaw a b => (option_map B a, option_map B b)
  end.

Record ucase := {
  uc_expr : uexpr;
  uc_changed : bool;                 (* Go output differs from its input *)
  uc_out : string;                   (* Go output (expression text) when changed *)
  uc_obs : list uobs                 (* DuckDB: original, rewritten; per shared row *)
}.

Definition ucase_emit_agrees (c : ucase) : bool :=
  Bool.eqb (url_rewrites (uc_expr c)) (uc_changed c) &&
  (negb (uc_changed c) || bytes_eqb (B (uc_out c)) url_case_text).

Definition urow_agrees (c : ucase) (s : option string) (ob : uobs) : bool :=
  let o := uobs_decode ob in
  match s with
  | None => opt_bytes_eqb (fst o) None && opt_bytes_eqb (snd o) None
  | Some x =>
      opt_bytes_eqb (fst o) (Some (eval_regex (u_fn (uc_expr c)) (u_ast (uc_expr c)) (B x))) &&
      (if uc_changed c then opt_bytes_eqb (snd o) (Some (url_case (B x))) else true)
  end.

Definition ucase_disagree (rows : list (option string)) (c : ucase) : list N :=
  failing2 (urow_agrees c) 0%N rows (uc_obs c).
Definition ucase_oraclefail (rows : list (option string)) (c : ucase) : list N :=
  failing2 (fun (_ : option string) ob => let o := uobs_decode ob in opt_bytes_eqb (fst o) (snd o)) 0%N rows (uc_obs c).

(* ------------------------------------------------------------------------------------ *)
(* 4. LIKE / empty-string predicate reordering on a WHERE clause                          *)
(* ------------------------------------------------------------------------------------ *)

(* columns are VARCHAR, named by index in col_name *)
Definition col_name (c : nat) : bytes :=
  match c with
  | O => B "a" | 1%nat => B "b" | 2%nat => B "c" | 3%nat => B "d" | _ => B "likes"
  end.

Inductive atom :=
| ALike (col : nat) (pat : string)      (* col LIKE 'pat' *)
| ANotLike (col : nat) (pat : string)   (* col NOT LIKE 'pat' *)
| ANonEmpty (col : nat)                 (* col <> '' *)
| AEq (col : nat) (lit : string)        (* col = 'lit' *)
| ANe (col : nat) (lit : string)        (* col <> 'lit'  (lit non-empty) *)
| AIsNull (col : nat).                  (* col IS NULL *)

(* a parenthesised sub-expression, printed fully parenthesised *)
Inductive tree :=
| TAtom (a : atom)
| TNot (t : tree)
| TAnd (l r : tree)
| TOr (l r : tree).

(* one operand of an AND chain: NOT* followed by an atom or a parenthesised tree *)
(* a parenthesised FLAT group  (x AND y AND z)  /  (x OR y OR z)  of optionally negated atoms: the
   spelling in which a trailing  AND col <> ''  is directly followed by ')' *)
Record gitem := { g_negs : nat; g_atom : atom }.
Inductive fbody := FAtom (a : atom) | FParen (t : tree) | FGroup (is_or : bool) (items : list gitem).
Record factor := { f_negs : nat; f_body : fbody }.

(* the WHERE clause as SQL precedence reads its flat text:  chain OR chain OR ...,
   chain = factor AND factor AND ... *)
Definition chain := list factor.
Definition clause := list chain.

Definition row := list (option string).      (* values of columns 0..4 *)

Definition col_val (r : row) (c : nat) : option bytes := option_map B (nth c r None).

Definition not3 (a : option bool) : option bool := option_map negb a.
Definition and3 (a b : option bool) : option bool :=
  match a, b with
  | Some false, _ | _, Some false => Some false
  | Some true, Some true => Some true
  | _, _ => None
  end.
Definition or3 (a b : option bool) : option bool :=
  match a, b with
  | Some true, _ | _, Some true => Some true
  | Some false, Some false => Some false
  | _, _ => None
  end.

Definition eval_atom (r : row) (a : atom) : option bool :=
  match a with
  | ALike c p => option_map (like (B p)) (col_val r c)
  | ANotLike c p => option_map (fun s => negb (like (B p) s)) (col_val r c)
  | ANonEmpty c => option_map (fun s => negb (bytes_eqb s [])) (col_val r c)
  | AEq c l => option_map (fun s => bytes_eqb s (B l)) (col_val r c)
  | ANe c l => option_map (fun s => negb (bytes_eqb s (B l))) (col_val r c)
  | AIsNull c => Some (match col_val r c with None => true | Some _ => false end)
  end.

Fixpoint eval_tree (r : row) (t : tree) : option bool :=
  match t with
  | TAtom a => eval_atom r a
  | TNot t' => not3 (eval_tree r t')
  | TAnd a b => and3 (eval_tree r a) (eval_tree r b)
  | TOr a b => or3 (eval_tree r a) (eval_tree r b)
  end.

Fixpoint negs3 (n : nat) (v : option bool) : option bool :=
  match n with O => v | S n' => not3 (negs3 n' v) end.

Definition eval_gitem (r : row) (g : gitem) : option bool := negs3 (g_negs g) (eval_atom r (g_atom g)).
Definition eval_group (r : row) (is_or : bool) (items : list gitem) : option bool :=
  if is_or then fold_right (fun g acc => or3 (eval_gitem r g) acc) (Some false) items
  else fold_right (fun g acc => and3 (eval_gitem r g) acc) (Some true) items.

Definition eval_factor (r : row) (f : factor) : option bool :=
  negs3 (f_negs f) (match f_body f with
                    | FAtom a => eval_atom r a
                    | FParen t => eval_tree r t
                    | FGroup o items => eval_group r o items
                    end).

Definition eval_chain (r : row) (ch : chain) : option bool :=
  fold_right (fun f acc => and3 (eval_factor r f) acc) (Some true) ch.
Definition eval_clause (r : row) (cl : clause) : option bool :=
  fold_right (fun ch acc => or3 (eval_chain r ch) acc) (Some false) cl.

(* WHERE keeps a row iff the predicate is TRUE *)
Definition keeps (r : row) (cl : clause) : bool :=
  match eval_clause r cl with Some true => true | _ => false end.

(* ---- printer (the text the Go optimiser sees) ---- *)
(* SQL string literal: quotes inside are doubled *)
Fixpoint esc_quotes (s : bytes) : bytes :=
  match s with
  | [] => []
  | c :: s' => if N.eqb c 39 then 39%N :: 39%N :: esc_quotes s' else c :: esc_quotes s'
  end.
Definition quote (s : bytes) : bytes := [39%N] ++ esc_quotes s ++ [39%N].
Definition sp : bytes := [32%N].

Definition print_atom (a : atom) : bytes :=
  match a with
  | ALike c p => col_name c ++ B " LIKE " ++ quote (B p)
  | ANotLike c p => col_name c ++ B " NOT LIKE " ++ quote (B p)
  | ANonEmpty c => col_name c ++ B " <> ''"
  | AEq c l => col_name c ++ B " = " ++ quote (B l)
  | ANe c l => col_name c ++ B " <> " ++ quote (B l)
  | AIsNull c => col_name c ++ B " IS NULL"
  end.

Fixpoint print_tree (t : tree) : bytes :=
  match t with
  | TAtom a => print_atom a
  | TNot t' => B "NOT (" ++ print_tree t' ++ B ")"
  | TAnd a b => B "(" ++ print_tree a ++ B ") AND (" ++ print_tree b ++ B ")"
  | TOr a b => B "(" ++ print_tree a ++ B ") OR (" ++ print_tree b ++ B ")"
  end.

Fixpoint print_negs (n : nat) : bytes :=
  match n with O => [] | S n' => B "NOT " ++ print_negs n' end.

Definition print_gitem (g : gitem) : bytes := print_negs (g_negs g) ++ print_atom (g_atom g).
Fixpoint print_group (sep : bytes) (items : list gitem) : bytes :=
  match items with
  | [] => []
  | [g] => print_gitem g
  | g :: items' => print_gitem g ++ sep ++ print_group sep items'
  end.

Definition print_factor (f : factor) : bytes :=
  print_negs (f_negs f) ++
  match f_body f with
  | FAtom a => print_atom a
  | FParen t => B "(" ++ print_tree t ++ B ")"
  | FGroup o items => B "(" ++ print_group (if o then B " OR " else B " AND ") items ++ B ")"
  end.

Fixpoint print_chain (ch : chain) : bytes :=
  match ch with
  | [] => []
  | [f] => print_factor f
  | f :: ch' => print_factor f ++ B " AND " ++ print_chain ch'
  end.

Fixpoint print_clause (cl : clause) : bytes :=
  match cl with
  | [] => []
  | [ch] => print_chain ch
  | ch :: cl' => print_chain ch ++ B " OR " ++ print_clause cl'
  end.

(* what follows the WHERE clause in the statement *)
Definition tail_text (k : nat) : bytes :=
  match k with
  | O => []
  | 1%nat => B " ORDER BY id"
  | 2%nat => B " LIMIT 1000"
  | _ => B " GROUP BY id"
  end.

(* the statement around the clause: 0 plain, 1 derived table, 2 CTE - in 1 and 2 the clause is
   directly followed by ')' *)
Definition print_query (cl : clause) (tail : nat) (wrap : nat) : bytes :=
  match wrap with
  | O => B "SELECT id FROM r WHERE " ++ print_clause cl ++ tail_text tail
  | 1%nat => B "SELECT id FROM (SELECT * FROM r WHERE " ++ print_clause cl ++ B ") t" ++ tail_text tail
  | _ => B "WITH q AS (SELECT * FROM r WHERE " ++ print_clause cl ++ B ") SELECT id FROM q" ++ tail_text tail
  end.

(* ---- the optimiser, on the structure the flat text denotes ---- *)

(* the regexp wants  \w+ [NOT] LIKE '[^']+'  : a non-empty pattern without quotes *)
Definition like_lit_ok (p : string) : bool :=
  match B p with [] => false | b => negb (existsb (N.eqb 39) b) end.
Definition is_plain_like (f : factor) : bool :=
  match f_negs f, f_body f with
  | O, FAtom (ALike _ p) | O, FAtom (ANotLike _ p) => like_lit_ok p
  | _, _ => false
  end.
(* col <> '' : the regexp  (\w+\s*<>\s*'')([^']|$)  requires that no third quote follows, so a
   literal that merely starts with a quote (col <> '''x') is not taken for the empty check *)
Definition is_plain_nonempty (f : factor) : bool :=
  match f_negs f, f_body f with
  | O, FAtom (ANonEmpty _) => true
  | _, _ => false
  end.

(* reorderEmptyCheckBeforeLike: the text right after WHERE is  col [NOT] LIKE 'p' AND col2 <> '' *)
Definition opt1 (cl : clause) : clause :=
  match cl with
  | (f1 :: f2 :: rest) :: chains =>
      if is_plain_like f1 && is_plain_nonempty f2 then (f2 :: f1 :: rest) :: chains else cl
  | _ => cl
  end.

(* patternTopLevelOr = (?i)\bOR\b  on the text that precedes the trailing check: the word OR
   anywhere in it (top level, inside parentheses, inside a literal) *)
Definition is_word (c : N) : bool :=
  (N.leb 48 c && N.leb c 57) || (N.leb 65 c && N.leb c 90) || (N.leb 97 c && N.leb c 122) || N.eqb c 95.
Definition is_O (c : N) : bool := N.eqb c 79 || N.eqb c 111.
Definition is_R (c : N) : bool := N.eqb c 82 || N.eqb c 114.

Fixpoint word_or_from (prev_word : bool) (s : bytes) : bool :=
  match s with
  | [] => false
  | c :: s' =>
      (negb prev_word && is_O c &&
       match s' with
       | r :: s'' => is_R r && match s'' with [] => true | n :: _ => negb (is_word n) end
       | [] => false
       end)
      || word_or_from (is_word c) s'
  end.
Definition word_or (s : bytes) : bool := word_or_from false s.

(* optimizeMultiplePredicates: the clause text ends in  ... AND col <> ''  ; that check moves to
   the very front of the text when the text before it mentions LIKE and does not contain the
   word OR *)
Definition split_last {A} (l : list A) : option (list A * A) :=
  match rev l with
  | [] => None
  | x :: r => Some (rev r, x)
  end.

Definition opt2 (cl : clause) : clause :=
  match split_last cl with
  | None => cl
  | Some (chains, lastch) =>
      match split_last lastch with
      | None => cl
      | Some (init, f) =>
          match init with
          | [] => cl                                  (* the check is preceded by OR (or nothing), not by AND *)
          | _ :: _ =>
              if is_plain_nonempty f &&
                 negb (word_or (print_clause (chains ++ [init]))) &&
                 containsb (B "LIKE") (upperb (print_clause (chains ++ [init])))
              then match chains with
                   | [] => [f :: init]
                   | c1 :: cs => ((f :: c1) :: cs) ++ [init]
                   end
              else cl
          end
      end
  end.

(* OptimizeLikePatterns (fast path: the statement must contain LIKE and WHERE; WHERE always
   does here) *)
(* the second reordering needs GROUP / ORDER / LIMIT / end of text right after the trailing check:
   a ')' (derived table, CTE, parenthesised group) is not a terminator *)
Definition optimize (cl : clause) (tail : nat) (wrap : nat) : clause :=
  if containsb (B "LIKE") (upperb (print_query cl tail wrap))
  then match wrap with O => opt2 (opt1 cl) | _ => opt1 cl end
  else cl.

Record lcase := {
  lc_clause : clause;
  lc_tail : nat;
  lc_wrap : nat;
  lc_in : string;                (* statement text given to OptimizeLikePatterns *)
  lc_out : string;               (* its output *)
  lc_orig_ids : list N;          (* row indices DuckDB returned for lc_in  (sorted) *)
  lc_rew_ids : list N            (* row indices DuckDB returned for lc_out (sorted) *)
}.

Fixpoint keep_ids (rows : list row) (cl : clause) (n : N) : list N :=
  match rows with
  | [] => []
  | r :: rs => if keeps r cl then n :: keep_ids rs cl (n + 1)%N else keep_ids rs cl (n + 1)%N
  end.

Fixpoint listN_eqb (a b : list N) : bool :=
  match a, b with
  | [], [] => true
  | x :: a', y :: b' => N.eqb x y && listN_eqb a' b'
  | _, _ => false
  end.

Definition lcase_agrees (rows : list row) (c : lcase) : bool :=
  bytes_eqb (print_query (lc_clause c) (lc_tail c) (lc_wrap c)) (B (lc_in c)) &&
  bytes_eqb (print_query (optimize (lc_clause c) (lc_tail c) (lc_wrap c)) (lc_tail c) (lc_wrap c)) (B (lc_out c)) &&
  listN_eqb (keep_ids rows (lc_clause c) 0%N) (lc_orig_ids c) &&
  listN_eqb (keep_ids rows (optimize (lc_clause c) (lc_tail c) (lc_wrap c)) 0%N) (lc_rew_ids c).

Definition lcase_oracle (c : lcase) : bool := listN_eqb (lc_orig_ids c) (lc_rew_ids c).

(* ------------------------------------------------------------------------------------ *)
(* parseTimeBucketOrigin's layout list (regenerated from the source into ArcGen.Params_Rewrites) *)
(* ------------------------------------------------------------------------------------ *)

(* a Go time layout has a numeric-zone element (-07, -0700, -07:00, Z07, Z0700, Z07:00) or MST *)
Definition layout_has_zone (l : string) : bool :=
  containsb (B "-07") (B l) || containsb (B "Z07") (B l) || containsb (B "MST") (B l).
