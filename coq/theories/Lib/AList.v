(* Association lists with decidable keys: the map type of every model.
   Go maps are modelled as duplicate-free association lists; [insert] keeps
   at most one binding per key. *)
From Coq Require Import List Bool.
Import ListNotations.

Section AList.
  Context {K V : Type} (eqb : K -> K -> bool).
  Hypothesis eqb_spec : forall a b, reflect (a = b) (eqb a b).

  Fixpoint lookup (k : K) (l : list (K * V)) : option V :=
    match l with
    | [] => None
    | (k', v) :: r => if eqb k k' then Some v else lookup k r
    end.

  Fixpoint remove (k : K) (l : list (K * V)) : list (K * V) :=
    match l with
    | [] => []
    | (k', v) :: r => if eqb k k' then remove k r else (k', v) :: remove k r
    end.

  Definition insert (k : K) (v : V) (l : list (K * V)) : list (K * V) :=
    (k, v) :: remove k l.

  Definition keys (l : list (K * V)) : list K := map fst l.

  Lemma eqb_refl k : eqb k k = true.
  Proof. destruct (eqb_spec k k); congruence. Qed.

  Lemma eqb_neq a b : a <> b -> eqb a b = false.
  Proof. intros H; destruct (eqb_spec a b); congruence. Qed.

  Lemma lookup_remove_same k l : lookup k (remove k l) = None.
  Proof.
    induction l as [|[k' v] r IH]; cbn; [reflexivity|].
    destruct (eqb k k') eqn:E; cbn; [exact IH|]. rewrite E. exact IH.
  Qed.

  Lemma lookup_remove_other k k' l : k <> k' -> lookup k (remove k' l) = lookup k l.
  Proof.
    intros Hne. induction l as [|[k2 v] r IH]; cbn; [reflexivity|].
    destruct (eqb k' k2) eqn:E.
    - destruct (eqb_spec k' k2) as [->|]; [|discriminate].
      rewrite (eqb_neq _ _ Hne). exact IH.
    - cbn. destruct (eqb k k2); [reflexivity|exact IH].
  Qed.

  Lemma lookup_insert_same k v l : lookup k (insert k v l) = Some v.
  Proof. unfold insert; cbn. rewrite eqb_refl. reflexivity. Qed.

  Lemma lookup_insert_other k k' v l : k <> k' -> lookup k (insert k' v l) = lookup k l.
  Proof.
    intros Hne. unfold insert; cbn. rewrite (eqb_neq _ _ Hne).
    apply lookup_remove_other; exact Hne.
  Qed.

  Lemma lookup_filter (p : K * V -> bool) k l v :
    lookup k l = Some v -> p (k, v) = true -> lookup k (filter p l) = Some v.
  Proof.
    intros Hl Hp. induction l as [|[k2 v2] r IH]; cbn in *; [discriminate|].
    destruct (eqb k k2) eqn:E.
    - destruct (eqb_spec k k2) as [->|]; [|discriminate].
      inversion Hl; subst. rewrite Hp. cbn. rewrite eqb_refl. reflexivity.
    - destruct (p (k2, v2)); cbn; [rewrite E|]; apply IH; assumption.
  Qed.

  Lemma keys_remove_subset k l x : In x (keys (remove k l)) -> In x (keys l).
  Proof.
    induction l as [|[k2 v2] r IH]; cbn; [tauto|].
    destruct (eqb k k2); cbn; intuition.
  Qed.

  Lemma keys_remove_notin k l : ~ In k (keys (remove k l)).
  Proof.
    induction l as [|[k2 v2] r IH]; cbn; [tauto|].
    destruct (eqb k k2) eqn:E; cbn; [exact IH|].
    intros [H|H]; [subst; rewrite eqb_refl in E; discriminate|exact (IH H)].
  Qed.

  Lemma nodup_remove k l : NoDup (keys l) -> NoDup (keys (remove k l)).
  Proof.
    induction l as [|[k2 v2] r IH]; cbn; intros H; [constructor|].
    inversion H as [|? ? Hn Hd]; subst.
    destruct (eqb k k2); cbn; [apply IH; exact Hd|].
    constructor; [|apply IH; exact Hd].
    intros Hin; apply Hn. eapply keys_remove_subset; exact Hin.
  Qed.

  Lemma nodup_insert k v l : NoDup (keys l) -> NoDup (keys (insert k v l)).
  Proof.
    intros H. unfold insert; cbn. constructor.
    - apply keys_remove_notin.
    - apply nodup_remove; exact H.
  Qed.

  Lemma nodup_filter (p : K * V -> bool) l : NoDup (keys l) -> NoDup (keys (filter p l)).
  Proof.
    induction l as [|[k2 v2] r IH]; cbn; intros H; [constructor|].
    inversion H as [|? ? Hn Hd]; subst.
    destruct (p (k2, v2)); cbn; [|apply IH; exact Hd].
    constructor; [|apply IH; exact Hd].
    intros Hin; apply Hn. unfold keys in *. rewrite in_map_iff in *.
    destruct Hin as [x [Hx Hin]]. exists x; split; [exact Hx|].
    apply filter_In in Hin; tauto.
  Qed.
End AList.
