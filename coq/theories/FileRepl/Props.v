(* C25 - Peer file replication never exposes a bad file and converges.
   Only property statements live here; proofs are in Proofs.v.

   The CURRENT code is the model configuration cfg_fix_presence = cfg_fix_nopeers = true
   (repo commits b7c1b90 and ca914ab).  The theorems tied to it are
     C25_final_only_verified, C25_final_only_verified_jobs      (hold for every configuration),
     C25_presence_truthful_with_fix, C25_convergence_with_fix, C25_gate_truthful_with_fixes.
   The *_refuted / *_guarded statements are about the OLD variant (flags false): they record the
   two defects that were repaired and what was true of that code. *)
From Coq Require Import List NArith ZArith Bool Lia.
From Arc Require Import Lib.AList Storage.Model FileRepl.Model FileRepl.Proofs.
Import ListNotations.
Open Scope Z_scope.

(* (1) A file at its final path always has the manifest hash and size.
   For EVERY hash function, configuration (with or without the proposed repairs), manifest
   entry, prior directory content whose final path is absent or correct (the .part file may
   hold anything), every script of attempts x candidate peers where each peer is an ARBITRARY
   function from the requested offset to what it puts on the wire (dial failure, no ack, error
   acks, any ack fields, any body bytes = truncation/corruption at any byte), and EVERY crash
   point k of the resulting sequence of file-system steps. *)
Theorem C25_final_only_verified : forall H cfg e f script c st f' c' o k,
  final_good H e f ->
  process_entry H cfg f e script c = (st, f', c', o) ->
  f' = run f st /\ final_good H e (run f (firstn k st)).
Proof.
  intros H cfg e f script c st f' c' o k Hg Hp. unfold process_entry in Hp.
  destruct (attempts_spec H _ _ _ _ _ _ _ _ _ _ _ Hg Hp) as [Hf [Hpre _]]. split; [exact Hf|apply Hpre].
Qed.
Print Assumptions C25_final_only_verified.

(* the same over any number of successive pulls of the path (re-enqueues, catch-up) *)
Theorem C25_final_only_verified_jobs : forall H cfg e ps jobs st ps' k,
  final_good H e (p_fs ps) ->
  run_jobs H cfg e ps jobs = (st, ps') ->
  p_fs ps' = run (p_fs ps) st /\ final_good H e (run (p_fs ps) (firstn k st)).
Proof.
  intros H cfg e ps jobs st ps' k Hg Hr.
  destruct (run_jobs_good H _ _ _ _ _ _ Hg Hr) as [Hf [Hpre _]]. split; [exact Hf|apply Hpre].
Qed.
Print Assumptions C25_final_only_verified_jobs.

(* ---- witnesses (16-byte file, consistent manifest) ---------------------------------------- *)

Definition w_content : bytes := [1; 2; 3; 4; 5; 6; 7; 8; 9; 10; 11; 12; 13; 14; 15; 16]%N.
Definition w_entry : entry := {| e_final := p_final; e_size := 16; e_sha := id_hash w_content |}.
Definition w_corrupt : response :=                       (* full-length transfer, byte 3 flipped *)
  RPeer (scripted w_content (e_sha w_entry)
           {| m_off_delta := 0; m_size_delta := 0; m_sha_wrong := false; m_trunc := None; m_flips := [3%nat]; m_alt := None |}).
Definition w_honest : response := honest w_content (e_sha w_entry).
Definition cfg_now (n : nat) : config := {| cfg_max_attempts := n; cfg_fix_presence := false; cfg_fix_nopeers := false |}.
Definition cfg_fixed (n : nat) : config := {| cfg_max_attempts := n; cfg_fix_presence := true; cfg_fix_nopeers := true |}.
Definition ps0 : pstate := {| p_fs := []; p_cnt := zero_counters; p_cu_done := false; p_cu_failed := false |}.

(* (2) OLD VARIANT.  "counted present => complete and correct at the final path" was FALSE for
   the code before b7c1b90: one corrupted full-length transfer leaves a full-size .part (Delete removes only the
   final path); the next attempt's pre-check sees the size match through StatFile's .part
   fallback and counts the file as present (skipped_local) while the final path is absent. *)
Theorem C25_presence_truthful_refuted :
  exists H e f script c,
    final_good H e f /\
    let '(_, f', c', o) := process_entry H (cfg_now 2) f e script c in
    counted_present o = true /\ c_skipped_local c' = 1 /\ c_failed c' = 0 /\
    fs_get f' (e_final e) = None /\ blen_opt (fs_get f' (part_path (e_final e))) = e_size e.
Proof.
  exists id_hash, w_entry, [], [[w_corrupt]; [w_honest]], zero_counters.
  split; [exact I|]. vm_compute. repeat split; reflexivity.
Qed.
Print Assumptions C25_presence_truthful_refuted.

(* OLD VARIANT (in fact any configuration): the strongest statement true of that code: unless processEntry ended by skipping on
   a pre-check that matched although nothing was at the final path, a file counted as present
   (pulled or skipped_local) is complete and correct at its final path *)
Theorem C25_presence_truthful_guarded : forall H cfg e f script c st f' c' o,
  final_good H e f ->
  process_entry H cfg f e script c = (st, f', c', o) ->
  counted_present o = true -> o <> OSkipped false -> final_correct H e f'.
Proof. intros H cfg e f. exact (presence_guarded H cfg f e). Qed.
Print Assumptions C25_presence_truthful_guarded.

(* CURRENT CODE: presence is judged on the final path only, and the property holds at full
   strength *)
Theorem C25_presence_truthful_with_fix : forall H cfg e f script c st f' c' o,
  cfg_fix_presence cfg = true ->
  final_good H e f ->
  process_entry H cfg f e script c = (st, f', c', o) ->
  counted_present o = true -> final_correct H e f'.
Proof. intros H cfg e f. exact (presence_with_fix H cfg f e). Qed.
Print Assumptions C25_presence_truthful_with_fix.

(* (3) Convergence.  A manifest entry is consistent when it records the digest and size of
   some content; an honest peer serves that content from any requested offset. *)
Definition consistent_manifest (H : bytes -> bytes) (e : entry) (content : bytes) : Prop :=
  H content = e_sha e /\ blen content = e_size e /\ is_empty (e_sha e) = false.

(* OLD VARIANT, refuted: after one corrupted transfer (a pull that gave up), a later
   pull whose peers are all honest -- faults have stopped -- still leaves the final path
   empty, and the catch-up gate opens *)
Theorem C25_convergence_refuted :
  exists H e content faulty,
    consistent_manifest H e content /\
    let '(_, ps') := run_jobs H (cfg_now 1) e ps0
                       (faulty ++ [{| j_script := [[honest content (e_sha e)]]; j_catchup := false |}]) in
    fs_get (p_fs ps') (e_final e) = None /\ fully_caught_up ps' = true.
Proof.
  exists id_hash, w_entry, w_content, [{| j_script := [[w_corrupt]]; j_catchup := true |}].
  split; [repeat split; reflexivity|]. vm_compute. split; reflexivity.
Qed.
Print Assumptions C25_convergence_refuted.

(* OLD VARIANT (any configuration), guarded: after ANY sequence of faulty pulls, a pull whose first candidate peer is honest
   puts the correct file at the final path, provided the pre-check does not match a stale
   staging file at that moment *)
Theorem C25_convergence_guarded : forall H cfg e content ps faulty rest more cu st1 ps1 st ps',
  final_good H e (p_fs ps) -> consistent_manifest H e content -> (1 <= cfg_max_attempts cfg)%nat ->
  run_jobs H cfg e ps faulty = (st1, ps1) ->
  stale cfg (p_fs ps1) e = false ->
  run_jobs H cfg e ps (faulty ++ [{| j_script := (honest content (e_sha e) :: rest) :: more; j_catchup := cu |}]) = (st, ps') ->
  final_correct H e (p_fs ps').
Proof. exact jobs_then_honest_converge. Qed.
Print Assumptions C25_convergence_guarded.

(* CURRENT CODE, unconditionally: once faults stop, the next pull of the path converges *)
Theorem C25_convergence_with_fix : forall H cfg e content ps faulty rest more cu st ps',
  cfg_fix_presence cfg = true ->
  final_good H e (p_fs ps) -> consistent_manifest H e content -> (1 <= cfg_max_attempts cfg)%nat ->
  run_jobs H cfg e ps (faulty ++ [{| j_script := (honest content (e_sha e) :: rest) :: more; j_catchup := cu |}]) = (st, ps') ->
  final_correct H e (p_fs ps').
Proof.
  intros H cfg e content ps faulty rest more cu st ps' Hfix Hg Hc Hmax Hr.
  destruct (run_jobs H cfg e ps faulty) as [st1 ps1] eqn:E1.
  eapply jobs_then_honest_converge; try eassumption. apply fixed_never_stale. exact Hfix.
Qed.
Print Assumptions C25_convergence_with_fix.

(* (4) Catch-up accounting.  OLD VARIANT (before ca914ab), second repaired defect: when the resolver returns no
   candidate peers on the last attempt (here: on every attempt), the retry loop `continue`s past the give-up branch:
   the pull is neither failed nor succeeded, the catch-up tag is cleared and the gate opens
   with the file missing (and the `failed` counter stays 0). *)
Theorem C25_gate_refuted_no_peers :
  exists H e,
    let '(_, ps') := run_jobs H (cfg_now 3) e ps0 [{| j_script := [[]; []; []]; j_catchup := true |}] in
    fully_caught_up ps' = true /\ fs_get (p_fs ps') (e_final e) = None /\
    c_failed (p_cnt ps') = 0 /\ c_nopeers (p_cnt ps') = 3.
Proof. exists id_hash, w_entry. vm_compute. repeat split; reflexivity. Qed.
Print Assumptions C25_gate_refuted_no_peers.

(* CURRENT CODE: for ANY sequence of pulls (any faults, any peers), whenever the catch-up
   gate is open for the path, the complete correct file is at its final path *)
Theorem C25_gate_truthful_with_fixes : forall H cfg e f jobs st ps',
  cfg_fix_presence cfg = true -> cfg_fix_nopeers cfg = true -> (1 <= cfg_max_attempts cfg)%nat ->
  final_good H e f ->
  run_jobs H cfg e {| p_fs := f; p_cnt := zero_counters; p_cu_done := false; p_cu_failed := false |} jobs = (st, ps') ->
  fully_caught_up ps' = true -> final_correct H e (p_fs ps').
Proof.
  intros H cfg e f jobs st ps' Hf1 Hf2 Hmax Hg Hr.
  assert (Hi : gate_inv H e {| p_fs := f; p_cnt := zero_counters; p_cu_done := false; p_cu_failed := false |}).
  { split; [exact Hg|]. unfold fully_caught_up. cbn. discriminate. }
  destruct (gate_truthful_with_fixes H _ _ _ _ _ _ Hf1 Hf2 Hmax Hi Hr) as [_ Hgate]. exact Hgate.
Qed.
Print Assumptions C25_gate_truthful_with_fixes.

(* ---- non-vacuity ----------------------------------------------------------------------------- *)

Example C25_manifest_consistent : consistent_manifest id_hash w_entry w_content.
Proof. repeat split; reflexivity. Qed.

(* the guarded hypotheses are satisfiable by a run WITH faults: truncation at byte 5, then an
   honest resume from offset 5 -> pulled, final correct *)
Definition w_trunc5 : response :=
  RPeer (scripted w_content (e_sha w_entry)
           {| m_off_delta := 0; m_size_delta := 0; m_sha_wrong := false; m_trunc := Some 5%nat; m_flips := []; m_alt := None |}).
Example C25_guarded_nonvacuous :
  let '(_, f', c', o) := process_entry id_hash (cfg_now 3) [] w_entry [[w_trunc5]; [w_honest]] zero_counters in
  o = OPulled /\ fs_get f' p_final = Some w_content /\ fs_get f' (part_path p_final) = None.
Proof. vm_compute. repeat split; reflexivity. Qed.

(* the refutation witness under the repaired configuration: the stale .part is ignored by the
   pre-check, the retry re-fetches from zero and the file arrives *)
Example C25_witness_with_fix :
  let '(_, f', c', o) := process_entry id_hash (cfg_fixed 2) [] w_entry [[w_corrupt]; [w_honest]] zero_counters in
  o = OPulled /\ fs_get f' p_final = Some w_content.
Proof. vm_compute. split; reflexivity. Qed.

(* the excluded class of the guarded theorems is non-empty: the state left by the witness *)
Example C25_stale_state_reachable :
  let '(_, f', _, _) := process_entry id_hash (cfg_now 1) [] w_entry [[w_corrupt]] zero_counters in
  stale (cfg_now 1) f' w_entry = true.
Proof. vm_compute. reflexivity. Qed.
