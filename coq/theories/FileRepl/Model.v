(* Model of internal/cluster/filereplication: puller.go (processEntry, pullOnce, writeFileTail,
   tryResumeFromPartial, deleteFile, the catch-up bookkeeping of processEntry's defer and
   FullyCaughtUp), fetch_client.go (FetchClient.Fetch from the ack header on) and the part of
   catchup.go that tags a path.  The local backend is the file-system model of
   Arc.Storage.Model (WriteReader / AppendReader / StatFile / ReadToAt / Delete step lists).
   SHA-256 is a Section variable [H]; sizes are Z.  Executable definitions only. *)
From Coq Require Import List NArith ZArith Bool.
From Arc Require Import Lib.AList Storage.Model.
Import ListNotations.
Open Scope Z_scope.

(* a manifest entry, with its key already resolved to the final path by the backend *)
Record entry := { e_final : bytes; e_size : Z; e_sha : bytes }.

Inductive err_kind := EGeneric | ENotFound | EBadOffset.

(* what the peer puts on the wire after reading a request for byte offset [off] *)
Inductive srv_reply :=
| SNoAck                                                   (* connection closed before the ack *)
| SErr (k : err_kind)                                      (* error ack *)
| SAck (ack_off ack_size : Z) (ack_sha body : bytes).      (* ok ack, then [body] and EOF *)

Inductive response :=
| RDial                                                    (* dial failure *)
| RPeer (serve : Z -> srv_reply).                          (* arbitrary (possibly hostile) peer *)

Inductive fetch_result := FOk | FTransport | FNotOnPeer | FBadOffset | FChecksumAck | FChecksumBody.

Definition is_checksum (r : fetch_result) : bool :=
  match r with FChecksumAck | FChecksumBody => true | _ => false end.

Section WithHash.
Variable H : bytes -> bytes.                               (* SHA-256 (hex digest as bytes) *)

(* FetchClient.Fetch: bytes written into dst, and the error class *)
Definition fetch (e : entry) (off : Z) (prefix : bytes) (r : response) : bytes * fetch_result :=
  if is_empty (e_sha e) || (e_size e <? 0) then ([], FTransport)
  else match r with
  | RDial => ([], FTransport)
  | RPeer serve =>
      match serve off with
      | SNoAck => ([], FTransport)
      | SErr EBadOffset => ([], FBadOffset)
      | SErr ENotFound => ([], FNotOnPeer)
      | SErr EGeneric => ([], FTransport)
      | SAck aoff asize asha body =>
          if negb (aoff =? off) then ([], FTransport)
          else if asize <? 0 then ([], FTransport)
          else if negb (asize =? e_size e - off) then ([], FTransport)
          else if negb (bytes_eqb asha (e_sha e)) then ([], FChecksumAck)
          else
            let d := firstn (Z.to_nat asize) body in                 (* io.CopyN(dst+hasher, conn, asize) *)
            if blen d <? asize then (d, FTransport)                  (* truncated stream *)
            else if bytes_eqb (H (prefix ++ d)) (e_sha e) then (d, FOk)
            else (d, FChecksumBody)
      end
  end.

(* tryResumeFromPartial (only on attempt > 1): resume offset and the bytes fed to the hasher *)
Definition try_resume (f : fs) (e : entry) (attempt : nat) : Z * bytes :=
  if Nat.leb attempt 1 then (0, [])
  else
    let partial := stat_file f (e_final e) in
    if (partial <=? 0) || (e_size e <=? partial) then (0, [])
    else match read_to_at f (e_final e) with
         | Some c => (partial, c)
         | None => (0, [])
         end.

Definition byte_chunks (d : bytes) : list bytes := map (fun b => [b]) d.

(* pullOnce: the durable steps it performs on [f] and the error class it returns.
   The write goroutine always runs (WriteReader truncates the staging file even when the
   fetch fails before the first byte). *)
Definition pull_once (f : fs) (e : entry) (attempt : nat) (r : response) : list step * fetch_result :=
  let '(off, prefix) := try_resume f e attempt in
  let '(d, fr) := fetch e off prefix r in
  let rd := {| r_chunks := byte_chunks d; r_clean := match fr with FOk => true | _ => false end |} in
  let '(wsteps, opened) :=
      if 0 <? off then
        match fs_get f (part_path (e_final e)) with
        | Some _ => (fst (append_reader_steps f (e_final e) rd (e_size e - off)), true)
        | None => ([], false)                    (* AppendReader cannot open the staging file *)
        end
      else (write_reader_steps [] (e_final e) rd, true) in
  let fr' := if opened then fr
             else match fr with FOk | FChecksumBody => FTransport | x => x end in
  let post := match fr' with
              | FChecksumAck | FChecksumBody | FBadOffset => delete_steps (e_final e)
              | _ => []
              end in
  (wsteps ++ post, fr').

Record counters := { c_skipped_local : Z; c_pulled : Z; c_failed : Z;
                     c_checksum : Z; c_nopeers : Z; c_badoff : Z }.
Definition zero_counters : counters :=
  {| c_skipped_local := 0; c_pulled := 0; c_failed := 0; c_checksum := 0; c_nopeers := 0; c_badoff := 0 |}.
Definition inc_skipped c := {| c_skipped_local := c_skipped_local c + 1; c_pulled := c_pulled c; c_failed := c_failed c;
                               c_checksum := c_checksum c; c_nopeers := c_nopeers c; c_badoff := c_badoff c |}.
Definition inc_pulled c := {| c_skipped_local := c_skipped_local c; c_pulled := c_pulled c + 1; c_failed := c_failed c;
                              c_checksum := c_checksum c; c_nopeers := c_nopeers c; c_badoff := c_badoff c |}.
Definition inc_failed c := {| c_skipped_local := c_skipped_local c; c_pulled := c_pulled c; c_failed := c_failed c + 1;
                              c_checksum := c_checksum c; c_nopeers := c_nopeers c; c_badoff := c_badoff c |}.
Definition inc_checksum c := {| c_skipped_local := c_skipped_local c; c_pulled := c_pulled c; c_failed := c_failed c;
                                c_checksum := c_checksum c + 1; c_nopeers := c_nopeers c; c_badoff := c_badoff c |}.
Definition inc_nopeers c := {| c_skipped_local := c_skipped_local c; c_pulled := c_pulled c; c_failed := c_failed c;
                               c_checksum := c_checksum c; c_nopeers := c_nopeers c + 1; c_badoff := c_badoff c |}.
Definition inc_badoff c := {| c_skipped_local := c_skipped_local c; c_pulled := c_pulled c; c_failed := c_failed c;
                              c_checksum := c_checksum c; c_nopeers := c_nopeers c; c_badoff := c_badoff c + 1 |}.

Definition count_fetch (fr : fetch_result) (c : counters) : counters :=
  match fr with
  | FChecksumAck | FChecksumBody => inc_checksum c
  | FBadOffset => inc_badoff c
  | _ => c
  end.

(* cfg_fix_presence = cfg_fix_nopeers = true is the CURRENT code: presence is judged on the
   final path only (repo commit b7c1b90) and a pull that runs out of attempts with no candidate
   peers gives up as failed (commit ca914ab).  false models the code before those commits. *)
Record config := { cfg_max_attempts : nat; cfg_fix_presence : bool; cfg_fix_nopeers : bool }.

(* the pre-pull check of processEntry.  Current code: Exists(path) (final path only), then
   StatFile(path) == entry.SizeBytes.  Old variant: StatFile alone, which answers with the size
   of the final file or, when that is absent, of the .part staging file. *)
Definition precheck (cfg : config) (f : fs) (e : entry) : bool :=
  if cfg_fix_presence cfg
  then match fs_get f (e_final e) with Some c => blen c =? e_size e | None => false end
  else stat_file f (e_final e) =? e_size e.

Inductive peers_result := PPulled | PChecksum | PExhausted.

(* the loop over the candidate peers of one attempt *)
Fixpoint peers_loop (f : fs) (e : entry) (attempt : nat) (rs : list response) (c : counters)
  : list step * fs * counters * peers_result :=
  match rs with
  | [] => ([], f, c, PExhausted)
  | r :: rest =>
      let '(st, fr) := pull_once f e attempt r in
      let f' := run f st in
      let c' := count_fetch fr c in
      match fr with
      | FOk => (st, f', inc_pulled c', PPulled)
      | FChecksumAck | FChecksumBody => (st, f', c', PChecksum)
      | _ => let '(st2, f2, c2, pr) := peers_loop f' e attempt rest c' in (st ++ st2, f2, c2, pr)
      end
  end.

(* how processEntry ended: pulled, skipped by the pre-check (with: was the final file there?),
   gave up (failed = true), or fell out of the retry loop with neither flag set *)
Inductive outcome := OPulled | OSkipped (final_present : bool) | OFailed | ONeither.

Definition counted_present (o : outcome) : bool :=
  match o with OPulled | OSkipped _ => true | _ => false end.

Definition is_some {A} (o : option A) : bool := match o with Some _ => true | None => false end.

(* the retry loop; [n] = attempts left, [attempt] = 1-based attempt number,
   [script] = candidate peers (one response each) resolved at each attempt that gets that far *)
Fixpoint attempts (cfg : config) (n attempt : nat) (f : fs) (e : entry)
         (script : list (list response)) (c : counters) : list step * fs * counters * outcome :=
  match n with
  | O => ([], f, c, ONeither)
  | S n' =>
      if precheck cfg f e then ([], f, inc_skipped c, OSkipped (is_some (fs_get f (e_final e))))
      else
        let peers := hd [] script in
        let script' := tl script in
        match peers with
        | [] =>
            let c1 := inc_nopeers c in
            if cfg_fix_nopeers cfg && Nat.eqb n' 0 then ([], f, inc_failed c1, OFailed)
            else attempts cfg n' (S attempt) f e script' c1
        | _ =>
            let '(st, f1, c1, pr) := peers_loop f e attempt peers c in
            match pr with
            | PPulled => (st, f1, c1, OPulled)
            | _ =>
                if Nat.eqb n' 0 then (st, f1, inc_failed c1, OFailed)
                else let '(st2, f2, c2, o) := attempts cfg n' (S attempt) f1 e script' c1 in
                     (st ++ st2, f2, c2, o)
            end
        end
  end.

Definition process_entry (cfg : config) (f : fs) (e : entry) (script : list (list response)) (c : counters) :=
  attempts cfg (cfg_max_attempts cfg) 1 f e script c.

(* ---- jobs: successive processEntry runs for one path, with the catch-up bookkeeping ----- *)

Record job := { j_script : list (list response); j_catchup : bool }.

Record pstate := { p_fs : fs; p_cnt : counters;
                   p_cu_done : bool;           (* RunCatchUp has completed *)
                   p_cu_failed : bool }.       (* path is in catchupFailedPaths *)

Definition run_job (cfg : config) (e : entry) (ps : pstate) (j : job) : list step * pstate * outcome :=
  let '(st, f', c', o) := process_entry cfg (p_fs ps) e (j_script j) (p_cnt ps) in
  let cuf := match o with
             | OFailed => if j_catchup j then true else p_cu_failed ps
             | OPulled | OSkipped _ => false
             | ONeither => p_cu_failed ps
             end in
  (st, {| p_fs := f'; p_cnt := c'; p_cu_done := p_cu_done ps || j_catchup j; p_cu_failed := cuf |}, o).

(* FullyCaughtUp for this path (sequential model: nothing in flight, nothing dropped) *)
Definition fully_caught_up (ps : pstate) : bool := p_cu_done ps && negb (p_cu_failed ps).

Fixpoint run_jobs (cfg : config) (e : entry) (ps : pstate) (js : list job) : list step * pstate :=
  match js with
  | [] => ([], ps)
  | j :: r => let '(st, ps1, _) := run_job cfg e ps j in
              let '(st2, ps2) := run_jobs cfg e ps1 r in (st ++ st2, ps2)
  end.

(* the file at the final path is exactly what the manifest records *)
Definition final_good (e : entry) (f : fs) : Prop :=
  match fs_get f (e_final e) with
  | None => True
  | Some b => H b = e_sha e /\ blen b = e_size e
  end.

Definition final_correct (e : entry) (f : fs) : Prop :=
  exists b, fs_get f (e_final e) = Some b /\ H b = e_sha e /\ blen b = e_size e.

End WithHash.

(* ---- scripted peers used by the correspondence (the Go harness implements the same) ------ *)

Record smod := { m_off_delta : Z; m_size_delta : Z; m_sha_wrong : bool;
                 m_trunc : option nat;          (* send only the first t bytes of the tail *)
                 m_flips : list nat;            (* tail positions whose byte is xor-ed with 255 *)
                 m_alt : option bytes }.        (* the peer holds other bytes under this path *)

Definition no_mods : smod :=
  {| m_off_delta := 0; m_size_delta := 0; m_sha_wrong := false; m_trunc := None; m_flips := []; m_alt := None |}.

Fixpoint flip_at (i : nat) (l : bytes) : bytes :=
  match l, i with
  | [], _ => []
  | b :: r, O => N.lxor b 255 :: r
  | b :: r, S i' => b :: flip_at i' r
  end.

Definition wrong_sha : bytes := [48%N].                                  (* "0" *)

Definition scripted (content sha : bytes) (m : smod) : Z -> srv_reply :=
  fun off =>
    let c := match m_alt m with Some c2 => c2 | None => content end in
    if (off <? 0) || (blen c <? off) then SErr EBadOffset
    else
      let tail := skipn (Z.to_nat off) c in
      let tail1 := fold_left (fun t i => flip_at i t) (m_flips m) tail in
      let body := match m_trunc m with Some t => firstn t tail1 | None => tail1 end in
      SAck (off + m_off_delta m) (blen tail + m_size_delta m) (if m_sha_wrong m then wrong_sha else sha) body.

Definition honest (content sha : bytes) : response := RPeer (scripted content sha no_mods).

(* ---- correspondence cases ---------------------------------------------------------------- *)

(* In case files the digest of a byte string is the string itself behind a tag byte (an
   injective stand-in for SHA-256): the model then accepts a body iff it equals the true
   content, which is what SHA-256 does up to collisions. *)
Definition id_hash (b : bytes) : bytes := 83%N :: b.

Record jobobs := { o_final : option bytes; o_part : option bytes; o_cnt : list Z;   (* the six counters *)
                   o_fully : bool; o_cu_failed : bool;
                   (* the final path as observed INSIDE each fetch of the job, between the last body
                      byte being handed to the writer and the digest verdict (a crash-prefix state of
                      C25_final_only_verified); compared by the oracle only *)
                   o_mid : list (option bytes) }.

Record rcase := { rc_content : bytes;          (* the bytes the manifest entry describes *)
                  rc_sha_ok : bool;            (* manifest sha = digest of rc_content (else a wrong digest) *)
                  rc_size : Z;                 (* manifest SizeBytes *)
                  rc_cfg : config;
                  rc_final0 : option bytes; rc_part0 : option bytes;
                  rc_jobs : list (job * bool); (* job, "all its responses are honest" *)
                  rc_obs : list jobobs }.

Definition rc_entry (c : rcase) : entry :=
  {| e_final := p_final; e_size := rc_size c; e_sha := if rc_sha_ok c then id_hash (rc_content c) else 88%N :: rc_content c |}.

Definition rc_init (c : rcase) : pstate :=
  {| p_fs := (match rc_final0 c with Some b => [(p_final, b)] | None => [] end)
             ++ (match rc_part0 c with Some b => [(part_path p_final, b)] | None => [] end);
     p_cnt := zero_counters; p_cu_done := false; p_cu_failed := false |}.

Definition cnt_list (c : counters) : list Z :=
  [c_skipped_local c; c_pulled c; c_failed c; c_checksum c; c_nopeers c; c_badoff c].

Fixpoint zlist_eqb (a b : list Z) : bool :=
  match a, b with
  | [], [] => true
  | x :: a', y :: b' => (x =? y) && zlist_eqb a' b'
  | _, _ => false
  end.

Definition obs_of (ps : pstate) : jobobs :=
  {| o_final := fs_get (p_fs ps) p_final; o_part := fs_get (p_fs ps) (part_path p_final);
     o_cnt := cnt_list (p_cnt ps); o_fully := fully_caught_up ps; o_cu_failed := p_cu_failed ps; o_mid := [] |}.

Definition jobobs_eqb (a b : jobobs) : bool :=
  opt_bytes_eqb (o_final a) (o_final b) && opt_bytes_eqb (o_part a) (o_part b)
  && zlist_eqb (o_cnt a) (o_cnt b) && Bool.eqb (o_fully a) (o_fully b) && Bool.eqb (o_cu_failed a) (o_cu_failed b).

Fixpoint sim (cfg : config) (e : entry) (ps : pstate) (js : list (job * bool)) (obs : list jobobs) : bool :=
  match js, obs with
  | [], [] => true
  | (j, _) :: r, o :: ro =>
      let '(_, ps1, _) := run_job id_hash cfg e ps j in
      jobobs_eqb (obs_of ps1) o && sim cfg e ps1 r ro
  | _, _ => false
  end.

Definition rcase_agrees (c : rcase) : bool := sim (rc_cfg c) (rc_entry c) (rc_init c) (rc_jobs c) (rc_obs c).

(* property oracles on the IMPLEMENTATION's observations, job by job *)
Definition obs_final_correct (c : rcase) (o : jobobs) : bool :=
  match o_final o with
  | Some b => bytes_eqb (id_hash b) (e_sha (rc_entry c)) && (blen b =? rc_size c)
  | None => false
  end.

Definition bytes_correct (c : rcase) (b : bytes) : bool :=
  bytes_eqb (id_hash b) (e_sha (rc_entry c)) && (blen b =? rc_size c).

Definition obs_final_good (c : rcase) (o : jobobs) : bool :=
  match o_final o with None => true | Some _ => obs_final_correct c o end
  && forallb (fun m => match m with None => true | Some b => bytes_correct c b end) (o_mid o).

Definition init_good (c : rcase) : bool :=
  match rc_final0 c with
  | None => true
  | Some b => bytes_eqb (id_hash b) (e_sha (rc_entry c)) && (blen b =? rc_size c)
  end.

Definition cnt_present (l : list Z) : Z := nth 0 l 0 + nth 1 l 0.     (* skipped_local + pulled *)

(* (1) a file at the final path always has the manifest digest *)
Definition oracle_final (c : rcase) : bool :=
  negb (init_good c) || forallb (obs_final_good c) (rc_obs c).

(* (2) whenever a job counts the file as present (skipped_local or pulled grows), or the
   catch-up gate is open, the final path holds the complete correct file *)
Fixpoint presence_ok (c : rcase) (prev : Z) (obs : list jobobs) : bool :=
  match obs with
  | [] => true
  | o :: r =>
      let now := cnt_present (o_cnt o) in
      ((now <=? prev) || obs_final_correct c o) && (negb (o_fully o) || obs_final_correct c o)
      && presence_ok c now r
  end.
Definition oracle_presence (c : rcase) : bool := negb (init_good c) || presence_ok c 0 (rc_obs c).

(* (3) convergence: after a job all of whose responses are honest (>= 1 attempt scripted,
   manifest consistent) the file is at its final path *)
Fixpoint converge_ok (c : rcase) (js : list (job * bool)) (obs : list jobobs) : bool :=
  match js, obs with
  | (_, honest_job) :: r, o :: ro => (negb honest_job || obs_final_correct c o) && converge_ok c r ro
  | _, _ => true
  end.
Definition oracle_converge (c : rcase) : bool :=
  negb (init_good c) || negb (rc_sha_ok c) || negb (blen (rc_content c) =? rc_size c) || converge_ok c (rc_jobs c) (rc_obs c).

(* compact constructor used by generated case files: the job list is a function of the
   content and of the manifest digest so that scripted peers can refer to them *)
Definition mk_rcase (content : bytes) (sha_ok : bool) (size : Z) (cfg : config)
           (f0 p0 : option bytes) (jobs : bytes -> bytes -> list (job * bool)) (obs : list jobobs) : rcase :=
  let sh := if sha_ok then id_hash content else 88%N :: content in
  {| rc_content := content; rc_sha_ok := sha_ok; rc_size := size; rc_cfg := cfg;
     rc_final0 := f0; rc_part0 := p0; rc_jobs := jobs content sh; rc_obs := obs |}.

Definition blen_opt (o : option bytes) : Z := match o with Some b => blen b | None => -1 end.
