(* Proofs about the file-replication model: the final path only ever receives verified bytes
   (for every fault sequence, every hostile peer, every crash point); presence accounting and
   convergence, refuted for the code as it is and proved for the guarded / repaired variants. *)
From Coq Require Import List NArith ZArith Bool Lia.
From Arc Require Import Lib.AList Storage.Model Storage.Proofs FileRepl.Model.
Import ListNotations.
Open Scope Z_scope.

Section Proofs.
Variable H : bytes -> bytes.

Notation good := (final_good H).
Notation correct := (final_correct H).

Definition all_prefixes (P : fs -> Prop) (f : fs) (st : list step) : Prop :=
  forall k, P (run f (firstn k st)).

Lemma all_prefixes_nil (P : fs -> Prop) f : P f -> all_prefixes P f [].
Proof. intros HP k. rewrite firstn_nil. exact HP. Qed.

Lemma all_prefixes_app (P : fs -> Prop) f a b :
  all_prefixes P f a -> all_prefixes P (run f a) b -> all_prefixes P f (a ++ b).
Proof.
  intros Ha Hb k. rewrite firstn_app, run_app.
  destruct (Nat.le_gt_cases k (length a)) as [Hle|Hgt].
  - replace (k - length a)%nat with O by lia. rewrite firstn_O. cbn [run fold_left]. apply Ha.
  - rewrite (firstn_all2 a) by lia. apply Hb.
Qed.

Lemma all_prefixes_end (P : fs -> Prop) f st : all_prefixes P f st -> P (run f st).
Proof. intros Hp. specialize (Hp (length st)). rewrite firstn_all in Hp. exact Hp. Qed.

(* ---- byte chunks ------------------------------------------------------------------------ *)

Lemma concat_byte_chunks d : concat (byte_chunks d) = d.
Proof. induction d as [|b d IH]; [reflexivity|]. cbn. f_equal. exact IH. Qed.

Lemma total_len_byte_chunks d : total_len (byte_chunks d) = blen d.
Proof.
  unfold blen. induction d as [|b d IH]; [reflexivity|].
  cbn [byte_chunks map total_len length]. change (map (fun b0 => [b0]) d) with (byte_chunks d). rewrite IH. lia.
Qed.

(* ---- Fetch ------------------------------------------------------------------------------ *)

Lemma fetch_ok e off prefix r d :
  fetch H e off prefix r = (d, FOk) -> H (prefix ++ d) = e_sha e /\ blen d = e_size e - off.
Proof.
  unfold fetch. destruct (is_empty (e_sha e) || (e_size e <? 0)); [discriminate|].
  destruct r as [|serve]; [discriminate|].
  destruct (serve off) as [|k|aoff asize asha body]; [discriminate|destruct k; discriminate|].
  destruct (negb (aoff =? off)); [discriminate|].
  destruct (asize <? 0) eqn:E0; [discriminate|].
  destruct (negb (asize =? e_size e - off)) eqn:E1; [discriminate|].
  destruct (negb (bytes_eqb asha (e_sha e))); [discriminate|].
  destruct (blen (firstn (Z.to_nat asize) body) <? asize) eqn:E2; [discriminate|].
  destruct (bytes_eqb (H (prefix ++ firstn (Z.to_nat asize) body)) (e_sha e)) eqn:E3; [|discriminate].
  intros Heq. inversion Heq; subst d. split; [apply bytes_eqb_eq; exact E3|].
  apply negb_false_iff in E1. apply Z.eqb_eq in E1. apply Z.ltb_ge in E0, E2.
  pose proof (firstn_le_length (Z.to_nat asize) body) as Hl. unfold blen in *. lia.
Qed.

(* ---- tryResumeFromPartial ------------------------------------------------------------------ *)

Lemma try_resume_spec f e a off prefix :
  try_resume f e a = (off, prefix) ->
  (off = 0 /\ prefix = []) \/
  (0 < off /\ off < e_size e /\ stat_file f (e_final e) = off /\ read_to_at f (e_final e) = Some prefix).
Proof.
  unfold try_resume. destruct (Nat.leb a 1); [intros Heq; inversion Heq; auto|].
  destruct ((stat_file f (e_final e) <=? 0) || (e_size e <=? stat_file f (e_final e))) eqn:E;
    [intros Heq; inversion Heq; auto|].
  apply orb_false_iff in E. destruct E as [E1 E2]. apply Z.leb_gt in E1, E2.
  destruct (read_to_at f (e_final e)) as [c|]; intros Heq; inversion Heq; subst; [right|left]; auto.
Qed.

Lemma resume_state f e off prefix :
  good e f -> 0 < off -> off < e_size e -> stat_file f (e_final e) = off ->
  read_to_at f (e_final e) = Some prefix ->
  fs_get f (e_final e) = None /\ fs_get f (part_path (e_final e)) = Some prefix /\ blen prefix = off.
Proof.
  unfold final_good, stat_file, read_to_at. intros Hg H0 H1 Hs Hr.
  destruct (fs_get f (e_final e)) as [b|].
  - destruct Hg as [_ Hl]. lia.
  - destruct (fs_get f (part_path (e_final e))) as [c|]; [|lia]. inversion Hr; subst. auto.
Qed.

(* ---- one pull ---------------------------------------------------------------------------- *)

Lemma good_none e f : fs_get f (e_final e) = None -> good e f.
Proof. unfold final_good. intros ->. exact I. Qed.

Lemma good_same e f f' : fs_get f' (e_final e) = fs_get f (e_final e) -> good e f -> good e f'.
Proof. unfold final_good. intros ->. auto. Qed.

Lemma post_prefixes e f (fr : fetch_result) :
  good e f ->
  all_prefixes (good e) f (match fr with
                            | FChecksumAck | FChecksumBody | FBadOffset => delete_steps (e_final e)
                            | _ => []
                            end).
Proof.
  intros Hg.
  assert (Hd : all_prefixes (good e) f (delete_steps (e_final e))).
  { intros k. destruct k as [|k]; [exact Hg|]. cbn [delete_steps firstn]. rewrite firstn_nil. cbn [run fold_left exec_step].
    apply good_none. apply get_remove_same. }
  destruct fr; try exact Hd; apply all_prefixes_nil; exact Hg.
Qed.

Lemma pull_once_spec f e a r st fr :
  good e f -> pull_once H f e a r = (st, fr) ->
  all_prefixes (good e) f st /\ (fr = FOk -> correct e (run f st)).
Proof.
  intros Hg Hp. unfold pull_once in Hp.
  destruct (try_resume f e a) as [off prefix] eqn:Etr.
  destruct (fetch H e off prefix r) as [d fr0] eqn:Ef.
  set (rd := {| r_chunks := byte_chunks d; r_clean := match fr0 with FOk => true | _ => false end |}) in *.
  assert (Hclean : r_clean rd = true -> fr0 = FOk) by (cbn; destruct fr0; congruence).
  destruct (try_resume_spec _ _ _ _ _ Etr) as [[-> ->]|[H0 [H1 [Hs Hr]]]].
  - (* full fetch through WriteReader *)
    change (0 <? 0) with false in Hp. cbv beta iota zeta in Hp. apply pair_equal_spec in Hp. destruct Hp as [Hst Hfr]. subst st fr.
    pose proof (write_reader_atomic f [] (e_final e) rd d) as Hw.
    assert (Hrd : r_clean rd = true -> concat (r_chunks rd) = d) by (intros _; apply concat_byte_chunks).
    assert (Hgood_d : fr0 = FOk -> H d = e_sha e /\ blen d = e_size e).
    { intros ->. destruct (fetch_ok _ _ _ _ _ Ef) as [Ha Hb]. cbn [app] in Ha. split; [exact Ha|lia]. }
    assert (Hwp : all_prefixes (good e) f (write_reader_steps [] (e_final e) rd)).
    { intros k. destruct (Hw k Hrd) as [[Hk|[Hc Hk]] _].
      - eapply good_same; [exact Hk|exact Hg].
      - unfold final_good. rewrite Hk. apply Hgood_d. apply Hclean. exact Hc. }
    split.
    + apply all_prefixes_app; [exact Hwp|]. apply post_prefixes. apply all_prefixes_end. exact Hwp.
    + intros ->. rewrite app_nil_r. destruct (Hw O Hrd) as [_ [Hfull _]].
      exists d. split; [apply Hfull; reflexivity|]. apply Hgood_d. reflexivity.
  - (* resume through AppendReader *)
    destruct (resume_state _ _ _ _ Hg H0 H1 Hs Hr) as [Hfin [Hpart Hlen]].
    assert (E : (0 <? off) = true) by (apply Z.ltb_lt; exact H0). rewrite E in Hp. rewrite Hpart in Hp.
    cbv beta iota zeta in Hp. apply pair_equal_spec in Hp. destruct Hp as [Hst Hfr]. subst st fr.
    pose proof (append_reader_atomic f (e_final e) rd prefix d (e_size e - off)) as Hw.
    assert (Hrd : r_clean rd = true -> total_len (r_chunks rd) = e_size e - off -> concat (r_chunks rd) = d)
      by (intros _ _; apply concat_byte_chunks).
    assert (Hgood_d : fr0 = FOk -> H (prefix ++ d) = e_sha e /\ blen (prefix ++ d) = e_size e).
    { intros ->. destruct (fetch_ok _ _ _ _ _ Ef) as [Ha Hb]. split; [exact Ha|].
      unfold blen in *. rewrite app_length. lia. }
    assert (Hwp : all_prefixes (good e) f (fst (append_reader_steps f (e_final e) rd (e_size e - off)))).
    { intros k. destruct (Hw k Hpart Hrd) as [[Hk|[Hc [_ Hk]]] _].
      - eapply good_same; [exact Hk|exact Hg].
      - unfold final_good. rewrite Hk. apply Hgood_d. apply Hclean. exact Hc. }
    split.
    + apply all_prefixes_app; [exact Hwp|]. apply post_prefixes. apply all_prefixes_end. exact Hwp.
    + intros ->. rewrite app_nil_r. destruct (Hw O Hpart Hrd) as [_ [Hfull _]].
      exists (prefix ++ d). split; [|apply Hgood_d; reflexivity].
      apply Hfull; [reflexivity|]. cbn [rd r_chunks]. rewrite total_len_byte_chunks.
      destruct (fetch_ok _ _ _ _ _ Ef) as [_ Hb]. exact Hb.
Qed.

(* ---- the loop over peers and the retry loop ------------------------------------------------ *)

Lemma peers_loop_spec : forall rs f e a c st f' c' pr,
  good e f -> peers_loop H f e a rs c = (st, f', c', pr) ->
  f' = run f st /\ all_prefixes (good e) f st /\ (pr = PPulled -> correct e f').
Proof.
  induction rs as [|r rest IH]; intros f e a c st f' c' pr Hg Hp; cbn [peers_loop] in Hp.
  - inversion Hp; subst. repeat split; [apply all_prefixes_nil; exact Hg|discriminate].
  - destruct (pull_once H f e a r) as [st1 fr] eqn:Epo.
    destruct (pull_once_spec _ _ _ _ _ _ Hg Epo) as [Hpre Hok].
    assert (Hg1 : good e (run f st1)) by (apply all_prefixes_end; exact Hpre).
    assert (Hrec : forall st2 f2 c2 pr2,
              peers_loop H (run f st1) e a rest (count_fetch fr c) = (st2, f2, c2, pr2) -> fr <> FOk ->
              (st1 ++ st2, f2, c2, pr2) = (st, f', c', pr) ->
              f' = run f st /\ all_prefixes (good e) f st /\ (pr = PPulled -> correct e f')).
    { intros st2 f2 c2 pr2 E2 _ Heq. inversion Heq; subst.
      destruct (IH _ _ _ _ _ _ _ _ Hg1 E2) as [Hf [Hp2 Hc2]].
      split; [rewrite run_app; exact Hf|]. split; [apply all_prefixes_app; assumption|exact Hc2]. }
    destruct fr.
    + inversion Hp; subst. repeat split; [exact Hpre|]. intros _. apply Hok. reflexivity.
    + destruct (peers_loop H (run f st1) e a rest (count_fetch FTransport c)) as [[[st2 f2] c2] pr2] eqn:E2.
      eapply Hrec; [reflexivity|discriminate|exact Hp].
    + destruct (peers_loop H (run f st1) e a rest (count_fetch FNotOnPeer c)) as [[[st2 f2] c2] pr2] eqn:E2.
      eapply Hrec; [reflexivity|discriminate|exact Hp].
    + destruct (peers_loop H (run f st1) e a rest (count_fetch FBadOffset c)) as [[[st2 f2] c2] pr2] eqn:E2.
      eapply Hrec; [reflexivity|discriminate|exact Hp].
    + inversion Hp; subst. repeat split; [exact Hpre|discriminate].
    + inversion Hp; subst. repeat split; [exact Hpre|discriminate].
Qed.

Lemma attempts_spec : forall cfg n a f e script c st f' c' o,
  good e f -> attempts H cfg n a f e script c = (st, f', c', o) ->
  f' = run f st /\ all_prefixes (good e) f st /\
  (o = OPulled -> correct e f') /\
  (forall b, o = OSkipped b -> precheck cfg f' e = true /\ b = is_some (fs_get f' (e_final e))).
Proof.
  intros cfg. induction n as [|n IH]; intros a f e script c st f' c' o Hg Hp; cbn [attempts] in Hp.
  - inversion Hp; subst. split; [reflexivity|]. split; [apply all_prefixes_nil; exact Hg|].
    split; [discriminate|intros b0 Hb; discriminate].
  - destruct (precheck cfg f e) eqn:Epre.
    { inversion Hp; subst. split; [reflexivity|]. split; [apply all_prefixes_nil; exact Hg|].
      split; [discriminate|]. intros b0 Hb. inversion Hb; subst. split; [exact Epre|reflexivity]. }
    destruct (hd [] script) as [|r0 rs0] eqn:Ehd.
    + destruct (cfg_fix_nopeers cfg && Nat.eqb n 0).
      * inversion Hp; subst. split; [reflexivity|]. split; [apply all_prefixes_nil; exact Hg|].
        split; [discriminate|intros b0 Hb; discriminate].
      * apply (IH _ _ _ _ _ _ _ _ _ Hg Hp).
    + destruct (peers_loop H f e a (r0 :: rs0) c) as [[[st1 f1] c1] pr] eqn:Epl.
      destruct (peers_loop_spec _ _ _ _ _ _ _ _ _ Hg Epl) as [Hf1 [Hp1 Hc1]].
      assert (Hg1 : good e f1) by (rewrite Hf1; apply all_prefixes_end; exact Hp1).
      assert (Hrest : (if Nat.eqb n 0 then (st1, f1, inc_failed c1, OFailed)
                       else let '(st2, f2, c2, o2) := attempts H cfg n (S a) f1 e (tl script) c1 in (st1 ++ st2, f2, c2, o2))
                      = (st, f', c', o) ->
                      f' = run f st /\ all_prefixes (good e) f st /\ (o = OPulled -> correct e f') /\
                      (forall b, o = OSkipped b -> precheck cfg f' e = true /\ b = is_some (fs_get f' (e_final e)))).
      { intros Hq. destruct (Nat.eqb n 0).
        - inversion Hq; subst. split; [reflexivity|]. split; [exact Hp1|].
          split; [discriminate|intros b0 Hb; discriminate].
        - destruct (attempts H cfg n (S a) f1 e (tl script) c1) as [[[st2 f2] c2] o2] eqn:E2.
          inversion Hq; subst.
          destruct (IH _ _ _ _ _ _ _ _ _ Hg1 E2) as [Hf2 [Hp2 [Hc2 Hs2]]].
          split; [rewrite run_app; exact Hf2|]. split; [apply all_prefixes_app; assumption|].
          split; [exact Hc2|exact Hs2]. }
      destruct pr; [|apply Hrest; exact Hp|apply Hrest; exact Hp].
      inversion Hp; subst. split; [reflexivity|]. split; [exact Hp1|].
      split; [intros _; apply Hc1; reflexivity|intros b0 Hb; discriminate].
Qed.

(* ---- presence accounting -------------------------------------------------------------------- *)

Lemma precheck_present_correct cfg e f b :
  good e f -> precheck cfg f e = true -> fs_get f (e_final e) = Some b -> correct e f.
Proof.
  intros Hg Hp Hb. exists b. split; [exact Hb|]. unfold final_good in Hg. rewrite Hb in Hg. destruct Hg as [Hh Hl].
  split; [exact Hh|exact Hl].
Qed.

Lemma precheck_fixed_present cfg e f :
  cfg_fix_presence cfg = true -> precheck cfg f e = true -> exists b, fs_get f (e_final e) = Some b.
Proof.
  unfold precheck. intros ->. destruct (fs_get f (e_final e)) as [b|]; [eauto|discriminate].
Qed.

Lemma correct_precheck cfg e f : correct e f -> precheck cfg f e = true.
Proof.
  intros [b [Hb [_ Hl]]]. unfold precheck, stat_file. rewrite Hb. destruct (cfg_fix_presence cfg); apply Z.eqb_eq; exact Hl.
Qed.

Theorem presence_guarded : forall cfg f e script c st f' c' o,
  good e f -> process_entry H cfg f e script c = (st, f', c', o) ->
  counted_present o = true -> o <> OSkipped false -> correct e f'.
Proof.
  intros cfg f e script c st f' c' o Hg Hp Hc Hne. unfold process_entry in Hp.
  destruct (attempts_spec _ _ _ _ _ _ _ _ _ _ _ Hg Hp) as [Hf [Hpre [Hpull Hskip]]].
  assert (Hg' : good e f') by (rewrite Hf; apply all_prefixes_end; exact Hpre).
  destruct o as [|b| |]; try discriminate.
  - apply Hpull. reflexivity.
  - destruct b; [|congruence]. destruct (Hskip true eq_refl) as [Hpc Hb].
    destruct (fs_get f' (e_final e)) as [b0|] eqn:E; [|discriminate].
    eapply precheck_present_correct; eassumption.
Qed.

Theorem presence_with_fix : forall cfg f e script c st f' c' o,
  cfg_fix_presence cfg = true ->
  good e f -> process_entry H cfg f e script c = (st, f', c', o) ->
  counted_present o = true -> correct e f'.
Proof.
  intros cfg f e script c st f' c' o Hfix Hg Hp Hc.
  eapply presence_guarded; try eassumption. intros ->. unfold process_entry in Hp.
  destruct (attempts_spec _ _ _ _ _ _ _ _ _ _ _ Hg Hp) as [_ [_ [_ Hskip]]].
  destruct (Hskip false eq_refl) as [Hpc Hb]. destruct (precheck_fixed_present _ _ _ Hfix Hpc) as [b0 E].
  rewrite E in Hb. discriminate.
Qed.

(* ---- convergence ---------------------------------------------------------------------------- *)

Definition consistent (e : entry) (content : bytes) : Prop :=
  H content = e_sha e /\ blen content = e_size e /\ is_empty (e_sha e) = false.

(* the pre-check would pass although nothing is at the final path *)
Definition stale (cfg : config) (f : fs) (e : entry) : bool :=
  precheck cfg f e && negb (is_some (fs_get f (e_final e))).

Lemma blen_nonneg b : 0 <= blen b.
Proof. unfold blen. lia. Qed.

Lemma pull_once_honest f e content :
  consistent e content -> snd (pull_once H f e 1 (honest content (e_sha e))) = FOk.
Proof.
  intros [Hh [Hl Hne]]. unfold pull_once. cbn [try_resume Nat.leb].
  assert (Hf : fetch H e 0 [] (honest content (e_sha e)) = (content, FOk)).
  { unfold fetch. rewrite Hne. pose proof (blen_nonneg content) as Hnn.
    assert (Es : (e_size e <? 0) = false) by (apply Z.ltb_ge; lia). rewrite Es. cbn [orb honest].
    unfold scripted. cbn [m_alt no_mods m_flips m_trunc m_off_delta m_size_delta m_sha_wrong fold_left].
    change (0 <? 0) with false. assert (Eb : (blen content <? 0) = false) by (apply Z.ltb_ge; lia). rewrite Eb.
    cbn [orb Z.to_nat skipn]. rewrite !Z.add_0_r. change (0 =? 0) with true. cbn [negb].
    rewrite Eb. rewrite Z.sub_0_r. rewrite Hl. rewrite Z.eqb_refl. cbn [negb]. rewrite bytes_eqb_refl. cbn [negb].
    assert (Efn : firstn (Z.to_nat (e_size e)) content = content).
    { apply firstn_all2. unfold blen in Hl. lia. }
    rewrite Efn. assert (Et : (blen content <? e_size e) = false) by (apply Z.ltb_ge; lia). rewrite Et.
    cbn [app]. rewrite Hh. rewrite bytes_eqb_refl. reflexivity. }
  rewrite Hf. change (0 <? 0) with false. reflexivity.
Qed.

Theorem honest_job_converges : forall cfg f e content rest more c st f' c' o,
  good e f -> consistent e content -> (1 <= cfg_max_attempts cfg)%nat ->
  stale cfg f e = false ->
  process_entry H cfg f e ((honest content (e_sha e) :: rest) :: more) c = (st, f', c', o) ->
  counted_present o = true /\ correct e f'.
Proof.
  intros cfg f e content rest more c st f' c' o Hg Hcons Hmax Hst Hp.
  assert (Hgoal : counted_present o = true /\ o <> OSkipped false).
  { unfold process_entry in Hp. destruct (cfg_max_attempts cfg) as [|n]; [lia|]. cbn [attempts] in Hp.
    destruct (precheck cfg f e) eqn:Epre.
    - inversion Hp; subst. split; [reflexivity|]. unfold stale in Hst. rewrite Epre in Hst. cbn [andb] in Hst.
      apply negb_false_iff in Hst. rewrite Hst. discriminate.
    - cbn [hd tl peers_loop] in Hp.
      pose proof (pull_once_honest f e content Hcons) as Hpo.
      destruct (pull_once H f e 1 (honest content (e_sha e))) as [st1 fr]. cbn [snd] in Hpo. subst fr.
      inversion Hp; subst. split; [reflexivity|discriminate]. }
  destruct Hgoal as [Hc Hne]. split; [exact Hc|]. eapply presence_guarded; eassumption.
Qed.

Lemma fixed_never_stale cfg f e : cfg_fix_presence cfg = true -> stale cfg f e = false.
Proof.
  intros Hfix. unfold stale. destruct (precheck cfg f e) eqn:E; [|reflexivity].
  destruct (precheck_fixed_present _ _ _ Hfix E) as [b ->]. reflexivity.
Qed.

(* ---- jobs ------------------------------------------------------------------------------------ *)

Lemma run_job_good cfg e ps j st ps' o :
  good e (p_fs ps) -> run_job H cfg e ps j = (st, ps', o) ->
  p_fs ps' = run (p_fs ps) st /\ all_prefixes (good e) (p_fs ps) st /\ good e (p_fs ps').
Proof.
  intros Hg Hr. unfold run_job in Hr.
  destruct (process_entry H cfg (p_fs ps) e (j_script j) (p_cnt ps)) as [[[st1 f1] c1] o1] eqn:E.
  inversion Hr; subst. cbn [p_fs]. unfold process_entry in E.
  destruct (attempts_spec _ _ _ _ _ _ _ _ _ _ _ Hg E) as [Hf [Hpre _]].
  repeat split; [exact Hf|exact Hpre|rewrite Hf; apply all_prefixes_end; exact Hpre].
Qed.

Lemma run_jobs_good : forall js cfg e ps st ps',
  good e (p_fs ps) -> run_jobs H cfg e ps js = (st, ps') ->
  p_fs ps' = run (p_fs ps) st /\ all_prefixes (good e) (p_fs ps) st /\ good e (p_fs ps').
Proof.
  induction js as [|j r IH]; intros cfg e ps st ps' Hg Hr; cbn [run_jobs] in Hr.
  - inversion Hr; subst. repeat split; [apply all_prefixes_nil; exact Hg|exact Hg].
  - destruct (run_job H cfg e ps j) as [[st1 ps1] o1] eqn:E1.
    destruct (run_jobs H cfg e ps1 r) as [st2 ps2] eqn:E2. inversion Hr; subst.
    destruct (run_job_good _ _ _ _ _ _ _ Hg E1) as [Hf1 [Hp1 Hg1]].
    destruct (IH _ _ _ _ _ Hg1 E2) as [Hf2 [Hp2 Hg2]].
    split; [rewrite run_app, <- Hf1; exact Hf2|]. split; [|exact Hg2].
    apply all_prefixes_app; [exact Hp1|rewrite <- Hf1; exact Hp2].
Qed.

Lemma run_jobs_app : forall a b cfg e ps,
  run_jobs H cfg e ps (a ++ b) =
  let '(st1, ps1) := run_jobs H cfg e ps a in
  let '(st2, ps2) := run_jobs H cfg e ps1 b in (st1 ++ st2, ps2).
Proof.
  induction a as [|j a IH]; intros b cfg e ps; cbn [app run_jobs].
  - destruct (run_jobs H cfg e ps b) as [st2 ps2]. reflexivity.
  - destruct (run_job H cfg e ps j) as [[st0 ps0] o0]. rewrite IH.
    destruct (run_jobs H cfg e ps0 a) as [st1 ps1]. destruct (run_jobs H cfg e ps1 b) as [st2 ps2].
    rewrite app_assoc. reflexivity.
Qed.

Theorem jobs_then_honest_converge : forall cfg e content ps faulty rest more cu st1 ps1 st ps',
  good e (p_fs ps) -> consistent e content -> (1 <= cfg_max_attempts cfg)%nat ->
  run_jobs H cfg e ps faulty = (st1, ps1) ->
  stale cfg (p_fs ps1) e = false ->
  run_jobs H cfg e ps (faulty ++ [{| j_script := (honest content (e_sha e) :: rest) :: more; j_catchup := cu |}]) = (st, ps') ->
  correct e (p_fs ps').
Proof.
  intros cfg e content ps faulty rest more cu st1 ps1 st ps' Hg Hcons Hmax H1 Hst Hr.
  rewrite run_jobs_app, H1 in Hr. cbn [run_jobs] in Hr.
  destruct (run_jobs_good _ _ _ _ _ _ Hg H1) as [_ [_ Hg1]].
  unfold run_job in Hr. cbn [j_script j_catchup] in Hr.
  destruct (process_entry H cfg (p_fs ps1) e ((honest content (e_sha e) :: rest) :: more) (p_cnt ps1)) as [[[st2 f2] c2] o2] eqn:E.
  destruct (honest_job_converges _ _ _ _ _ _ _ _ _ _ _ Hg1 Hcons Hmax Hst E) as [_ Hc].
  inversion Hr; subst. exact Hc.
Qed.

(* ---- the catch-up gate ------------------------------------------------------------------------ *)

Lemma attempts_no_neither : forall cfg n a f e script c st f' c' o,
  cfg_fix_nopeers cfg = true -> (1 <= n)%nat ->
  attempts H cfg n a f e script c = (st, f', c', o) -> o <> ONeither.
Proof.
  intros cfg. induction n as [|n IH]; intros a f e script c st f' c' o Hfix Hn Hp; [lia|]. cbn [attempts] in Hp.
  destruct (precheck cfg f e); [inversion Hp; discriminate|].
  destruct (hd [] script) as [|r0 rs0].
  - rewrite Hfix in Hp. cbn [andb] in Hp. destruct (Nat.eqb_spec n 0) as [->|Hne]; [inversion Hp; discriminate|].
    eapply IH; [exact Hfix|lia|exact Hp].
  - destruct (peers_loop H f e a (r0 :: rs0) c) as [[[st1 f1] c1] pr].
    assert (Hrest : (if Nat.eqb n 0 then (st1, f1, inc_failed c1, OFailed)
                     else let '(st2, f2, c2, o2) := attempts H cfg n (S a) f1 e (tl script) c1 in (st1 ++ st2, f2, c2, o2))
                    = (st, f', c', o) -> o <> ONeither).
    { destruct (Nat.eqb_spec n 0) as [->|Hne]; [intros Hq; inversion Hq; discriminate|].
      destruct (attempts H cfg n (S a) f1 e (tl script) c1) as [[[st2 f2] c2] o2] eqn:E2. intros Hq. inversion Hq; subst.
      eapply IH; [exact Hfix|lia|exact E2]. }
    destruct pr; [inversion Hp; discriminate|apply Hrest; exact Hp|apply Hrest; exact Hp].
Qed.

Lemma correct_job_skips cfg e f script c st f' c' o :
  correct e f -> (1 <= cfg_max_attempts cfg)%nat ->
  process_entry H cfg f e script c = (st, f', c', o) -> o = OSkipped true /\ f' = f.
Proof.
  intros Hc Hmax Hp. unfold process_entry in Hp. destruct (cfg_max_attempts cfg) as [|n]; [lia|]. cbn [attempts] in Hp.
  rewrite (correct_precheck cfg _ _ Hc) in Hp. destruct Hc as [b [Hb _]]. rewrite Hb in Hp. inversion Hp; subst. auto.
Qed.

Definition gate_inv (e : entry) (ps : pstate) : Prop :=
  good e (p_fs ps) /\ (fully_caught_up ps = true -> correct e (p_fs ps)).

Lemma run_job_gate cfg e ps j st ps' o :
  cfg_fix_presence cfg = true -> cfg_fix_nopeers cfg = true -> (1 <= cfg_max_attempts cfg)%nat ->
  gate_inv e ps -> run_job H cfg e ps j = (st, ps', o) -> gate_inv e ps'.
Proof.
  intros Hf1 Hf2 Hmax [Hg Hgate] Hr.
  destruct (run_job_good _ _ _ _ _ _ _ Hg Hr) as [_ [_ Hg']]. split; [exact Hg'|].
  unfold run_job in Hr.
  destruct (process_entry H cfg (p_fs ps) e (j_script j) (p_cnt ps)) as [[[st1 f1] c1] o1] eqn:E.
  inversion Hr; subst. unfold fully_caught_up. cbn [p_fs p_cu_done p_cu_failed]. intros Hfully.
  apply andb_prop in Hfully. destruct Hfully as [Hdone Hnf]. apply negb_true_iff in Hnf.
  destruct o as [|b| |].
  - change (correct e f1). apply (presence_with_fix cfg (p_fs ps) e (j_script j) (p_cnt ps) st f1 c1 _ Hf1 Hg E). reflexivity.
  - change (correct e f1). apply (presence_with_fix cfg (p_fs ps) e (j_script j) (p_cnt ps) st f1 c1 _ Hf1 Hg E). reflexivity.
  - destruct (j_catchup j) eqn:Ecu; [discriminate|]. rewrite orb_false_r in Hdone.
    assert (Hc : correct e (p_fs ps)). { apply Hgate. unfold fully_caught_up. rewrite Hdone, Hnf. reflexivity. }
    destruct (correct_job_skips _ _ _ _ _ _ _ _ _ Hc Hmax E) as [Ho _]. discriminate.
  - exfalso. unfold process_entry in E. eapply attempts_no_neither; [exact Hf2|exact Hmax|exact E|reflexivity].
Qed.

Theorem gate_truthful_with_fixes : forall js cfg e ps st ps',
  cfg_fix_presence cfg = true -> cfg_fix_nopeers cfg = true -> (1 <= cfg_max_attempts cfg)%nat ->
  gate_inv e ps -> run_jobs H cfg e ps js = (st, ps') -> gate_inv e ps'.
Proof.
  induction js as [|j r IH]; intros cfg e ps st ps' Hf1 Hf2 Hmax Hi Hr; cbn [run_jobs] in Hr.
  - inversion Hr; subst. exact Hi.
  - destruct (run_job H cfg e ps j) as [[st1 ps1] o1] eqn:E1.
    destruct (run_jobs H cfg e ps1 r) as [st2 ps2] eqn:E2. inversion Hr; subst.
    apply (IH cfg e ps1 st2 ps' Hf1 Hf2 Hmax); [|exact E2].
    apply (run_job_gate cfg e ps j st1 ps1 o1 Hf1 Hf2 Hmax Hi E1).
Qed.

End Proofs.
