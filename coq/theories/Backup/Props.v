(* C13 - Backup then restore reproduces the data or reports failure.
   Only property statements live here; proofs are in Proofs.v.
   [restore_backup true] is the current code (per-file failures are counted and fail the restore,
   /repo 903522c = fixes/C13_restore_reports_failures.patch); [restore_backup false] is the previous
   code, kept as the record of the fixed finding.  The check determines on every run which of the
   two the source implements (tools/props/C13.py); a revert shows up as a VIOLATION. *)
From Coq Require Import List ZArith NArith Bool Lia.
From Arc Require Import Lib.AList Backup.Model Backup.Proofs.
Import ListNotations.
Open Scope Z_scope.

(* No faults: for EVERY storage tree, backup id and skip ratio, a backup into an empty backup
   store succeeds with nothing skipped, the restore into empty storage succeeds with
   processed = total, and the destination holds, byte for byte and at the original paths,
   exactly the listed .parquet and Iceberg-metadata files of the source (and nothing else). *)
Theorem C13_roundtrip : forall permille strict id src,
  let '(br, bpg, bk) := create_backup permille no_bfaults id src empty_bstore in
  let '(rr, rpg, dst) := restore_backup strict no_rfaults id bk [] in
  (exists m, br = BOk m /\ m_skipped m = 0) /\ rr = ROk /\ pg_processed rpg = pg_total_files rpg /\
  forall p, plookup p dst = if selected p then plookup p src else None.
Proof. exact roundtrip. Qed.
Print Assumptions C13_roundtrip.

(* For EVERY tree and EVERY fault set: a backup that reports success stores its manifest,
   the manifest's skipped_files equals the number of inventoried files that could not be read,
   so any unreadable inventoried file makes it non-zero (= "incomplete"); and when it is zero
   every selected source file is in the backup with its content. *)
Theorem C13_backup_flags_incomplete : forall permille F id src bk m pg bk',
  create_backup permille F id src bk = (BOk m, pg, bk') ->
  plookup id (bs_manifests bk') = Some m /\
  m_skipped m = countb (fun f => negb (readable F src f)) (backup_files src) /\
  (forall p, In p (backup_files src) -> bf_read_src F p = true -> 0 < m_skipped m) /\
  (m_skipped m = 0 -> forall p d, selected p = true -> plookup p src = Some d ->
     plookup (data_prefix id ++ p) (bs_files bk') = Some d).
Proof. exact backup_flags_incomplete. Qed.
Print Assumptions C13_backup_flags_incomplete.

(* The restore (current code): for EVERY backup store, destination and fault set, success is
   reported only if every (listed) file of the backup is at its original path with its content. *)
Theorem C13_restore_reports : forall R id bk dst pg dst',
  restore_backup true R id bk dst = (ROk, pg, dst') ->
  forall p d, p <> [] -> visible p = true -> plookup (data_prefix id ++ p) (bs_files bk) = Some d ->
  plookup p dst' = Some d.
Proof. exact restore_reports_strict. Qed.
Print Assumptions C13_restore_reports.

(* The previous code (before 903522c) violated that: a restore one of whose files cannot be written reports success
   and leaves the destination empty ... *)
Definition w_id : bytes := [98; 107; 49]%N.
Definition w_f1 : path := [100; 98; 47; 99; 112; 117; 47; 50; 48; 50; 54; 47; 48; 49; 47; 48; 49; 47; 48; 48; 47; 97; 46; 112; 97; 114; 113; 117; 101; 116]%N.
Definition w_f2 : path := [100; 98; 47; 99; 112; 117; 47; 50; 48; 50; 54; 47; 48; 49; 47; 48; 49; 47; 48; 49; 47; 98; 46; 112; 97; 114; 113; 117; 101; 116]%N.
Definition w_src : tree := [(w_f1, [1;2;3]%N); (w_f2, [4;5]%N)].
Definition w_rfaults : rfaults :=
  {| rf_read_manifest := false; rf_list_bk := false; rf_read_bk := fun _ => false;
     rf_write_dst := fun p => bytes_eqb p w_f2 |}.

Theorem C13_restore_reports_refuted :
  exists R id bk pg dst' p d,
    restore_backup false R id bk [] = (ROk, pg, dst') /\
    p <> [] /\ visible p = true /\ plookup (data_prefix id ++ p) (bs_files bk) = Some d /\
    plookup p dst' = None.
Proof.
  exists w_rfaults, w_id, (snd (create_backup 100 no_bfaults w_id w_src empty_bstore)).
  eexists. eexists. exists w_f2, [4;5]%N.
  split; [vm_compute; reflexivity|]. repeat split; try (vm_compute; congruence).
Qed.
Print Assumptions C13_restore_reports_refuted.

(* ... and in general: whatever per-file read/write faults occur, the unrepaired restore reports
   success as soon as the manifest and the listing can be read. *)
Theorem C13_restore_swallows_errors : forall R id bk dst m,
  rf_read_manifest R = false -> rf_list_bk R = false -> plookup id (bs_manifests bk) = Some m ->
  fst (fst (restore_backup false R id bk dst)) = ROk /\
  pg_completed (snd (fst (restore_backup false R id bk dst))) = true.
Proof. exact restore_swallows_errors. Qed.
Print Assumptions C13_restore_swallows_errors.

(* Counter and fault-set forms (they hold for both variants; for the previous code they were the strongest true statements):
   (a) success AND processed_files = total_files  =>  every backed-up file is restored;
   (b) no read/write fault on any file of the backup  =>  success, processed = total, all restored. *)
Theorem C13_restore_reports_guarded : forall strict R id bk dst r pg dst',
  restore_backup strict R id bk dst = (r, pg, dst') ->
  pg_completed pg = true -> pg_processed pg = pg_total_files pg ->
  forall p d, p <> [] -> visible p = true -> plookup (data_prefix id ++ p) (bs_files bk) = Some d ->
  plookup p dst' = Some d.
Proof. exact restore_counts_complete. Qed.
Print Assumptions C13_restore_reports_guarded.

Theorem C13_restore_no_file_faults : forall strict R id bk dst m,
  rf_read_manifest R = false -> rf_list_bk R = false -> plookup id (bs_manifests bk) = Some m ->
  ~ In (data_prefix id) (map fst (bs_files bk)) ->
  (forall p, In (data_prefix id ++ p) (map fst (bs_files bk)) -> rf_read_bk R p = false /\ rf_write_dst R p = false) ->
  let '(r, pg, dst') := restore_backup strict R id bk dst in
  r = ROk /\ pg_processed pg = pg_total_files pg /\
  forall p d, p <> [] -> visible p = true -> plookup (data_prefix id ++ p) (bs_files bk) = Some d -> plookup p dst' = Some d.
Proof. exact restore_no_file_faults. Qed.
Print Assumptions C13_restore_no_file_faults.

(* The property end to end, for EVERY tree and EVERY fault set during backup and restore:
   if the backup reports success with skipped_files = 0 (into a store that holds nothing under
   its fresh id) and the restore into empty storage reports completion with
   processed_files = total_files, the destination equals the selected source files exactly. *)
Theorem C13_end_to_end : forall permille strict F R id src bk0 m bpg bk r rpg dst,
  (forall q, In q (map fst (bs_files bk0)) -> has_prefix (data_prefix id) q = false) ->
  create_backup permille F id src bk0 = (BOk m, bpg, bk) -> m_skipped m = 0 ->
  restore_backup strict R id bk [] = (r, rpg, dst) -> pg_completed rpg = true ->
  pg_processed rpg = pg_total_files rpg ->
  forall p, plookup p dst = if selected p then plookup p src else None.
Proof. exact end_to_end. Qed.
Print Assumptions C13_end_to_end.

(* ---- non-vacuity -------------------------------------------------------------------------- *)
Definition e_meta : path := [97; 114; 99; 95; 100; 98; 46; 100; 98; 47; 99; 112; 117; 47; 109; 101; 116; 97; 100; 97; 116; 97; 47; 118; 49; 46; 109; 101; 116; 97; 100; 97; 116; 97; 46; 106; 115; 111; 110]%N.
Definition e_junk : path := [100; 98; 47; 99; 112; 117; 47; 110; 111; 116; 101; 115; 46; 116; 120; 116]%N.
Definition e_hidden : path := [100; 98; 47; 99; 112; 117; 47; 46; 104; 105; 100; 100; 101; 110; 46; 112; 97; 114; 113; 117; 101; 116]%N.
Definition e_src : tree := [(w_f1, [1;2;3]%N); (e_meta, [9]%N); (e_junk, [7;7]%N); (e_hidden, [8]%N); (w_f2, [4;5]%N)].

(* a concrete tree: data file, Iceberg metadata, a non-selected file and a hidden file *)
Example C13_roundtrip_nonvacuous :
  let '(br, _, bk) := create_backup 100 no_bfaults w_id e_src empty_bstore in
  let '(rr, rpg, dst) := restore_backup false no_rfaults w_id bk [] in
  rr = ROk /\ pg_total_files rpg = 3 /\
  plookup w_f1 dst = Some [1;2;3]%N /\ plookup e_meta dst = Some [9]%N /\ plookup w_f2 dst = Some [4;5]%N /\
  plookup e_junk dst = None /\ plookup e_hidden dst = None.
Proof. vm_compute. repeat split; reflexivity. Qed.

(* the hypotheses of C13_end_to_end are satisfiable WITH faults present (a read fault on a file the
   backup does not select, a write fault on a path that is not in the backup) *)
Example C13_end_to_end_nonvacuous :
  let F := {| bf_list_src := false; bf_read_src := fun p => bytes_eqb p e_junk;
              bf_write_bk := fun _ => false; bf_write_manifest := false |} in
  let R := {| rf_read_manifest := false; rf_list_bk := false; rf_read_bk := fun _ => false;
              rf_write_dst := fun p => bytes_eqb p e_junk |} in
  let '(br, _, bk) := create_backup 100 F w_id e_src empty_bstore in
  let '(rr, rpg, _) := restore_backup false R w_id bk [] in
  (exists m, br = BOk m /\ m_skipped m = 0) /\ rr = ROk /\ pg_completed rpg = true /\
  pg_processed rpg = pg_total_files rpg.
Proof. vm_compute. split; [eexists; split; reflexivity|]. repeat split; reflexivity. Qed.

(* a backup that skipped a file is flagged (1 of 11 files unreadable, ratio 10 %) *)
Example C13_flags_nonvacuous :
  let many := map (fun n => (w_f1 ++ [n], [n])) [1;2;3;4;5;6;7;8;9;10;11]%N in
  let src := map (fun kv => (fst kv ++ s_parquet, snd kv)) many in
  let bad := (w_f1 ++ [3]%N) ++ s_parquet in
  let F := {| bf_list_src := false; bf_read_src := fun p => bytes_eqb p bad;
              bf_write_bk := fun _ => false; bf_write_manifest := false |} in
  match fst (fst (create_backup 100 F w_id src empty_bstore)) with
  | BOk m => m_skipped m = 1 /\ m_total_files m = 11
  | BFailed => False
  end.
Proof. vm_compute. split; reflexivity. Qed.

(* the hypothesis of C13_restore_reports is satisfiable (fault-free restore of the example backup),
   and on the refutation witness the repaired restore does report failure while still restoring
   the file that could be restored *)
Example C13_restore_reports_nonvacuous :
  let bk := snd (create_backup 100 no_bfaults w_id w_src empty_bstore) in
  fst (fst (restore_backup true no_rfaults w_id bk [])) = ROk /\
  fst (fst (restore_backup true w_rfaults w_id bk [])) = RFailed /\
  plookup w_f1 (snd (restore_backup true w_rfaults w_id bk [])) = Some [1;2;3]%N.
Proof. vm_compute. repeat split; reflexivity. Qed.
