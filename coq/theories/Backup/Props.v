(* C13 - Backup then restore reproduces the data or reports failure.
   Only property statements live here; proofs are in Proofs.v.
   [restore_backup true] is the current code (per-file failures are counted and fail the restore,
   /repo 903522c = fixes/C13_restore_reports_failures.patch); [restore_backup false] is the previous
   code, kept as the record of the fixed finding.  The check determines on every run which of the
   two the source implements (tools/props/C13.py); a revert shows up as a VIOLATION.
   Backup options (IncludeMetadata / IncludeConfig), restore options (RestoreData / RestoreMetadata /
   RestoreConfig), the manifest's HasMetadata / HasConfig and the local SQLite / arc.toml files are
   part of the model ([bopts], [ropts], [lenv]). *)
From Coq Require Import List ZArith NArith Bool Lia.
From Arc Require Import Lib.AList Backup.Model Backup.Proofs.
Import ListNotations.
Open Scope Z_scope.

(* No faults: for EVERY storage tree, local files, backup and restore options, backup id and skip
   ratio, a backup into an empty backup store succeeds with nothing skipped and announces exactly
   the requested parts that exist locally; the restore into empty storage succeeds with
   processed = total; when data was requested the destination holds, byte for byte and at the
   original paths, exactly the listed .parquet and Iceberg-metadata files of the source (and
   nothing else); a requested part that was backed up comes back with its content. *)
Theorem C13_roundtrip : forall permille strict BO RO benv renv id src,
  let '(br, bpg, bk) := create_backup permille no_bfaults BO benv id src empty_bstore in
  let '(rr, rpg, dst, env') := restore_backup strict no_rfaults RO id bk [] renv in
  (exists m, br = BOk m /\ m_skipped m = 0 /\
             m_has_meta m = (bo_meta BO && is_some (e_sqlite benv)) /\ m_has_cfg m = (bo_cfg BO && is_some (e_config benv))) /\
  rr = ROk /\ pg_processed rpg = pg_total_files rpg /\
  (ro_data RO = true -> forall p, plookup p dst = if selected p then plookup p src else None) /\
  (ro_data RO = false -> dst = []) /\
  (ro_meta RO = true -> bo_meta BO = true -> forall d, e_sqlite benv = Some d -> e_sqlite env' = Some d) /\
  (ro_cfg RO = true -> bo_cfg BO = true -> forall d, e_config benv = Some d -> e_config env' = Some d).
Proof. exact roundtrip. Qed.
Print Assumptions C13_roundtrip.

(* For EVERY tree, options and fault set: a backup that reports success stores its manifest,
   the manifest's skipped_files equals the number of inventoried files that could not be read,
   so any unreadable inventoried file makes it non-zero (= "incomplete"); and when it is zero
   every selected source file is in the backup with its content. *)
Theorem C13_backup_flags_incomplete : forall permille F O env id src bk m pg bk',
  create_backup permille F O env id src bk = (BOk m, pg, bk') ->
  plookup id (bs_manifests bk') = Some m /\
  m_skipped m = countb (fun f => negb (readable F src f)) (backup_files src) /\
  (forall p, In p (backup_files src) -> bf_read_src F p = true -> 0 < m_skipped m) /\
  (m_skipped m = 0 -> forall p d, selected p = true -> plookup p src = Some d ->
     plookup (data_prefix id ++ p) (bs_files bk') = Some d).
Proof. exact backup_flags_incomplete. Qed.
Print Assumptions C13_backup_flags_incomplete.

(* ... and its HasMetadata / HasConfig flags tell the truth: an announced part was requested, is the
   local file's content and is in the backup store; a requested part whose write did not fail is
   announced iff the local file exists. *)
Theorem C13_backup_part_flags : forall permille F O env id src bk m pg bk',
  create_backup permille F O env id src bk = (BOk m, pg, bk') ->
  (m_has_meta m = true -> exists d, bo_meta O = true /\ e_sqlite env = Some d /\ plookup id (bs_meta bk') = Some d) /\
  (m_has_cfg m = true -> exists d, bo_cfg O = true /\ e_config env = Some d /\ plookup id (bs_cfg bk') = Some d) /\
  (bo_meta O = true -> bf_write_meta F = false -> m_has_meta m = is_some (e_sqlite env)) /\
  (bo_cfg O = true -> bf_write_cfg F = false -> m_has_cfg m = is_some (e_config env)).
Proof. exact backup_part_flags. Qed.
Print Assumptions C13_backup_part_flags.

(* The restore (current code): for EVERY backup store, destination, local files, restore options and
   fault set, success is reported only if EVERY REQUESTED PART is restored: every (listed) data file
   of the backup is at its original path with its content when data was requested, and the SQLite
   database / arc.toml the manifest announces are in place when metadata / config were requested. *)
Theorem C13_restore_reports : forall R O id bk dst env pg dst' env',
  restore_backup true R O id bk dst env = (ROk, pg, dst', env') ->
  exists m, plookup id (bs_manifests bk) = Some m /\
  (ro_data O = true -> forall p d, p <> [] -> visible p = true ->
     plookup (data_prefix id ++ p) (bs_files bk) = Some d -> plookup p dst' = Some d) /\
  (ro_meta O = true -> m_has_meta m = true -> exists d, plookup id (bs_meta bk) = Some d /\ e_sqlite env' = Some d) /\
  (ro_cfg O = true -> m_has_cfg m = true -> exists d, plookup id (bs_cfg bk) = Some d /\ e_config env' = Some d).
Proof. exact restore_reports_strict. Qed.
Print Assumptions C13_restore_reports.

(* The property end to end, for EVERY tree, options and fault set during backup and restore:
   if the backup reports success with skipped_files = 0 (into a store that holds nothing under
   its fresh id) and the restore of the data into empty storage reports success with
   processed_files = total_files, the destination equals the selected source files exactly. *)
Theorem C13_end_to_end : forall permille strict F BO benv R RO id src bk0 m bpg bk rpg dst renv env',
  (forall q, In q (map fst (bs_files bk0)) -> has_prefix (data_prefix id) q = false) ->
  create_backup permille F BO benv id src bk0 = (BOk m, bpg, bk) -> m_skipped m = 0 ->
  restore_backup strict R RO id bk [] renv = (ROk, rpg, dst, env') -> ro_data RO = true ->
  pg_processed rpg = pg_total_files rpg ->
  forall p, plookup p dst = if selected p then plookup p src else None.
Proof. exact end_to_end. Qed.
Print Assumptions C13_end_to_end.

(* Counter and fault-set forms (both variants):
   (a) success AND processed_files = total_files  =>  every backed-up data file is restored;
   (b) the data step with no read/write fault on any file of the backup  =>  success, processed = total, all restored;
   (c) no fault at all  =>  success and every requested part in place. *)
Theorem C13_restore_reports_guarded : forall strict R O id bk dst env pg dst' env',
  restore_backup strict R O id bk dst env = (ROk, pg, dst', env') -> ro_data O = true ->
  pg_processed pg = pg_total_files pg ->
  forall p d, p <> [] -> visible p = true -> plookup (data_prefix id ++ p) (bs_files bk) = Some d ->
  plookup p dst' = Some d.
Proof. exact restore_counts_complete. Qed.
Print Assumptions C13_restore_reports_guarded.

Theorem C13_restore_no_file_faults : forall strict R id bk m dst,
  rf_list_bk R = false ->
  ~ In (data_prefix id) (map fst (bs_files bk)) ->
  (forall p, In (data_prefix id ++ p) (map fst (bs_files bk)) -> rf_read_bk R p = false /\ rf_write_dst R p = false) ->
  let '(r, pg, dst') := restore_data strict R id bk m dst in
  r = ROk /\ pg_completed pg = true /\ pg_processed pg = pg_total_files pg /\
  forall p d, p <> [] -> visible p = true -> plookup (data_prefix id ++ p) (bs_files bk) = Some d -> plookup p dst' = Some d.
Proof. exact restore_data_no_file_faults. Qed.
Print Assumptions C13_restore_no_file_faults.

Theorem C13_restore_no_faults : forall strict O id bk dst env m,
  plookup id (bs_manifests bk) = Some m ->
  ~ In (data_prefix id) (map fst (bs_files bk)) ->
  (m_has_meta m = true -> plookup id (bs_meta bk) <> None) ->
  (m_has_cfg m = true -> plookup id (bs_cfg bk) <> None) ->
  let '(r, pg, dst', env') := restore_backup strict no_rfaults O id bk dst env in
  r = ROk /\ pg_processed pg = pg_total_files pg /\
  (ro_data O = true -> forall p d, p <> [] -> visible p = true ->
     plookup (data_prefix id ++ p) (bs_files bk) = Some d -> plookup p dst' = Some d) /\
  (ro_data O = false -> dst' = dst) /\
  (ro_meta O = true -> m_has_meta m = true -> e_sqlite env' = plookup id (bs_meta bk)) /\
  (ro_cfg O = true -> m_has_cfg m = true -> e_config env' = plookup id (bs_cfg bk)).
Proof. exact restore_no_faults. Qed.
Print Assumptions C13_restore_no_faults.

(* ---- record of the fixed finding: the previous restore ([restore_backup false]) ------------------- *)
Definition w_id : bytes := [98; 107; 49]%N.
Definition w_f1 : path := [100; 98; 47; 99; 112; 117; 47; 50; 48; 50; 54; 47; 48; 49; 47; 48; 49; 47; 48; 48; 47; 97; 46; 112; 97; 114; 113; 117; 101; 116]%N.
Definition w_f2 : path := [100; 98; 47; 99; 112; 117; 47; 50; 48; 50; 54; 47; 48; 49; 47; 48; 49; 47; 48; 49; 47; 98; 46; 112; 97; 114; 113; 117; 101; 116]%N.
Definition w_src : tree := [(w_f1, [1;2;3]%N); (w_f2, [4;5]%N)].
Definition w_rfaults : rfaults :=
  {| rf_read_manifest := false; rf_list_bk := false; rf_read_bk := fun _ => false;
     rf_write_dst := fun p => bytes_eqb p w_f2;
     rf_read_meta := false; rf_read_cfg := false; rf_write_sqlite := false; rf_write_config := false |}.
Definition no_bopts : bopts := {| bo_meta := false; bo_cfg := false |}.
Definition all_bopts : bopts := {| bo_meta := true; bo_cfg := true |}.
Definition data_only : ropts := {| ro_data := true; ro_meta := false; ro_cfg := false |}.
Definition w_bk : bstore := snd (create_backup 100 no_bfaults no_bopts empty_lenv w_id w_src empty_bstore).

(* it reported success although a file of the backup could not be written ... *)
Theorem C13_restore_reports_refuted :
  exists R O id bk pg dst' env' p d,
    restore_backup false R O id bk [] empty_lenv = (ROk, pg, dst', env') /\ ro_data O = true /\
    p <> [] /\ visible p = true /\ plookup (data_prefix id ++ p) (bs_files bk) = Some d /\
    plookup p dst' = None.
Proof.
  exists w_rfaults, data_only, w_id, w_bk.
  eexists. eexists. eexists. exists w_f2, [4;5]%N.
  split; [vm_compute; reflexivity|]. repeat split; try (vm_compute; congruence).
Qed.
Print Assumptions C13_restore_reports_refuted.

(* ... and in general: whatever per-file read/write faults occurred, a data restore reported success
   as soon as the manifest and the listing could be read. *)
Theorem C13_restore_swallows_errors : forall R O id bk dst env m,
  rf_read_manifest R = false -> rf_list_bk R = false -> plookup id (bs_manifests bk) = Some m ->
  ro_meta O = false -> ro_cfg O = false ->
  fst (fst (fst (restore_backup false R O id bk dst env))) = ROk.
Proof. exact restore_swallows_errors. Qed.
Print Assumptions C13_restore_swallows_errors.

(* ---- non-vacuity -------------------------------------------------------------------------- *)
Definition e_meta : path := [97; 114; 99; 95; 100; 98; 46; 100; 98; 47; 99; 112; 117; 47; 109; 101; 116; 97; 100; 97; 116; 97; 47; 118; 49; 46; 109; 101; 116; 97; 100; 97; 116; 97; 46; 106; 115; 111; 110]%N.
Definition e_junk : path := [100; 98; 47; 99; 112; 117; 47; 110; 111; 116; 101; 115; 46; 116; 120; 116]%N.
Definition e_hidden : path := [100; 98; 47; 99; 112; 117; 47; 46; 104; 105; 100; 100; 101; 110; 46; 112; 97; 114; 113; 117; 101; 116]%N.
Definition e_src : tree := [(w_f1, [1;2;3]%N); (e_meta, [9]%N); (e_junk, [7;7]%N); (e_hidden, [8]%N); (w_f2, [4;5]%N)].
Definition e_benv : lenv := {| e_sqlite := Some [83;81;76]%N; e_config := Some [116;111;109;108]%N; e_sqlite_prev := None; e_config_prev := None |}.
Definition e_renv : lenv := {| e_sqlite := Some [111;108;100]%N; e_config := None; e_sqlite_prev := None; e_config_prev := None |}.

(* a concrete tree (data file, Iceberg metadata, a non-selected file, a hidden file) with both optional
   parts, restored in full over an existing SQLite file *)
Example C13_roundtrip_nonvacuous :
  let '(br, _, bk) := create_backup 100 no_bfaults all_bopts e_benv w_id e_src empty_bstore in
  let '(rr, rpg, dst, env') := restore_backup true no_rfaults all_ropts w_id bk [] e_renv in
  rr = ROk /\ pg_total_files rpg = 3 /\
  plookup w_f1 dst = Some [1;2;3]%N /\ plookup e_meta dst = Some [9]%N /\ plookup w_f2 dst = Some [4;5]%N /\
  plookup e_junk dst = None /\ plookup e_hidden dst = None /\
  e_sqlite env' = Some [83;81;76]%N /\ e_sqlite_prev env' = Some [111;108;100]%N /\ e_config env' = Some [116;111;109;108]%N.
Proof. vm_compute. repeat split; reflexivity. Qed.

(* the hypothesis of C13_restore_reports is satisfiable, and the combination it is about: a data-file
   fault together with a metadata + config restore that would succeed is reported as a failure
   (and, the data step failing first, the SQLite file is not touched) *)
Example C13_restore_reports_nonvacuous :
  let bk := snd (create_backup 100 no_bfaults all_bopts e_benv w_id w_src empty_bstore) in
  fst (fst (fst (restore_backup true no_rfaults all_ropts w_id bk [] e_renv))) = ROk /\
  fst (fst (fst (restore_backup true w_rfaults all_ropts w_id bk [] e_renv))) = RFailed /\
  plookup w_f1 (snd (fst (restore_backup true w_rfaults all_ropts w_id bk [] e_renv))) = Some [1;2;3]%N /\
  e_sqlite (snd (restore_backup true w_rfaults all_ropts w_id bk [] e_renv)) = Some [111;108;100]%N.
Proof. vm_compute. repeat split; reflexivity. Qed.

(* the hypotheses of C13_end_to_end are satisfiable WITH faults present (a read fault on a file the
   backup does not select, a write fault on a path that is not in the backup) *)
Example C13_end_to_end_nonvacuous :
  let F := {| bf_list_src := false; bf_read_src := fun p => bytes_eqb p e_junk;
              bf_write_bk := fun _ => false; bf_write_manifest := false; bf_write_meta := true; bf_write_cfg := false |} in
  let R := {| rf_read_manifest := false; rf_list_bk := false; rf_read_bk := fun _ => false;
              rf_write_dst := fun p => bytes_eqb p e_junk;
              rf_read_meta := true; rf_read_cfg := false; rf_write_sqlite := false; rf_write_config := false |} in
  let '(br, _, bk) := create_backup 100 F all_bopts e_benv w_id e_src empty_bstore in
  let '(rr, rpg, _, _) := restore_backup true R all_ropts w_id bk [] empty_lenv in
  (exists m, br = BOk m /\ m_skipped m = 0 /\ m_has_meta m = false /\ m_has_cfg m = true) /\ rr = ROk /\
  pg_processed rpg = pg_total_files rpg.
Proof. vm_compute. split; [eexists; repeat split; reflexivity|]. repeat split; reflexivity. Qed.

(* a backup that skipped a file is flagged (1 of 11 files unreadable, ratio 10 %) *)
Example C13_flags_nonvacuous :
  let many := map (fun n => (w_f1 ++ [n], [n])) [1;2;3;4;5;6;7;8;9;10;11]%N in
  let src := map (fun kv => (fst kv ++ s_parquet, snd kv)) many in
  let bad := (w_f1 ++ [3]%N) ++ s_parquet in
  let F := {| bf_list_src := false; bf_read_src := fun p => bytes_eqb p bad;
              bf_write_bk := fun _ => false; bf_write_manifest := false; bf_write_meta := false; bf_write_cfg := false |} in
  match fst (fst (create_backup 100 F no_bopts empty_lenv w_id src empty_bstore)) with
  | BOk m => m_skipped m = 1 /\ m_total_files m = 11
  | BFailed => False
  end.
Proof. vm_compute. split; reflexivity. Qed.
