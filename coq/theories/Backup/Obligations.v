(* C13 obligations over the parameters regenerated from the current Go source
   (coq/gen/Params_Backup.v, written by tools/props/C13.py on every run). *)
From Coq Require Import List ZArith NArith Bool Lia.
From Arc Require Import Lib.AList Backup.Model Backup.Proofs.
From ArcGen Require Import Params_Backup.
Import ListNotations.
Open Scope Z_scope.

(* With the skip ratio the source declares NOW (maxSkipRatio, in 1/1000), a backup none of whose
   inventoried files could be read never reports success - for every tree and fault set. *)
Theorem C13_deployed_all_unreadable_fails : forall F O env id src bk,
  backup_files src <> [] ->
  (forall p, In p (backup_files src) -> bf_read_src F p = true) ->
  fst (fst (create_backup skip_permille F O env id src bk)) = BFailed.
Proof.
  intros F O env id src bk Hne Hall. apply all_unreadable_fails; [|exact Hne|exact Hall].
  unfold skip_permille. lia.
Qed.
Print Assumptions C13_deployed_all_unreadable_fails.
