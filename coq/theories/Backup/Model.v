(* Model of internal/backup: Manager.CreateBackup / copyDataFiles / checkSkipRatio
   (backup.go), Manager.RestoreBackup / restoreDataFiles / streamRestoreFile (restore.go),
   the manifest fields that matter (manifest.go) and GetBackup (manager.go).

   Storage backends are association lists path -> bytes.  A backend call may fail; which
   calls fail is given by a fault oracle (functions of the path), so a theorem quantified
   over the oracle covers every subset of failing files.  A failing call has no effect on
   the store.  Listing is the LocalBackend listing: every stored file under the prefix
   whose base name does not start with '.', in store order.

   Paths and contents are byte strings ([list N], every element < 256).
   The optional parts of a backup are modelled too: BackupOptions.IncludeMetadata / IncludeConfig
   copy the shared SQLite database and arc.toml from the local file system ([lenv]) into the backup
   (non-fatal on failure; the manifest records HasMetadata / HasConfig), and RestoreOptions
   RestoreData / RestoreMetadata / RestoreConfig select what RestoreBackup brings back, in that
   order, stopping at the first step that fails.  The separate Iceberg catalog database
   (iceberg.catalog_db_path) is not modelled. *)
From Coq Require Import List ZArith NArith Bool.
From Arc Require Import Lib.AList.
Import ListNotations.
Open Scope Z_scope.

Definition bytes := list N.
Definition path := bytes.
Definition tree := list (path * bytes).

Fixpoint bytes_eqb (a b : bytes) : bool :=
  match a, b with
  | [], [] => true
  | x :: a', y :: b' => N.eqb x y && bytes_eqb a' b'
  | _, _ => false
  end.

Definition plookup {V} (p : path) (t : list (path * V)) : option V := lookup bytes_eqb p t.
Definition pinsert {V} (p : path) (v : V) (t : list (path * V)) : list (path * V) := insert bytes_eqb p v t.

Fixpoint has_prefix (pre s : bytes) : bool :=
  match pre, s with
  | [], _ => true
  | x :: pre', y :: s' => N.eqb x y && has_prefix pre' s'
  | _ :: _, [] => false
  end.

Definition has_suffix (suf s : bytes) : bool := has_prefix (rev suf) (rev s).

Fixpoint contains (sub s : bytes) : bool :=
  has_prefix sub s || match s with [] => false | _ :: s' => contains sub s' end.

(* strings.TrimPrefix *)
Fixpoint drop_prefix (pre s : bytes) : option bytes :=
  match pre, s with
  | [], _ => Some s
  | x :: pre', y :: s' => if N.eqb x y then drop_prefix pre' s' else None
  | _ :: _, [] => None
  end.
Definition trim_prefix (pre s : bytes) : bytes :=
  match drop_prefix pre s with Some r => r | None => s end.

Definition slash : N := 47.
Definition dot : N := 46.

(* last path component *)
Definition base_step (acc : bytes) (c : N) : bytes := if N.eqb c slash then [] else acc ++ [c].
Definition basename (p : path) : bytes := fold_left base_step p [].

(* LocalBackend.List / ListObjects skip files whose NAME starts with '.' (directories whose
   name starts with '.' are still walked) *)
Definition visible (p : path) : bool := negb (has_prefix [dot] (basename p)).

Definition s_parquet : bytes := [46;112;97;114;113;117;101;116]%N.             (* ".parquet" *)
Definition s_metadata : bytes := [47;109;101;116;97;100;97;116;97;47]%N.       (* "/metadata/" *)
Definition s_data : bytes := [47;100;97;116;97;47]%N.                          (* "/data/" *)
Definition s_unknown : bytes := [117;110;107;110;111;119;110]%N.               (* "unknown" *)

Definition is_parquet (p : path) : bool := has_suffix s_parquet p.
(* isIcebergMetadata; the caller tests the .parquet branch first *)
Definition is_iceberg_meta (p : path) : bool := contains s_metadata p && negb (has_suffix s_parquet p).

(* a file the backup copies: listed, and parquet or Iceberg metadata *)
Definition selected (p : path) : bool := visible p && (is_parquet p || is_iceberg_meta p).

Definition data_prefix (id : bytes) : bytes := id ++ s_data.

(* LocalBackend.List(prefix) for a prefix that is "" or ends in '/' *)
Definition list_prefix {V} (pre : bytes) (t : list (path * V)) : list path :=
  filter (fun p => has_prefix pre p && visible p) (map fst t).

(* ---- parseDBMeasurement: strings.SplitN(path, "/", 3) --------------------------------- *)
Fixpoint split_first (s : bytes) : bytes * option bytes :=     (* up to the first '/', rest *)
  match s with
  | [] => ([], None)
  | c :: r => if N.eqb c slash then ([], Some r)
              else let '(a, b) := split_first r in (c :: a, b)
  end.
Definition parse_db_measurement (p : path) : bytes * bytes :=
  match split_first p with
  | (d, None) => (d, s_unknown)
  | (d, Some r) => (d, fst (split_first r))
  end.

(* ---- manifest -------------------------------------------------------------------------- *)
Record meas_info := { mi_name : bytes; mi_files : Z; mi_size : Z }.
Record db_info := { di_name : bytes; di_files : Z; di_size : Z; di_meas : list meas_info }.
Record manifest := {
  m_total_files : Z;          (* inventoried .parquet files *)
  m_total_size : Z;
  m_skipped : Z;              (* SkippedFiles: non-zero = the backup is incomplete *)
  m_dbs : list db_info;
  m_has_meta : bool;          (* HasMetadata: metadata/arc.db is in the backup *)
  m_has_cfg : bool            (* HasConfig: config/arc.toml is in the backup *)
}.

Definition blen (b : bytes) : Z := Z.of_nat (length b).

Fixpoint add_meas (name : bytes) (sz : Z) (l : list meas_info) : list meas_info :=
  match l with
  | [] => [{| mi_name := name; mi_files := 1; mi_size := sz |}]
  | m :: r => if bytes_eqb (mi_name m) name
              then {| mi_name := name; mi_files := mi_files m + 1; mi_size := mi_size m + sz |} :: r
              else m :: add_meas name sz r
  end.
Fixpoint add_db (db meas : bytes) (sz : Z) (l : list db_info) : list db_info :=
  match l with
  | [] => [{| di_name := db; di_files := 1; di_size := sz;
              di_meas := add_meas meas sz [] |}]
  | d :: r => if bytes_eqb (di_name d) db
              then {| di_name := db; di_files := di_files d + 1; di_size := di_size d + sz;
                      di_meas := add_meas meas sz (di_meas d) |} :: r
              else d :: add_db db meas sz r
  end.
Definition inventory (files : list (path * Z)) : list db_info :=
  fold_left (fun acc '(p, sz) => let '(d, m) := parse_db_measurement p in add_db d m sz acc) files [].

(* ---- stores and fault oracles ------------------------------------------------------------ *)
(* the backup destination: files (full paths "<id>/data/<orig>") and one manifest per id *)
(* ... plus, per id, the optional "<id>/metadata/arc.db" and "<id>/config/arc.toml" *)
Record bstore := { bs_files : tree; bs_manifests : list (bytes * manifest);
                   bs_meta : list (bytes * bytes); bs_cfg : list (bytes * bytes) }.
Definition empty_bstore : bstore := {| bs_files := []; bs_manifests := []; bs_meta := []; bs_cfg := [] |}.

(* the local file system next to the server: the shared SQLite database and arc.toml (None: not
   configured / no such file) and the ".before-restore" copies a restore leaves behind *)
Record lenv := { e_sqlite : option bytes; e_config : option bytes;
                 e_sqlite_prev : option bytes; e_config_prev : option bytes }.
Definition empty_lenv : lenv := {| e_sqlite := None; e_config := None; e_sqlite_prev := None; e_config_prev := None |}.

Record bopts := { bo_meta : bool; bo_cfg : bool }.                       (* BackupOptions *)
Record ropts := { ro_data : bool; ro_meta : bool; ro_cfg : bool }.       (* RestoreOptions *)
Definition all_ropts : ropts := {| ro_data := true; ro_meta := true; ro_cfg := true |}.

Record bfaults := {
  bf_list_src : bool;                 (* ListObjects on the data storage fails *)
  bf_read_src : path -> bool;         (* ReadTo on the data storage fails (file gone / unreadable) *)
  bf_write_bk : path -> bool;         (* WriteReader on the backup storage fails; keyed by the ORIGINAL path *)
  bf_write_manifest : bool;
  bf_write_meta : bool;               (* writing metadata/arc.db to the backup storage fails *)
  bf_write_cfg : bool                 (* writing config/arc.toml to the backup storage fails *)
}.
Record rfaults := {
  rf_read_manifest : bool;
  rf_list_bk : bool;                  (* List on the backup storage fails *)
  rf_read_bk : path -> bool;          (* ReadTo on the backup storage fails; keyed by the ORIGINAL path *)
  rf_write_dst : path -> bool;        (* WriteReader on the data storage fails *)
  rf_read_meta : bool;                (* reading metadata/arc.db from the backup storage fails *)
  rf_read_cfg : bool;
  rf_write_sqlite : bool;             (* writing the local SQLite database file fails *)
  rf_write_config : bool              (* writing the local arc.toml fails *)
}.
Definition no_bfaults : bfaults :=
  {| bf_list_src := false; bf_read_src := fun _ => false; bf_write_bk := fun _ => false; bf_write_manifest := false;
     bf_write_meta := false; bf_write_cfg := false |}.
Definition no_rfaults : rfaults :=
  {| rf_read_manifest := false; rf_list_bk := false; rf_read_bk := fun _ => false; rf_write_dst := fun _ => false;
     rf_read_meta := false; rf_read_cfg := false; rf_write_sqlite := false; rf_write_config := false |}.

(* ---- CreateBackup ------------------------------------------------------------------------ *)
Record progress := {
  pg_completed : bool;                (* Status == "completed" (else "failed") *)
  pg_total_files : Z; pg_processed : Z; pg_skipped : Z; pg_total_bytes : Z; pg_processed_bytes : Z
}.

Record cstate := { cs_bk : tree; cs_processed : Z; cs_bytes : Z; cs_skipped : Z }.
Inductive cresult := CDone (s : cstate) | CFatal (s : cstate).

(* copyDataFiles over one file group: [sk] is the group's local skip counter, added to the
   progress only when the group finishes *)
Fixpoint copy_files (F : bfaults) (pre : bytes) (src : tree) (files : list path) (sk : Z) (st : cstate) : cresult :=
  match files with
  | [] => CDone {| cs_bk := cs_bk st; cs_processed := cs_processed st; cs_bytes := cs_bytes st;
                   cs_skipped := cs_skipped st + sk |}
  | p :: r =>
      match (if bf_read_src F p then None else plookup p src) with
      | None => copy_files F pre src r (sk + 1) st                     (* errBackupRead: skip *)
      | Some d =>
          if bf_write_bk F p then CFatal st                            (* any other failure aborts *)
          else copy_files F pre src r sk
                 {| cs_bk := pinsert (pre ++ p) d (cs_bk st); cs_processed := cs_processed st + 1;
                    cs_bytes := cs_bytes st + blen d; cs_skipped := cs_skipped st |}
      end
  end.

(* checkSkipRatio: float64(skipped) > maxSkipRatio*float64(total), ratio given in 1/1000 *)
Definition skip_ratio_exceeded (permille skipped total : Z) : bool :=
  negb (skipped =? 0) && negb (total =? 0) && (permille * total <? 1000 * skipped).

Inductive bresult := BOk (m : manifest) | BFailed.

Definition parquet_files (src : tree) : list path := filter is_parquet (list_prefix [] src).
Definition iceberg_files (src : tree) : list path :=
  filter (fun p => negb (is_parquet p) && is_iceberg_meta p) (list_prefix [] src).
Definition size_of (src : tree) (p : path) : Z := match plookup p src with Some d => blen d | None => 0 end.

Definition failed_progress (total processed skipped tbytes pbytes : Z) : progress :=
  {| pg_completed := false; pg_total_files := total; pg_processed := processed; pg_skipped := skipped;
     pg_total_bytes := tbytes; pg_processed_bytes := pbytes |}.

(* steps 3 and 4 of CreateBackup: an optional part is stored iff it was requested, exists locally
   and the write to the backup storage succeeds; any failure is only logged *)
Definition part_stored (requested : bool) (local : option bytes) (write_fails : bool) : option bytes :=
  if requested then (if write_fails then None else local) else None.
Definition store_part (id : bytes) (o : option bytes) (l : list (bytes * bytes)) : list (bytes * bytes) :=
  match o with Some d => pinsert id d l | None => l end.
Definition is_some {A} (o : option A) : bool := match o with Some _ => true | None => false end.

Definition create_backup (permille : Z) (F : bfaults) (O : bopts) (env : lenv) (id : bytes) (src : tree) (bk : bstore)
  : bresult * progress * bstore :=
  if bf_list_src F then (BFailed, failed_progress 0 0 0 0 0, bk) else
  let pq := parquet_files src in
  let ice := iceberg_files src in
  let sized := map (fun p => (p, size_of src p)) pq in
  let total_files := Z.of_nat (length pq) in
  let total_size := fold_left (fun a x => a + snd x) sized 0 in
  let ptotal := total_files + Z.of_nat (length ice) in
  let pre := data_prefix id in
  let st0 := {| cs_bk := bs_files bk; cs_processed := 0; cs_bytes := 0; cs_skipped := 0 |} in
  let fail st meta cfg := (BFailed, failed_progress ptotal (cs_processed st) (cs_skipped st) total_size (cs_bytes st),
                  {| bs_files := cs_bk st; bs_manifests := bs_manifests bk;
                     bs_meta := store_part id meta (bs_meta bk); bs_cfg := store_part id cfg (bs_cfg bk) |}) in
  match copy_files F pre src pq 0 st0 with
  | CFatal st => fail st None None
  | CDone st1 =>
      match (match ice with [] => CDone st1 | _ => copy_files F pre src ice 0 st1 end) with
      | CFatal st => fail st None None
      | CDone st2 =>
          if skip_ratio_exceeded permille (cs_skipped st2) (Z.of_nat (length pq + length ice)) then fail st2 None None
          else
            let meta := part_stored (bo_meta O) (e_sqlite env) (bf_write_meta F) in
            let cfg := part_stored (bo_cfg O) (e_config env) (bf_write_cfg F) in
            if bf_write_manifest F then fail st2 meta cfg
            else
            let m := {| m_total_files := total_files; m_total_size := total_size;
                        m_skipped := cs_skipped st2; m_dbs := inventory sized;
                        m_has_meta := is_some meta; m_has_cfg := is_some cfg |} in
            (BOk m,
             {| pg_completed := true; pg_total_files := ptotal; pg_processed := cs_processed st2;
                pg_skipped := cs_skipped st2; pg_total_bytes := total_size; pg_processed_bytes := cs_bytes st2 |},
             {| bs_files := cs_bk st2; bs_manifests := pinsert id m (bs_manifests bk);
                bs_meta := store_part id meta (bs_meta bk); bs_cfg := store_part id cfg (bs_cfg bk) |})
      end
  end.

(* ---- RestoreBackup ----------------------------------------------------------------------- *)
Record rstate := { rs_dst : tree; rs_processed : Z; rs_bytes : Z; rs_failed : Z }.

(* one file of restoreDataFiles is restored iff this holds *)
Definition restorable (R : rfaults) (pre : bytes) (bk : tree) (q : path) : bool :=
  let p := trim_prefix pre q in
  negb (bytes_eqb p []) && negb (bytes_eqb p q) &&
  negb (rf_read_bk R p) && (match plookup q bk with Some _ => true | None => false end) &&
  negb (rf_write_dst R p).

(* the files the loop does not silently `continue` over before attempting a copy *)
Definition attempted (pre : bytes) (q : path) : bool :=
  let p := trim_prefix pre q in negb (bytes_eqb p []) && negb (bytes_eqb p q).

Fixpoint restore_files (R : rfaults) (pre : bytes) (bk : tree) (files : list path) (st : rstate) : rstate :=
  match files with
  | [] => st
  | q :: r =>
      let p := trim_prefix pre q in
      if bytes_eqb p [] || bytes_eqb p q then restore_files R pre bk r st
      else
        match (if rf_read_bk R p then None else plookup q bk) with
        | None => restore_files R pre bk r      (* logged, `continue` *)
                    {| rs_dst := rs_dst st; rs_processed := rs_processed st; rs_bytes := rs_bytes st;
                       rs_failed := rs_failed st + 1 |}
        | Some d =>
            if rf_write_dst R p
            then restore_files R pre bk r
                   {| rs_dst := rs_dst st; rs_processed := rs_processed st; rs_bytes := rs_bytes st;
                      rs_failed := rs_failed st + 1 |}
            else restore_files R pre bk r
                   {| rs_dst := pinsert p d (rs_dst st); rs_processed := rs_processed st + 1;
                      rs_bytes := rs_bytes st + blen d; rs_failed := rs_failed st |}
        end
  end.

Inductive rresult := ROk | RFailed.

(* step 2 of RestoreBackup (restoreDataFiles).
   [strict] = true : the current code (/repo 903522c: failures are counted and make the restore fail);
   [strict] = false: the previous code (a per-file failure was logged and forgotten).
   A fault is "the streaming call for this path fails"; the code makes exactly one ReadTo and one
   WriteReader call per file (no retry), and a failed call leaves the store unchanged, so it does not
   matter to the model whether the call failed before touching the stream or after moving k bytes of
   it, nor whether a second call would have succeeded - the harness injects all of these shapes. *)
Definition restore_data (strict : bool) (R : rfaults) (id : bytes) (bk : bstore) (m : manifest) (dst : tree)
  : rresult * progress * tree :=
  if rf_list_bk R then (RFailed, failed_progress 0 0 0 0 0, dst) else
  let pre := data_prefix id in
  let files := list_prefix pre (bs_files bk) in
  let st := restore_files R pre (bs_files bk) files
              {| rs_dst := dst; rs_processed := 0; rs_bytes := 0; rs_failed := 0 |} in
  let ok := negb (strict && (0 <? rs_failed st)) in
  ((if ok then ROk else RFailed),
   {| pg_completed := ok; pg_total_files := Z.of_nat (length files); pg_processed := rs_processed st;
      pg_skipped := 0; pg_total_bytes := m_total_size m; pg_processed_bytes := rs_bytes st |},
   rs_dst st).

(* steps 3 and 4 (restoreSQLiteFile / restoreConfig) on one local file: read the part from the
   backup, keep the current file as ".before-restore", overwrite it.
   Result: (succeeded or not requested, current file, .before-restore copy) *)
Definition restore_part (requested has : bool) (read_fails write_fails : bool) (blob cur prev : option bytes)
  : bool * option bytes * option bytes :=
  if requested && has then
    match (if read_fails then None else blob) with
    | None => (false, cur, prev)
    | Some d =>
        let prev' := match cur with Some o => Some o | None => prev end in
        if write_fails then (false, cur, prev') else (true, Some d, prev')
    end
  else (true, cur, prev).

Definition set_failed (p : progress) : progress :=
  {| pg_completed := false; pg_total_files := pg_total_files p; pg_processed := pg_processed p; pg_skipped := pg_skipped p;
     pg_total_bytes := pg_total_bytes p; pg_processed_bytes := pg_processed_bytes p |}.
Definition idle_progress : progress :=
  {| pg_completed := true; pg_total_files := 0; pg_processed := 0; pg_skipped := 0; pg_total_bytes := 0; pg_processed_bytes := 0 |}.

Definition restore_backup (strict : bool) (R : rfaults) (O : ropts) (id : bytes) (bk : bstore) (dst : tree) (env : lenv)
  : rresult * progress * tree * lenv :=
  match (if rf_read_manifest R then None else plookup id (bs_manifests bk)) with
  | None => (RFailed, failed_progress 0 0 0 0 0, dst, env)
  | Some m =>
      let '(r1, pg1, dst1) := if ro_data O then restore_data strict R id bk m dst else (ROk, idle_progress, dst) in
      match r1 with
      | RFailed => (RFailed, pg1, dst1, env)                   (* returned on the spot: nothing else is restored *)
      | ROk =>
          let '(ok2, sq, sqp) := restore_part (ro_meta O) (m_has_meta m) (rf_read_meta R) (rf_write_sqlite R)
                                   (plookup id (bs_meta bk)) (e_sqlite env) (e_sqlite_prev env) in
          let env2 := {| e_sqlite := sq; e_config := e_config env; e_sqlite_prev := sqp; e_config_prev := e_config_prev env |} in
          if negb ok2 then (RFailed, set_failed pg1, dst1, env2) else
          let '(ok3, cf, cfp) := restore_part (ro_cfg O) (m_has_cfg m) (rf_read_cfg R) (rf_write_config R)
                                   (plookup id (bs_cfg bk)) (e_config env) (e_config_prev env) in
          let env3 := {| e_sqlite := sq; e_config := cf; e_sqlite_prev := sqp; e_config_prev := cfp |} in
          if negb ok3 then (RFailed, set_failed pg1, dst1, env3) else (ROk, pg1, dst1, env3)
      end
  end.

(* ---- executable correspondence / oracle ------------------------------------------------------ *)
Definition in_set (l : list path) (p : path) : bool := existsb (bytes_eqb p) l.

Definition tree_sub (a b : tree) : bool :=
  forallb (fun kv => match plookup (fst kv) b with Some d => bytes_eqb d (snd kv) | None => false end) a.
Definition tree_equiv (a b : tree) : bool :=
  tree_sub a b && tree_sub b a && Nat.eqb (length a) (length b).

Definition meas_eqb (a b : meas_info) : bool :=
  bytes_eqb (mi_name a) (mi_name b) && (mi_files a =? mi_files b) && (mi_size a =? mi_size b).
Fixpoint list_eqb {A} (e : A -> A -> bool) (a b : list A) : bool :=
  match a, b with
  | [], [] => true
  | x :: a', y :: b' => e x y && list_eqb e a' b'
  | _, _ => false
  end.
Definition db_eqb (a b : db_info) : bool :=
  bytes_eqb (di_name a) (di_name b) && (di_files a =? di_files b) && (di_size a =? di_size b) &&
  list_eqb meas_eqb (di_meas a) (di_meas b).
(* Go builds Databases from a map: order unspecified, compare as sets (names are distinct) *)
Definition dbs_equiv (a b : list db_info) : bool :=
  Nat.eqb (length a) (length b) && forallb (fun x => existsb (db_eqb x) b) a.

Definition progress_eqb (a b : progress) : bool :=
  Bool.eqb (pg_completed a) (pg_completed b) && (pg_total_files a =? pg_total_files b) &&
  (pg_processed a =? pg_processed b) && (pg_skipped a =? pg_skipped b) &&
  (pg_total_bytes a =? pg_total_bytes b) && (pg_processed_bytes a =? pg_processed_bytes b).

(* what the harness observed on the real Manager *)
Record observed := {
  o_backup_ok : bool;
  o_manifest : manifest;                (* meaningful when o_backup_ok *)
  o_bprogress : progress;
  o_bk_files : tree;                    (* backup storage, paths relative to "<id>/" stripped of nothing: full "<id>/data/.." paths *)
  o_bk_meta : option bytes;             (* "<id>/metadata/arc.db" in the backup storage *)
  o_bk_cfg : option bytes;              (* "<id>/config/arc.toml" *)
  o_restore_ok : bool;
  o_rprogress : progress;
  o_dst : tree;
  o_env : lenv                          (* the local files of the restoring server afterwards *)
}.

Record ccase := {
  c_permille : Z; c_strict : bool; c_id : bytes; c_src : tree;
  c_list_src : bool; c_read_src : list path; c_write_bk : list path; c_write_manifest : bool;
  c_read_manifest : bool; c_list_bk : bool; c_read_bk : list path; c_write_dst : list path;
  c_bopts : bopts; c_benv : lenv; c_write_meta : bool; c_write_cfg : bool;
  c_ropts : ropts; c_renv : lenv; c_read_meta : bool; c_read_cfg : bool; c_write_sqlite : bool; c_write_config : bool;
  c_obs : observed
}.

Definition case_bfaults (c : ccase) : bfaults :=
  {| bf_list_src := c_list_src c; bf_read_src := in_set (c_read_src c);
     bf_write_bk := in_set (c_write_bk c); bf_write_manifest := c_write_manifest c;
     bf_write_meta := c_write_meta c; bf_write_cfg := c_write_cfg c |}.
Definition case_rfaults (c : ccase) : rfaults :=
  {| rf_read_manifest := c_read_manifest c; rf_list_bk := c_list_bk c;
     rf_read_bk := in_set (c_read_bk c); rf_write_dst := in_set (c_write_dst c);
     rf_read_meta := c_read_meta c; rf_read_cfg := c_read_cfg c;
     rf_write_sqlite := c_write_sqlite c; rf_write_config := c_write_config c |}.

Definition manifest_eqb (a b : manifest) : bool :=
  (m_total_files a =? m_total_files b) && (m_total_size a =? m_total_size b) &&
  (m_skipped a =? m_skipped b) && dbs_equiv (m_dbs a) (m_dbs b) &&
  Bool.eqb (m_has_meta a) (m_has_meta b) && Bool.eqb (m_has_cfg a) (m_has_cfg b).

Definition obytes_eqb (a b : option bytes) : bool :=
  match a, b with Some x, Some y => bytes_eqb x y | None, None => true | _, _ => false end.
Definition lenv_eqb (a b : lenv) : bool :=
  obytes_eqb (e_sqlite a) (e_sqlite b) && obytes_eqb (e_config a) (e_config b) &&
  obytes_eqb (e_sqlite_prev a) (e_sqlite_prev b) && obytes_eqb (e_config_prev a) (e_config_prev b).

(* the model run of a case: backup into an empty backup store, restore into empty storage *)
Definition case_model (c : ccase) :=
  let '(br, bp, bk) := create_backup (c_permille c) (case_bfaults c) (c_bopts c) (c_benv c) (c_id c) (c_src c) empty_bstore in
  let '(rr, rp, dst, env) := restore_backup (c_strict c) (case_rfaults c) (c_ropts c) (c_id c) bk [] (c_renv c) in
  (br, bp, bk, rr, rp, dst, env).

Definition case_agrees (c : ccase) : bool :=
  let '(br, bp, bk, rr, rp, dst, env) := case_model c in
  let o := c_obs c in
  (match br with
   | BOk m => o_backup_ok o && manifest_eqb m (o_manifest o)
   | BFailed => negb (o_backup_ok o)
   end) &&
  progress_eqb bp (o_bprogress o) && tree_equiv (bs_files bk) (o_bk_files o) &&
  obytes_eqb (plookup (c_id c) (bs_meta bk)) (o_bk_meta o) && obytes_eqb (plookup (c_id c) (bs_cfg bk)) (o_bk_cfg o) &&
  (match rr with ROk => o_restore_ok o | RFailed => negb (o_restore_ok o) end) &&
  progress_eqb rp (o_rprogress o) && tree_equiv dst (o_dst o) && lenv_eqb env (o_env o).

(* The property evaluated on the IMPLEMENTATION's observations only (the model is not consulted):
   1 restore reported success  => every file of the observed backup is at its original path
     with its content;
   2 backup succeeded and some inventoried file could not be read => manifest.skipped > 0;
   3 no fault at all => backup and restore succeed and (when data was requested) the destination
     holds exactly the selected source files;
   4 restore reported success => every REQUESTED part the observed backup holds is restored:
     the data files (when RestoreData), the SQLite database (when RestoreMetadata and the stored
     manifest says HasMetadata), arc.toml (when RestoreConfig and HasConfig). *)
Definition obs_backup_files (c : ccase) : tree :=
  let pre := data_prefix (c_id c) in
  flat_map (fun kv => match drop_prefix pre (fst kv) with
                      | Some p => if negb (bytes_eqb p []) && visible (fst kv) then [(p, snd kv)] else []
                      | None => [] end) (o_bk_files (c_obs c)).

Definition no_faults (c : ccase) : bool :=
  negb (c_list_src c) && negb (c_write_manifest c) && negb (c_read_manifest c) && negb (c_list_bk c) &&
  negb (c_write_meta c) && negb (c_write_cfg c) && negb (c_read_meta c) && negb (c_read_cfg c) &&
  negb (c_write_sqlite c) && negb (c_write_config c) &&
  match c_read_src c, c_write_bk c, c_read_bk c, c_write_dst c with [], [], [], [] => true | _, _, _, _ => false end.

Definition selected_tree (src : tree) : tree := filter (fun kv => selected (fst kv)) src.

(* (written with [if]: vm_compute is call-by-value, [||] would evaluate both sides) *)
Definition oracle_restore_reports (c : ccase) : bool :=
  let o := c_obs c in
  if o_restore_ok o then
    (if ro_data (c_ropts c) then tree_sub (obs_backup_files c) (o_dst o) else true) &&
    (if ro_meta (c_ropts c) && o_backup_ok o && m_has_meta (o_manifest o)
     then is_some (o_bk_meta o) && obytes_eqb (o_bk_meta o) (e_sqlite (o_env o)) else true) &&
    (if ro_cfg (c_ropts c) && o_backup_ok o && m_has_cfg (o_manifest o)
     then is_some (o_bk_cfg o) && obytes_eqb (o_bk_cfg o) (e_config (o_env o)) else true)
  else true.
Definition oracle_flags_incomplete (c : ccase) : bool :=
  let o := c_obs c in
  if o_backup_ok o then
    if existsb (fun p => in_set (c_read_src c) p) (parquet_files (c_src c) ++ iceberg_files (c_src c))
    then 0 <? m_skipped (o_manifest o) else true
  else true.
Definition oracle_roundtrip (c : ccase) : bool :=
  let o := c_obs c in
  if no_faults c then
    o_backup_ok o && o_restore_ok o && (m_skipped (o_manifest o) =? 0) &&
    (if ro_data (c_ropts c) then tree_equiv (selected_tree (c_src c)) (o_dst o) else true) &&
    (if ro_meta (c_ropts c) && bo_meta (c_bopts c) && is_some (e_sqlite (c_benv c))
     then obytes_eqb (e_sqlite (c_benv c)) (e_sqlite (o_env o)) else true) &&
    (if ro_cfg (c_ropts c) && bo_cfg (c_bopts c) && is_some (e_config (c_benv c))
     then obytes_eqb (e_config (c_benv c)) (e_config (o_env o)) else true)
  else true.

Definition case_oracle (c : ccase) : bool :=
  oracle_restore_reports c && oracle_flags_incomplete c && oracle_roundtrip c.
