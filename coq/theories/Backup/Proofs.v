(* Proofs about the backup / restore model (C13). *)
From Coq Require Import List ZArith NArith Bool Lia.
From Arc Require Import Lib.AList Backup.Model.
Import ListNotations.
Open Scope Z_scope.

(* ---- byte strings ------------------------------------------------------------------------ *)
Lemma bytes_eqb_spec : forall a b, reflect (a = b) (bytes_eqb a b).
Proof.
  induction a as [|x a IH]; destruct b as [|y b]; cbn; try (constructor; congruence).
  destruct (N.eqb_spec x y) as [->|Hne]; cbn.
  - destruct (IH b) as [->|Hne]; constructor; congruence.
  - constructor; congruence.
Qed.

Lemma bytes_eqb_refl a : bytes_eqb a a = true.
Proof. destruct (bytes_eqb_spec a a); congruence. Qed.

Lemma bytes_eqb_true a b : bytes_eqb a b = true -> a = b.
Proof. destruct (bytes_eqb_spec a b); congruence. Qed.

Lemma bytes_eqb_false a b : a <> b -> bytes_eqb a b = false.
Proof. destruct (bytes_eqb_spec a b); congruence. Qed.

Lemma has_prefix_app pre s : has_prefix pre (pre ++ s) = true.
Proof. induction pre as [|x pre IH]; cbn; [reflexivity|]. rewrite N.eqb_refl. exact IH. Qed.

Lemma has_prefix_inv pre : forall s, has_prefix pre s = true -> exists r, s = pre ++ r.
Proof.
  induction pre as [|x pre IH]; intros s H; cbn in *.
  - exists s; reflexivity.
  - destruct s as [|y s]; [discriminate|].
    apply andb_true_iff in H as [Hxy Hr]. apply N.eqb_eq in Hxy; subst y.
    destruct (IH _ Hr) as [r ->]. exists r; reflexivity.
Qed.

Lemma drop_prefix_app pre s : drop_prefix pre (pre ++ s) = Some s.
Proof. induction pre as [|x pre IH]; cbn; [reflexivity|]. rewrite N.eqb_refl. exact IH. Qed.

Lemma drop_prefix_some pre : forall s r, drop_prefix pre s = Some r -> s = pre ++ r.
Proof.
  induction pre as [|x pre IH]; intros s r H; cbn in *.
  - congruence.
  - destruct s as [|y s]; [discriminate|].
    destruct (N.eqb_spec x y) as [->|]; [|discriminate].
    rewrite (IH _ _ H). reflexivity.
Qed.

Lemma trim_prefix_app pre s : trim_prefix pre (pre ++ s) = s.
Proof. unfold trim_prefix. rewrite drop_prefix_app. reflexivity. Qed.

(* a path that the restore loop attempts has the prefix, and its destination is the rest *)
Lemma trim_neq_inv pre q : trim_prefix pre q <> q -> q = pre ++ trim_prefix pre q.
Proof.
  unfold trim_prefix. destruct (drop_prefix pre q) as [r|] eqn:E; [|congruence].
  intros _. apply drop_prefix_some; exact E.
Qed.

Lemma app_neq_self (pre p : bytes) : pre <> [] -> pre ++ p <> p.
Proof.
  intros Hne Heq. apply (f_equal (@length N)) in Heq. rewrite app_length in Heq.
  destruct pre; [congruence|]. cbn in Heq. lia.
Qed.

Lemma data_prefix_nonempty id : data_prefix id <> [].
Proof. unfold data_prefix, s_data. destruct id; cbn; congruence. Qed.

Lemma fold_base_app a b acc : fold_left base_step (a ++ b) acc = fold_left base_step b (fold_left base_step a acc).
Proof. apply fold_left_app. Qed.

Lemma basename_after_slash x p : basename (x ++ slash :: p) = basename p.
Proof.
  unfold basename. rewrite fold_base_app. cbn [fold_left].
  unfold base_step at 2. rewrite N.eqb_refl. reflexivity.
Qed.

Lemma visible_data_prefix id p : visible (data_prefix id ++ p) = visible p.
Proof.
  unfold visible, data_prefix, s_data.
  replace ((id ++ [47; 100; 97; 116; 97; 47]%N) ++ p) with ((id ++ [47; 100; 97; 116; 97]%N) ++ slash :: p).
  - rewrite basename_after_slash. reflexivity.
  - rewrite <- !app_assoc. reflexivity.
Qed.

(* ---- association lists on paths ------------------------------------------------------------ *)
Lemma plookup_insert_same {V} p (v : V) t : plookup p (pinsert p v t) = Some v.
Proof. apply (lookup_insert_same bytes_eqb bytes_eqb_spec). Qed.

Lemma plookup_insert_other {V} p q (v : V) t : p <> q -> plookup p (pinsert q v t) = plookup p t.
Proof. apply (lookup_insert_other bytes_eqb bytes_eqb_spec). Qed.

Lemma plookup_in_keys {V} p (t : list (path * V)) v : plookup p t = Some v -> In p (map fst t).
Proof.
  induction t as [|[k w] r IH]; cbn; [discriminate|].
  destruct (bytes_eqb_spec p k) as [->|]; [left; reflexivity|]. intros H; right; apply IH; exact H.
Qed.

Lemma in_keys_plookup {V} p (t : list (path * V)) : In p (map fst t) -> exists v, plookup p t = Some v.
Proof.
  induction t as [|[k w] r IH]; cbn; [tauto|].
  intros [->|H].
  - rewrite bytes_eqb_refl. eexists; reflexivity.
  - destruct (bytes_eqb p k); [eexists; reflexivity|]. apply IH; exact H.
Qed.

(* ---- counting ------------------------------------------------------------------------------ *)
Fixpoint countb {A} (f : A -> bool) (l : list A) : Z :=
  match l with [] => 0 | x :: r => (if f x then 1 else 0) + countb f r end.

Lemma countb_nonneg {A} (f : A -> bool) l : 0 <= countb f l.
Proof. induction l as [|x r IH]; cbn [countb]; [lia|]. destruct (f x); lia. Qed.

Lemma countb_le_length {A} (f : A -> bool) l : countb f l <= Z.of_nat (length l).
Proof. induction l as [|x r IH]; cbn [countb length]; [lia|]. destruct (f x); lia. Qed.

Lemma countb_app {A} (f : A -> bool) a b : countb f (a ++ b) = countb f a + countb f b.
Proof. induction a as [|x r IH]; cbn [countb app]; [lia|]. rewrite IH. lia. Qed.

Lemma countb_zero {A} (f : A -> bool) l : countb f l = 0 -> forall x, In x l -> f x = false.
Proof.
  induction l as [|y r IH]; cbn [countb]; intros H x Hin; [destruct Hin|].
  pose proof (countb_nonneg f r). destruct (f y) eqn:E; [lia|].
  destruct Hin as [<-|Hin]; [exact E|]. apply IH; [lia|exact Hin].
Qed.

Lemma countb_pos {A} (f : A -> bool) l x : In x l -> f x = true -> 0 < countb f l.
Proof.
  induction l as [|y r IH]; cbn [countb]; intros Hin Hf; [destruct Hin|].
  pose proof (countb_nonneg f r).
  destruct Hin as [->|Hin]; [rewrite Hf; lia|]. specialize (IH Hin Hf). destruct (f y); lia.
Qed.

Lemma countb_full {A} (f : A -> bool) l : countb f l = Z.of_nat (length l) -> forall x, In x l -> f x = true.
Proof.
  induction l as [|y r IH]; cbn [countb length]; intros H x Hin; [destruct Hin|].
  pose proof (countb_le_length f r).
  destruct (f y) eqn:E; [|lia].
  destruct Hin as [<-|Hin]; [exact E|]. apply IH; [lia|exact Hin].
Qed.

Lemma countb_all_false {A} (f : A -> bool) l : (forall x, In x l -> f x = false) -> countb f l = 0.
Proof.
  induction l as [|y r IH]; cbn [countb]; intros H; [reflexivity|].
  rewrite (H y (or_introl eq_refl)). rewrite IH; [reflexivity|]. intros x Hx; apply H; right; exact Hx.
Qed.

Lemma countb_all_true {A} (f : A -> bool) l : (forall x, In x l -> f x = true) -> countb f l = Z.of_nat (length l).
Proof.
  induction l as [|y r IH]; cbn [countb length]; intros H; [reflexivity|].
  rewrite (H y (or_introl eq_refl)). rewrite IH; [lia|]. intros x Hx; apply H; right; exact Hx.
Qed.

(* ---- copyDataFiles ----------------------------------------------------------------------------- *)
(* the source file could be read *)
Definition readable (F : bfaults) (src : tree) (p : path) : bool :=
  negb (bf_read_src F p) && is_some (plookup p src).

Definition copy_spec (F : bfaults) (pre : bytes) (src : tree) (files : list path) (sk : Z) (st st' : cstate) : Prop :=
  (forall p, plookup (pre ++ p) (cs_bk st') =
             if existsb (fun f => bytes_eqb f p && readable F src f) files then plookup p src
             else plookup (pre ++ p) (cs_bk st)) /\
  (forall q, has_prefix pre q = false -> plookup q (cs_bk st') = plookup q (cs_bk st)) /\
  cs_skipped st' = cs_skipped st + sk + countb (fun f => negb (readable F src f)) files /\
  cs_processed st' = cs_processed st + countb (readable F src) files.

Lemma copy_spec_nil F pre src st : copy_spec F pre src [] 0 st st.
Proof. unfold copy_spec; cbn. repeat split; intros; try reflexivity; lia. Qed.

Lemma copy_files_done F pre src : forall files sk st st',
  copy_files F pre src files sk st = CDone st' -> copy_spec F pre src files sk st st'.
Proof.
  induction files as [|f r IH]; intros sk st st' H; cbn [copy_files] in H.
  - inversion H; subst; clear H. unfold copy_spec; cbn. repeat split; intros; try reflexivity; lia.
  - unfold copy_spec. cbn [existsb countb].
    destruct (bf_read_src F f) eqn:Erd.
    + apply IH in H. destruct H as (H1 & H2 & H3 & H4).
      assert (Hr : readable F src f = false) by (unfold readable; rewrite Erd; reflexivity).
      rewrite Hr. cbn [negb]. repeat split.
      * intros p. rewrite andb_false_r. cbn [orb]. apply H1.
      * exact H2.
      * lia.
      * lia.
    + destruct (plookup f src) as [d|] eqn:El.
      * assert (Hr : readable F src f = true) by (unfold readable; rewrite Erd, El; reflexivity).
        destruct (bf_write_bk F f); [discriminate|].
        apply IH in H. destruct H as (H1 & H2 & H3 & H4). cbn [cs_bk cs_skipped cs_processed] in *.
        rewrite Hr. cbn [negb]. repeat split.
        -- intros p. rewrite H1. rewrite andb_true_r.
           destruct (existsb (fun f0 => bytes_eqb f0 p && readable F src f0) r) eqn:Ex.
           ++ rewrite orb_true_r. reflexivity.
           ++ rewrite orb_false_r. destruct (bytes_eqb_spec f p) as [->|Hne].
              ** rewrite plookup_insert_same. symmetry; exact El.
              ** apply plookup_insert_other. intros Heq. apply app_inv_head in Heq. congruence.
        -- intros q Hq. rewrite (H2 q Hq). apply plookup_insert_other.
           intros ->. rewrite has_prefix_app in Hq. discriminate.
        -- lia.
        -- lia.
      * assert (Hr : readable F src f = false) by (unfold readable; rewrite Erd, El; reflexivity).
        apply IH in H. destruct H as (H1 & H2 & H3 & H4).
        rewrite Hr. cbn [negb]. repeat split.
        -- intros p. rewrite andb_false_r. cbn [orb]. apply H1.
        -- exact H2.
        -- lia.
        -- lia.
Qed.

Lemma copy_files_no_write_fault F pre src : (forall p, bf_write_bk F p = false) ->
  forall files sk st, exists st', copy_files F pre src files sk st = CDone st'.
Proof.
  intros Hw. induction files as [|f r IH]; intros sk st; cbn [copy_files]; [eexists; reflexivity|].
  destruct (if bf_read_src F f then None else plookup f src); [|apply IH].
  rewrite Hw. apply IH.
Qed.

(* ---- CreateBackup --------------------------------------------------------------------------------- *)
Definition backup_files (src : tree) : list path := parquet_files src ++ iceberg_files src.

Lemma create_backup_ok permille F O env id src bk m pg bk' :
  create_backup permille F O env id src bk = (BOk m, pg, bk') ->
  exists st1 st2,
    copy_spec F (data_prefix id) src (parquet_files src) 0
      {| cs_bk := bs_files bk; cs_processed := 0; cs_bytes := 0; cs_skipped := 0 |} st1 /\
    copy_spec F (data_prefix id) src (iceberg_files src) 0 st1 st2 /\
    m_skipped m = cs_skipped st2 /\ bs_files bk' = cs_bk st2 /\
    bs_manifests bk' = pinsert id m (bs_manifests bk) /\
    skip_ratio_exceeded permille (cs_skipped st2) (Z.of_nat (length (parquet_files src) + length (iceberg_files src))) = false.
Proof.
  unfold create_backup. intros H.
  destruct (bf_list_src F); [discriminate|].
  destruct (copy_files F (data_prefix id) src (parquet_files src) 0 _) as [st1|st1] eqn:E1; [|discriminate].
  apply copy_files_done in E1.
  destruct (iceberg_files src) as [|i0 ir] eqn:Eice.
  - destruct (skip_ratio_exceeded permille (cs_skipped st1) _) eqn:Esk; [discriminate|].
    destruct (bf_write_manifest F); [discriminate|].
    inversion H; subst; clear H. exists st1, st1. cbn [m_skipped bs_files bs_manifests].
    split; [exact E1|]. split; [apply copy_spec_nil|]. repeat split. exact Esk.
  - rewrite <- Eice in *.
    destruct (copy_files F (data_prefix id) src (iceberg_files src) 0 st1) as [st2|st2] eqn:E2; [|discriminate].
    apply copy_files_done in E2.
    destruct (skip_ratio_exceeded permille (cs_skipped st2) _) eqn:Esk; [discriminate|].
    destruct (bf_write_manifest F); [discriminate|].
    inversion H; subst; clear H. exists st1, st2. cbn [m_skipped bs_files bs_manifests].
    split; [exact E1|]. split; [exact E2|]. repeat split. exact Esk.
Qed.

Lemma in_parquet_files src p : In p (parquet_files src) <-> In p (map fst src) /\ visible p = true /\ is_parquet p = true.
Proof.
  unfold parquet_files, list_prefix. rewrite !filter_In. cbn [has_prefix]. cbn [andb]. tauto.
Qed.

Lemma in_iceberg_files src p :
  In p (iceberg_files src) <-> In p (map fst src) /\ visible p = true /\ is_parquet p = false /\ is_iceberg_meta p = true.
Proof.
  unfold iceberg_files, list_prefix. rewrite !filter_In. cbn [has_prefix]. cbn [andb].
  rewrite andb_true_iff, negb_true_iff. tauto.
Qed.

Lemma in_backup_files src p : In p (backup_files src) <-> In p (map fst src) /\ selected p = true.
Proof.
  unfold backup_files, selected. rewrite in_app_iff, in_parquet_files, in_iceberg_files.
  destruct (visible p), (is_parquet p), (is_iceberg_meta p); cbn; intuition congruence.
Qed.

Lemma selected_nil : selected [] = false.
Proof. reflexivity. Qed.

(* content of the backup store after a successful backup *)
Lemma backup_content permille F O env id src bk m pg bk' :
  create_backup permille F O env id src bk = (BOk m, pg, bk') ->
  (forall p, plookup (data_prefix id ++ p) (bs_files bk') =
             if existsb (fun f => bytes_eqb f p && readable F src f) (backup_files src) then plookup p src
             else plookup (data_prefix id ++ p) (bs_files bk)) /\
  (forall q, has_prefix (data_prefix id) q = false -> plookup q (bs_files bk') = plookup q (bs_files bk)) /\
  m_skipped m = countb (fun f => negb (readable F src f)) (backup_files src) /\
  plookup id (bs_manifests bk') = Some m.
Proof.
  intros H. apply create_backup_ok in H.
  destruct H as (st1 & st2 & (A1 & A2 & A3 & A4) & (B1 & B2 & B3 & B4) & Hm & Hf & Hmf & _).
  cbn [cs_bk cs_skipped cs_processed] in *.
  repeat split.
  - intros p. rewrite Hf, B1, A1. unfold backup_files. rewrite existsb_app.
    match goal with |- (if ?a then _ else if ?b then _ else _) = (if ?c || ?d then _ else _) =>
      change c with b; change d with a; destruct a, b; reflexivity end.
  - intros q Hq. rewrite Hf, (B2 q Hq), (A2 q Hq). reflexivity.
  - rewrite Hm, B3, A3. unfold backup_files. rewrite countb_app. lia.
  - rewrite Hmf. apply plookup_insert_same.
Qed.

(* ---- restoreDataFiles --------------------------------------------------------------------------------- *)
Lemma restore_files_spec R pre bk : forall files st,
  let st' := restore_files R pre bk files st in
  (forall p, plookup p (rs_dst st') =
             if existsb (fun q => restorable R pre bk q && bytes_eqb (trim_prefix pre q) p) files
             then plookup (pre ++ p) bk else plookup p (rs_dst st)) /\
  rs_processed st' = rs_processed st + countb (restorable R pre bk) files /\
  rs_failed st' = rs_failed st + countb (fun q => attempted pre q && negb (restorable R pre bk q)) files.
Proof.
  induction files as [|q r IH]; intros st; cbn [restore_files existsb countb].
  - cbn. repeat split; intros; try reflexivity; lia.
  - assert (Hskip : forall st1,
        restorable R pre bk q = false ->
        (rs_dst st1 = rs_dst st /\ rs_processed st1 = rs_processed st /\
         rs_failed st1 = rs_failed st + (if attempted pre q then 1 else 0)) ->
        let st' := restore_files R pre bk r st1 in
        (forall p, plookup p (rs_dst st') =
           if restorable R pre bk q && bytes_eqb (trim_prefix pre q) p
              || existsb (fun q0 => restorable R pre bk q0 && bytes_eqb (trim_prefix pre q0) p) r
           then plookup (pre ++ p) bk else plookup p (rs_dst st)) /\
        rs_processed st' = rs_processed st + ((if restorable R pre bk q then 1 else 0) + countb (restorable R pre bk) r) /\
        rs_failed st' = rs_failed st +
           ((if attempted pre q && negb (restorable R pre bk q) then 1 else 0) +
            countb (fun q0 => attempted pre q0 && negb (restorable R pre bk q0)) r)).
    { intros st1 Hres (Hd & Hp & Hf). specialize (IH st1). cbn zeta in IH. destruct IH as (I1 & I2 & I3).
      rewrite Hres. cbn [andb orb negb]. rewrite andb_true_r. cbn zeta. repeat split.
      - intros p. rewrite I1, Hd. reflexivity.
      - lia.
      - lia. }
    destruct (bytes_eqb (trim_prefix pre q) []) eqn:E0; cbn [orb].
    { apply Hskip.
      - unfold restorable. rewrite E0. reflexivity.
      - unfold attempted. rewrite E0. cbn. repeat split; lia. }
    destruct (bytes_eqb (trim_prefix pre q) q) eqn:E1.
    { apply Hskip.
      - unfold restorable. rewrite E0, E1. reflexivity.
      - unfold attempted. rewrite E0, E1. cbn. repeat split; lia. }
    assert (Hat : attempted pre q = true) by (unfold attempted; rewrite E0, E1; reflexivity).
    assert (Hq : q = pre ++ trim_prefix pre q).
    { apply trim_neq_inv. intros Heq. rewrite Heq, bytes_eqb_refl in E1. discriminate. }
    destruct (rf_read_bk R (trim_prefix pre q)) eqn:Erd.
    { apply Hskip.
      - unfold restorable. rewrite E0, E1, Erd. reflexivity.
      - rewrite Hat. cbn. repeat split; lia. }
    destruct (plookup q bk) as [d|] eqn:El.
    2:{ apply Hskip.
        - unfold restorable. rewrite E0, E1, Erd, El. reflexivity.
        - rewrite Hat. cbn. repeat split; lia. }
    destruct (rf_write_dst R (trim_prefix pre q)) eqn:Ewr.
    { apply Hskip.
      - unfold restorable. rewrite E0, E1, Erd, El, Ewr. reflexivity.
      - rewrite Hat. cbn. repeat split; lia. }
    assert (Hres : restorable R pre bk q = true)
      by (unfold restorable; rewrite E0, E1, Erd, El, Ewr; reflexivity).
    clear Hskip.
    match goal with |- context [restore_files R pre bk r ?s] => specialize (IH s) end.
    cbn zeta in IH. cbn [rs_dst rs_processed rs_failed] in IH. destruct IH as (I1 & I2 & I3).
    rewrite Hres, Hat. cbn [andb negb]. repeat split; [|lia|lia].
    intros p. rewrite I1.
    destruct (existsb (fun q0 => restorable R pre bk q0 && bytes_eqb (trim_prefix pre q0) p) r).
    { rewrite orb_true_r; reflexivity. }
    rewrite orb_false_r.
    destruct (bytes_eqb_spec (trim_prefix pre q) p) as [Hp|Hne].
    + subst p. rewrite plookup_insert_same. rewrite <- Hq. symmetry; exact El.
    + apply plookup_insert_other. congruence.
Qed.

Lemma in_list_prefix {V} pre (t : list (path * V)) q :
  In q (list_prefix pre t) <-> In q (map fst t) /\ has_prefix pre q = true /\ visible q = true.
Proof. unfold list_prefix. rewrite filter_In, andb_true_iff. tauto. Qed.

(* a backed-up file that the loop restored is at its destination *)
Lemma restored_at_destination R id bk files st p d :
  p <> [] -> In (data_prefix id ++ p) files ->
  restorable R (data_prefix id) bk (data_prefix id ++ p) = true ->
  plookup (data_prefix id ++ p) bk = Some d ->
  plookup p (rs_dst (restore_files R (data_prefix id) bk files st)) = Some d.
Proof.
  intros Hp Hin Hres Hl.
  destruct (restore_files_spec R (data_prefix id) bk files st) as (S1 & _ & _).
  rewrite S1.
  replace (existsb _ files) with true; [exact Hl|].
  symmetry. apply existsb_exists. exists (data_prefix id ++ p). split; [exact Hin|].
  rewrite Hres, trim_prefix_app, bytes_eqb_refl. reflexivity.
Qed.

Lemma attempted_prefixed id p : p <> [] -> attempted (data_prefix id) (data_prefix id ++ p) = true.
Proof.
  intros Hp. unfold attempted. rewrite trim_prefix_app.
  rewrite (bytes_eqb_false p []) by exact Hp.
  rewrite (bytes_eqb_false p (data_prefix id ++ p)); [reflexivity|].
  intros Heq. symmetry in Heq. revert Heq. apply app_neq_self, data_prefix_nonempty.
Qed.

(* ---- step 2 of the restore: restoreDataFiles ---------------------------------------------------------------- *)
(* decomposition of a data restore that got past the listing *)
Lemma restore_data_run strict R id bk m dst r pg dst' :
  restore_data strict R id bk m dst = (r, pg, dst') ->
  pg_completed pg = true ->
    let files := list_prefix (data_prefix id) (bs_files bk) in
    let st := restore_files R (data_prefix id) (bs_files bk) files
                {| rs_dst := dst; rs_processed := 0; rs_bytes := 0; rs_failed := 0 |} in
    dst' = rs_dst st /\ pg_total_files pg = Z.of_nat (length files) /\ pg_processed pg = rs_processed st /\
    r = ROk /\ (strict = true -> rs_failed st = 0).
Proof.
  unfold restore_data. intros H Hc.
  destruct (rf_list_bk R).
  { inversion H; subst. discriminate. }
  cbn zeta.
  inversion H; subst; clear H. cbn [pg_completed pg_total_files pg_processed] in *.
  repeat split.
  - rewrite Hc. reflexivity.
  - intros ->. cbn [andb] in Hc. apply negb_true_iff in Hc. apply Z.ltb_ge in Hc.
    match goal with |- rs_failed ?s = 0 => pose proof (restore_files_spec R (data_prefix id) (bs_files bk)
       (list_prefix (data_prefix id) (bs_files bk)) {| rs_dst := dst; rs_processed := 0; rs_bytes := 0; rs_failed := 0 |}) as (_ & _ & S3) end.
    cbn [rs_failed] in S3.
    match type of S3 with _ = 0 + ?c => assert (0 <= c) by apply countb_nonneg end. lia.
Qed.

(* every visible backed-up file is restored when all attempted files were restorable *)
Lemma all_restorable_all_restored R id bk dst :
  let files := list_prefix (data_prefix id) (bs_files bk) in
  (forall q, In q files -> attempted (data_prefix id) q = true -> restorable R (data_prefix id) (bs_files bk) q = true) ->
  forall p d, p <> [] -> visible p = true -> plookup (data_prefix id ++ p) (bs_files bk) = Some d ->
  plookup p (rs_dst (restore_files R (data_prefix id) (bs_files bk) files
               {| rs_dst := dst; rs_processed := 0; rs_bytes := 0; rs_failed := 0 |})) = Some d.
Proof.
  intros files Hall p d Hp Hv Hl.
  assert (Hin : In (data_prefix id ++ p) files).
  { apply in_list_prefix. repeat split.
    - eapply plookup_in_keys; exact Hl.
    - apply has_prefix_app.
    - rewrite visible_data_prefix; exact Hv. }
  apply restored_at_destination; try assumption.
  apply Hall; [exact Hin|]. apply attempted_prefixed; exact Hp.
Qed.

Lemma restore_data_ok_completed strict R id bk m dst pg dst' :
  restore_data strict R id bk m dst = (ROk, pg, dst') -> pg_completed pg = true.
Proof.
  unfold restore_data. intros H.
  destruct (rf_list_bk R); [discriminate|].
  match type of H with context [negb ?b] => destruct (negb b) end; inversion H; subst; reflexivity.
Qed.

(* current code: the data step succeeds only when every backed-up file is at its destination *)
Lemma restore_data_reports_strict R id bk m dst pg dst' :
  restore_data true R id bk m dst = (ROk, pg, dst') ->
  forall p d, p <> [] -> visible p = true -> plookup (data_prefix id ++ p) (bs_files bk) = Some d ->
  plookup p dst' = Some d.
Proof.
  intros H p d Hp Hv Hl.
  pose proof (restore_data_ok_completed _ _ _ _ _ _ _ _ H) as Hc.
  destruct (restore_data_run _ _ _ _ _ _ _ _ _ H Hc) as (Hd & _ & _ & _ & Hfail).
  specialize (Hfail eq_refl). rewrite Hd.
  apply all_restorable_all_restored; try assumption.
  intros q Hq Hat.
  pose proof (restore_files_spec R (data_prefix id) (bs_files bk) (list_prefix (data_prefix id) (bs_files bk))
                {| rs_dst := dst; rs_processed := 0; rs_bytes := 0; rs_failed := 0 |}) as (_ & _ & S3).
  cbn [rs_failed] in S3. rewrite Hfail in S3.
  assert (Hz : countb (fun q0 => attempted (data_prefix id) q0 && negb (restorable R (data_prefix id) (bs_files bk) q0))
                 (list_prefix (data_prefix id) (bs_files bk)) = 0) by lia.
  pose proof (countb_zero _ _ Hz q Hq) as Hq0. cbn beta in Hq0. rewrite Hat in Hq0. cbn [andb] in Hq0.
  apply negb_false_iff in Hq0. exact Hq0.
Qed.

(* the previous code: whatever per-file faults occur, the data step reports success *)
Lemma restore_data_swallows_errors R id bk m dst :
  rf_list_bk R = false ->
  fst (fst (restore_data false R id bk m dst)) = ROk /\
  pg_completed (snd (fst (restore_data false R id bk m dst))) = true.
Proof.
  intros H2. unfold restore_data. rewrite H2. cbn. split; reflexivity.
Qed.

(* for both variants, completion together with processed = total means everything is there *)
Lemma restore_data_counts_complete strict R id bk m dst r pg dst' :
  restore_data strict R id bk m dst = (r, pg, dst') ->
  pg_completed pg = true -> pg_processed pg = pg_total_files pg ->
  forall p d, p <> [] -> visible p = true -> plookup (data_prefix id ++ p) (bs_files bk) = Some d ->
  plookup p dst' = Some d.
Proof.
  intros H Hc Hcnt p d Hp Hv Hl.
  destruct (restore_data_run _ _ _ _ _ _ _ _ _ H Hc) as (Hd & Ht & Hpr & _ & _).
  rewrite Hd. apply all_restorable_all_restored; try assumption.
  intros q Hq _.
  pose proof (restore_files_spec R (data_prefix id) (bs_files bk) (list_prefix (data_prefix id) (bs_files bk))
                {| rs_dst := dst; rs_processed := 0; rs_bytes := 0; rs_failed := 0 |}) as (_ & S2 & _).
  cbn [rs_processed] in S2.
  apply (countb_full (restorable R (data_prefix id) (bs_files bk)) (list_prefix (data_prefix id) (bs_files bk))); [|exact Hq].
  lia.
Qed.

(* no per-file fault on the backup's files => success, counts agree, everything restored *)
Lemma restore_data_no_file_faults strict R id bk m dst :
  rf_list_bk R = false ->
  ~ In (data_prefix id) (map fst (bs_files bk)) ->
  (forall p, In (data_prefix id ++ p) (map fst (bs_files bk)) -> rf_read_bk R p = false /\ rf_write_dst R p = false) ->
  let '(r, pg, dst') := restore_data strict R id bk m dst in
  r = ROk /\ pg_completed pg = true /\ pg_processed pg = pg_total_files pg /\
  forall p d, p <> [] -> visible p = true -> plookup (data_prefix id ++ p) (bs_files bk) = Some d -> plookup p dst' = Some d.
Proof.
  intros H2 Hbare Hnf.
  destruct (restore_data strict R id bk m dst) as [[r pg] dst'] eqn:E.
  pose proof E as E'. unfold restore_data in E'. rewrite H2 in E'.
  pose proof (restore_files_spec R (data_prefix id) (bs_files bk) (list_prefix (data_prefix id) (bs_files bk))
                {| rs_dst := dst; rs_processed := 0; rs_bytes := 0; rs_failed := 0 |}) as (_ & S2 & S3).
  cbn [rs_processed rs_failed] in S2, S3.
  assert (Hall : forall q, In q (list_prefix (data_prefix id) (bs_files bk)) ->
                 restorable R (data_prefix id) (bs_files bk) q = true).
  { intros q Hq. apply in_list_prefix in Hq as (Hk & Hpre & _).
    destruct (has_prefix_inv _ _ Hpre) as [p ->].
    assert (Hp : p <> []) by (intros ->; rewrite app_nil_r in Hk; exact (Hbare Hk)).
    pose proof (attempted_prefixed id p Hp) as Hat.
    destruct (Hnf p Hk) as [Hr Hw].
    unfold restorable. unfold attempted in Hat. rewrite trim_prefix_app in *.
    rewrite Hr, Hw. destruct (in_keys_plookup _ _ Hk) as [v ->].
    rewrite andb_true_r. cbn [negb]. rewrite !andb_true_r. exact Hat. }
  assert (Hf0 : countb (fun q0 => attempted (data_prefix id) q0 && negb (restorable R (data_prefix id) (bs_files bk) q0))
                  (list_prefix (data_prefix id) (bs_files bk)) = 0).
  { apply countb_all_false. intros q Hq. rewrite (Hall q Hq). apply andb_false_r. }
  rewrite Hf0 in S3.
  rewrite (countb_all_true _ _ Hall) in S2.
  inversion E' as [[Er Epg Ed]]. clear E'.
  replace (0 <? _) with false in * by (symmetry; apply Z.ltb_ge; lia).
  rewrite andb_false_r in *. cbn [negb] in *.
  split; [reflexivity|]. split; [reflexivity|]. split.
  - cbn [pg_processed pg_total_files]. lia.
  - intros p d Hp Hv Hl. try rewrite <- Ed. apply all_restorable_all_restored; try assumption.
    intros q Hq _. apply Hall; exact Hq.
Qed.

(* ---- steps 3 and 4: the optional parts ----------------------------------------------------------------------- *)
Lemma restore_part_ok rf wf blob cur prev c' p' :
  restore_part true true rf wf blob cur prev = (true, c', p') -> c' = blob /\ blob <> None.
Proof.
  unfold restore_part. cbn [andb].
  destruct rf; [intros H; inversion H|].
  destruct blob as [d|]; [|intros H; inversion H].
  destruct wf; intros H; inversion H; subst. split; [reflexivity|discriminate].
Qed.

Lemma restore_part_no_faults requested has blob cur prev :
  (requested = true -> has = true -> blob <> None) ->
  exists c' p', restore_part requested has false false blob cur prev = (true, c', p') /\
                (requested = true -> has = true -> c' = blob).
Proof.
  intros Hb. unfold restore_part. destruct requested, has; cbn [andb]; try (eexists; eexists; split; [reflexivity|intros; discriminate]).
  destruct blob as [d|]; [|exfalso; apply Hb; reflexivity].
  eexists; eexists; split; [reflexivity|reflexivity].
Qed.

(* ---- RestoreBackup as a whole ---------------------------------------------------------------------------------- *)
(* a restore that reports success: the manifest was read, the data step (when requested) reported
   success with exactly this progress and destination, and every requested part the manifest
   announces is in place *)
Lemma restore_backup_ok_inv strict R O id bk dst env pg dst' env' :
  restore_backup strict R O id bk dst env = (ROk, pg, dst', env') ->
  exists m,
    plookup id (bs_manifests bk) = Some m /\
    (if ro_data O then restore_data strict R id bk m dst = (ROk, pg, dst') else (pg = idle_progress /\ dst' = dst)) /\
    (ro_meta O = true -> m_has_meta m = true ->
       exists d, plookup id (bs_meta bk) = Some d /\ e_sqlite env' = Some d) /\
    (ro_cfg O = true -> m_has_cfg m = true ->
       exists d, plookup id (bs_cfg bk) = Some d /\ e_config env' = Some d).
Proof.
  unfold restore_backup. intros H.
  destruct (rf_read_manifest R); [discriminate|].
  destruct (plookup id (bs_manifests bk)) as [m|] eqn:Em; [|discriminate].
  exists m. split; [reflexivity|].
  destruct (if ro_data O then restore_data strict R id bk m dst else (ROk, idle_progress, dst)) as [[r1 pg1] dst1] eqn:E1.
  destruct r1; [|discriminate].
  destruct (restore_part (ro_meta O) (m_has_meta m) (rf_read_meta R) (rf_write_sqlite R)
              (plookup id (bs_meta bk)) (e_sqlite env) (e_sqlite_prev env)) as [[ok2 sq] sqp] eqn:E2.
  destruct ok2; cbn [negb] in H; [|discriminate].
  destruct (restore_part (ro_cfg O) (m_has_cfg m) (rf_read_cfg R) (rf_write_config R)
              (plookup id (bs_cfg bk)) (e_config env) (e_config_prev env)) as [[ok3 cf] cfp] eqn:E3.
  destruct ok3; cbn [negb] in H; [|discriminate].
  inversion H; subst; clear H. cbn [e_sqlite e_config].
  split; [|split].
  - destruct (ro_data O); [exact E1|]. inversion E1; subst. split; reflexivity.
  - intros Hr Hh. rewrite Hr, Hh in E2. destruct (restore_part_ok _ _ _ _ _ _ _ E2) as [-> Hne].
    destruct (plookup id (bs_meta bk)) as [d|]; [|congruence]. exists d. split; reflexivity.
  - intros Hr Hh. rewrite Hr, Hh in E3. destruct (restore_part_ok _ _ _ _ _ _ _ E3) as [-> Hne].
    destruct (plookup id (bs_cfg bk)) as [d|]; [|congruence]. exists d. split; reflexivity.
Qed.

(* current code: success is reported only when every REQUESTED part is restored *)
Lemma restore_reports_strict R O id bk dst env pg dst' env' :
  restore_backup true R O id bk dst env = (ROk, pg, dst', env') ->
  exists m, plookup id (bs_manifests bk) = Some m /\
  (ro_data O = true -> forall p d, p <> [] -> visible p = true ->
     plookup (data_prefix id ++ p) (bs_files bk) = Some d -> plookup p dst' = Some d) /\
  (ro_meta O = true -> m_has_meta m = true -> exists d, plookup id (bs_meta bk) = Some d /\ e_sqlite env' = Some d) /\
  (ro_cfg O = true -> m_has_cfg m = true -> exists d, plookup id (bs_cfg bk) = Some d /\ e_config env' = Some d).
Proof.
  intros H. destruct (restore_backup_ok_inv _ _ _ _ _ _ _ _ _ _ H) as (m & Hm & Hd & Hmeta & Hcfg).
  exists m. split; [exact Hm|]. split; [|split; assumption].
  intros Hro. rewrite Hro in Hd. eapply restore_data_reports_strict; exact Hd.
Qed.

(* the previous code: with per-file data faults only, success is still reported *)
Lemma restore_swallows_errors R O id bk dst env m :
  rf_read_manifest R = false -> rf_list_bk R = false -> plookup id (bs_manifests bk) = Some m ->
  ro_meta O = false -> ro_cfg O = false ->
  fst (fst (fst (restore_backup false R O id bk dst env))) = ROk.
Proof.
  intros H1 H2 H3 H4 H5. unfold restore_backup. rewrite H1, H3.
  destruct (ro_data O).
  - pose proof (restore_data_swallows_errors R id bk m dst H2) as [Hr _].
    destruct (restore_data false R id bk m dst) as [[r1 pg1] dst1]. cbn in Hr. subst r1.
    unfold restore_part. rewrite H4, H5. reflexivity.
  - unfold restore_part. rewrite H4, H5. reflexivity.
Qed.

(* both variants: success with processed = total means the data is there *)
Lemma restore_counts_complete strict R O id bk dst env pg dst' env' :
  restore_backup strict R O id bk dst env = (ROk, pg, dst', env') -> ro_data O = true ->
  pg_processed pg = pg_total_files pg ->
  forall p d, p <> [] -> visible p = true -> plookup (data_prefix id ++ p) (bs_files bk) = Some d ->
  plookup p dst' = Some d.
Proof.
  intros H Hro Hcnt.
  destruct (restore_backup_ok_inv _ _ _ _ _ _ _ _ _ _ H) as (m & _ & Hd & _ & _).
  rewrite Hro in Hd.
  eapply restore_data_counts_complete; [exact Hd| |exact Hcnt].
  eapply restore_data_ok_completed; exact Hd.
Qed.

(* both variants: no fault during the restore => success, counters agree, every requested part restored *)
Lemma restore_no_faults strict O id bk dst env m :
  plookup id (bs_manifests bk) = Some m ->
  ~ In (data_prefix id) (map fst (bs_files bk)) ->
  (m_has_meta m = true -> plookup id (bs_meta bk) <> None) ->
  (m_has_cfg m = true -> plookup id (bs_cfg bk) <> None) ->
  let '(r, pg, dst', env') := restore_backup strict no_rfaults O id bk dst env in
  r = ROk /\ pg_processed pg = pg_total_files pg /\
  (ro_data O = true -> forall p d, p <> [] -> visible p = true ->
     plookup (data_prefix id ++ p) (bs_files bk) = Some d -> plookup p dst' = Some d) /\
  (ro_data O = false -> dst' = dst) /\
  (ro_meta O = true -> m_has_meta m = true -> e_sqlite env' = plookup id (bs_meta bk)) /\
  (ro_cfg O = true -> m_has_cfg m = true -> e_config env' = plookup id (bs_cfg bk)).
Proof.
  intros Hm Hbare Hbm Hbc.
  unfold restore_backup. cbn [no_rfaults rf_read_manifest rf_read_meta rf_read_cfg rf_write_sqlite rf_write_config]. rewrite Hm.
  pose proof (restore_data_no_file_faults strict no_rfaults id bk m dst eq_refl Hbare (fun p _ => conj eq_refl eq_refl)) as Hdata.
  destruct (restore_data strict no_rfaults id bk m dst) as [[rd pgd] dstd].
  destruct Hdata as (Hrd & _ & Hcnt & Hall).
  destruct (restore_part_no_faults (ro_meta O) (m_has_meta m) (plookup id (bs_meta bk)) (e_sqlite env) (e_sqlite_prev env))
    as (sq & sqp & E2 & H2); [intros _ Hh; exact (Hbm Hh)|].
  destruct (restore_part_no_faults (ro_cfg O) (m_has_cfg m) (plookup id (bs_cfg bk)) (e_config env) (e_config_prev env))
    as (cf & cfp & E3 & H3); [intros _ Hh; exact (Hbc Hh)|].
  destruct (ro_data O) eqn:Hro.
  - subst rd. rewrite E2. cbn [negb]. rewrite E3. cbn [negb e_sqlite e_config].
    split; [reflexivity|]. split; [exact Hcnt|]. split; [intros _; exact Hall|]. split; [discriminate|]. split; assumption.
  - rewrite E2. cbn [negb]. rewrite E3. cbn [negb e_sqlite e_config].
    split; [reflexivity|]. split; [reflexivity|]. split; [discriminate|]. split; [reflexivity|]. split; assumption.
Qed.

(* ---- backup side: what a successful backup guarantees ------------------------------------------------------- *)
Lemma selected_visible p : selected p = true -> visible p = true.
Proof. unfold selected. intros H. apply andb_true_iff in H. tauto. Qed.

Lemma backup_flags_incomplete permille F O env id src bk m pg bk' :
  create_backup permille F O env id src bk = (BOk m, pg, bk') ->
  plookup id (bs_manifests bk') = Some m /\
  m_skipped m = countb (fun f => negb (readable F src f)) (backup_files src) /\
  (forall p, In p (backup_files src) -> bf_read_src F p = true -> 0 < m_skipped m) /\
  (m_skipped m = 0 -> forall p d, selected p = true -> plookup p src = Some d ->
     plookup (data_prefix id ++ p) (bs_files bk') = Some d).
Proof.
  intros H. destruct (backup_content _ _ _ _ _ _ _ _ _ _ H) as (C1 & C2 & C3 & C4).
  split; [exact C4|]. split; [exact C3|]. split.
  - intros p Hin Hrd. rewrite C3. apply (countb_pos _ _ p Hin).
    unfold readable. rewrite Hrd. reflexivity.
  - intros Hz p d Hsel Hl. rewrite C3 in Hz.
    assert (Hin : In p (backup_files src)).
    { apply in_backup_files. split; [eapply plookup_in_keys; exact Hl|exact Hsel]. }
    pose proof (countb_zero _ _ Hz p Hin) as Hr. cbn beta in Hr. apply negb_false_iff in Hr.
    rewrite C1. replace (existsb _ (backup_files src)) with true; [exact Hl|].
    symmetry. apply existsb_exists. exists p. split; [exact Hin|]. rewrite bytes_eqb_refl, Hr. reflexivity.
Qed.

Lemma copy_files_fatal_inv F pre src : forall files sk st st',
  copy_files F pre src files sk st = CFatal st' -> exists p, bf_write_bk F p = true.
Proof.
  induction files as [|f r IH]; intros sk st st' H; cbn [copy_files] in H; [discriminate|].
  destruct (if bf_read_src F f then None else plookup f src).
  - destruct (bf_write_bk F f) eqn:E; [exists f; exact E|]. eapply IH; exact H.
  - eapply IH; exact H.
Qed.

Lemma create_backup_failed_inv permille F O env id src bk pg bk' :
  create_backup permille F O env id src bk = (BFailed, pg, bk') ->
  bf_list_src F = true \/ (exists p, bf_write_bk F p = true) \/ bf_write_manifest F = true \/
  exists st1 st2,
    copy_spec F (data_prefix id) src (parquet_files src) 0
      {| cs_bk := bs_files bk; cs_processed := 0; cs_bytes := 0; cs_skipped := 0 |} st1 /\
    copy_spec F (data_prefix id) src (iceberg_files src) 0 st1 st2 /\
    skip_ratio_exceeded permille (cs_skipped st2) (Z.of_nat (length (parquet_files src) + length (iceberg_files src))) = true.
Proof.
  unfold create_backup. intros H.
  destruct (bf_list_src F); [left; reflexivity|]. right.
  destruct (copy_files F (data_prefix id) src (parquet_files src) 0 _) as [st1|st1] eqn:E1.
  2:{ left. eapply copy_files_fatal_inv; exact E1. }
  apply copy_files_done in E1.
  destruct (iceberg_files src) as [|i0 ir] eqn:Eice.
  - destruct (skip_ratio_exceeded permille (cs_skipped st1) _) eqn:Esk.
    { right; right. exists st1, st1. split; [exact E1|]. split; [apply copy_spec_nil|exact Esk]. }
    destruct (bf_write_manifest F); [right; left; reflexivity|discriminate].
  - rewrite <- Eice in *.
    destruct (copy_files F (data_prefix id) src (iceberg_files src) 0 st1) as [st2|st2] eqn:E2.
    2:{ left. eapply copy_files_fatal_inv; exact E2. }
    apply copy_files_done in E2.
    destruct (skip_ratio_exceeded permille (cs_skipped st2) _) eqn:Esk.
    { right; right. exists st1, st2. split; [exact E1|]. split; [exact E2|exact Esk]. }
    destruct (bf_write_manifest F); [right; left; reflexivity|discriminate].
Qed.

(* ---- the optional parts of a successful backup ----------------------------------------------------------------- *)
Lemma backup_parts permille F O env id src bk m pg bk' :
  create_backup permille F O env id src bk = (BOk m, pg, bk') ->
  let meta := part_stored (bo_meta O) (e_sqlite env) (bf_write_meta F) in
  let cfg := part_stored (bo_cfg O) (e_config env) (bf_write_cfg F) in
  m_has_meta m = is_some meta /\ m_has_cfg m = is_some cfg /\
  bs_meta bk' = store_part id meta (bs_meta bk) /\ bs_cfg bk' = store_part id cfg (bs_cfg bk).
Proof.
  unfold create_backup. intros H.
  destruct (bf_list_src F); [discriminate|].
  destruct (copy_files F (data_prefix id) src (parquet_files src) 0 _) as [st1|st1]; [|discriminate].
  destruct (match iceberg_files src with [] => CDone st1 | _ :: _ => copy_files F (data_prefix id) src (iceberg_files src) 0 st1 end)
    as [st2|st2]; [|discriminate].
  destruct (skip_ratio_exceeded permille (cs_skipped st2) _); [discriminate|].
  destruct (bf_write_manifest F); [discriminate|].
  inversion H; subst; clear H. cbn. repeat split; reflexivity.
Qed.

(* the manifest flags tell the truth: a part is announced iff it was requested, existed locally and
   could be written - and then it is in the backup store with the local content *)
Lemma backup_part_flags permille F O env id src bk m pg bk' :
  create_backup permille F O env id src bk = (BOk m, pg, bk') ->
  (m_has_meta m = true -> exists d, bo_meta O = true /\ e_sqlite env = Some d /\ plookup id (bs_meta bk') = Some d) /\
  (m_has_cfg m = true -> exists d, bo_cfg O = true /\ e_config env = Some d /\ plookup id (bs_cfg bk') = Some d) /\
  (bo_meta O = true -> bf_write_meta F = false -> m_has_meta m = is_some (e_sqlite env)) /\
  (bo_cfg O = true -> bf_write_cfg F = false -> m_has_cfg m = is_some (e_config env)).
Proof.
  intros H. destruct (backup_parts _ _ _ _ _ _ _ _ _ _ H) as (Hm & Hc & Sm & Sc). cbn zeta in *.
  unfold part_stored in *. repeat split.
  - intros Ht. rewrite Hm in Ht. destruct (bo_meta O); [|discriminate]. destruct (bf_write_meta F); [discriminate|].
    destruct (e_sqlite env) as [d|]; [|discriminate]. exists d. repeat split. rewrite Sm. cbn. apply plookup_insert_same.
  - intros Ht. rewrite Hc in Ht. destruct (bo_cfg O); [|discriminate]. destruct (bf_write_cfg F); [discriminate|].
    destruct (e_config env) as [d|]; [|discriminate]. exists d. repeat split. rewrite Sc. cbn. apply plookup_insert_same.
  - intros Hb Hw. rewrite Hb, Hw in Hm. exact Hm.
  - intros Hb Hw. rewrite Hb, Hw in Hc. exact Hc.
Qed.

(* ---- the whole property, for every fault set: a backup that says it is complete and a restore that
        says (with its counters) it restored everything reproduce the selected files exactly ------------ *)
Lemma end_to_end permille strict F BO benv R RO id src bk0 m bpg bk rpg dst renv env' :
  (forall q, In q (map fst (bs_files bk0)) -> has_prefix (data_prefix id) q = false) ->
  create_backup permille F BO benv id src bk0 = (BOk m, bpg, bk) -> m_skipped m = 0 ->
  restore_backup strict R RO id bk [] renv = (ROk, rpg, dst, env') -> ro_data RO = true ->
  pg_processed rpg = pg_total_files rpg ->
  forall p, plookup p dst = if selected p then plookup p src else None.
Proof.
  intros Hfresh Hb Hsk Hr Hro Hcnt p.
  destruct (backup_content _ _ _ _ _ _ _ _ _ _ Hb) as (C1 & C2 & C3 & C4).
  destruct (backup_flags_incomplete _ _ _ _ _ _ _ _ _ _ Hb) as (_ & _ & _ & Hcomplete).
  specialize (Hcomplete Hsk).
  destruct (restore_backup_ok_inv _ _ _ _ _ _ _ _ _ _ Hr) as (m' & _ & Hdata & _ & _).
  rewrite Hro in Hdata.
  pose proof (restore_data_ok_completed _ _ _ _ _ _ _ _ Hdata) as Hc.
  destruct (restore_data_run _ _ _ _ _ _ _ _ _ Hdata Hc) as (Hd & Ht & Hp & _ & _).
  pose proof (restore_files_spec R (data_prefix id) (bs_files bk) (list_prefix (data_prefix id) (bs_files bk))
                {| rs_dst := []; rs_processed := 0; rs_bytes := 0; rs_failed := 0 |}) as (S1 & S2 & _).
  cbn [rs_dst rs_processed] in S1, S2.
  assert (Hall : forall q, In q (list_prefix (data_prefix id) (bs_files bk)) ->
                 restorable R (data_prefix id) (bs_files bk) q = true).
  { apply countb_full. lia. }
  rewrite Hd, S1.
  destruct (existsb _ (list_prefix (data_prefix id) (bs_files bk))) eqn:Ex.
  - apply existsb_exists in Ex as (q & Hq & Hqp). apply andb_true_iff in Hqp as [Hres Htrim].
    apply bytes_eqb_true in Htrim.
    rewrite C1.
    assert (Hbk0 : plookup (data_prefix id ++ p) (bs_files bk0) = None).
    { destruct (plookup (data_prefix id ++ p) (bs_files bk0)) eqn:E0; [|reflexivity].
      apply plookup_in_keys in E0. apply Hfresh in E0. rewrite has_prefix_app in E0. discriminate. }
    rewrite Hbk0.
    destruct (existsb (fun f => bytes_eqb f p && readable F src f) (backup_files src)) eqn:Eh.
    + apply existsb_exists in Eh as (f & Hf & Hfp). apply andb_true_iff in Hfp as [Hfp _].
      apply bytes_eqb_true in Hfp. subst f. apply in_backup_files in Hf as [_ Hsel]. rewrite Hsel. reflexivity.
    + (* the restored file is in the backup store, hence was copied: contradiction *)
      exfalso.
      assert (Hqeq : q = data_prefix id ++ p).
      { rewrite <- Htrim. apply trim_neq_inv. intros Heq.
        unfold restorable in Hres. rewrite Heq, bytes_eqb_refl in Hres.
        rewrite andb_false_r in Hres. cbn in Hres. discriminate. }
      unfold restorable in Hres. subst q.
      destruct (plookup (data_prefix id ++ p) (bs_files bk)) eqn:El.
      * rewrite C1, Eh, Hbk0 in El. discriminate.
      * rewrite andb_false_r in Hres. cbn in Hres. discriminate.
  - cbn [plookup lookup].
    destruct (selected p) eqn:Hsel; [|reflexivity].
    destruct (plookup p src) as [d|] eqn:El; [|reflexivity].
    exfalso.
    pose proof (Hcomplete p d Hsel El) as Hin_bk.
    assert (Hq : In (data_prefix id ++ p) (list_prefix (data_prefix id) (bs_files bk))).
    { apply in_list_prefix. repeat split.
      - eapply plookup_in_keys; exact Hin_bk.
      - apply has_prefix_app.
      - rewrite visible_data_prefix. apply selected_visible; exact Hsel. }
    assert (Hex : existsb (fun q => restorable R (data_prefix id) (bs_files bk) q && bytes_eqb (trim_prefix (data_prefix id) q) p)
                    (list_prefix (data_prefix id) (bs_files bk)) = true).
    { apply existsb_exists. exists (data_prefix id ++ p). split; [exact Hq|].
      rewrite (Hall _ Hq), trim_prefix_app, bytes_eqb_refl. reflexivity. }
    rewrite Hex in Ex. discriminate.
Qed.

(* ---- no faults: backup then restore into empty storage is the identity on the selected files ----------- *)
Lemma readable_no_faults src p : In p (map fst src) -> readable no_bfaults src p = true.
Proof. intros H. unfold readable. cbn. destruct (in_keys_plookup _ _ H) as [v ->]. reflexivity. Qed.

Lemma skipped_no_faults src : countb (fun f => negb (readable no_bfaults src f)) (backup_files src) = 0.
Proof.
  apply countb_all_false. intros p Hp. apply in_backup_files in Hp as [Hk _].
  rewrite (readable_no_faults _ _ Hk). reflexivity.
Qed.

Lemma roundtrip permille strict BO RO benv renv id src :
  let '(br, bpg, bk) := create_backup permille no_bfaults BO benv id src empty_bstore in
  let '(rr, rpg, dst, env') := restore_backup strict no_rfaults RO id bk [] renv in
  (exists m, br = BOk m /\ m_skipped m = 0 /\
             m_has_meta m = (bo_meta BO && is_some (e_sqlite benv)) /\ m_has_cfg m = (bo_cfg BO && is_some (e_config benv))) /\
  rr = ROk /\ pg_processed rpg = pg_total_files rpg /\
  (ro_data RO = true -> forall p, plookup p dst = if selected p then plookup p src else None) /\
  (ro_data RO = false -> dst = []) /\
  (ro_meta RO = true -> bo_meta BO = true -> forall d, e_sqlite benv = Some d -> e_sqlite env' = Some d) /\
  (ro_cfg RO = true -> bo_cfg BO = true -> forall d, e_config benv = Some d -> e_config env' = Some d).
Proof.
  destruct (create_backup permille no_bfaults BO benv id src empty_bstore) as [[br bpg] bk] eqn:Eb.
  destruct br as [m|].
  2:{ exfalso. apply create_backup_failed_inv in Eb.
      destruct Eb as [H|[[p H]|[H|(st1 & st2 & (_ & _ & A3 & _) & (_ & _ & B3 & _) & Hsk)]]]; try discriminate.
      cbn [cs_skipped] in A3.
      pose proof (skipped_no_faults src) as Hz. unfold backup_files in Hz. rewrite countb_app in Hz.
      pose proof (countb_nonneg (fun f => negb (readable no_bfaults src f)) (parquet_files src)).
      pose proof (countb_nonneg (fun f => negb (readable no_bfaults src f)) (iceberg_files src)).
      assert (Hs0 : cs_skipped st2 = 0) by lia.
      rewrite Hs0 in Hsk. unfold skip_ratio_exceeded in Hsk. cbn in Hsk. discriminate. }
  destruct (backup_content _ _ _ _ _ _ _ _ _ _ Eb) as (C1 & C2 & C3 & C4).
  destruct (backup_parts _ _ _ _ _ _ _ _ _ _ Eb) as (Pm & Pc & Sm & Sc). cbn zeta in Pm, Pc, Sm, Sc.
  unfold part_stored in Pm, Pc, Sm, Sc. cbn [no_bfaults bf_write_meta bf_write_cfg empty_bstore bs_meta bs_cfg] in Pm, Pc, Sm, Sc.
  assert (Hsk : m_skipped m = 0) by (rewrite C3; apply skipped_no_faults).
  assert (Hbare : ~ In (data_prefix id) (map fst (bs_files bk))).
  { intros Hin. destruct (in_keys_plookup _ _ Hin) as [v Hv].
    rewrite <- (app_nil_r (data_prefix id)) in Hv. rewrite C1 in Hv.
    destruct (existsb (fun f => bytes_eqb f [] && readable no_bfaults src f) (backup_files src)) eqn:Ex.
    - apply existsb_exists in Ex as (f & Hf & Hfp). apply andb_true_iff in Hfp as [Hfp _].
      apply bytes_eqb_true in Hfp. subst f. apply in_backup_files in Hf as [_ Hsel].
      rewrite selected_nil in Hsel. discriminate.
    - cbn in Hv. discriminate. }
  assert (Hmeta : plookup id (bs_meta bk) = if bo_meta BO then e_sqlite benv else None).
  { rewrite Sm. destruct (bo_meta BO); [|reflexivity]. destruct (e_sqlite benv); cbn [store_part]; [apply plookup_insert_same|reflexivity]. }
  assert (Hcfg : plookup id (bs_cfg bk) = if bo_cfg BO then e_config benv else None).
  { rewrite Sc. destruct (bo_cfg BO); [|reflexivity]. destruct (e_config benv); cbn [store_part]; [apply plookup_insert_same|reflexivity]. }
  assert (Hbm : m_has_meta m = true -> plookup id (bs_meta bk) <> None).
  { rewrite Pm, Hmeta. destruct (bo_meta BO); [|discriminate]. destruct (e_sqlite benv); [discriminate|discriminate]. }
  assert (Hbc : m_has_cfg m = true -> plookup id (bs_cfg bk) <> None).
  { rewrite Pc, Hcfg. destruct (bo_cfg BO); [|discriminate]. destruct (e_config benv); [discriminate|discriminate]. }
  pose proof (restore_no_faults strict RO id bk [] renv m C4 Hbare Hbm Hbc) as Hr.
  destruct (restore_backup strict no_rfaults RO id bk [] renv) as [[[rr rpg] dst] env'] eqn:Er.
  destruct Hr as (Hok & Hcnt & Hdata & Hnodata & Hm & Hc).
  split.
  { exists m. split; [reflexivity|]. split; [exact Hsk|]. split.
    - rewrite Pm. destruct (bo_meta BO); reflexivity.
    - rewrite Pc. destruct (bo_cfg BO); reflexivity. }
  split; [exact Hok|]. split; [exact Hcnt|]. subst rr. split; [|split; [exact Hnodata|split]].
  - intros Hro. eapply end_to_end; try eassumption. cbn. tauto.
  - intros Hr Hb d Hd. rewrite Hm; [rewrite Hmeta, Hb; exact Hd|exact Hr|].
    rewrite Pm, Hb, Hd. reflexivity.
  - intros Hr Hb d Hd. rewrite Hc; [rewrite Hcfg, Hb; exact Hd|exact Hr|].
    rewrite Pc, Hb, Hd. reflexivity.
Qed.

(* every file unreadable: the backup cannot succeed when the ratio is below 100 % *)
Lemma all_unreadable_fails permille F O env id src bk :
  0 <= permille < 1000 -> backup_files src <> [] ->
  (forall p, In p (backup_files src) -> bf_read_src F p = true) ->
  fst (fst (create_backup permille F O env id src bk)) = BFailed.
Proof.
  intros Hperm Hne Hall.
  destruct (create_backup permille F O env id src bk) as [[br pg] bk'] eqn:E. cbn.
  destruct br as [m|]; [|reflexivity]. exfalso.
  apply create_backup_ok in E.
  destruct E as (st1 & st2 & (_ & _ & A3 & _) & (_ & _ & B3 & _) & _ & _ & _ & Hsk).
  cbn [cs_skipped] in A3.
  assert (Hcnt : countb (fun f => negb (readable F src f)) (backup_files src) = Z.of_nat (length (backup_files src))).
  { apply countb_all_true. intros p Hp. unfold readable. rewrite (Hall p Hp). reflexivity. }
  unfold backup_files in Hcnt, Hne. rewrite countb_app, app_length in Hcnt.
  assert (Hlen : (0 < length (parquet_files src) + length (iceberg_files src))%nat).
  { destruct (parquet_files src), (iceberg_files src); cbn in *; try lia. congruence. }
  unfold skip_ratio_exceeded in Hsk.
  assert (Hs : cs_skipped st2 = Z.of_nat (length (parquet_files src) + length (iceberg_files src))) by lia.
  rewrite Hs in Hsk.
  destruct (Z.eqb_spec (Z.of_nat (length (parquet_files src) + length (iceberg_files src))) 0) as [H0|H0]; [lia|].
  cbn [negb andb] in Hsk. apply Z.ltb_ge in Hsk. nia.
Qed.
