(* SqlAst - model of the query gate of /repo/internal/api/query.go (C14, C16).

   PART A (this file, sections 1-7): the gate pipeline of executeQuery / executeQueryArrow /
   estimateQuery as an executable function of the request text and the x-arc-database header:

     ValidateSQLRequest (empty, length, multi-statement, dangerousSQLPattern, ioTableFunctionPattern on
       ioDenylistNormalise, stringLiteralInTablePosition, invalidQuotedIdentifierInTablePosition)
     validateHeaderDatabase, hasCrossDatabaseSyntax
     the SHOW gate (normalizeSQLForShow, showDatabasesPattern, showTablesPattern, validateIdentifier)
     checkQueryPermissions (normalisation, extractTableReferences, extractCTENames, header override)
     getTransformedSQLForParallel / getTransformedSQL (the two raw fast paths, the single-table fast path,
       convertSQLToStoragePaths, convertSQLToStoragePathsWithHeaderDB, replaceTableRefs, joinKeyword,
       isDotOrCallAt, makeIdentResolver, buildReadParquetExpr without tiering and without pruning)

   The lexical layer (MaskStringLiterals, MaskFromKeywordsInFunctionBodies, stripSQLComments,
   UnmaskStringLiterals, IdentifierNames, scanSQLFeatures ...) is the byte-exact model of Arc.SqlLex.Model
   (property C15).  On top of it the regular expressions of query.go are modelled at TOKEN level: the
   normalised text is cut into maximal runs of word bytes [A-Za-z0-9_] (TW), maximal runs of regexp
   whitespace [\t\n\f\r ] (TS) and single other bytes (TO); every regexp of the gate is built from \b,
   \s+, \s*, \w+, literal words and single punctuation bytes, so a match is a pattern on this token
   list; [scan]/[rewrite] give Go's FindAll / ReplaceAll discipline (leftmost match, continue after it).
   This reading of the regexps is VALIDATED by the correspondence (tools/props/C14.py), not proved.

   PART B (sections 8-): the statement grammar, its printer with disguises, what DuckDB reads, and the
   specification of the rewriting (C16).

   Only definitions live here. *)
From Coq Require Import String Ascii.
From Coq Require Import NArith ZArith Bool Arith List.
From Arc Require Import SqlLex.Model.
Import ListNotations.
Open Scope N_scope.

(* ------------------------------------------------------------------------------------ *)
(* 1. tokens                                                                              *)
(* ------------------------------------------------------------------------------------ *)

Definition bytes := list N.

Inductive tok :=
| TW (w : bytes)     (* maximal run of [A-Za-z0-9_] *)
| TS (s : bytes)     (* maximal run of [\t\n\f\r ] (RE2 \s) *)
| TO (c : N)         (* any other byte *)
| TR (raw : bytes).  (* text emitted by the rewriter: never inspected again (see tok_render) *)

Definition is_rs (c : N) : bool := (c =? 32) || in_range 9 10 c || in_range 12 13 c.

Fixpoint tokenize (l : bytes) : list tok :=
  match l with
  | [] => []
  | c :: r =>
      let ts := tokenize r in
      if is_ident_byte c then
        match ts with TW w :: ts' => TW (c :: w) :: ts' | _ => TW [c] :: ts end
      else if is_rs c then
        match ts with TS w :: ts' => TS (c :: w) :: ts' | _ => TS [c] :: ts end
      else TO c :: ts
  end.

Definition tok_render (t : tok) : bytes :=
  match t with TW w => w | TS s => s | TO c => [c] | TR r => r end.
Definition untok (ts : list tok) : bytes := flat_map tok_render ts.

Definition lower (w : bytes) : bytes := map to_lower w.
Definition kw (k : string) : bytes := s2b k.
Definition is_kw (k w : bytes) : bool := bytes_eqb (lower w) k.
Fixpoint mem_bytes (x : bytes) (l : list bytes) : bool :=
  match l with [] => false | y :: r => bytes_eqb x y || mem_bytes x r end.

Definition k_from := Eval vm_compute in kw "from".
Definition k_join := Eval vm_compute in kw "join".
Definition k_lateral := Eval vm_compute in kw "lateral".
Definition k_with := Eval vm_compute in kw "with".
Definition k_recursive := Eval vm_compute in kw "recursive".
Definition k_as := Eval vm_compute in kw "as".
Definition k_read_parquet : bytes := Eval vm_compute in s2b "read_parquet".
Definition join_mods : list bytes := Eval vm_compute in
  map kw ["left"; "right"; "full"; "inner"; "outer"; "cross"; "natural"; "semi"; "anti"; "asof"; "positional"]%string.
Definition is_mod (w : bytes) : bool := mem_bytes (lower w) join_mods.

(* Go's FindAll / ReplaceAll discipline over a local matcher [m] that, at the head of the remaining
   tokens, yields a result and the number n >= 1 of tokens of the match.  [fuel] = length. *)
Section Scan.
  Context {A : Type} (m : list tok -> option (A * nat)).
  Fixpoint scan_f (fuel : nat) (l : list tok) : list A :=
    match fuel, l with
    | O, _ | _, [] => []
    | S f, _ :: r =>
        match m l with
        | Some (a, n) => a :: scan_f f (skipn (Nat.pred n) r)
        | None => scan_f f r
        end
    end.
  Definition scan (l : list tok) : list A := scan_f (length l) l.
End Scan.

Section Rewrite.
  (* the matcher returns the replacement tokens *)
  Context (m : list tok -> option (list tok * nat)).
  Fixpoint rewrite_f (fuel : nat) (l : list tok) : list tok :=
    match fuel, l with
    | O, _ => l
    | _, [] => []
    | S f, t :: r =>
        match m l with
        | Some (rep, n) => rep ++ rewrite_f f (skipn (Nat.pred n) r)
        | None => t :: rewrite_f f r
        end
    end.
  Definition rewrite (l : list tok) : list tok := rewrite_f (length l) l.
End Rewrite.

(* The repairs proposed in /verif/fixes/C14_*.patch, each switchable: [fx_none] is the code as it was when
   the findings were made; tools/props/C14.py detects on every run which of them the current source has
   (probe statements) and evaluates the model for that variant.
     fx_with      C14_header_cte_names_same_pattern    the header converters use the CTE names of the permission check
     fx_dedup     C14_dedup_refs_exact_case            unqualified references de-duplicated on the name as written
     fx_scanner   C14_table_position_scanner           "(" and LATERAL keep the table position; TABLE, DESCRIBE ... open one
     fx_denylist  C14_io_denylist_sql_text_functions   denylist + query / json_execute_serialized_sql ...; the denylist and the
                                                       string-in-table-position check also run on the comment-safe normalisation
     fx_noraw     C14_no_raw_text_fast_paths           the request text itself is never executed
     fx_bsq       C14_reject_backslash_before_quote    a backslash before a quote in a literal is refused
     fx_single    C16_single_table_fast_path_keywords  the single-table fast path needs exactly one FROM keyword and no JOIN keyword
     fx_cteq      C16_quoted_cte_declaration           a CTE declared with a quoted name is also known under its unquoted name
     fx_quotes    C14_quote_scanning_backtick_estring  backticks are mapped only outside literals; any backslash-quote in E'..' refused
     fx_fastname  C14_fast_path_name_seen_by_check     the single-table fast path is taken only for a name that starts like the names the
                                                       permission check extracts (letter or underscore)
     fx_reserved  C14_reserved_placeholder_text        request text containing a placeholder prefix of the transform is refused *)
Record fixset := { fx_with : bool; fx_dedup : bool; fx_scanner : bool; fx_denylist : bool; fx_noraw : bool; fx_bsq : bool;
                   fx_single : bool; fx_cteq : bool; fx_quotes : bool; fx_fastname : bool; fx_reserved : bool }.
Definition fx_none : fixset :=
  {| fx_with := false; fx_dedup := false; fx_scanner := false; fx_denylist := false; fx_noraw := false; fx_bsq := false;
     fx_single := false; fx_cteq := false; fx_quotes := false; fx_fastname := false; fx_reserved := false |}.
(* the code with every repair: the current source *)
Definition fx_all : fixset :=
  {| fx_with := true; fx_dedup := true; fx_scanner := true; fx_denylist := true; fx_noraw := true; fx_bsq := true;
     fx_single := true; fx_cteq := true; fx_quotes := true; fx_fastname := true; fx_reserved := true |}.
Definition fx_of_bits (n : N) : fixset :=
  {| fx_with := N.testbit n 0; fx_dedup := N.testbit n 1; fx_scanner := N.testbit n 2; fx_denylist := N.testbit n 3;
     fx_noraw := N.testbit n 4; fx_bsq := N.testbit n 5; fx_single := N.testbit n 6; fx_cteq := N.testbit n 7; fx_quotes := N.testbit n 8;
     fx_fastname := N.testbit n 9; fx_reserved := N.testbit n 10 |}.

(* ------------------------------------------------------------------------------------ *)
(* 2. the four table patterns and the CTE pattern                                         *)
(* ------------------------------------------------------------------------------------ *)

Definition starts_alpha (w : bytes) : bool := match w with c :: _ => is_alpha_us c | [] => false end.

(* patternDBTable: \bFROM\s+([a-zA-Z0-9_]+)\.([a-zA-Z0-9_]+)\b  ->  (db, table, tokens) *)
Definition m_db_from (l : list tok) : option (bytes * bytes * nat) :=
  match l with
  | TW f :: r =>
      if is_kw k_from f then
        match r with
        | TS _ :: TW a :: TO c :: TW b :: _ => if c =? 46 then Some (a, b, 5%nat) else None
        | _ => None
        end
      else None
  | _ => None
  end.

(* patternSimpleTable: \bFROM\s+(identifier not starting with a digit)\b  ->  (table, tokens after the match) *)
Definition m_simple_from (l : list tok) : option (bytes * list tok * nat) :=
  match l with
  | TW f :: r =>
      if is_kw k_from f then
        match r with
        | TS _ :: TW t :: rest => if starts_alpha t then Some (t, rest, 3%nat) else None
        | _ => None
        end
      else None
  | _ => None
  end.

(* (?:(?:LEFT|...)\s+)*  : number of tokens and the remaining list *)
Fixpoint skip_mods (l : list tok) : nat * list tok :=
  match l with
  | TW w :: TS _ :: r => if is_mod w then let '(n, r') := skip_mods r in (S (S n), r') else (O, l)
  | _ => (O, l)
  end.

(* ((?:MOD\s+)*(?:LATERAL\s+)?JOIN\s+(?:LATERAL\s+)?) at the head of l, followed by [tail]; the second
   LATERAL is consumed when the tail matches after it (greedy ?), else it is left to the tail.
   Returns the tail's result and the number of prefix tokens. *)
Definition join_prefix {A} (tail : list tok -> option A) (l : list tok) : option (A * nat) :=
  let '(n1, l1) := skip_mods l in
  let after_join (n : nat) (r : list tok) : option (A * nat) :=
    match r with
    | TW j :: TS _ :: r2 =>
        if is_kw k_join j then
          match r2 with
          | TW la :: TS _ :: r3 =>
              if is_kw k_lateral la then
                match tail r3 with
                | Some a => Some (a, (n + 4)%nat)
                | None => option_map (fun a => (a, (n + 2)%nat)) (tail r2)
                end
              else option_map (fun a => (a, (n + 2)%nat)) (tail r2)
          | _ => option_map (fun a => (a, (n + 2)%nat)) (tail r2)
          end
        else None
    | _ => None
    end in
  match l1 with
  | TW la :: TS _ :: r =>
      if is_kw k_lateral la then after_join (n1 + 2)%nat r else after_join n1 l1
  | _ => after_join n1 l1
  end.

(* strings.Join(strings.Fields(prefix), " ") of the first n tokens *)
Fixpoint prefix_words (n : nat) (l : list tok) : list bytes :=
  match n, l with
  | S k, TW w :: r => w :: prefix_words k r
  | S k, _ :: r => prefix_words k r
  | _, _ => []
  end.
Fixpoint join_sp (ws : list bytes) : bytes :=
  match ws with
  | [] => []
  | [w] => w
  | w :: r => w ++ 32 :: join_sp r
  end.
Definition join_keyword (n : nat) (l : list tok) : list bytes :=
  match prefix_words n l with [] => [kw "JOIN"] | k => k end.

Definition db_tail (t : list tok) : option (bytes * bytes) :=
  match t with
  | TW a :: TO c :: TW b :: _ => if c =? 46 then Some (a, b) else None
  | _ => None
  end.
Definition simple_tail (t : list tok) : option (bytes * list tok) :=
  match t with
  | TW x :: rest => if starts_alpha x then Some (x, rest) else None
  | _ => None
  end.
(* patternJoinDBTable -> (keyword, db, table, tokens) *)
Definition m_db_join (l : list tok) : option (list bytes * bytes * bytes * nat) :=
  match l with
  | TW _ :: _ =>
      match join_prefix db_tail l with
      | Some ((a, b), n) => Some (join_keyword n l, a, b, (n + 3)%nat)
      | None => None
      end
  | _ => None
  end.

(* patternJoinSimpleTable -> (keyword, table, tokens after the match, tokens) *)
Definition m_simple_join (l : list tok) : option (list bytes * bytes * list tok * nat) :=
  match l with
  | TW _ :: _ =>
      match join_prefix simple_tail l with
      | Some ((x, rest), n) => Some (join_keyword n l, x, rest, (n + 1)%nat)
      | None => None
      end
  | _ => None
  end.

(* patternCTENames:
     \bWITH\s+(?:RECURSIVE\s+)?(\w+)(?:\s*\([^)]*\))?\s+AS\s*\(  |  ,\s*(\w+)(?:\s*\([^)]*\))?\s+AS\s*\(  *)
Fixpoint to_close (l : list tok) : option (nat * list tok) :=    (* [^)]*\) : tokens incl. the ")" *)
  match l with
  | [] => None
  | TO 41 :: r => Some (1%nat, r)
  | _ :: r => match to_close r with Some (n, r') => Some (S n, r') | None => None end
  end.
(* after the name: optional column list, then \s+AS\s*\( ; returns the number of tokens *)
Definition cte_as (l : list tok) : option nat :=
  let as_open (n : nat) (r : list tok) : option nat :=
    match r with
    | TS _ :: TW a :: TO 40 :: _ => if is_kw k_as a then Some (n + 3)%nat else None
    | TS _ :: TW a :: TS _ :: TO 40 :: _ => if is_kw k_as a then Some (n + 4)%nat else None
    | _ => None
    end in
  match l with
  | TO 40 :: r => match to_close r with Some (k, r') => as_open (1 + k)%nat r' | None => None end
  | TS _ :: TO 40 :: r => match to_close r with Some (k, r') => as_open (2 + k)%nat r' | None => None end
  | _ => as_open O l
  end.
Definition cte_name_at (n0 : nat) (l : list tok) : option (bytes * nat) :=
  match l with
  | TW name :: r => match cte_as r with Some k => Some (lower name, (n0 + 1 + k)%nat) | None => None end
  | _ => None
  end.
Definition m_cte (l : list tok) : option (bytes * nat) :=
  match l with
  | TW w :: TS _ :: r =>
      if is_kw k_with w then
        match r with
        | TW rc :: TS _ :: r2 =>
            if is_kw k_recursive rc then
              match cte_name_at 4 r2 with
              | Some x => Some x
              | None => cte_name_at 2 r
              end
            else cte_name_at 2 r
        | _ => cte_name_at 2 r
        end
      else None
  | TO 44 :: TS _ :: r => cte_name_at 2 r
  | TO 44 :: r => cte_name_at 1 r
  | _ => None
  end.
Definition cte_names (ts : list tok) : list bytes := scan m_cte ts.

(* ------------------------------------------------------------------------------------ *)
(* 3. identifiers, names, paths                                                           *)
(* ------------------------------------------------------------------------------------ *)

(* validateIdentifier: non-empty, <= 128 bytes, ^[a-zA-Z_][a-zA-Z0-9_-]*$ *)
Definition valid_identifier (n : bytes) : bool :=
  match n with
  | [] => false
  | c :: r => is_alpha_us c && forallb (fun x => is_ident_byte x || (x =? 45)) r && (length n <=? 128)%nat
  end.

Definition names_t := list (bytes * bytes).     (* placeholder -> unquoted name (IdentifierNames) *)
Fixpoint name_lookup (k : bytes) (m : names_t) : option bytes :=
  match m with
  | [] => None
  | (k', v) :: r => if bytes_eqb k k' then Some v else name_lookup k r
  end.
(* the Go map keeps the LAST entry of a duplicated key; placeholders are unique per mask table *)
Definition resolve (names : names_t) (w : bytes) : bytes :=
  match name_lookup w names with Some v => v | None => w end.
Definition sentinel : bytes := Eval vm_compute in s2b ".arc-invalid-quoted-identifier".
(* makeIdentResolver *)
Definition resolve_ident (names : names_t) (w : bytes) : bytes :=
  match name_lookup w names with
  | Some v => if valid_identifier v then v else sentinel
  | None => w
  end.

Definition skip_prefixes : list bytes := Eval vm_compute in
  map s2b ["read_parquet"; "information_schema"; "pg_"; "duckdb_"]%string.
Definition should_skip (t : bytes) : bool := existsb (fun p => prefixb p t) skip_prefixes.

Definition base_path : bytes := Eval vm_compute in s2b "/R".
Definition escape_sq (s : bytes) : bytes := flat_map (fun c => if c =? 39 then [39; 39] else [c]) s.
(* storage.GetStoragePath for the local backend, then quotePath, then buildReadParquetExpr *)
Definition storage_path (db m : bytes) : bytes := base_path ++ 47 :: db ++ 47 :: m ++ s2b "/**/*.parquet".
(* the replacement text is  keyword ++ " read_parquet('path', union_by_name=true)".  The keyword words and the
   word read_parquet stay visible to the later passes (a preceding "JOIN " can take the emitted FROM as its
   table name; "JOIN LATERAL read_parquet" is a match that the skip list leaves alone); the argument list
   is opaque (TR): it starts with "(" and ends with ")" and contains no blank-separated keyword. *)
Definition read_parquet_args (db m : bytes) : bytes :=
  s2b "('" ++ escape_sq (storage_path db m) ++ s2b "', union_by_name=true)".
Definition read_parquet_tail (db m : bytes) : bytes := s2b " read_parquet" ++ read_parquet_args db m.
Fixpoint kw_toks (ws : list bytes) : list tok :=
  match ws with
  | [] => []
  | [w] => [TW w]
  | w :: r => TW w :: TS [32] :: kw_toks r
  end.
Definition read_parquet_toks (kwords : list bytes) (db m : bytes) : list tok :=
  kw_toks kwords ++ [TS [32]; TW k_read_parquet; TR (read_parquet_args db m)].
Definition read_parquet_expr (keyword db m : bytes) : bytes := keyword ++ read_parquet_tail db m.

(* isWhitespace: ' ', \t, \n, \r *)
Definition is_ws4 (c : N) : bool := (c =? 32) || (c =? 9) || (c =? 10) || (c =? 13).
(* isFunctionCallAt(sql, end) on the tokens after the match *)
Definition head_byte (t : tok) : option N :=
  match t with TO c => Some c | TR (c :: _) => Some c | _ => None end.
Definition function_call_at (rest : list tok) : bool :=
  match rest with
  | TS s :: t :: _ => forallb is_ws4 s && match head_byte t with Some c => c =? 40 | None => false end
  | t :: _ => match head_byte t with Some c => c =? 40 | None => false end
  | _ => false
  end.
Definition dot_at (rest : list tok) : bool :=
  match rest with t :: _ => match head_byte t with Some c => c =? 46 | None => false end | _ => false end.
(* isDotOrCallAt: strings.TrimLeft(sql[end:], " \t") starts with '.' or '(' *)
Definition is_blank (c : N) : bool := (c =? 32) || (c =? 9).
Definition dot_or_call_at (rest : list tok) : bool :=
  match rest with
  | TS s :: t :: _ => forallb is_blank s && match head_byte t with Some c => (c =? 46) || (c =? 40) | None => false end
  | t :: _ => match head_byte t with Some c => (c =? 46) || (c =? 40) | None => false end
  | _ => false
  end.

(* the CTE names the permission check and the converters exclude: extractCTENames, and (fx_cteq)
   addResolvedCTENames - the unquoted name of every CTE whose declared name is an identifier placeholder *)
Definition cte_set (q : bool) (names : names_t) (ts : list tok) : list bytes :=
  let c := cte_names ts in
  if q then c ++ flat_map (fun pn => if mem_bytes (lower (fst pn)) c then [lower (snd pn)] else []) names else c.

(* ------------------------------------------------------------------------------------ *)
(* 4. extractTableReferences                                                              *)
(* ------------------------------------------------------------------------------------ *)

Definition ref := (bytes * bytes)%type.          (* (database, measurement) *)
Definition k_default : bytes := Eval vm_compute in s2b "default".

(* one candidate of a pass: Some (key, ref) or None (skipped by the loop body) *)
Definition cand := option (bytes * ref).
Definition db_key (db t : bytes) : bytes := db ++ 46 :: t.

(* [ex]: the key is the name as written (fx_dedup), else its lower-cased form *)
Definition simple_cand (ex : bool) (names : names_t) (ctes : list bytes) (raw : bytes) (rest : list tok) : cand :=
  let name := resolve names raw in
  let table := lower name in
  if should_skip table then None
  else if mem_bytes table ctes || mem_bytes (lower raw) ctes then None
  else if dot_at rest then None
  else if function_call_at rest then None
  else Some (db_key k_default (if ex then name else table), (k_default, name)).

Fixpoint add_cands (seen : list bytes) (cs : list cand) : list bytes * list ref :=
  match cs with
  | [] => (seen, [])
  | None :: r => add_cands seen r
  | Some (k, rf) :: r =>
      if mem_bytes k seen then add_cands seen r
      else let '(s', out) := add_cands (k :: seen) r in (s', rf :: out)
  end.

Definition db_cand (names : names_t) (a b : bytes) : cand :=
  let db := resolve names a in let t := resolve names b in Some (db_key db t, (db, t)).
Definition extract_refs (q ex : bool) (names : names_t) (ts : list tok) : list ref :=
  let ctes := cte_set q names ts in
  let c1 := map (fun x => db_cand names (fst x) (snd x)) (scan m_db_from ts) in
  let c2 := map (fun x => db_cand names (snd (fst x)) (snd x)) (scan m_db_join ts) in
  let c3 := map (fun x => simple_cand ex names ctes (fst x) (snd x)) (scan m_simple_from ts) in
  let c4 := map (fun x => simple_cand ex names ctes (snd (fst x)) (snd x)) (scan m_simple_join ts) in
  snd (add_cands [] (c1 ++ c2 ++ c3 ++ c4)).

(* header override of checkQueryPermissions *)
Definition override_default (hdr : bytes) (rs : list ref) : list ref :=
  match hdr with
  | [] => rs
  | _ => map (fun '(db, m) => if bytes_eqb db k_default then (hdr, m) else (db, m)) rs
  end.

(* ------------------------------------------------------------------------------------ *)
(* 5. the rewriting passes                                                                *)
(* ------------------------------------------------------------------------------------ *)

Definition k_FROM : bytes := Eval vm_compute in s2b "FROM".

Definition rw_db_from (names : names_t) (l : list tok) : option (list tok * nat) :=
  match m_db_from l with
  | Some (a, b, n) => Some (read_parquet_toks [k_FROM] (resolve_ident names a) (resolve_ident names b), n)
  | None => None
  end.
Definition rw_db_join (names : names_t) (l : list tok) : option (list tok * nat) :=
  match m_db_join l with
  | Some (k, a, b, n) => Some (read_parquet_toks k (resolve_ident names a) (resolve_ident names b), n)
  | None => None
  end.
(* the body shared by the FROM and JOIN simple handlers; None = "return parts[0]" *)
Definition simple_target (names : names_t) (ctes : list bytes) (raw : bytes) (rest : list tok) : option bytes :=
  if mem_bytes (lower raw) ctes then None
  else let r := resolve_ident names raw in
       if mem_bytes (lower r) ctes then None
       else if should_skip (lower r) then None
       else if dot_or_call_at rest then None
       else Some r.
Definition rw_simple_from (names : names_t) (ctes : list bytes) (db : bytes) (l : list tok) : option (list tok * nat) :=
  match m_simple_from l with
  | Some (t, rest, n) =>
      match simple_target names ctes t rest with
      | Some r => Some (read_parquet_toks [k_FROM] db r, n)
      | None => Some (firstn n l, n)
      end
  | None => None
  end.
Definition rw_simple_join (names : names_t) (ctes : list bytes) (db : bytes) (l : list tok) : option (list tok * nat) :=
  match m_simple_join l with
  | Some (k, t, rest, n) =>
      match simple_target names ctes t rest with
      | Some r => Some (read_parquet_toks k db r, n)
      | None => Some (firstn n l, n)
      end
  | None => None
  end.

(* convertSQLToStoragePaths on the normalised tokens (between Phase 2 and the unmasking) *)
Definition passes_nohdr (q : bool) (names : names_t) (ts : list tok) : list tok :=
  let ctes := cte_set q names ts in
  let t1 := rewrite (rw_db_from names) ts in
  let t2 := rewrite (rw_db_join names) t1 in
  let t3 := rewrite (rw_simple_from names ctes k_default) t2 in
  rewrite (rw_simple_join names ctes k_default) t3.
Definition k_with_sp : bytes := Eval vm_compute in s2b "with ".
(* the gate of the single-table fast paths: strings.Contains(sqlLower, "with ") / (fx_with) mayDeclareCTE *)
Definition with_test (same : bool) (lo : bytes) : bool :=
  if same then match cte_names (tokenize lo) with [] => false | _ => true end
  else has_sub k_with_sp lo.
(* the CTE names of convertSQLToStoragePathsWithHeaderDB: only after "with " / (fx_with) always *)
Definition hdr_ctes (q same : bool) (names : names_t) (ts : list tok) : list bytes :=
  if same then cte_set q names ts else if has_sub k_with_sp (lower (untok ts)) then cte_set q names ts else [].
(* convertSQLToStoragePathsWithHeaderDB, slow path *)
Definition passes_hdr (q word : bool) (names : names_t) (hdr : bytes) (ts : list tok) : list tok :=
  let ctes := hdr_ctes q word names ts in
  let t3 := rewrite (rw_simple_from names ctes hdr) ts in
  rewrite (rw_simple_join names ctes hdr) t3.

(* the normalisation shared by checkQueryPermissions and the converters:
   mask literals, mask FROM inside EXTRACT/..., strip comments *)
Record normed := { n_toks : list tok; n_text : bytes; n_masks : list smask; n_fmasks : list fmask }.
Definition norm_p (s : bytes) : normed :=
  let f := scan_features s in
  let '(m, masks) := mask_go s (f_quotes f) in
  let '(m2, fm) := mask_from m in
  let t := strip_comments_gen true m2 (f_dash f || f_block f) in
  {| n_toks := tokenize t; n_text := t; n_masks := masks; n_fmasks := fm |}.
Definition names_of (masks : list smask) : names_t := identifier_names masks.

Definition convert_nohdr (q : bool) (s : bytes) : bytes :=
  let n := norm_p s in
  unmask (unmask_from (untok (passes_nohdr q (names_of (n_masks n)) (n_toks n))) (n_fmasks n)) (n_masks n).

(* isSingleTableQuery(sqlLower) *)
Fixpoint count_sub (pat l : bytes) (skip : nat) : nat :=
  match l with
  | [] => O
  | _ :: r =>
      match skip with
      | S k => count_sub pat r k
      | O => if prefixb pat l then S (count_sub pat r (length pat - 1)) else count_sub pat r O
      end
  end.
Definition k_from_sp : bytes := Eval vm_compute in s2b "from ".
Definition k_sp_join_sp : bytes := Eval vm_compute in s2b " join ".
Fixpoint trim_left_set (p : N -> bool) (l : bytes) : bytes :=
  match l with c :: r => if p c then trim_left_set p r else l | [] => [] end.
(* byte offsets of the word tokens equal to [w] *)
Fixpoint word_offsets (w : bytes) (off : nat) (ts : list tok) : list nat :=
  match ts with
  | [] => []
  | t :: r => (match t with TW x => if bytes_eqb x w then [off] else [] | _ => [] end)
              ++ word_offsets w (off + length (tok_render t))%nat r
  end.
Definition option_nat_eqb (a : option nat) (b : nat) : bool := match a with Some x => Nat.eqb x b | None => false end.
(* [kwd] = fx_single: exactly one FROM keyword, the one that "from " finds, and no JOIN keyword *)
Definition is_single_table (kwd : bool) (lo : bytes) : bool :=
  (count_sub k_from_sp lo O =? 1)%nat
  && (negb kwd || (match word_offsets k_from O (tokenize lo) with
                   | [p] => option_nat_eqb (find_sub k_from_sp lo) p
                   | _ => false end
                   && match word_offsets k_join O (tokenize lo) with [] => true | _ => false end))
  && negb (has_sub k_sp_join_sp lo)
  && match find_sub k_from_sp lo with
     | Some i => match trim_left_set (fun c => (c =? 32) || (c =? 9) || (c =? 10)) (skipn (i + 5) lo) with
                 | c :: _ => negb (c =? 40)
                 | [] => true
                 end
     | None => true
     end.
Fixpoint take_while (p : N -> bool) (l : bytes) : bytes :=
  match l with c :: r => if p c then c :: take_while p r else [] | [] => [] end.
(* convertSingleTableQuery / convertSingleTableQueryForParallel (no tiering, no pruning) *)
Definition convert_single (s : bytes) (db : bytes) : bytes :=
  match find_sub k_from_sp (lower s) with
  | None => s
  | Some idx =>
      let after := skipn (idx + 5) s in
      let rest := trim_left_set (fun c => (c =? 32) || (c =? 9) || (c =? 10)) after in
      let name := take_while is_ident_byte rest in
      match name with
      | [] => s
      | _ => if should_skip (lower name) then s
             else firstn idx s ++ read_parquet_expr k_FROM db name ++ skipn (length name) rest
      end
  end.
Definition fast_single_ok (kwd word : bool) (s : bytes) : bool :=
  let f := scan_features s in
  is_single_table kwd (lower s) && negb (with_test word (lower s)) && negb (contains_from_func s)
  && negb (f_quotes f) && negb (f_dash f) && negb (f_block f).
(* (fx_fastname) isSingleTableQuery also wants the byte after FROM and its blanks to be a lower-case letter or an
   underscore of the lower-cased text: what patternSimpleTable can start a name with *)
Definition fast_name_start_ok (lo : bytes) : bool :=
  match find_sub k_from_sp lo with
  | Some i => match trim_left_set (fun c => (c =? 32) || (c =? 9) || (c =? 10)) (skipn (i + 5) lo) with
              | c :: _ => (c =? 95) || in_range 97 122 c
              | [] => true
              end
  | None => true
  end.
Definition fast_single_gen (kwd word fn : bool) (s : bytes) : bool :=
  fast_single_ok kwd word s && (negb fn || fast_name_start_ok (lower s)).
Definition convert_hdr (q kwd word fn : bool) (s hdr : bytes) : bytes :=
  if fast_single_gen kwd word fn s then convert_single s hdr
  else let n := norm_p s in
       unmask (unmask_from (untok (passes_hdr q word (names_of (n_masks n)) hdr (n_toks n))) (n_fmasks n)) (n_masks n).

(* which text reaches DuckDB: the three-way choice of getTransformedSQL[ForParallel] *)
Inductive route := RawReadParquet | RawNoFrom | Transformed.
Definition route_of (noraw : bool) (s : bytes) : route :=
  let lo := lower s in
  if noraw then Transformed
  else if has_sub k_read_parquet lo then RawReadParquet
  else if negb (has_sub k_from lo) && negb (has_sub k_join lo) then RawNoFrom
  else Transformed.
Definition executed_text (fx : fixset) (s hdr : bytes) : bytes :=
  match route_of (fx_noraw fx) s with
  | Transformed => match hdr with [] => convert_nohdr (fx_cteq fx) s | _ => convert_hdr (fx_cteq fx) (fx_single fx) (fx_with fx) (fx_fastname fx) s hdr end
  | _ => s
  end.

(* the phase-0 rewrites (RewriteRegexToStringFuncs, rewriteTimeBucket, rewriteDateTrunc,
   OptimizeLikePatterns; property C17) are the identity on texts without their trigger words *)
Definition prerewrite_inert (s : bytes) : bool :=
  let lo := lower s in
  negb (has_sub (s2b "regexp_replace") lo) && negb (has_sub (s2b "regexp_extract") lo)
  && negb (has_sub (s2b "time_bucket") lo) && negb (has_sub (s2b "date_trunc") lo)
  && negb (has_sub (s2b "like") lo && has_sub (s2b "where") lo).

(* ------------------------------------------------------------------------------------ *)
(* 6. ValidateSQLRequest                                                                  *)
(* ------------------------------------------------------------------------------------ *)

(* backticksToDoubleQuotes: every backtick / (fx_quotes) only the backticks outside '...' and "..." literals *)
Fixpoint bt2dq_outside (inq : N) (skip : bool) (l : bytes) : bytes :=
  match l with
  | [] => []
  | c :: r =>
      if skip then c :: bt2dq_outside inq false r                    (* second quote of a doubled pair *)
      else if inq =? 0 then
        if (c =? 39) || (c =? 34) then c :: bt2dq_outside c false r
        else if c =? 96 then 34 :: bt2dq_outside 0 false r
        else c :: bt2dq_outside 0 false r
      else if c =? inq then
        match r with
        | d :: _ => if d =? inq then c :: bt2dq_outside inq true r else c :: bt2dq_outside 0 false r
        | [] => [c]
        end
      else c :: bt2dq_outside inq false r
  end.
(* the code before /repo de6f9a4: strings.ReplaceAll of the backtick by the double quote - every backtick, wherever it stands *)
Definition bt2dq_every (s : bytes) : bytes := map (fun c => if c =? 96 then 34 else c) s.
(* fx_quotes off: the old unconditional replacement (transcribed here, the shared SqlLex model follows the current
   source); on: the current code, SqlLex.backticks_to_dq. bt2dq_outside is an independent reading of the same loop,
   kept for the comparison in Props *)
Definition bt2dq (q : bool) (s : bytes) : bytes := if q then backticks_to_dq s else bt2dq_every s.
(* the shared normalisation of ValidateSQLRequest: backticks to double quotes, mask, strip comments *)
Definition norm_v (q : bool) (s : bytes) : bytes * list smask :=
  let s1 := bt2dq q s in
  let f := scan_features s1 in
  let '(m, masks) := mask_go s1 (f_quotes f) in
  (strip_comments_gen true m (f_dash f || f_block f), masks).
(* ioDenylistNormalise: delete double quotes and backticks, mask, strip comments *)
Definition norm_io (s : bytes) : bytes :=
  let s1 := filter (fun c => negb ((c =? 34) || (c =? 96))) s in
  let f := scan_features s1 in
  let '(m, _) := mask_go s1 (f_quotes f) in
  strip_comments_gen true m (f_dash f || f_block f).

(* strings.Contains(strings.TrimRight(normalised, " \t\n\r;"), ";") *)
Definition multi_statement (t : bytes) : bool :=
  existsb (fun c => c =? 59) (rev (trim_left_set (fun c => is_ws4 c || (c =? 59)) (rev t))).

(* dangerousSQLPattern on tokens *)
Definition w2 (a : bytes) (bs : list bytes) (l : list tok) : bool :=
  match l with
  | TW x :: TS _ :: TW y :: _ => is_kw a x && mem_bytes (lower y) bs
  | _ => false
  end.
Definition single_danger : list bytes := Eval vm_compute in
  map kw ["attach"; "detach"; "copy"; "pragma"; "set"; "reset"; "load"; "install"; "call"]%string.
Fixpoint secret_ahead (l : list tok) : bool :=     (* [^;]*?\bSECRET\b *)
  match l with
  | [] => false
  | TO 59 :: _ => false
  | TW w :: r => is_kw (kw "secret") w || secret_ahead r
  | _ :: r => secret_ahead r
  end.
Definition danger_at (l : list tok) : bool :=
  match l with
  | TW x :: r =>
      w2 (kw "drop") (map kw ["table"; "database"; "index"; "view"]%string) l
      || w2 (kw "delete") [kw "from"] l || w2 (kw "truncate") [kw "table"] l
      || w2 (kw "alter") [kw "table"] l
      || w2 (kw "create") (map kw ["table"; "database"; "index"]%string) l
      || w2 (kw "insert") [kw "into"] l
      || (match l with
          | TW u :: TS _ :: TW _ :: TS _ :: TW s :: _ => is_kw (kw "update") u && is_kw (kw "set") s
          | _ => false end)
      || mem_bytes (lower x) single_danger
      || w2 (kw "export") [kw "database"] l || w2 (kw "import") [kw "database"] l
      || ((is_kw (kw "create") x || is_kw (kw "drop") x) && secret_ahead r)
  | _ => false
  end.
Fixpoint dangerous (l : list tok) : bool :=
  match l with
  | [] => false
  | _ :: r => danger_at l || dangerous r
  end.

(* ioTableFunctionPattern: \b(name)\s*\(  -> the first match's name as written *)
Definition io_functions : list bytes := Eval vm_compute in
  map kw ["read_parquet"; "parquet_scan"; "parquet_metadata"; "parquet_schema"; "parquet_file_metadata";
          "parquet_kv_metadata"; "parquet_bloom_probe"; "read_csv"; "read_csv_auto"; "sniff_csv"; "read_json";
          "read_json_auto"; "read_json_objects"; "read_json_objects_auto"; "read_ndjson"; "read_ndjson_auto";
          "read_ndjson_objects"; "read_text"; "read_blob"; "read_xlsx"; "glob"; "delta_scan"; "iceberg_scan";
          "iceberg_metadata"; "iceberg_snapshots"; "arc_partition_agg"]%string.
Definition io_functions_more : list bytes := Eval vm_compute in
  map kw ["query"; "query_table"; "json_execute_serialized_sql"; "read_duckdb"; "parquet_full_metadata"]%string.
Fixpoint io_function (fns : list bytes) (l : list tok) : option bytes :=
  match l with
  | [] => None
  | TW w :: r =>
      if mem_bytes (lower w) fns
         && match r with TO 40 :: _ => true | TS _ :: TO 40 :: _ => true | _ => false end
      then Some w else io_function fns r
  | _ :: r => io_function fns r
  end.

(* --- the table-position scanner (maskedTokenInTablePosition) ------------------------- *)
(* tablePosPlaceholder: __(?:STR|IDENT)_\d+__ at the head of a byte list -> its length *)
Definition ph_at (l : bytes) : option nat :=
  let digits_then (n0 : nat) (r : bytes) : option nat :=
    let d := take_while is_digit r in
    match d with
    | [] => None
    | _ => if prefixb [95; 95] (skipn (length d) r) then Some (n0 + length d + 2)%nat else None
    end in
  if prefixb w_uuSTR_ l then digits_then 6%nat (skipn 6 l)
  else if prefixb w_uuIDENT_ l then digits_then 8%nat (skipn 8 l)
  else None.
(* cut a word at the leftmost non-overlapping placeholders (the " $0 " isolation) *)
Fixpoint split_word (cur : bytes) (skip : nat) (l : bytes) : list bytes :=
  match l with
  | [] => match cur with [] => [] | _ => [rev cur] end
  | c :: r =>
      match skip with
      | S k => split_word cur k r
      | O => match ph_at l with
             | Some n => (match cur with [] => [] | _ => [rev cur] end) ++ firstn n l :: split_word [] (n - 1) r
             | None => split_word (c :: cur) O r
             end
      end
  end.
(* tablePosTokenPattern on one isolated piece: placeholder | [A-Za-z_][A-Za-z0-9_]* (leading digits are skipped) *)
Definition piece_atom (p : bytes) : option bytes :=
  match trim_left_set is_digit p with [] => None | a => Some a end.
Inductive vtok := VA (a : bytes) | VL | VR | VC.     (* atom, "(", ")", "," *)
Definition vtoks_of (t : tok) : list vtok :=
  match t with
  | TW w => flat_map (fun p => match piece_atom p with Some a => [VA a] | None => [] end) (split_word [] O w)
  | TO 40 => [VL] | TO 41 => [VR] | TO 44 => [VC]
  | _ => []
  end.
Definition vtoks (ts : list tok) : list vtok := flat_map vtoks_of ts.

Definition from_terminators : list bytes := Eval vm_compute in
  map kw ["where"; "group"; "having"; "order"; "limit"; "offset"; "window"; "qualify"; "union"; "except";
          "intersect"; "fetch"; "for"]%string.
Definition is_placeholder_atom (a : bytes) : bool := prefixb w_uuSTR_ a || prefixb w_uuIDENT_ a.

(* fromArmed as a list indexed by depth (head = depth 0 ... ) is kept as: armed flags of the depths
   0..depth, innermost first *)
Definition kind_words : list bytes := Eval vm_compute in
  map kw ["table"; "describe"; "desc"; "summarize"; "show"; "pivot"; "unpivot"; "pivot_wider"; "pivot_longer"]%string.
(* [sc] = fx_scanner: "(" keeps afterFromJoin, LATERAL leaves the state alone, the statement-kind words set
   afterFromJoin *)
Fixpoint tablepos (sc : bool) (flag : bytes -> bool) (armed : list bool) (after : bool) (l : list vtok) : option bytes :=
  match l with
  | [] => None
  | VL :: r => tablepos sc flag (false :: armed) (sc && after) r
  | VR :: r => (match armed with
                | _ :: (_ :: _) as outer => tablepos sc flag outer false r
                | _ => tablepos sc flag armed false r            (* depth 0: nothing changes *)
                end)
  | VC :: r => tablepos sc flag armed (hd false armed) r
  | VA a :: r =>
      if is_placeholder_atom a then
        if after && flag a then Some a else tablepos sc flag armed false r
      else
        let lw := lower a in
        if bytes_eqb lw k_from || bytes_eqb lw k_join then tablepos sc flag (true :: tl armed) true r
        else if sc && bytes_eqb lw k_lateral then tablepos sc flag armed after r
        else if sc && mem_bytes lw kind_words then tablepos sc flag armed true r
        else if mem_bytes lw from_terminators then tablepos sc flag (false :: tl armed) false r
        else tablepos sc flag armed false r
  end.
Definition string_in_table_pos (sc : bool) (io_text : bytes) : bool :=
  match tablepos sc (fun a => prefixb w_uuSTR_ a) [false] false (vtoks (tokenize io_text)) with
  | Some _ => true | None => false end.
(* invalidQuotedIdentifierInTablePosition: the offending name *)
Definition ident_flag (names : names_t) (a : bytes) : option bytes :=
  if prefixb w_uuIDENT_ a then
    match name_lookup a names with
    | None => Some a
    | Some n => if valid_identifier n then None else Some n
    end
  else None.
Fixpoint first_flagged (sc : bool) (names : names_t) (armed : list bool) (after : bool) (l : list vtok) : option bytes :=
  match l with
  | [] => None
  | VL :: r => first_flagged sc names (false :: armed) (sc && after) r
  | VR :: r => (match armed with
                | _ :: (_ :: _) as outer => first_flagged sc names outer false r
                | _ => first_flagged sc names armed false r
                end)
  | VC :: r => first_flagged sc names armed (hd false armed) r
  | VA a :: r =>
      if is_placeholder_atom a then
        match (if after then ident_flag names a else None) with
        | Some n => Some n
        | None => first_flagged sc names armed false r
        end
      else
        let lw := lower a in
        if bytes_eqb lw k_from || bytes_eqb lw k_join then first_flagged sc names (true :: tl armed) true r
        else if sc && bytes_eqb lw k_lateral then first_flagged sc names armed after r
        else if sc && mem_bytes lw kind_words then first_flagged sc names armed true r
        else if mem_bytes lw from_terminators then first_flagged sc names (false :: tl armed) false r
        else first_flagged sc names armed false r
  end.
Definition invalid_ident_in_table_pos (sc : bool) (v_text : bytes) (masks : list smask) : option bytes :=
  match names_of masks with
  | [] => None                                    (* identNames == nil *)
  | names => first_flagged sc names [false] false (vtoks (tokenize v_text))
  end.

(* fx_denylist: the shared normalisation with every identifier placeholder replaced by its unquoted name
   (tablePosPlaceholder.ReplaceAllStringFunc) *)
Definition resolve_ph_text (names : names_t) (v : bytes) : bytes :=
  untok (map (fun t => match t with
                       | TW w => TW (flat_map (fun p => match name_lookup p names with Some n => n | None => p end) (split_word [] O w))
                       | t => t end) (tokenize v)).
(* fx_bsq: backslashBeforeQuote on a mask's original text *)
Definition bsq_mask (q : bool) (m : smask) : bool :=
  let o := m_orig m in
  match o with
  | c :: _ => if c =? 39 then has_sub [92; 39] o
              else if c =? 34 then has_sub [92; 34] o
              else if (c =? 101) || (c =? 69) then has_sub (if q then [92; 39] else [92; 92; 39]) o
              else false
  | [] => false
  end.

Inductive reject :=
| RjEmpty | RjLong | RjMulti | RjDanger | RjIO (name : bytes) | RjStrPos | RjIdentPos (name : bytes)
| RjHeader | RjCross | RjShowDb | RjBackslash | RjReserved.

(* the placeholder spellings of internal/sql/mask.go anywhere in the request text (fx_reserved) *)
Definition reserved_text (s : bytes) : bool :=
  has_sub (s2b "__STR_") s || has_sub (s2b "__IDENT_") s || has_sub (s2b "__FROM_MASK_") s.
Definition validate (fx : fixset) (s : bytes) : option reject :=
  if match trim_space s with [] => true | _ => false end then Some RjEmpty
  else if 10000 <? N.of_nat (length s) then Some RjLong
  else if fx_reserved fx && reserved_text s then Some RjReserved
  else
    let '(v, vmasks) := norm_v (fx_quotes fx) s in
    if fx_bsq fx && existsb (bsq_mask (fx_quotes fx)) vmasks then Some RjBackslash
    else if multi_statement v then Some RjMulti
    else if dangerous (tokenize v) then Some RjDanger
    else
      let io := norm_io s in
      let fns := if fx_denylist fx then io_functions ++ io_functions_more else io_functions in
      match io_function fns (tokenize io) with
      | Some n => Some (RjIO n)
      | None =>
          match (if fx_denylist fx then io_function fns (tokenize (resolve_ph_text (names_of vmasks) v)) else None) with
          | Some n => Some (RjIO n)
          | None =>
              if string_in_table_pos (fx_scanner fx) io
                 || (fx_denylist fx && string_in_table_pos (fx_scanner fx) v) then Some RjStrPos
              else match invalid_ident_in_table_pos (fx_scanner fx) v vmasks with
                   | Some (c :: n) => Some (RjIdentPos (c :: n))
                   | _ => None                (* also when the first offending name is EMPTY: `name != ""` *)
                   end
          end
      end.

(* ------------------------------------------------------------------------------------ *)
(* 7. header checks, SHOW gate, the whole gate                                            *)
(* ------------------------------------------------------------------------------------ *)

(* hasCrossDatabaseSyntax on the lower-cased normalised tokens *)
Fixpoint cross_db (l : list tok) : bool :=
  match l with
  | [] => false
  | t :: r =>
      (match l with
       | TW k :: TS s :: TW _ :: TO 46 :: TW _ :: _ =>
           (is_kw k_from k || is_kw k_join k) && forallb is_ws4 s
       | _ => false
       end) || cross_db r
  end.
Definition has_cross_db (s : bytes) : bool := cross_db (n_toks (norm_p s)).

(* anchored SHOW patterns on the text of normalizeSQLForShow *)
Definition skip_rs (l : bytes) : bytes := trim_left_set is_rs l.
Definition word_ci (k : bytes) (l : bytes) : option bytes :=       (* literal, case-insensitive *)
  if (length k <=? length l)%nat && bytes_eqb (lower (firstn (length k) l)) k then Some (skipn (length k) l) else None.
Definition rs_plus (l : bytes) : option bytes :=
  match l with c :: _ => if is_rs c then Some (skip_rs l) else None | [] => None end.
(* \s*;?\s*$ *)
Definition tail_ok (l : bytes) : bool :=
  match skip_rs l with
  | [] => true
  | c :: r => (c =? 59) && match skip_rs r with [] => true | _ => false end
  end.
Definition show_databases (t : bytes) : bool :=
  match word_ci (kw "show") (skip_rs t) with
  | Some r => match rs_plus r with
              | Some r2 => match word_ci (kw "databases") r2 with Some r3 => tail_ok r3 | None => false end
              | None => false end
  | None => false
  end.
Definition is_name_byte (c : N) : bool := is_ident_byte c || (c =? 46) || (c =? 45).
Definition is_show_quote (c : N) : bool := (c =? 34) || (c =? 39) || (c =? 96).
(* Some None: SHOW TABLES without FROM; Some (Some db): with FROM db *)
Definition show_tables (t : bytes) : option (option bytes) :=
  match word_ci (kw "show") (skip_rs t) with
  | Some r =>
      match rs_plus r with
      | Some r2 =>
          let after_kw := match word_ci (kw "tables") r2 with
                          | Some x => Some x
                          | None => word_ci (kw "measurements") r2 end in
          match after_kw with
          | Some r3 =>
              let with_from :=
                match rs_plus r3 with
                | Some r4 =>
                    match word_ci (kw "from") r4 with
                    | Some r5 =>
                        match rs_plus r5 with
                        | Some r6 =>
                            let r7 := match r6 with c :: x => if is_show_quote c then x else r6 | [] => r6 end in
                            let name := take_while is_name_byte r7 in
                            match name with
                            | [] => (* the optional quote may also be left unmatched *)
                                    None
                            | _ => let r8 := skipn (length name) r7 in
                                   let r9 := match r8 with c :: x => if is_show_quote c then x else r8 | [] => r8 end in
                                   if tail_ok r9 then Some name else None
                            end
                        | None => None end
                    | None => None end
                | None => None end in
              match with_from with
              | Some n => Some (Some n)
              | None => if tail_ok r3 then Some None else None
              end
          | None => None end
      | None => None end
  | None => None
  end.

Inductive outcome :=
| OReject (r : reject)
| OShowDatabases                                        (* checks ("*", "*") *)
| OShowTables (db : bytes)                              (* checks (db, "*") *)
| OExec (checked : list ref) (rt : route) (text : bytes).

Definition star : bytes := [42].
Definition gate_gen (fx : fixset) (s hdr : bytes) : outcome :=
  match validate fx s with
  | Some r => OReject r
  | None =>
      if negb (match hdr with [] => true | _ => valid_identifier hdr end) then OReject RjHeader
      else if negb (match hdr with [] => true | _ => false end) && has_cross_db s then OReject RjCross
      else
        let sh := trim_space (normalise_gen true (bt2dq (fx_quotes fx) s)) in
        if show_databases sh then OShowDatabases
        else match show_tables sh with
             | Some cap =>
                 let db := match cap with
                           | Some n => n
                           | None => match hdr with [] => k_default | _ => hdr end end in
                 if valid_identifier db then OShowTables db else OReject RjShowDb
             | None =>
                 let n := norm_p s in
                 OExec (override_default hdr (extract_refs (fx_cteq fx) (fx_dedup fx) (names_of (n_masks n)) (n_toks n)))
                       (route_of (fx_noraw fx) s) (executed_text fx s hdr)
             end
  end.
(* the code as it was when the findings were made *)
Definition gate := gate_gen fx_none.

(* ------------------------------------------------------------------------------------ *)
(* correspondence case: request + what the REAL handler did                               *)
(* ------------------------------------------------------------------------------------ *)
(* observed kind: 0 rejected by validation/header/show (400), code in [g_code];
                  1 SHOW DATABASES reached its permission check, 2 SHOW TABLES reached it (db in g_name),
                  3 the query reached checkQueryPermissions; g_exec = Some text when it was executed *)
Record gate_case := { g_fix : N;             (* which repairs the current source has (fx_of_bits) *)
                      g_sql : bytes; g_hdr : bytes; g_kind : N; g_code : N; g_name : bytes;
                      g_checked : list ref; g_exec : option bytes }.
Definition reject_code (r : reject) : N * bytes :=
  match r with
  | RjEmpty => (1, []) | RjLong => (2, []) | RjMulti => (3, []) | RjDanger => (4, [])
  | RjIO n => (5, lower n) | RjStrPos => (6, []) | RjIdentPos n => (7, n)
  | RjHeader => (8, []) | RjCross => (9, []) | RjShowDb => (10, []) | RjBackslash => (11, []) | RjReserved => (12, [])
  end.
Definition ref_eqb (a b : ref) : bool := bytes_eqb (fst a) (fst b) && bytes_eqb (snd a) (snd b).
Definition gate_case_agrees (c : gate_case) : bool :=
  match gate_gen (fx_of_bits (g_fix c)) (g_sql c) (g_hdr c) with
  | OReject r => (g_kind c =? 0) && (fst (reject_code r) =? g_code c) && bytes_eqb (snd (reject_code r)) (g_name c)
  | OShowDatabases => (g_kind c =? 1) && list_eqb ref_eqb (g_checked c) [(star, star)]
  | OShowTables db => (g_kind c =? 2) && list_eqb ref_eqb (g_checked c) [(db, star)]
  | OExec chk _ text =>
      (g_kind c =? 3) && list_eqb ref_eqb (g_checked c) chk
      && match g_exec c with
         | Some t => negb (prerewrite_inert (g_sql c)) || bytes_eqb t text
         | None => true                      (* denied by the permission check: nothing executed *)
         end
  end.

(* ==================================================================================== *)
(* PART B                                                                                 *)
(* ==================================================================================== *)
(* ------------------------------------------------------------------------------------ *)
(* 8. statements as segment lists (the normalised, token-level reading)                   *)
(* ------------------------------------------------------------------------------------ *)
(* A statement, as the rewriting passes and the reference extractor see it, is a list of segments:
   table references introduced by FROM or by a JOIN prefix, and every other token (select lists,
   predicates, parentheses of subqueries and CTE bodies, commas, placeholders of masked literals,
   argument lists emitted by an earlier pass ...).  Depth and length are unbounded.  [seg_toks] prints
   a segment; [segs_of] (section 9) parses a token list back. *)

Record jpre := { jp_mods : list (bytes * bytes);          (* (modifier word, whitespace) *)
                 jp_lat1 : option (bytes * bytes);        (* LATERAL before JOIN *)
                 jp_join : bytes; jp_ws : bytes;
                 jp_lat2 : option (bytes * bytes) }.      (* LATERAL after JOIN *)

(* FROM or a join prefix that is not followed by a word: FROM ( subquery ), LEFT JOIN ( ... ) *)
Inductive kwpre := KFrom (f ws : bytes) | KJoin (p : jpre).

Inductive nseg :=
| NTok (t : tok)                                          (* any other token *)
| NFrom (f ws : bytes) (db : option bytes) (m : bytes)    (* FROM ws [db .] m *)
| NJoin (p : jpre) (db : option bytes) (m : bytes)        (* prefix [db .] m *)
| NKw (k : kwpre).                                        (* FROM ws / prefix, then something that is not a word *)

Definition ws_pair_toks (p : bytes * bytes) : list tok := [TW (fst p); TS (snd p)].
Definition opt_toks {A} (f : A -> list tok) (o : option A) : list tok := match o with Some a => f a | None => [] end.
Definition jpre_toks (p : jpre) : list tok :=
  flat_map ws_pair_toks (jp_mods p) ++ opt_toks ws_pair_toks (jp_lat1 p)
  ++ [TW (jp_join p); TS (jp_ws p)] ++ opt_toks ws_pair_toks (jp_lat2 p).
Definition name_toks (db : option bytes) (m : bytes) : list tok :=
  match db with Some d => [TW d; TO 46; TW m] | None => [TW m] end.
Definition seg_toks (s : nseg) : list tok :=
  match s with
  | NTok t => [t]
  | NFrom f ws db m => TW f :: TS ws :: name_toks db m
  | NJoin p db m => jpre_toks p ++ name_toks db m
  | NKw (KFrom f ws) => [TW f; TS ws]
  | NKw (KJoin p) => jpre_toks p
  end.
Definition toks (l : list nseg) : list tok := flat_map seg_toks l.

(* the join prefix as joinKeyword re-emits it: the same words, single blanks *)
Definition sp : bytes := [32].
Definition jpre_norm (p : jpre) : jpre :=
  {| jp_mods := map (fun x => (fst x, sp)) (jp_mods p);
     jp_lat1 := option_map (fun x => (fst x, sp)) (jp_lat1 p);
     jp_join := jp_join p; jp_ws := sp;
     jp_lat2 := option_map (fun x => (fst x, sp)) (jp_lat2 p) |}.

(* the words at which one of the four table patterns can start *)
Definition start_word (w : bytes) : bool :=
  let lw := lower w in
  bytes_eqb lw k_from || bytes_eqb lw k_join || bytes_eqb lw k_lateral || mem_bytes lw join_mods.
Definition inert_tok (t : tok) : bool :=
  match t with TW w => negb (start_word w) | _ => true end.

(* what follows a table reference is neither "." nor "(" (also after blanks / isWhitespace bytes);
   only the first two tokens matter *)
Definition next_ok (rest : list tok) : bool :=
  negb (dot_at rest) && negb (function_call_at rest) && negb (dot_or_call_at rest).

Definition jpre_ok (p : jpre) : bool :=
  forallb (fun x => is_mod (fst x)) (jp_mods p)
  && match jp_lat1 p with Some x => is_kw k_lateral (fst x) | None => true end
  && is_kw k_join (jp_join p)
  && match jp_lat2 p with Some x => is_kw k_lateral (fst x) | None => true end.
(* a resolved name is usable as a path segment and as a key: the resolver did not have to fall back to
   the sentinel, there is no dot in it, and it does not look like a placeholder of the masker (the
   unmasking runs over the emitted paths as well) *)
Definition plain_name (names : names_t) (w : bytes) : bool :=
  negb (start_word w) && starts_alpha w && bytes_eqb (resolve_ident names w) (resolve names w)
  && negb (existsb (fun c => c =? 46) (resolve names w)) && ph_guard (resolve names w).
Definition on_skip_list (names : names_t) (m : bytes) : bool := should_skip (lower (resolve_ident names m)).
Definition name_ok (names : names_t) (db : option bytes) (m : bytes) (rest : list tok) : bool :=
  plain_name names m
  && match db with
     | Some d => plain_name names d
     | None => negb (dot_at rest) && (next_ok rest || on_skip_list names m)
     end.
Definition nonword_head (l : list tok) : bool := match l with TW _ :: _ => false | _ => true end.
Definition kw_ok (k : kwpre) : bool :=
  match k with
  | KFrom f _ => is_kw k_from f
  | KJoin p => jpre_ok p && match jp_lat2 p with None => true | Some _ => false end
  end.
Fixpoint wf_segs (names : names_t) (l : list nseg) : bool :=
  match l with
  | [] => true
  | s :: r =>
      (match s with
       | NTok t => inert_tok t
       | NFrom f _ db m => is_kw k_from f && name_ok names db m (toks r)
       | NJoin p db m => jpre_ok p && name_ok names db m (toks r)
       | NKw k => kw_ok k && nonword_head (toks r)
       end) && wf_segs names r
  end.

(* the specification of the rewriting: a qualified reference db.m, and an unqualified reference that is
   neither a CTE name nor on the skip list, becomes the read_parquet of its measurement (the join prefix
   keeps its words); nothing else changes *)
Definition keeps (ctes : list bytes) (names : names_t) (m : bytes) : bool :=
  mem_bytes (lower m) ctes || mem_bytes (lower (resolve_ident names m)) ctes || on_skip_list names m.
Definition emit_from (db m : bytes) : list nseg :=
  [NFrom k_FROM sp None k_read_parquet; NTok (TR (read_parquet_args db m))].
Definition emit_join (p : jpre) (db m : bytes) : list nseg :=
  [NJoin (jpre_norm p) None k_read_parquet; NTok (TR (read_parquet_args db m))].
(* [qualified]: rewrite the db.m references (the passes without header); [dflt]: database of the
   unqualified ones *)
Definition subst_seg (names : names_t) (ctes : list bytes) (dflt : bytes) (qualified : bool) (s : nseg) : list nseg :=
  match s with
  | NFrom f ws (Some d) m => if qualified then emit_from (resolve_ident names d) (resolve_ident names m) else [s]
  | NJoin p (Some d) m => if qualified then emit_join p (resolve_ident names d) (resolve_ident names m) else [s]
  | NFrom f ws None m => if keeps ctes names m then [s] else emit_from dflt (resolve_ident names m)
  | NJoin p None m => if keeps ctes names m then [s] else emit_join p dflt (resolve_ident names m)
  | NTok _ | NKw _ => [s]
  end.
Definition subst_segs names ctes dflt qualified (l : list nseg) : list nseg :=
  flat_map (subst_seg names ctes dflt qualified) l.

(* the (database, measurement) pairs whose files the rewritten statement reads *)
Definition seg_reads (names : names_t) (ctes : list bytes) (dflt : bytes) (qualified : bool) (s : nseg) : list ref :=
  match s with
  | NFrom _ _ (Some d) m | NJoin _ (Some d) m => if qualified then [(resolve_ident names d, resolve_ident names m)] else []
  | NFrom _ _ None m | NJoin _ None m => if keeps ctes names m then [] else [(dflt, resolve_ident names m)]
  | NTok _ | NKw _ => []
  end.
Definition rewritten_refs names ctes dflt qualified (l : list nseg) : list ref :=
  flat_map (seg_reads names ctes dflt qualified) l.
(* a checked reference covers a read one: same database, same measurement up to ASCII case *)
Definition covers (chk : list ref) (r : ref) : bool :=
  existsb (fun c => bytes_eqb (fst c) (fst r) && bytes_eqb (lower (snd c)) (lower (snd r))) chk.
Definition covers_exact (chk : list ref) (r : ref) : bool := existsb (ref_eqb r) chk.

(* ------------------------------------------------------------------------------------ *)
(* 9. parsing a token list into segments                                                  *)
(* ------------------------------------------------------------------------------------ *)
Fixpoint take_mods (l : list tok) : list (bytes * bytes) * list tok :=
  match l with
  | TW w :: TS s :: r => if is_mod w then let '(ms, r') := take_mods r in ((w, s) :: ms, r') else ([], l)
  | _ => ([], l)
  end.
Definition take_name (l : list tok) : option (option bytes * bytes * list tok) :=
  match l with
  | TW a :: r =>
      match r with
      | TO c :: TW b :: r' => if c =? 46 then Some (Some a, b, r') else Some (None, a, r)
      | _ => Some (None, a, r)
      end
  | _ => None
  end.
Definition parse_join (l : list tok) : option (nseg * list tok) :=
  let '(ms, l1) := take_mods l in
  let '(lat1, l2) := match l1 with
                     | TW la :: TS s :: r => if is_kw k_lateral la then (Some (la, s), r) else (None, l1)
                     | _ => (None, l1) end in
  match l2 with
  | TW j :: TS s :: l3 =>
      if is_kw k_join j then
        let '(lat2, l4) := match l3 with
                           | TW la :: TS s2 :: (TW _ :: _) as r => if is_kw k_lateral la then (Some (la, s2), r) else (None, l3)
                           | _ => (None, l3) end in
        match take_name l4 with
        | Some (db, m, r) => Some (NJoin {| jp_mods := ms; jp_lat1 := lat1; jp_join := j; jp_ws := s; jp_lat2 := lat2 |} db m, r)
        | None => Some (NKw (KJoin {| jp_mods := ms; jp_lat1 := lat1; jp_join := j; jp_ws := s; jp_lat2 := None |}), l3)
        end
      else None
  | _ => None
  end.
Definition parse_seg (l : list tok) : option (nseg * list tok) :=
  match l with
  | TW f :: TS s :: r =>
      if is_kw k_from f then
        match take_name r with Some (db, m, r') => Some (NFrom f s db m, r') | None => Some (NKw (KFrom f s), r) end
      else parse_join l
  | _ => None
  end.
Fixpoint segs_f (fuel : nat) (l : list tok) : list nseg :=
  match fuel, l with
  | O, _ | _, [] => []
  | S f, t :: r =>
      match parse_seg l with
      | Some (s, rest) => s :: segs_f f rest
      | None => NTok t :: segs_f f r
      end
  end.
Definition segs_of (l : list tok) : list nseg := segs_f (length l) l.
Fixpoint toks_eqb (a b : list tok) : bool :=
  match a, b with
  | [], [] => true
  | TW x :: a', TW y :: b' | TS x :: a', TS y :: b' | TR x :: a', TR y :: b' => bytes_eqb x y && toks_eqb a' b'
  | TO x :: a', TO y :: b' => (x =? y) && toks_eqb a' b'
  | _, _ => false
  end.
(* the class of token lists the theorems of Props.v speak about (decidable; evaluated on every case) *)
Definition in_grammar (names : names_t) (ts : list tok) : bool :=
  toks_eqb (toks (segs_of ts)) ts && wf_segs names (segs_of ts)
  && match name_lookup k_read_parquet names with None => true | Some _ => false end.

(* ------------------------------------------------------------------------------------ *)
(* 10. guard classes of the request-level theorems and the spec-side views                *)
(* ------------------------------------------------------------------------------------ *)
(* no string literal and no quoted identifier of the request could name a file: none contains "/" or "."
   (DuckDB opens a file for a replacement scan or a table function only when such a token names it) *)
Definition pathlike (b : bytes) : bool := existsb (fun c => (c =? 47) || (c =? 46)) b.
Definition pathlike_free (s : bytes) : bool :=
  forallb (fun m => negb (pathlike (m_orig m))) (n_masks (norm_p s)).

(* the references that the rewritten statement reads, for a request text *)
Definition request_reads (fx : fixset) (s hdr : bytes) : list ref :=
  let n := norm_p s in
  let names := names_of (n_masks n) in
  let segs := segs_of (n_toks n) in
  match hdr with
  | [] => rewritten_refs names (cte_set (fx_cteq fx) names (n_toks n)) k_default true segs
  | _ => rewritten_refs names (hdr_ctes (fx_cteq fx) (fx_with fx) names (n_toks n)) hdr false segs
  end.

(* correspondence: the guard classes and the oracle, evaluated on every generated case *)
Definition case_in_grammar (c : gate_case) : bool :=
  let n := norm_p (g_sql c) in in_grammar (names_of (n_masks n)) (n_toks n).
Definition case_pathlike_free (c : gate_case) : bool := pathlike_free (g_sql c).
Definition case_fx (c : gate_case) : fixset := fx_of_bits (g_fix c).
Definition case_header_ctes_ok (c : gate_case) : bool :=
  let ts := n_toks (norm_p (g_sql c)) in
  match g_hdr c with
  | [] => true
  | _ => fx_with (case_fx c) || has_sub k_with_sp (lower (untok ts)) || match cte_names ts with [] => true | _ => false end
  end.
Definition case_slow_path (c : gate_case) : bool :=
  match g_hdr c with [] => true | _ => negb (fast_single_gen (fx_single (case_fx c)) (fx_with (case_fx c)) (fx_fastname (case_fx c)) (g_sql c)) end.
(* the oracle of C14 on the IMPLEMENTATION's observation: every measurement that DuckDB opened
   ([reads], measured by the harness) was permission-checked *)
Definition reads_checked_exact (checked reads : list ref) : bool := forallb (covers_exact checked) reads.
Definition reads_checked (checked reads : list ref) : bool := forallb (covers checked) reads.

(* what DuckDB opened for the executed text (measured by the harness), against the model's prediction:
   on the transform path, for a request of the class without file-naming literals, DuckDB opens only
   rewritten references *)
Record read_case := { r_gate : gate_case; r_reads : list ref; r_existing : list ref }.
Definition ref_mem (r : ref) (l : list ref) : bool := existsb (ref_eqb r) l.
Definition refs_subset (a b : list ref) : bool := forallb (fun r => ref_mem r b) a.
(* with the repairs of the validator and without raw routes the guard "no literal names a file" is not needed *)
Definition guards_repaired (fx : fixset) : bool := fx_scanner fx && fx_denylist fx && fx_noraw fx && fx_bsq fx && fx_quotes fx && fx_reserved fx.
Definition read_case_in_domain (c : read_case) : bool :=
  let g := r_gate c in
  case_in_grammar g && (guards_repaired (case_fx g) || case_pathlike_free g) && case_header_ctes_ok g && case_slow_path g
  && match route_of (fx_noraw (case_fx g)) (g_sql g) with Transformed => true | _ => false end.
Definition read_case_agrees (c : read_case) : bool :=
  negb (read_case_in_domain c)
  || (let pred := filter (fun r => ref_mem r (r_existing c)) (request_reads (case_fx (r_gate c)) (g_sql (r_gate c)) (g_hdr (r_gate c))) in
      refs_subset (r_reads c) pred).
(* ... and exactly those (fails only when DuckDB does not bind a part of the statement, e.g. an unused CTE) *)
Definition read_case_exact (c : read_case) : bool :=
  negb (read_case_in_domain c)
  || (let pred := filter (fun r => ref_mem r (r_existing c)) (request_reads (case_fx (r_gate c)) (g_sql (r_gate c)) (g_hdr (r_gate c))) in
      refs_subset pred (r_reads c) && refs_subset (r_reads c) pred).
(* the oracle of C14 on the implementation's observation *)
Definition read_case_oracle (c : read_case) : bool := reads_checked (g_checked (r_gate c)) (r_reads c).
Definition read_case_oracle_exact (c : read_case) : bool := reads_checked_exact (g_checked (r_gate c)) (r_reads c).

(* all the per-case predicates in one pass (bit i = predicate i holds), sharing the normalisation *)
Definition bit (b : bool) (i : N) : N := if b then N.shiftl 1 i else 0.
Definition read_case_flags (c : read_case) : N :=
  let g := r_gate c in
  let s := g_sql g in
  let n := norm_p s in
  let names := names_of (n_masks n) in
  let ts := n_toks n in
  let ing := in_grammar names ts in
  let plf := forallb (fun m => negb (pathlike (m_orig m))) (n_masks n) in
  let fx := case_fx g in
  let hok := match g_hdr g with
             | [] => true
             | _ => fx_with fx || has_sub k_with_sp (lower (untok ts)) || match cte_names ts with [] => true | _ => false end
             end in
  let slow := case_slow_path g in
  let dom := ing && (guards_repaired fx || plf) && hok && slow && match route_of (fx_noraw fx) s with Transformed => true | _ => false end in
  let pred := if dom then filter (fun r => ref_mem r (r_existing c)) (request_reads fx s (g_hdr g)) else [] in
  bit (gate_case_agrees g) 0 + bit ing 1 + bit plf 2 + bit hok 3 + bit slow 4 + bit dom 5
  + bit (negb dom || refs_subset (r_reads c) pred) 6
  + bit (read_case_oracle c) 7 + bit (read_case_oracle_exact c) 8
  + bit (negb dom || (refs_subset pred (r_reads c) && refs_subset (r_reads c) pred)) 9.
