(* SqlAst - proofs (C14, C16). *)
From Coq Require Import String Ascii.
From Coq Require Import NArith ZArith Bool Arith List Lia.
From Arc Require Import SqlLex.Model SqlLex.Lemmas SqlAst.Model.
Import ListNotations.
Open Scope N_scope.

(* ------------------------------------------------------------------------------------ *)
(* generic facts about scan / rewrite                                                     *)
(* ------------------------------------------------------------------------------------ *)
Lemma skipn_length_le {A} (n : nat) (l : list A) : (length (skipn n l) <= length l)%nat.
Proof. rewrite skipn_length. lia. Qed.

Section ScanFacts.
  Context {A : Type} (m : list tok -> option (A * nat)).

  Lemma scan_f_fuel2 : forall f1 f2 l, (length l <= f1)%nat -> (length l <= f2)%nat -> scan_f m f1 l = scan_f m f2 l.
  Proof.
    induction f1 as [|f1 IH]; intros f2 l H1 H2.
    - destruct l; [destruct f2; reflexivity|cbn in H1; lia].
    - destruct l as [|t r]; [destruct f2; reflexivity|].
      destruct f2 as [|f2]; [cbn in H2; lia|]. cbn [scan_f]. cbn in H1, H2.
      destruct (m (t :: r)) as [[a n]|].
      + f_equal. pose proof (skipn_length_le (Nat.pred n) r). apply IH; lia.
      + apply IH; lia.
  Qed.
  Lemma scan_f_fuel : forall f l, (length l <= f)%nat -> scan_f m f l = scan_f m (length l) l.
  Proof. intros. apply scan_f_fuel2; lia. Qed.

  Lemma scan_nil : scan m [] = [].
  Proof. reflexivity. Qed.

  Lemma scan_cons : forall t r,
    scan m (t :: r) = match m (t :: r) with
                      | Some (a, n) => a :: scan m (skipn (Nat.pred n) r)
                      | None => scan m r
                      end.
  Proof.
    intros t r. unfold scan. cbn [length scan_f].
    destruct (m (t :: r)) as [[a n]|]; [|reflexivity].
    f_equal. apply scan_f_fuel. apply skipn_length_le.
  Qed.

  (* tokens at which the matcher never fires are skipped *)
  Lemma scan_skip : forall pre rest,
    (forall t l, In t pre -> m (t :: l) = None) -> scan m (pre ++ rest) = scan m rest.
  Proof.
    induction pre as [|t pre IH]; intros rest H; [reflexivity|].
    cbn [app]. rewrite scan_cons, (H t (pre ++ rest)) by (left; reflexivity).
    apply IH. intros t' l Hin. apply H. right; exact Hin.
  Qed.
End ScanFacts.

Section RewriteFacts.
  Context (m : list tok -> option (list tok * nat)).

  Lemma rewrite_f_fuel2 : forall f1 f2 l, (length l <= f1)%nat -> (length l <= f2)%nat -> rewrite_f m f1 l = rewrite_f m f2 l.
  Proof.
    induction f1 as [|f1 IH]; intros f2 l H1 H2.
    - destruct l; [destruct f2; reflexivity|cbn in H1; lia].
    - destruct l as [|t r]; [destruct f2; reflexivity|].
      destruct f2 as [|f2]; [cbn in H2; lia|]. cbn [rewrite_f]. cbn in H1, H2.
      destruct (m (t :: r)) as [[a n]|].
      + f_equal. pose proof (skipn_length_le (Nat.pred n) r). apply IH; lia.
      + f_equal. apply IH; lia.
  Qed.
  Lemma rewrite_f_fuel : forall f l, (length l <= f)%nat -> rewrite_f m f l = rewrite_f m (length l) l.
  Proof. intros. apply rewrite_f_fuel2; lia. Qed.

  Lemma rewrite_nil : rewrite m [] = [].
  Proof. reflexivity. Qed.

  Lemma rewrite_cons : forall t r,
    rewrite m (t :: r) = match m (t :: r) with
                         | Some (rep, n) => rep ++ rewrite m (skipn (Nat.pred n) r)
                         | None => t :: rewrite m r
                         end.
  Proof.
    intros t r. unfold rewrite. cbn [length rewrite_f].
    destruct (m (t :: r)) as [[a n]|]; [|reflexivity].
    f_equal. apply rewrite_f_fuel. apply skipn_length_le.
  Qed.

  Lemma rewrite_skip : forall pre rest,
    (forall t l, In t pre -> m (t :: l) = None) -> rewrite m (pre ++ rest) = pre ++ rewrite m rest.
  Proof.
    induction pre as [|t pre IH]; intros rest H; [reflexivity|].
    cbn [app]. rewrite rewrite_cons, (H t (pre ++ rest)) by (left; reflexivity).
    f_equal. apply IH. intros t' l Hin. apply H. right; exact Hin.
  Qed.
End RewriteFacts.

(* ------------------------------------------------------------------------------------ *)
(* the walk of a matcher: what scan and rewrite both follow                               *)
(* ------------------------------------------------------------------------------------ *)
Inductive witem (A : Type) := WMatch (a : A) (consumed : list tok) | WSkip (t : tok).
Arguments WMatch {A}. Arguments WSkip {A}.

Section Walk.
  Context {A : Type} (m : list tok -> option (A * nat)).
  Fixpoint walk_f (fuel : nat) (l : list tok) : list (witem A) :=
    match fuel, l with
    | O, _ | _, [] => []
    | S f, t :: r =>
        match m l with
        | Some (a, n) => WMatch a (firstn n l) :: walk_f f (skipn (Nat.pred n) r)
        | None => WSkip t :: walk_f f r
        end
    end.
  Definition walk (l : list tok) : list (witem A) := walk_f (length l) l.

  Lemma walk_f_fuel2 : forall f1 f2 l, (length l <= f1)%nat -> (length l <= f2)%nat -> walk_f f1 l = walk_f f2 l.
  Proof.
    induction f1 as [|f1 IH]; intros f2 l H1 H2.
    - destruct l; [destruct f2; reflexivity|cbn in H1; lia].
    - destruct l as [|t r]; [destruct f2; reflexivity|].
      destruct f2 as [|f2]; [cbn in H2; lia|]. cbn [walk_f]. cbn in H1, H2.
      destruct (m (t :: r)) as [[a n]|].
      + f_equal. pose proof (skipn_length_le (Nat.pred n) r). apply IH; lia.
      + f_equal. apply IH; lia.
  Qed.

  Lemma walk_cons : forall t r,
    walk (t :: r) = match m (t :: r) with
                    | Some (a, n) => WMatch a (firstn n (t :: r)) :: walk (skipn (Nat.pred n) r)
                    | None => WSkip t :: walk r
                    end.
  Proof.
    intros t r. unfold walk. cbn [length walk_f].
    destruct (m (t :: r)) as [[a n]|]; [|reflexivity].
    f_equal. apply walk_f_fuel2; [apply skipn_length_le|lia].
  Qed.

  Lemma walk_skip : forall pre rest,
    (forall t l, In t pre -> m (t :: l) = None) -> walk (pre ++ rest) = map WSkip pre ++ walk rest.
  Proof.
    induction pre as [|t pre IH]; intros rest H; [reflexivity|].
    cbn [app map]. rewrite walk_cons, (H t (pre ++ rest)) by (left; reflexivity).
    f_equal. apply IH. intros t' l Hin. apply H. right; exact Hin.
  Qed.

  (* a match that consumes exactly [pre] *)
  Lemma walk_match : forall pre rest a,
    pre <> [] -> m (pre ++ rest) = Some (a, length pre) -> walk (pre ++ rest) = WMatch a pre :: walk rest.
  Proof.
    intros pre rest a Hne Hm. destruct pre as [|t pre]; [congruence|].
    cbn [app] in *. rewrite walk_cons, Hm. cbn [length Nat.pred].
    f_equal.
    - f_equal. change (t :: pre ++ rest) with ((t :: pre) ++ rest).
      replace (S (length pre)) with (length (t :: pre)) by reflexivity. apply firstn_app_len.
    - f_equal. apply skipn_app_len.
  Qed.

  Definition scan_of (w : list (witem A)) : list A :=
    flat_map (fun it => match it with WMatch a _ => [a] | WSkip _ => [] end) w.
  Lemma scan_walk_f : forall f l, scan_f m f l = scan_of (walk_f f l).
  Proof.
    induction f as [|f IH]; intros l; [reflexivity|].
    destruct l as [|t r]; [reflexivity|]. cbn [scan_f walk_f].
    destruct (m (t :: r)) as [[a n]|]; cbn [scan_of flat_map app]; [f_equal|]; apply IH.
  Qed.
  Lemma scan_walk : forall l, scan m l = scan_of (walk l).
  Proof. intros l. apply scan_walk_f. Qed.
End Walk.

Section WalkRewrite.
  Context {A : Type} (m : list tok -> option (A * nat)) (rep : A -> list tok -> list tok).
  Definition lift_rw (l : list tok) : option (list tok * nat) :=
    match m l with Some (a, n) => Some (rep a (firstn n l), n) | None => None end.
  Definition rewrite_of (w : list (witem A)) : list tok :=
    flat_map (fun it => match it with WMatch a c => rep a c | WSkip t => [t] end) w.
  Lemma rewrite_walk_f : forall f l, (length l <= f)%nat -> rewrite_f lift_rw f l = rewrite_of (walk_f m f l).
  Proof.
    induction f as [|f IH]; intros l H.
    - destruct l; [reflexivity|cbn in H; lia].
    - destruct l as [|t r]; [reflexivity|]. cbn [rewrite_f walk_f]. unfold lift_rw at 1. cbn in H.
      destruct (m (t :: r)) as [[a n]|]; cbn [rewrite_of flat_map app]; f_equal; apply IH;
        [pose proof (skipn_length_le (Nat.pred n) r)|]; lia.
  Qed.
  Lemma rewrite_walk : forall l, rewrite lift_rw l = rewrite_of (walk m l).
  Proof. intros l. apply rewrite_walk_f. lia. Qed.
End WalkRewrite.

(* ------------------------------------------------------------------------------------ *)
(* word classes                                                                           *)
(* ------------------------------------------------------------------------------------ *)
Lemma is_kw_eq : forall k w, is_kw k w = true -> lower w = k.
Proof. unfold is_kw. intros k w H. apply bytes_eqb_eq in H. exact H. Qed.

Lemma start_word_false : forall w, start_word w = false ->
  is_kw k_from w = false /\ is_kw k_join w = false /\ is_kw k_lateral w = false /\ is_mod w = false.
Proof.
  unfold start_word, is_kw, is_mod. intros w H.
  repeat (apply orb_false_elim in H; destruct H as [H ?]). auto.
Qed.

Lemma from_not_others : forall w, is_kw k_from w = true ->
  is_kw k_join w = false /\ is_kw k_lateral w = false /\ is_mod w = false /\ start_word w = true.
Proof. intros w H. apply is_kw_eq in H. unfold is_kw, is_mod, start_word. rewrite H. vm_compute. auto. Qed.
Lemma join_not_others : forall w, is_kw k_join w = true ->
  is_kw k_from w = false /\ is_kw k_lateral w = false /\ is_mod w = false.
Proof. intros w H. apply is_kw_eq in H. unfold is_kw, is_mod. rewrite H. vm_compute. auto. Qed.
Lemma lateral_not_others : forall w, is_kw k_lateral w = true ->
  is_kw k_from w = false /\ is_kw k_join w = false /\ is_mod w = false.
Proof. intros w H. apply is_kw_eq in H. unfold is_kw, is_mod. rewrite H. vm_compute. auto. Qed.
Lemma mod_not_others : forall w, is_mod w = true ->
  is_kw k_from w = false /\ is_kw k_join w = false /\ is_kw k_lateral w = false.
Proof.
  unfold is_mod, join_mods. intros w H. cbn [mem_bytes] in H.
  repeat (apply orb_true_iff in H; destruct H as [H|H]); try discriminate;
    apply bytes_eqb_eq in H; unfold is_kw; rewrite H; vm_compute; auto.
Qed.

(* ------------------------------------------------------------------------------------ *)
(* the join prefix                                                                        *)
(* ------------------------------------------------------------------------------------ *)
Lemma skip_mods_pairs : forall mods X,
  forallb (fun x => is_mod (fst x)) mods = true -> skip_mods X = (O, X) ->
  skip_mods (flat_map ws_pair_toks mods ++ X) = ((2 * length mods)%nat, X).
Proof.
  induction mods as [|[w s] mods IH]; intros X Hm HX; [exact HX|].
  cbn [forallb fst] in Hm. apply andb_true_iff in Hm. destruct Hm as [Hw Hm].
  cbn [flat_map ws_pair_toks fst snd app skip_mods]. rewrite Hw, (IH X Hm HX).
  apply f_equal2; [|reflexivity]. change (length ((w, s) :: mods)) with (S (length mods)). lia.
Qed.

Lemma skip_mods_nonmod : forall w l, is_mod w = false -> skip_mods (TW w :: l) = (O, TW w :: l).
Proof. intros w l H. cbn [skip_mods]. destruct l as [|[]]; try reflexivity. rewrite H. reflexivity. Qed.

Definition jlen (p : jpre) : nat := length (jpre_toks p).
Lemma pairs_length : forall mods, length (flat_map ws_pair_toks mods) = (2 * length mods)%nat.
Proof. induction mods as [|a mods IH]; [reflexivity|]. cbn [flat_map ws_pair_toks app length]. rewrite IH. lia. Qed.

Lemma join_prefix_jpre : forall {A} (tail : list tok -> option A) p x after,
  jpre_ok p = true -> is_kw k_lateral x = false ->
  join_prefix tail (jpre_toks p ++ TW x :: after) =
    match jp_lat2 p with
    | None => option_map (fun a => (a, jlen p)) (tail (TW x :: after))
    | Some ls =>
        match tail (TW x :: after) with
        | Some a => Some (a, jlen p)
        | None => option_map (fun a => (a, (jlen p - 2)%nat)) (tail (TW (fst ls) :: TS (snd ls) :: TW x :: after))
        end
    end.
Proof.
  intros A tail [mods lat1 j ws lat2] x after Hok Hx.
  unfold jpre_ok in Hok. cbn [jp_mods jp_lat1 jp_join jp_lat2] in Hok.
  repeat (apply andb_true_iff in Hok; destruct Hok as [Hok ?]).
  rename Hok into Hmods. rename H1 into Hl1. rename H0 into Hj. rename H into Hl2.
  destruct (join_not_others j Hj) as (_ & Hjl & Hjm).
  unfold jlen, jpre_toks, join_prefix. cbn [jp_mods jp_lat1 jp_join jp_ws jp_lat2].
  rewrite <- !app_assoc.
  rewrite (skip_mods_pairs mods); [|exact Hmods|].
  2:{ destruct lat1 as [[la s1]|]; cbn [opt_toks ws_pair_toks fst snd app].
      - cbn [fst] in Hl1. apply skip_mods_nonmod. apply (lateral_not_others la Hl1).
      - apply skip_mods_nonmod. exact Hjm. }
  rewrite !app_length, pairs_length. cbn [length].
  destruct lat1 as [[la s1]|]; cbn [opt_toks ws_pair_toks fst snd app length] in *.
  - rewrite Hl1, Hj.
    destruct lat2 as [[lb s2]|]; cbn [opt_toks ws_pair_toks fst snd app length] in *.
    + rewrite Hl2. destruct (tail (TW x :: after)); cbn [option_map];
        [f_equal; f_equal; lia|]. destruct (tail (TW lb :: TS s2 :: TW x :: after)); cbn [option_map]; [f_equal; f_equal; lia|reflexivity].
    + destruct after as [|[]]; try rewrite Hx; destruct (tail _); cbn [option_map]; try reflexivity; f_equal; f_equal; lia.
  - rewrite Hjl, Hj.
    destruct lat2 as [[lb s2]|]; cbn [opt_toks ws_pair_toks fst snd app length] in *.
    + rewrite Hl2. destruct (tail (TW x :: after)); cbn [option_map];
        [f_equal; f_equal; lia|]. destruct (tail (TW lb :: TS s2 :: TW x :: after)); cbn [option_map]; [f_equal; f_equal; lia|reflexivity].
    + destruct after as [|[]]; try rewrite Hx; destruct (tail _); cbn [option_map]; try reflexivity; f_equal; f_equal; lia.
Qed.

(* ------------------------------------------------------------------------------------ *)
(* where the matchers cannot fire                                                         *)
(* ------------------------------------------------------------------------------------ *)
Definition nonfrom (t : tok) : bool := match t with TW w => negb (is_kw k_from w) | _ => true end.
Definition nonjoin (t : tok) : bool :=
  match t with TW w => negb (is_mod w) && negb (is_kw k_lateral w) && negb (is_kw k_join w) | _ => true end.

Lemma dbF_none : forall t l, nonfrom t = true -> m_db_from (t :: l) = None.
Proof. intros [w| | |] l H; try reflexivity. cbn in H. apply negb_true_iff in H. cbn [m_db_from]. rewrite H. reflexivity. Qed.
Lemma sF_none : forall t l, nonfrom t = true -> m_simple_from (t :: l) = None.
Proof. intros [w| | |] l H; try reflexivity. cbn in H. apply negb_true_iff in H. cbn [m_simple_from]. rewrite H. reflexivity. Qed.

Lemma join_prefix_none : forall {A} (tail : list tok -> option A) w l,
  is_mod w = false -> is_kw k_lateral w = false -> is_kw k_join w = false -> join_prefix tail (TW w :: l) = None.
Proof.
  intros A tail w l Hm Hl Hj. unfold join_prefix. rewrite (skip_mods_nonmod w l Hm).
  destruct l as [|[]]; try rewrite Hl; try rewrite Hj; reflexivity.
Qed.
Lemma dbJ_none : forall t l, nonjoin t = true -> m_db_join (t :: l) = None.
Proof.
  intros [w| | |] l H; try reflexivity. cbn in H.
  repeat (apply andb_true_iff in H; destruct H as [H ?]). apply negb_true_iff in H, H0, H1.
  unfold m_db_join. rewrite join_prefix_none by assumption. reflexivity.
Qed.
Lemma sJ_none : forall t l, nonjoin t = true -> m_simple_join (t :: l) = None.
Proof.
  intros [w| | |] l H; try reflexivity. cbn in H.
  repeat (apply andb_true_iff in H; destruct H as [H ?]). apply negb_true_iff in H, H0, H1.
  unfold m_simple_join. rewrite join_prefix_none by assumption. reflexivity.
Qed.

Lemma inert_nonfrom : forall t, inert_tok t = true -> nonfrom t = true.
Proof. intros [w| | |] H; try reflexivity. unfold nonfrom, inert_tok in *. apply negb_true_iff in H. destruct (start_word_false w H) as (-> & _). reflexivity. Qed.
Lemma inert_nonjoin : forall t, inert_tok t = true -> nonjoin t = true.
Proof. intros [w| | |] H; try reflexivity. unfold nonjoin, inert_tok in *. apply negb_true_iff in H. destruct (start_word_false w H) as (_ & -> & -> & ->). reflexivity. Qed.

Lemma jpre_toks_nonfrom : forall p t, jpre_ok p = true -> In t (jpre_toks p) -> nonfrom t = true.
Proof.
  intros [mods lat1 j ws lat2] t Hok Hin. unfold jpre_ok in Hok. cbn [jp_mods jp_lat1 jp_join jp_lat2] in Hok.
  repeat (apply andb_true_iff in Hok; destruct Hok as [Hok ?]).
  unfold jpre_toks in Hin. cbn [jp_mods jp_lat1 jp_join jp_ws jp_lat2] in Hin.
  repeat (apply in_app_or in Hin; destruct Hin as [Hin|Hin]).
  - apply in_flat_map in Hin. destruct Hin as ([w s] & Hw & Ht). rewrite forallb_forall in Hok. specialize (Hok _ Hw). cbn in Hok, Ht.
    destruct Ht as [<-|[<-|[]]]; [|reflexivity]. cbn. destruct (mod_not_others w Hok) as (-> & _). reflexivity.
  - destruct lat1 as [[la s]|]; [|destruct Hin]. cbn in Hin, H1. destruct Hin as [<-|[<-|[]]]; [|reflexivity].
    cbn. destruct (lateral_not_others la H1) as (-> & _). reflexivity.
  - cbn in Hin. destruct Hin as [<-|[<-|[]]]; [|reflexivity]. cbn. destruct (join_not_others j H0) as (-> & _). reflexivity.
  - destruct lat2 as [[la s]|]; [|destruct Hin]. cbn in Hin, H. destruct Hin as [<-|[<-|[]]]; [|reflexivity].
    cbn. destruct (lateral_not_others la H) as (-> & _). reflexivity.
Qed.

Lemma jpre_toks_head : forall p, exists w r, jpre_toks p = TW w :: r.
Proof.
  intros [mods lat1 j ws lat2]. unfold jpre_toks. cbn [jp_mods jp_lat1 jp_join jp_ws jp_lat2].
  destruct mods as [|[w s] mods]; [|cbn; eauto]. destruct lat1 as [[la s]|]; cbn; eauto.
Qed.

Lemma prefix_words_app : forall a b, prefix_words (length a) (a ++ b) = prefix_words (length a) a.
Proof. induction a as [|[] a IH]; intros b; cbn [length app prefix_words]; try rewrite IH; reflexivity. Qed.
Lemma prefix_words_pairs : forall l, prefix_words (length (flat_map ws_pair_toks l)) (flat_map ws_pair_toks l) = map fst l.
Proof. induction l as [|[w s] l IH]; [reflexivity|]. cbn [flat_map ws_pair_toks app length prefix_words fst snd map]. rewrite IH. reflexivity. Qed.
Lemma prefix_words_all_app : forall a b, prefix_words (length (a ++ b)) (a ++ b) = prefix_words (length a) a ++ prefix_words (length b) b.
Proof. induction a as [|[] a IH]; intros b; cbn [length app prefix_words]; try rewrite IH; reflexivity. Qed.

Definition jpre_words (p : jpre) : list bytes :=
  map fst (jp_mods p) ++ match jp_lat1 p with Some x => [fst x] | None => [] end
  ++ [jp_join p] ++ match jp_lat2 p with Some x => [fst x] | None => [] end.

Lemma prefix_words_jpre : forall p rest, prefix_words (jlen p) (jpre_toks p ++ rest) = jpre_words p.
Proof.
  intros [mods lat1 j ws lat2] rest. unfold jlen. rewrite prefix_words_app.
  unfold jpre_toks, jpre_words. cbn [jp_mods jp_lat1 jp_join jp_ws jp_lat2].
  rewrite !prefix_words_all_app, prefix_words_pairs.
  destruct lat1 as [[]|], lat2 as [[]|]; reflexivity.
Qed.
Lemma jpre_words_nonnil : forall p, jpre_words p <> [].
Proof. intros [mods lat1 j ws lat2]. unfold jpre_words. cbn. destruct mods, lat1; cbn; congruence. Qed.
Lemma join_keyword_jpre : forall p rest, join_keyword (jlen p) (jpre_toks p ++ rest) = jpre_words p.
Proof. intros p rest. unfold join_keyword. rewrite prefix_words_jpre. pose proof (jpre_words_nonnil p). destruct (jpre_words p); congruence. Qed.

(* ------------------------------------------------------------------------------------ *)
(* walks over one segment                                                                 *)
(* ------------------------------------------------------------------------------------ *)
Lemma plain_name_facts : forall names w, plain_name names w = true ->
  start_word w = false /\ starts_alpha w = true /\ resolve_ident names w = resolve names w
  /\ existsb (fun c => c =? 46) (resolve names w) = false /\ ph_guard (resolve names w) = true.
Proof.
  unfold plain_name. intros names w H. repeat (apply andb_true_iff in H; destruct H as [H ?]).
  apply negb_true_iff in H, H1. apply bytes_eqb_eq in H2. auto.
Qed.
Lemma plain_nonfrom : forall names w, plain_name names w = true -> nonfrom (TW w) = true.
Proof. intros names w H. apply inert_nonfrom. cbn. destruct (plain_name_facts _ _ H) as (-> & _). reflexivity. Qed.
Lemma plain_nonjoin : forall names w, plain_name names w = true -> nonjoin (TW w) = true.
Proof. intros names w H. apply inert_nonjoin. cbn. destruct (plain_name_facts _ _ H) as (-> & _). reflexivity. Qed.

Lemma dot_at_false_db_tail : forall x rest, dot_at rest = false -> db_tail (TW x :: rest) = None.
Proof.
  intros x [|[w|s|c|r] rest] H; try reflexivity. cbn [db_tail]. destruct rest as [|[]]; try reflexivity.
  cbn in H. rewrite H. reflexivity.
Qed.

Section SegWalks.
  Variable names : names_t.

  (* ---- FROM segments ---- *)
  Lemma walk_dbF_from_q : forall f ws d mm rest, is_kw k_from f = true ->
    walk m_db_from (seg_toks (NFrom f ws (Some d) mm) ++ rest)
    = WMatch (d, mm) (seg_toks (NFrom f ws (Some d) mm)) :: walk m_db_from rest.
  Proof.
    intros f ws d mm rest Hf. apply walk_match; [discriminate|].
    cbn [seg_toks name_toks app m_db_from length]. rewrite Hf. reflexivity.
  Qed.

  Lemma walk_dbF_from_u : forall f ws mm rest, is_kw k_from f = true -> plain_name names mm = true -> dot_at rest = false ->
    walk m_db_from (seg_toks (NFrom f ws None mm) ++ rest)
    = map WSkip (seg_toks (NFrom f ws None mm)) ++ walk m_db_from rest.
  Proof.
    intros f ws mm rest Hf Hm Hd. cbn [seg_toks name_toks app map].
    rewrite walk_cons.
    assert (m_db_from (TW f :: TS ws :: TW mm :: rest) = None) as ->.
    { cbn [m_db_from]. rewrite Hf. destruct rest as [|[w|s|c|r] rest]; try reflexivity.
      destruct rest as [|[]]; try reflexivity. cbn in Hd. rewrite Hd. reflexivity. }
    f_equal. change (TS ws :: TW mm :: rest) with ([TS ws; TW mm] ++ rest).
    rewrite walk_skip; [reflexivity|].
    intros t l [<-|[<-|[]]]; apply dbF_none; [reflexivity|eapply plain_nonfrom; eassumption].
  Qed.

  Lemma walk_sF_from_q : forall f ws d mm rest, is_kw k_from f = true -> plain_name names d = true -> plain_name names mm = true ->
    walk m_simple_from (seg_toks (NFrom f ws (Some d) mm) ++ rest)
    = WMatch (d, TO 46 :: TW mm :: rest) [TW f; TS ws; TW d] :: WSkip (TO 46) :: WSkip (TW mm) :: walk m_simple_from rest.
  Proof.
    intros f ws d mm rest Hf Hd Hm. cbn [seg_toks name_toks app].
    change (TW f :: TS ws :: TW d :: TO 46 :: TW mm :: rest) with ([TW f; TS ws; TW d] ++ (TO 46 :: TW mm :: rest)).
    rewrite walk_match with (a := (d, TO 46 :: TW mm :: rest)); [|discriminate|].
    - f_equal. change (TO 46 :: TW mm :: rest) with ([TO 46; TW mm] ++ rest).
      rewrite walk_skip; [reflexivity|].
      intros t l [<-|[<-|[]]]; apply sF_none; [reflexivity|eapply plain_nonfrom; eassumption].
    - cbn [app m_simple_from length]. rewrite Hf. destruct (plain_name_facts _ _ Hd) as (_ & -> & _). reflexivity.
  Qed.

  Lemma walk_sF_from_u : forall f ws mm rest, is_kw k_from f = true -> plain_name names mm = true ->
    walk m_simple_from (seg_toks (NFrom f ws None mm) ++ rest)
    = WMatch (mm, rest) (seg_toks (NFrom f ws None mm)) :: walk m_simple_from rest.
  Proof.
    intros f ws mm rest Hf Hm. apply walk_match; [discriminate|].
    cbn [seg_toks name_toks app m_simple_from length]. rewrite Hf. destruct (plain_name_facts _ _ Hm) as (_ & -> & _). reflexivity.
  Qed.

  Lemma name_toks_nonjoin : forall db mm t, plain_name names mm = true ->
    match db with Some d => plain_name names d = true | None => True end ->
    In t (name_toks db mm) -> nonjoin t = true.
  Proof.
    intros [d|] mm t Hm Hd Hin; cbn in Hin.
    - destruct Hin as [<-|[<-|[<-|[]]]]; [eapply plain_nonjoin; eassumption|reflexivity|eapply plain_nonjoin; eassumption].
    - destruct Hin as [<-|[]]. eapply plain_nonjoin; eassumption.
  Qed.
  Lemma name_toks_nonfrom : forall db mm t, plain_name names mm = true ->
    match db with Some d => plain_name names d = true | None => True end ->
    In t (name_toks db mm) -> nonfrom t = true.
  Proof.
    intros [d|] mm t Hm Hd Hin; cbn in Hin.
    - destruct Hin as [<-|[<-|[<-|[]]]]; [eapply plain_nonfrom; eassumption|reflexivity|eapply plain_nonfrom; eassumption].
    - destruct Hin as [<-|[]]. eapply plain_nonfrom; eassumption.
  Qed.

  Lemma from_seg_nonjoin : forall f ws db mm t, is_kw k_from f = true -> plain_name names mm = true ->
    match db with Some d => plain_name names d = true | None => True end ->
    In t (seg_toks (NFrom f ws db mm)) -> nonjoin t = true.
  Proof.
    intros f ws db mm t Hf Hm Hd [<-|[<-|Hin]]; [|reflexivity|eapply name_toks_nonjoin; eassumption].
    unfold nonjoin. destruct (from_not_others f Hf) as (-> & -> & -> & _). reflexivity.
  Qed.
  Lemma join_seg_nonfrom : forall p db mm t, jpre_ok p = true -> plain_name names mm = true ->
    match db with Some d => plain_name names d = true | None => True end ->
    In t (seg_toks (NJoin p db mm)) -> nonfrom t = true.
  Proof.
    intros p db mm t Hp Hm Hd Hin. cbn [seg_toks] in Hin. apply in_app_or in Hin. destruct Hin as [Hin|Hin].
    - eapply jpre_toks_nonfrom; eassumption.
    - eapply name_toks_nonfrom; eassumption.
  Qed.
End SegWalks.

Lemma m_db_join_jpre : forall p after,
  m_db_join (jpre_toks p ++ after) =
    match join_prefix db_tail (jpre_toks p ++ after) with
    | Some ((a, b), n) => Some (join_keyword n (jpre_toks p ++ after), a, b, (n + 3)%nat)
    | None => None
    end.
Proof. intros p after. destruct (jpre_toks_head p) as (w & r & E). rewrite E. reflexivity. Qed.
Lemma m_simple_join_jpre : forall p after,
  m_simple_join (jpre_toks p ++ after) =
    match join_prefix simple_tail (jpre_toks p ++ after) with
    | Some ((x, rest), n) => Some (join_keyword n (jpre_toks p ++ after), x, rest, (n + 1)%nat)
    | None => None
    end.
Proof. intros p after. destruct (jpre_toks_head p) as (w & r & E). rewrite E. reflexivity. Qed.

Lemma jpre_toks_nonnil : forall p, jpre_toks p <> [].
Proof. intros p. destruct (jpre_toks_head p) as (w & r & E). rewrite E. discriminate. Qed.

Section JoinWalks.
  Variable names : names_t.

  Lemma plain_not_lateral : forall w, plain_name names w = true -> is_kw k_lateral w = false.
  Proof. intros w H. destruct (plain_name_facts _ _ H) as (Hs & _). apply (start_word_false w Hs). Qed.
  Lemma plain_not_join : forall w, plain_name names w = true -> is_kw k_join w = false.
  Proof. intros w H. destruct (plain_name_facts _ _ H) as (Hs & _). apply (start_word_false w Hs). Qed.

  Lemma walk_dbJ_join_q : forall p d mm rest, jpre_ok p = true -> plain_name names d = true ->
    walk m_db_join (seg_toks (NJoin p (Some d) mm) ++ rest)
    = WMatch (jpre_words p, d, mm) (seg_toks (NJoin p (Some d) mm)) :: walk m_db_join rest.
  Proof.
    intros p d mm rest Hp Hd. apply walk_match.
    - cbn [seg_toks]. intros E. apply app_eq_nil in E. destruct E as [E _]. exact (jpre_toks_nonnil p E).
    - cbn [seg_toks name_toks]. rewrite <- app_assoc. cbn [app].
      rewrite m_db_join_jpre, (join_prefix_jpre db_tail p d _ Hp (plain_not_lateral d Hd)).
      cbn [db_tail]. rewrite N.eqb_refl.
      rewrite app_length. cbn [length]. fold (jlen p).
      destruct (jp_lat2 p); cbn [option_map]; rewrite join_keyword_jpre; reflexivity.
  Qed.

  Lemma dbJ_head_none_u : forall p mm rest, jpre_ok p = true -> plain_name names mm = true -> dot_at rest = false ->
    m_db_join (jpre_toks p ++ TW mm :: rest) = None.
  Proof.
    intros p mm rest Hp Hm Hd.
    rewrite m_db_join_jpre, (join_prefix_jpre db_tail p mm _ Hp (plain_not_lateral mm Hm)).
    rewrite (dot_at_false_db_tail mm rest Hd). destruct (jp_lat2 p); reflexivity.
  Qed.

  Lemma dbJ_lat_tail_none : forall la s mm rest, is_kw k_lateral la = true -> plain_name names mm = true ->
    m_db_join (TW la :: TS s :: TW mm :: rest) = None.
  Proof.
    intros la s mm rest Hl Hm. unfold m_db_join, join_prefix.
    destruct (lateral_not_others la Hl) as (_ & _ & Hmod).
    rewrite (skip_mods_nonmod la _ Hmod). rewrite Hl.
    destruct rest as [|[]]; try reflexivity. rewrite (plain_not_join mm Hm). reflexivity.
  Qed.

  Lemma walk_dbJ_join_u : forall p mm rest, jpre_ok p = true -> plain_name names mm = true -> dot_at rest = false ->
    walk m_db_join (seg_toks (NJoin p None mm) ++ rest)
    = map WSkip (seg_toks (NJoin p None mm)) ++ walk m_db_join rest.
  Proof.
    intros [mods lat1 j ws lat2] mm rest Hp Hm Hd. cbn [seg_toks name_toks]. rewrite <- app_assoc. cbn [app].
    rewrite map_app. cbn [map]. rewrite <- app_assoc. cbn [app].
    (* the tail after JOIN ws *)
    assert (Htail : walk m_db_join (opt_toks ws_pair_toks lat2 ++ TW mm :: rest)
                    = map WSkip (opt_toks ws_pair_toks lat2) ++ WSkip (TW mm) :: walk m_db_join rest).
    { unfold jpre_ok in Hp. cbn [jp_mods jp_lat1 jp_join jp_lat2] in Hp.
      repeat (apply andb_true_iff in Hp; destruct Hp as [Hp ?]).
      destruct lat2 as [[lb s2]|]; cbn [opt_toks ws_pair_toks fst snd app map].
      - cbn [fst] in H. rewrite walk_cons, (dbJ_lat_tail_none lb s2 mm rest H Hm). f_equal.
        rewrite walk_cons, dbJ_none by reflexivity. f_equal.
        rewrite walk_cons, dbJ_none by (eapply plain_nonjoin; eassumption). reflexivity.
      - rewrite walk_cons, dbJ_none by (eapply plain_nonjoin; eassumption). reflexivity. }
    (* from JOIN on *)
    assert (Hjoin : jpre_ok {| jp_mods := []; jp_lat1 := None; jp_join := j; jp_ws := ws; jp_lat2 := lat2 |} = true).
    { unfold jpre_ok in *. cbn [jp_mods jp_lat1 jp_join jp_lat2 forallb] in *.
      repeat (apply andb_true_iff in Hp; destruct Hp as [Hp ?]). rewrite H, H0. reflexivity. }
    assert (Hj : walk m_db_join (TW j :: TS ws :: opt_toks ws_pair_toks lat2 ++ TW mm :: rest)
                 = WSkip (TW j) :: WSkip (TS ws) :: map WSkip (opt_toks ws_pair_toks lat2) ++ WSkip (TW mm) :: walk m_db_join rest).
    { rewrite walk_cons.
      pose proof (dbJ_head_none_u _ mm rest Hjoin Hm Hd) as E. unfold jpre_toks in E.
      cbn [jp_mods jp_lat1 jp_join jp_ws jp_lat2 flat_map opt_toks app] in E. repeat rewrite <- app_assoc in E. cbn [app] in E.
      rewrite E. f_equal. rewrite walk_cons, dbJ_none by reflexivity. f_equal. exact Htail. }
    unfold jpre_toks. cbn [jp_mods jp_lat1 jp_join jp_ws jp_lat2].
    rewrite !map_app. rewrite <- !app_assoc. cbn [app map].
    revert Hp. induction mods as [|[w s] mods IH]; intros Hp.
    - cbn [flat_map app map].
      destruct lat1 as [[la s1]|]; cbn [opt_toks ws_pair_toks fst snd app map].
      + rewrite walk_cons.
        pose proof (dbJ_head_none_u _ mm rest Hp Hm Hd) as E. unfold jpre_toks in E.
        cbn [jp_mods jp_lat1 jp_join jp_ws jp_lat2 flat_map opt_toks ws_pair_toks fst snd app] in E.
        repeat rewrite <- app_assoc in E. cbn [app] in E. rewrite E. f_equal.
        rewrite walk_cons, dbJ_none by reflexivity. f_equal. exact Hj.
      + exact Hj.
    - cbn [flat_map ws_pair_toks fst snd app map].
      rewrite walk_cons.
      pose proof (dbJ_head_none_u _ mm rest Hp Hm Hd) as E. unfold jpre_toks in E.
      cbn [jp_mods jp_lat1 jp_join jp_ws jp_lat2 flat_map ws_pair_toks fst snd app] in E.
      repeat rewrite <- app_assoc in E. cbn [app] in E. rewrite E. f_equal.
      rewrite walk_cons, dbJ_none by reflexivity. f_equal.
      apply IH. unfold jpre_ok in *. cbn [jp_mods jp_lat1 jp_join jp_lat2 forallb fst] in *.
      repeat (apply andb_true_iff in Hp; destruct Hp as [Hp ?]).
      rewrite H2, H1, H0, H. reflexivity.
  Qed.

  Lemma walk_sJ_join_u : forall p mm rest, jpre_ok p = true -> plain_name names mm = true ->
    walk m_simple_join (seg_toks (NJoin p None mm) ++ rest)
    = WMatch (jpre_words p, mm, rest) (seg_toks (NJoin p None mm)) :: walk m_simple_join rest.
  Proof.
    intros p mm rest Hp Hm. apply walk_match.
    - cbn [seg_toks]. intros E. apply app_eq_nil in E. destruct E as [E _]. exact (jpre_toks_nonnil p E).
    - cbn [seg_toks name_toks]. rewrite <- app_assoc. cbn [app].
      rewrite m_simple_join_jpre, (join_prefix_jpre simple_tail p mm _ Hp (plain_not_lateral mm Hm)).
      cbn [simple_tail]. destruct (plain_name_facts _ _ Hm) as (_ & -> & _).
      rewrite app_length. cbn [length]. fold (jlen p).
      destruct (jp_lat2 p); cbn [option_map]; rewrite join_keyword_jpre; reflexivity.
  Qed.

  Lemma walk_sJ_join_q : forall p d mm rest, jpre_ok p = true -> plain_name names d = true -> plain_name names mm = true ->
    walk m_simple_join (seg_toks (NJoin p (Some d) mm) ++ rest)
    = WMatch (jpre_words p, d, TO 46 :: TW mm :: rest) (jpre_toks p ++ [TW d])
      :: WSkip (TO 46) :: WSkip (TW mm) :: walk m_simple_join rest.
  Proof.
    intros p d mm rest Hp Hd Hm. cbn [seg_toks name_toks].
    replace ((jpre_toks p ++ [TW d; TO 46; TW mm]) ++ rest) with ((jpre_toks p ++ [TW d]) ++ (TO 46 :: TW mm :: rest))
      by (rewrite <- !app_assoc; reflexivity).
    rewrite walk_match with (a := (jpre_words p, d, TO 46 :: TW mm :: rest)).
    - f_equal. change (TO 46 :: TW mm :: rest) with ([TO 46; TW mm] ++ rest).
      rewrite walk_skip; [reflexivity|].
      intros t l [<-|[<-|[]]]; apply sJ_none; [reflexivity|eapply plain_nonjoin; eassumption].
    - intros E. apply app_eq_nil in E. destruct E as [E _]. exact (jpre_toks_nonnil p E).
    - rewrite <- app_assoc. cbn [app].
      rewrite m_simple_join_jpre, (join_prefix_jpre simple_tail p d _ Hp (plain_not_lateral d Hd)).
      cbn [simple_tail]. destruct (plain_name_facts _ _ Hd) as (_ & -> & _).
      rewrite app_length. cbn [length]. fold (jlen p).
      destruct (jp_lat2 p); cbn [option_map]; rewrite join_keyword_jpre; reflexivity.
  Qed.
End JoinWalks.


(* ---- FROM / join prefix followed by a non-word ---- *)
Lemma join_prefix_open : forall {A} (tail : list tok -> option A) p rest,
  jpre_ok p = true -> jp_lat2 p = None -> nonword_head rest = true -> tail rest = None ->
  join_prefix tail (jpre_toks p ++ rest) = None.
Proof.
  intros A tail [mods lat1 j ws lat2] rest Hok Hl2 Hnw Ht. cbn [jp_lat2] in Hl2. subst lat2.
  unfold jpre_ok in Hok. cbn [jp_mods jp_lat1 jp_join jp_lat2] in Hok.
  repeat (apply andb_true_iff in Hok; destruct Hok as [Hok ?]).
  rename Hok into Hmods. rename H1 into Hl1. rename H0 into Hj.
  destruct (join_not_others j Hj) as (_ & Hjl & Hjm).
  unfold jpre_toks, join_prefix. cbn [jp_mods jp_lat1 jp_join jp_ws jp_lat2 opt_toks].
  rewrite app_nil_r. rewrite <- !app_assoc.
  rewrite (skip_mods_pairs mods); [|exact Hmods|].
  2:{ destruct lat1 as [[la s1]|]; cbn [opt_toks ws_pair_toks fst snd app].
      - cbn [fst] in Hl1. apply skip_mods_nonmod. apply (lateral_not_others la Hl1).
      - apply skip_mods_nonmod. exact Hjm. }
  destruct lat1 as [[la s1]|]; cbn [opt_toks ws_pair_toks fst snd app] in *.
  - rewrite Hl1, Hj. destruct rest as [|[] rest]; try discriminate; rewrite Ht; reflexivity.
  - rewrite Hjl, Hj. destruct rest as [|[] rest]; try discriminate; rewrite Ht; reflexivity.
Qed.

Lemma nonword_tail_none_db : forall rest, nonword_head rest = true -> db_tail rest = None.
Proof. intros [|[] rest] H; try discriminate; reflexivity. Qed.
Lemma nonword_tail_none_simple : forall rest, nonword_head rest = true -> simple_tail rest = None.
Proof. intros [|[] rest] H; try discriminate; reflexivity. Qed.

Lemma walk_jpre_skip : forall {A} (m : list tok -> option (A * nat)) rest,
  (forall t l, nonjoin t = true -> m (t :: l) = None) ->
  (forall p', jpre_ok p' = true -> jp_lat2 p' = None -> m (jpre_toks p' ++ rest) = None) ->
  forall p, jpre_ok p = true -> jp_lat2 p = None ->
  walk m (jpre_toks p ++ rest) = map WSkip (jpre_toks p) ++ walk m rest.
Proof.
  intros A m rest Hnj Hhead [mods lat1 j ws lat2] Hp Hl2. cbn [jp_lat2] in Hl2. subst lat2.
  assert (Hjoin : jpre_ok {| jp_mods := []; jp_lat1 := None; jp_join := j; jp_ws := ws; jp_lat2 := None |} = true).
  { unfold jpre_ok in *. cbn [jp_mods jp_lat1 jp_join jp_lat2 forallb] in *.
    repeat (apply andb_true_iff in Hp; destruct Hp as [Hp ?]). rewrite H0. reflexivity. }
  assert (Hj : walk m (TW j :: TS ws :: rest) = WSkip (TW j) :: WSkip (TS ws) :: walk m rest).
  { rewrite walk_cons. pose proof (Hhead _ Hjoin eq_refl) as E. unfold jpre_toks in E.
    cbn [jp_mods jp_lat1 jp_join jp_ws jp_lat2 flat_map opt_toks app] in E. rewrite E. f_equal.
    rewrite walk_cons, Hnj by reflexivity. reflexivity. }
  unfold jpre_toks. cbn [jp_mods jp_lat1 jp_join jp_ws jp_lat2 opt_toks]. rewrite app_nil_r.
  rewrite !map_app. rewrite <- !app_assoc. cbn [app map].
  revert Hp. induction mods as [|[w s] mods IH]; intros Hp.
  - cbn [flat_map app map].
    destruct lat1 as [[la s1]|]; cbn [opt_toks ws_pair_toks fst snd app map].
    + rewrite walk_cons. pose proof (Hhead _ Hp eq_refl) as E. unfold jpre_toks in E.
      cbn [jp_mods jp_lat1 jp_join jp_ws jp_lat2 flat_map opt_toks ws_pair_toks fst snd app] in E.
      rewrite ?app_nil_r in E. repeat rewrite <- app_assoc in E. cbn [app] in E. rewrite E. f_equal.
      rewrite walk_cons, Hnj by reflexivity. f_equal. exact Hj.
    + exact Hj.
  - cbn [flat_map ws_pair_toks fst snd app map].
    rewrite walk_cons. pose proof (Hhead _ Hp eq_refl) as E. unfold jpre_toks in E.
    cbn [jp_mods jp_lat1 jp_join jp_ws jp_lat2 flat_map opt_toks ws_pair_toks fst snd app] in E.
    rewrite ?app_nil_r in E. repeat rewrite <- app_assoc in E. cbn [app] in E. rewrite E. f_equal.
    rewrite walk_cons, Hnj by reflexivity. f_equal.
    apply IH. unfold jpre_ok in *. cbn [jp_mods jp_lat1 jp_join jp_lat2 forallb fst] in *.
    repeat (apply andb_true_iff in Hp; destruct Hp as [Hp ?]).
    rewrite H2, H1, H0. reflexivity.
Qed.

Lemma kw_ok_join : forall p, kw_ok (KJoin p) = true -> jpre_ok p = true /\ jp_lat2 p = None.
Proof. intros p H. cbn [kw_ok] in H. apply andb_true_iff in H. destruct H as [H1 H2]. split; [exact H1|]. destruct (jp_lat2 p); [discriminate|reflexivity]. Qed.

Lemma kw_toks_nonfrom_join : forall p t, jpre_ok p = true -> In t (jpre_toks p) -> nonfrom t = true.
Proof. intros. eapply jpre_toks_nonfrom; eassumption. Qed.

Lemma walk_dbF_kw : forall k rest, kw_ok k = true -> nonword_head rest = true ->
  walk m_db_from (seg_toks (NKw k) ++ rest) = map WSkip (seg_toks (NKw k)) ++ walk m_db_from rest.
Proof.
  intros [f ws|p] rest Hk Hn; cbn [seg_toks].
  - cbn [app map]. rewrite walk_cons.
    assert (m_db_from (TW f :: TS ws :: rest) = None) as ->.
    { cbn [m_db_from]. cbn [kw_ok] in Hk. rewrite Hk. destruct rest as [|[] rest]; try discriminate; reflexivity. }
    f_equal.
  - destruct (kw_ok_join p Hk) as (Hp & _). apply walk_skip. intros t l Hin. apply dbF_none. eapply jpre_toks_nonfrom; eassumption.
Qed.
Lemma walk_sF_kw : forall k rest, kw_ok k = true -> nonword_head rest = true ->
  walk m_simple_from (seg_toks (NKw k) ++ rest) = map WSkip (seg_toks (NKw k)) ++ walk m_simple_from rest.
Proof.
  intros [f ws|p] rest Hk Hn; cbn [seg_toks].
  - cbn [app map]. rewrite walk_cons.
    assert (m_simple_from (TW f :: TS ws :: rest) = None) as ->.
    { cbn [m_simple_from]. cbn [kw_ok] in Hk. rewrite Hk. destruct rest as [|[] rest]; try discriminate; reflexivity. }
    f_equal.
  - destruct (kw_ok_join p Hk) as (Hp & _). apply walk_skip. intros t l Hin. apply sF_none. eapply jpre_toks_nonfrom; eassumption.
Qed.
Lemma walk_dbJ_kw : forall k rest, kw_ok k = true -> nonword_head rest = true ->
  walk m_db_join (seg_toks (NKw k) ++ rest) = map WSkip (seg_toks (NKw k)) ++ walk m_db_join rest.
Proof.
  intros [f ws|p] rest Hk Hn; cbn [seg_toks].
  - apply walk_skip. cbn [kw_ok] in Hk. intros t l [<-|[<-|[]]]; apply dbJ_none; [|reflexivity].
    unfold nonjoin. destruct (from_not_others f Hk) as (-> & -> & -> & _). reflexivity.
  - destruct (kw_ok_join p Hk) as (Hp & Hl). apply walk_jpre_skip; try assumption.
    + intros t l H. apply dbJ_none. exact H.
    + intros p' Hp' Hl'. rewrite m_db_join_jpre, (join_prefix_open db_tail p' rest Hp' Hl' Hn (nonword_tail_none_db rest Hn)). reflexivity.
Qed.
Lemma walk_sJ_kw : forall k rest, kw_ok k = true -> nonword_head rest = true ->
  walk m_simple_join (seg_toks (NKw k) ++ rest) = map WSkip (seg_toks (NKw k)) ++ walk m_simple_join rest.
Proof.
  intros [f ws|p] rest Hk Hn; cbn [seg_toks].
  - apply walk_skip. cbn [kw_ok] in Hk. intros t l [<-|[<-|[]]]; apply sJ_none; [|reflexivity].
    unfold nonjoin. destruct (from_not_others f Hk) as (-> & -> & -> & _). reflexivity.
  - destruct (kw_ok_join p Hk) as (Hp & Hl). apply walk_jpre_skip; try assumption.
    + intros t l H. apply sJ_none. exact H.
    + intros p' Hp' Hl'. rewrite m_simple_join_jpre, (join_prefix_open simple_tail p' rest Hp' Hl' Hn (nonword_tail_none_simple rest Hn)). reflexivity.
Qed.

(* ------------------------------------------------------------------------------------ *)
(* walks over well-formed segment lists                                                   *)
(* ------------------------------------------------------------------------------------ *)
Lemma toks_cons : forall s r, toks (s :: r) = seg_toks s ++ toks r.
Proof. reflexivity. Qed.

Definition opt_plain (names : names_t) (db : option bytes) : Prop :=
  match db with Some d => plain_name names d = true | None => True end.

Lemma name_ok_facts : forall names db mm rest, name_ok names db mm rest = true ->
  plain_name names mm = true /\ opt_plain names db
  /\ (db = None -> dot_at rest = false /\ (next_ok rest = true \/ on_skip_list names mm = true)).
Proof.
  unfold name_ok. intros names db mm rest H. apply andb_true_iff in H. destruct H as [Hm H].
  split; [exact Hm|]. destruct db as [d|]; cbn [opt_plain].
  - split; [exact H|]. discriminate.
  - split; [exact I|]. intros _. apply andb_true_iff in H. destruct H as [Hd H].
    apply negb_true_iff in Hd. split; [exact Hd|]. apply orb_true_iff in H. exact H.
Qed.

Definition wseg_dbF (s : nseg) : list (witem (bytes * bytes)) :=
  match s with
  | NFrom f ws (Some d) mm => [WMatch (d, mm) (seg_toks s)]
  | _ => map WSkip (seg_toks s)
  end.
Definition wseg_dbJ (s : nseg) : list (witem (list bytes * bytes * bytes)) :=
  match s with
  | NJoin p (Some d) mm => [WMatch (jpre_words p, d, mm) (seg_toks s)]
  | _ => map WSkip (seg_toks s)
  end.
Fixpoint wsegs_sF (l : list nseg) : list (witem (bytes * list tok)) :=
  match l with
  | [] => []
  | s :: r =>
      (match s with
       | NFrom f ws (Some d) mm => [WMatch (d, TO 46 :: TW mm :: toks r) [TW f; TS ws; TW d]; WSkip (TO 46); WSkip (TW mm)]
       | NFrom f ws None mm => [WMatch (mm, toks r) (seg_toks s)]
       | _ => map WSkip (seg_toks s)
       end) ++ wsegs_sF r
  end.
Fixpoint wsegs_sJ (l : list nseg) : list (witem (list bytes * bytes * list tok)) :=
  match l with
  | [] => []
  | s :: r =>
      (match s with
       | NJoin p (Some d) mm => [WMatch (jpre_words p, d, TO 46 :: TW mm :: toks r) (jpre_toks p ++ [TW d]); WSkip (TO 46); WSkip (TW mm)]
       | NJoin p None mm => [WMatch (jpre_words p, mm, toks r) (seg_toks s)]
       | _ => map WSkip (seg_toks s)
       end) ++ wsegs_sJ r
  end.

Section SegsWalks.
  Variable names : names_t.

  Lemma walk_dbF_segs : forall l, wf_segs names l = true -> walk m_db_from (toks l) = flat_map wseg_dbF l.
  Proof.
    induction l as [|s r IH]; intros Hwf; [reflexivity|].
    cbn [wf_segs] in Hwf. apply andb_true_iff in Hwf. destruct Hwf as [Hs Hr]. specialize (IH Hr).
    rewrite toks_cons. cbn [flat_map]. destruct s as [t|f ws db mm|p db mm|k].
    - cbn [seg_toks app wseg_dbF map]. rewrite walk_cons, dbF_none by (apply inert_nonfrom; exact Hs). rewrite IH. reflexivity.
    - apply andb_true_iff in Hs. destruct Hs as [Hf Hn]. destruct (name_ok_facts _ _ _ _ Hn) as (Hm & Hd & Hu).
      destruct db as [d|].
      + rewrite walk_dbF_from_q by exact Hf. rewrite IH. reflexivity.
      + destruct (Hu eq_refl) as (Hdot & _). rewrite (walk_dbF_from_u names) by assumption. rewrite IH. reflexivity.
    - apply andb_true_iff in Hs. destruct Hs as [Hp Hn]. destruct (name_ok_facts _ _ _ _ Hn) as (Hm & Hd & Hu).
      rewrite walk_skip.
      + rewrite IH. destruct db; reflexivity.
      + intros t l0 Hin. apply dbF_none. eapply join_seg_nonfrom; eassumption.
    - apply andb_true_iff in Hs. destruct Hs as [Hk Hn]. rewrite walk_dbF_kw by assumption. rewrite IH. reflexivity.
  Qed.

  Lemma walk_dbJ_segs : forall l, wf_segs names l = true -> walk m_db_join (toks l) = flat_map wseg_dbJ l.
  Proof.
    induction l as [|s r IH]; intros Hwf; [reflexivity|].
    cbn [wf_segs] in Hwf. apply andb_true_iff in Hwf. destruct Hwf as [Hs Hr]. specialize (IH Hr).
    rewrite toks_cons. cbn [flat_map]. destruct s as [t|f ws db mm|p db mm|k].
    - cbn [seg_toks app wseg_dbJ map]. rewrite walk_cons, dbJ_none by (apply inert_nonjoin; exact Hs). rewrite IH. reflexivity.
    - apply andb_true_iff in Hs. destruct Hs as [Hf Hn]. destruct (name_ok_facts _ _ _ _ Hn) as (Hm & Hd & Hu).
      rewrite walk_skip.
      + rewrite IH. destruct db; reflexivity.
      + intros t l0 Hin. apply dbJ_none. eapply from_seg_nonjoin; eassumption.
    - apply andb_true_iff in Hs. destruct Hs as [Hp Hn]. destruct (name_ok_facts _ _ _ _ Hn) as (Hm & Hd & Hu).
      destruct db as [d|].
      + rewrite (walk_dbJ_join_q names) by assumption. rewrite IH. reflexivity.
      + destruct (Hu eq_refl) as (Hdot & _). rewrite (walk_dbJ_join_u names) by assumption. rewrite IH. reflexivity.
    - apply andb_true_iff in Hs. destruct Hs as [Hk Hn]. rewrite walk_dbJ_kw by assumption. rewrite IH. reflexivity.
  Qed.

  Lemma walk_sF_segs : forall l, wf_segs names l = true -> walk m_simple_from (toks l) = wsegs_sF l.
  Proof.
    induction l as [|s r IH]; intros Hwf; [reflexivity|].
    cbn [wf_segs] in Hwf. apply andb_true_iff in Hwf. destruct Hwf as [Hs Hr]. specialize (IH Hr).
    rewrite toks_cons. cbn [wsegs_sF]. destruct s as [t|f ws db mm|p db mm|k].
    - cbn [seg_toks app map]. rewrite walk_cons, sF_none by (apply inert_nonfrom; exact Hs). rewrite IH. reflexivity.
    - apply andb_true_iff in Hs. destruct Hs as [Hf Hn]. destruct (name_ok_facts _ _ _ _ Hn) as (Hm & Hd & Hu).
      destruct db as [d|].
      + rewrite (walk_sF_from_q names) by assumption. rewrite IH. reflexivity.
      + rewrite (walk_sF_from_u names) by assumption. rewrite IH. reflexivity.
    - apply andb_true_iff in Hs. destruct Hs as [Hp Hn]. destruct (name_ok_facts _ _ _ _ Hn) as (Hm & Hd & Hu).
      rewrite walk_skip.
      + rewrite IH. destruct db; reflexivity.
      + intros t l0 Hin. apply sF_none. eapply join_seg_nonfrom; eassumption.
    - apply andb_true_iff in Hs. destruct Hs as [Hk Hn]. rewrite walk_sF_kw by assumption. rewrite IH. reflexivity.
  Qed.

  Lemma walk_sJ_segs : forall l, wf_segs names l = true -> walk m_simple_join (toks l) = wsegs_sJ l.
  Proof.
    induction l as [|s r IH]; intros Hwf; [reflexivity|].
    cbn [wf_segs] in Hwf. apply andb_true_iff in Hwf. destruct Hwf as [Hs Hr]. specialize (IH Hr).
    rewrite toks_cons. cbn [wsegs_sJ]. destruct s as [t|f ws db mm|p db mm|k].
    - cbn [seg_toks app map]. rewrite walk_cons, sJ_none by (apply inert_nonjoin; exact Hs). rewrite IH. reflexivity.
    - apply andb_true_iff in Hs. destruct Hs as [Hf Hn]. destruct (name_ok_facts _ _ _ _ Hn) as (Hm & Hd & Hu).
      rewrite walk_skip.
      + rewrite IH. destruct db; reflexivity.
      + intros t l0 Hin. apply sJ_none. eapply from_seg_nonjoin; eassumption.
    - apply andb_true_iff in Hs. destruct Hs as [Hp Hn]. destruct (name_ok_facts _ _ _ _ Hn) as (Hm & Hd & Hu).
      destruct db as [d|].
      + rewrite (walk_sJ_join_q names) by assumption. rewrite IH. reflexivity.
      + rewrite (walk_sJ_join_u names) by assumption. rewrite IH. reflexivity.
    - apply andb_true_iff in Hs. destruct Hs as [Hk Hn]. rewrite walk_sJ_kw by assumption. rewrite IH. reflexivity.
  Qed.
End SegsWalks.

(* ------------------------------------------------------------------------------------ *)
(* the rewriting passes on well-formed segment lists                                      *)
(* ------------------------------------------------------------------------------------ *)
Lemma rewrite_ext : forall m1 m2, (forall l, m1 l = m2 l) -> forall l, rewrite m1 l = rewrite m2 l.
Proof.
  intros m1 m2 E l. unfold rewrite. generalize (length l) as f.
  intros f. revert l. induction f as [|f IH]; intros l; [reflexivity|].
  destruct l as [|t r]; [reflexivity|]. cbn [rewrite_f]. rewrite E.
  destruct (m2 (t :: r)) as [[rep n]|]; f_equal; apply IH.
Qed.

Lemma rewrite_of_app : forall {A} (rep : A -> list tok -> list tok) a b,
  rewrite_of rep (a ++ b) = rewrite_of rep a ++ rewrite_of rep b.
Proof. intros. unfold rewrite_of. apply flat_map_app. Qed.
Lemma rewrite_of_skips : forall {A} (rep : A -> list tok -> list tok) x, rewrite_of rep (map WSkip x) = x.
Proof. intros A rep x. induction x as [|t x IH]; [reflexivity|]. cbn. f_equal. exact IH. Qed.
Lemma rewrite_of_flat_map : forall {A B} (rep : A -> list tok -> list tok) (f : B -> list (witem A)) l,
  rewrite_of rep (flat_map f l) = flat_map (fun s => rewrite_of rep (f s)) l.
Proof. intros. induction l as [|s l IH]; [reflexivity|]. cbn [flat_map]. rewrite rewrite_of_app, IH. reflexivity. Qed.
Lemma toks_flat_map : forall (g : nseg -> list nseg) l, toks (flat_map g l) = flat_map (fun s => toks (g s)) l.
Proof. intros g l. unfold toks. induction l as [|s l IH]; [reflexivity|]. cbn [flat_map]. rewrite flat_map_app, IH. reflexivity. Qed.
Lemma toks_single : forall s, toks [s] = seg_toks s.
Proof. intros s. unfold toks. cbn. apply app_nil_r. Qed.
Lemma toks_app : forall a b, toks (a ++ b) = toks a ++ toks b.
Proof. intros. apply flat_map_app. Qed.

(* the emitted text, as segments *)
Lemma kw_toks_sp : forall ws, ws <> [] -> kw_toks ws ++ [TS sp] = flat_map (fun w => [TW w; TS sp]) ws.
Proof.
  induction ws as [|w ws IH]; [congruence|]. intros _. destruct ws as [|w2 ws]; [reflexivity|].
  cbn [kw_toks flat_map app] in *. f_equal. f_equal. apply IH. discriminate.
Qed.
Lemma jpre_norm_toks : forall p, jpre_toks (jpre_norm p) = flat_map (fun w => [TW w; TS sp]) (jpre_words p).
Proof.
  intros [mods lat1 j ws lat2]. unfold jpre_toks, jpre_norm, jpre_words. cbn [jp_mods jp_lat1 jp_join jp_ws jp_lat2].
  rewrite !flat_map_app. f_equal; [|f_equal; [|f_equal]].
  - induction mods as [|[w s] mods IH]; [reflexivity|]. cbn. f_equal. f_equal. exact IH.
  - destruct lat1 as [[]|]; reflexivity.
  - destruct lat2 as [[]|]; reflexivity.
Qed.
Lemma emit_from_toks : forall db m, toks (emit_from db m) = read_parquet_toks [k_FROM] db m.
Proof. reflexivity. Qed.
Lemma emit_join_toks : forall p db m, toks (emit_join p db m) = read_parquet_toks (jpre_words p) db m.
Proof.
  intros p db m. unfold emit_join, toks, read_parquet_toks. cbn [flat_map seg_toks name_toks app].
  rewrite jpre_norm_toks, <- (kw_toks_sp (jpre_words p) (jpre_words_nonnil p)).
  rewrite <- !app_assoc. reflexivity.
Qed.

Section Passes.
  Variable names : names_t.
  Let ri := resolve_ident names.

  (* pass 1 and 2: the qualified references *)
  Definition g_qF (s : nseg) : list nseg :=
    match s with NFrom f ws (Some d) mm => emit_from (ri d) (ri mm) | _ => [s] end.
  Definition g_qJ (s : nseg) : list nseg :=
    match s with NJoin p (Some d) mm => emit_join p (ri d) (ri mm) | _ => [s] end.

  Lemma rw_db_from_lift : forall l,
    rw_db_from names l = lift_rw m_db_from (fun ab _ => read_parquet_toks [k_FROM] (ri (fst ab)) (ri (snd ab))) l.
  Proof. intros l. unfold rw_db_from, lift_rw. destruct (m_db_from l) as [[[a b] n]|]; reflexivity. Qed.
  Lemma rw_db_join_lift : forall l,
    rw_db_join names l = lift_rw m_db_join (fun kab _ => read_parquet_toks (fst (fst kab)) (ri (snd (fst kab))) (ri (snd kab))) l.
  Proof. intros l. unfold rw_db_join, lift_rw. destruct (m_db_join l) as [[[[k a] b] n]|]; reflexivity. Qed.

  Lemma pass_qF : forall l, wf_segs names l = true ->
    rewrite (rw_db_from names) (toks l) = toks (flat_map g_qF l).
  Proof.
    intros l Hwf. rewrite (rewrite_ext _ _ rw_db_from_lift), rewrite_walk, (walk_dbF_segs names l Hwf).
    rewrite rewrite_of_flat_map, toks_flat_map. apply flat_map_ext. intros s.
    destruct s as [t|f ws [d|] mm|p db mm|k]; cbn [wseg_dbF g_qF]; try (rewrite rewrite_of_skips, toks_single; reflexivity).
    rewrite emit_from_toks. cbn [rewrite_of flat_map fst snd]. rewrite ?app_nil_r. reflexivity.
  Qed.
  Lemma pass_qJ : forall l, wf_segs names l = true ->
    rewrite (rw_db_join names) (toks l) = toks (flat_map g_qJ l).
  Proof.
    intros l Hwf. rewrite (rewrite_ext _ _ rw_db_join_lift), rewrite_walk, (walk_dbJ_segs names l Hwf).
    rewrite rewrite_of_flat_map, toks_flat_map. apply flat_map_ext. intros s.
    destruct s as [t|f ws db mm|p [d|] mm|k]; cbn [wseg_dbJ g_qJ]; try (rewrite rewrite_of_skips, toks_single; reflexivity).
    rewrite emit_join_toks. cbn [rewrite_of flat_map fst snd]. rewrite ?app_nil_r. reflexivity.
  Qed.
End Passes.

Lemma next_ok_facts : forall rest, next_ok rest = true -> dot_or_call_at rest = false.
Proof. unfold next_ok. intros rest H. repeat (apply andb_true_iff in H; destruct H as [H ?]). apply negb_true_iff in H0. exact H0. Qed.

Section SimplePasses.
  Variable names : names_t.
  Variable ctes : list bytes.
  Variable dflt : bytes.
  Let ri := resolve_ident names.

  Definition g_uF (s : nseg) : list nseg :=
    match s with NFrom f ws None mm => if keeps ctes names mm then [s] else emit_from dflt (ri mm) | _ => [s] end.
  Definition g_uJ (s : nseg) : list nseg :=
    match s with NJoin p None mm => if keeps ctes names mm then [s] else emit_join p dflt (ri mm) | _ => [s] end.

  Definition rep_uF (tr : bytes * list tok) (c : list tok) : list tok :=
    match simple_target names ctes (fst tr) (snd tr) with Some r => read_parquet_toks [k_FROM] dflt r | None => c end.
  Definition rep_uJ (ktr : list bytes * bytes * list tok) (c : list tok) : list tok :=
    match simple_target names ctes (snd (fst ktr)) (snd ktr) with Some r => read_parquet_toks (fst (fst ktr)) dflt r | None => c end.

  Lemma rw_simple_from_lift : forall l, rw_simple_from names ctes dflt l = lift_rw m_simple_from rep_uF l.
  Proof.
    intros l. unfold rw_simple_from, lift_rw, rep_uF. destruct (m_simple_from l) as [[[t rest] n]|]; [|reflexivity].
    cbn [fst snd]. destruct (simple_target names ctes t rest); reflexivity.
  Qed.
  Lemma rw_simple_join_lift : forall l, rw_simple_join names ctes dflt l = lift_rw m_simple_join rep_uJ l.
  Proof.
    intros l. unfold rw_simple_join, lift_rw, rep_uJ. destruct (m_simple_join l) as [[[[k t] rest] n]|]; [|reflexivity].
    cbn [fst snd]. destruct (simple_target names ctes t rest); reflexivity.
  Qed.

  Lemma simple_target_dot : forall d rest, simple_target names ctes d (TO 46 :: rest) = None.
  Proof.
    intros d rest. unfold simple_target.
    destruct (mem_bytes (lower d) ctes); [reflexivity|].
    destruct (mem_bytes (lower (resolve_ident names d)) ctes); [reflexivity|].
    destruct (should_skip (lower (resolve_ident names d))); reflexivity.
  Qed.
  Lemma simple_target_keeps : forall mm rest, keeps ctes names mm = true -> simple_target names ctes mm rest = None.
  Proof.
    intros mm rest H. unfold keeps, on_skip_list in H. unfold simple_target.
    destruct (mem_bytes (lower mm) ctes); [reflexivity|].
    destruct (mem_bytes (lower (resolve_ident names mm)) ctes); [reflexivity|].
    cbn [orb] in H. rewrite H. reflexivity.
  Qed.
  Lemma simple_target_rewrites : forall mm rest, keeps ctes names mm = false -> dot_or_call_at rest = false ->
    simple_target names ctes mm rest = Some (ri mm).
  Proof.
    intros mm rest H Hd. unfold keeps, on_skip_list in H. unfold simple_target.
    apply orb_false_elim in H. destruct H as [H H3]. apply orb_false_elim in H. destruct H as [H1 H2].
    rewrite H1, H2, H3, Hd. reflexivity.
  Qed.

  Lemma unkept_next_ok : forall db mm rest, name_ok names db mm rest = true -> db = None -> keeps ctes names mm = false ->
    dot_or_call_at rest = false.
  Proof.
    intros db mm rest Hn Hdb Hk. destruct (name_ok_facts _ _ _ _ Hn) as (_ & _ & Hu). destruct (Hu Hdb) as (_ & [Hok|Hskip]).
    - apply next_ok_facts. exact Hok.
    - unfold keeps in Hk. rewrite Hskip in Hk. rewrite !orb_true_r in Hk. discriminate.
  Qed.

  Lemma pass_uF : forall l, wf_segs names l = true ->
    rewrite (rw_simple_from names ctes dflt) (toks l) = toks (flat_map g_uF l).
  Proof.
    intros l Hwf. rewrite (rewrite_ext _ _ rw_simple_from_lift), rewrite_walk, (walk_sF_segs names l Hwf).
    induction l as [|s r IH]; [reflexivity|].
    cbn [wf_segs] in Hwf. apply andb_true_iff in Hwf. destruct Hwf as [Hs Hr]. specialize (IH Hr).
    cbn [wsegs_sF flat_map]. rewrite rewrite_of_app, toks_app, IH. f_equal.
    destruct s as [t|f ws [d|] mm|p db mm|k]; cbn [g_uF]; try (rewrite rewrite_of_skips, toks_single; reflexivity).
    - cbn [rewrite_of flat_map app]. unfold rep_uF. cbn [fst snd]. rewrite simple_target_dot. rewrite toks_single. reflexivity.
    - apply andb_true_iff in Hs. destruct Hs as [Hf Hn].
      cbn [rewrite_of flat_map app]. unfold rep_uF. cbn [fst snd]. rewrite app_nil_r.
      destruct (keeps ctes names mm) eqn:Hk.
      + rewrite simple_target_keeps by exact Hk. rewrite toks_single. reflexivity.
      + rewrite simple_target_rewrites; [rewrite emit_from_toks; reflexivity|exact Hk|].
        eapply unkept_next_ok; [exact Hn|reflexivity|exact Hk].
  Qed.

  Lemma pass_uJ : forall l, wf_segs names l = true ->
    rewrite (rw_simple_join names ctes dflt) (toks l) = toks (flat_map g_uJ l).
  Proof.
    intros l Hwf. rewrite (rewrite_ext _ _ rw_simple_join_lift), rewrite_walk, (walk_sJ_segs names l Hwf).
    induction l as [|s r IH]; [reflexivity|].
    cbn [wf_segs] in Hwf. apply andb_true_iff in Hwf. destruct Hwf as [Hs Hr]. specialize (IH Hr).
    cbn [wsegs_sJ flat_map]. rewrite rewrite_of_app, toks_app, IH. f_equal.
    destruct s as [t|f ws db mm|p [d|] mm|k]; cbn [g_uJ]; try (rewrite rewrite_of_skips, toks_single; reflexivity).
    - cbn [rewrite_of flat_map app]. unfold rep_uJ. cbn [fst snd]. rewrite simple_target_dot. rewrite toks_single.
      cbn [seg_toks name_toks]. rewrite <- app_assoc. reflexivity.
    - apply andb_true_iff in Hs. destruct Hs as [Hp Hn].
      cbn [rewrite_of flat_map app]. unfold rep_uJ. cbn [fst snd]. rewrite app_nil_r.
      destruct (keeps ctes names mm) eqn:Hk.
      + rewrite simple_target_keeps by exact Hk. rewrite toks_single. reflexivity.
      + rewrite simple_target_rewrites; [rewrite emit_join_toks; reflexivity|exact Hk|].
        eapply unkept_next_ok; [exact Hn|reflexivity|exact Hk].
  Qed.
End SimplePasses.

(* ------------------------------------------------------------------------------------ *)
(* well-formedness is preserved by a pass                                                 *)
(* ------------------------------------------------------------------------------------ *)
Definition seg_is_tok (s : nseg) : bool := match s with NTok _ => true | _ => false end.
Definition first_tok (s : nseg) : tok := match s with NTok t => t | _ => TW [] end.
Definition hd2 (r : list nseg) : list tok :=
  match r with
  | [] => []
  | s :: r' => if seg_is_tok s
               then first_tok s :: match r' with [] => [] | s2 :: _ => [first_tok s2] end
               else [TW []]
  end.

Lemma next_ok_TW : forall w l, next_ok (TW w :: l) = true.
Proof. intros w [|[] l]; reflexivity. Qed.
Lemma dot_at_TW : forall w l, dot_at (TW w :: l) = false.
Proof. reflexivity. Qed.

Lemma seg_toks_head : forall s, seg_is_tok s = false -> exists w r, seg_toks s = TW w :: r.
Proof.
  intros [t|f ws db mm|p db mm|k] H; [discriminate| | |].
  - cbn. eauto.
  - cbn [seg_toks]. destruct (jpre_toks_head p) as (w & r & E). rewrite E. cbn. eauto.
  - destruct k as [f ws|p]; cbn [seg_toks]; [eauto|]. destruct (jpre_toks_head p) as (w & r & E). rewrite E. eauto.
Qed.
Lemma first_tok_nontok : forall s, seg_is_tok s = false -> first_tok s = TW [].
Proof. intros [] H; try discriminate; reflexivity. Qed.

(* next_ok and dot_at look at the first token, and at the second one only after a whitespace token *)
Lemma next_ok_2 : forall t1 w w' l l', next_ok (t1 :: TW w :: l) = next_ok (t1 :: TW w' :: l').
Proof. intros t1 w w' l l'. destruct t1; reflexivity. Qed.

Lemma next_ok_hd2 : forall r, next_ok (toks r) = next_ok (hd2 r).
Proof.
  intros [|s r]; [reflexivity|]. cbn [hd2]. destruct (seg_is_tok s) eqn:Es.
  - destruct s as [t| | |]; try discriminate. rewrite toks_cons. cbn [seg_toks app first_tok].
    destruct r as [|s2 r2]; [reflexivity|]. rewrite toks_cons. destruct (seg_is_tok s2) eqn:E2.
    + destruct s2 as [t2| | |]; try discriminate. cbn [seg_toks app first_tok]. destruct t, t2; reflexivity.
    + destruct (seg_toks_head s2 E2) as (w & r' & E). rewrite E, (first_tok_nontok s2 E2). cbn [app]. apply next_ok_2.
  - rewrite toks_cons. destruct (seg_toks_head s Es) as (w & r' & E). rewrite E. cbn [app]. apply next_ok_TW.
Qed.
Lemma dot_at_hd2 : forall r, dot_at (toks r) = dot_at (hd2 r).
Proof.
  intros [|s r]; [reflexivity|]. cbn [hd2]. destruct (seg_is_tok s) eqn:Es.
  - destruct s as [t| | |]; try discriminate. rewrite toks_cons. reflexivity.
  - rewrite toks_cons. destruct (seg_toks_head s Es) as (w & r' & E). rewrite E. reflexivity.
Qed.
Lemma name_ok_hd2 : forall names db mm r, name_ok names db mm (toks r) = name_ok names db mm (hd2 r).
Proof. intros. unfold name_ok. rewrite next_ok_hd2, dot_at_hd2. reflexivity. Qed.
Lemma nonword_head_hd2 : forall r, nonword_head (toks r) = nonword_head (hd2 r).
Proof.
  intros [|s r]; [reflexivity|]. cbn [hd2]. destruct (seg_is_tok s) eqn:Es.
  - destruct s as [t| | |]; try discriminate. rewrite toks_cons. reflexivity.
  - rewrite toks_cons. destruct (seg_toks_head s Es) as (w & r' & E). rewrite E. reflexivity.
Qed.

Definition hp (g : nseg -> list nseg) : Prop :=
  (forall t, g (NTok t) = [NTok t]) /\
  (forall s, seg_is_tok s = false -> exists s' rest, g s = s' :: rest /\ seg_is_tok s' = false).

Lemma hd2_flat_map : forall g r, hp g -> hd2 (flat_map g r) = hd2 r.
Proof.
  intros g r [Ht Hs]. destruct r as [|s r]; [reflexivity|]. cbn [flat_map hd2].
  destruct (seg_is_tok s) eqn:Es.
  - destruct s as [t| | |]; try discriminate. rewrite Ht. cbn [app hd2 seg_is_tok first_tok]. f_equal.
    destruct r as [|s2 r2]; [reflexivity|]. cbn [flat_map]. destruct (seg_is_tok s2) eqn:E2.
    + destruct s2 as [t2| | |]; try discriminate. rewrite Ht. reflexivity.
    + destruct (Hs s2 E2) as (s' & rest & -> & Hs'). cbn [app]. rewrite (first_tok_nontok s' Hs'), (first_tok_nontok s2 E2). reflexivity.
  - destruct (Hs s Es) as (s' & rest & -> & Hs'). cbn [app hd2]. rewrite Hs'. reflexivity.
Qed.

Lemma forallb_map_fst : forall (f : bytes -> bool) (g : bytes * bytes -> bytes * bytes) l,
  (forall x, fst (g x) = fst x) -> forallb (fun x => f (fst x)) (map g l) = forallb (fun x => f (fst x)) l.
Proof. intros f g l H. induction l as [|a l IH]; [reflexivity|]. cbn [map forallb]. rewrite H, IH. reflexivity. Qed.
Lemma jpre_ok_norm : forall p, jpre_ok p = true -> jpre_ok (jpre_norm p) = true.
Proof.
  intros [mods lat1 j ws lat2] H. unfold jpre_ok, jpre_norm in *. cbn [jp_mods jp_lat1 jp_join jp_ws jp_lat2] in *.
  repeat (apply andb_true_iff in H; destruct H as [H ?]).
  rewrite H1. rewrite forallb_map_fst by reflexivity. rewrite H.
  destruct lat1 as [[]|], lat2 as [[]|]; cbn [option_map fst] in *; rewrite ?H0, ?H2; reflexivity.
Qed.

Lemma read_parquet_args_head : forall db m, exists r, read_parquet_args db m = 40 :: r.
Proof. intros. unfold read_parquet_args. eexists. reflexivity. Qed.

Section WfPres.
  Variable names : names_t.
  Hypothesis Hrp : name_lookup k_read_parquet names = None.

  Lemma plain_read_parquet : plain_name names k_read_parquet = true.
  Proof. unfold plain_name, resolve_ident, resolve. rewrite Hrp. vm_compute. reflexivity. Qed.
  Lemma skip_read_parquet : on_skip_list names k_read_parquet = true.
  Proof. unfold on_skip_list, resolve_ident. rewrite Hrp. vm_compute. reflexivity. Qed.

  Lemma name_ok_emitted : forall db m rest, name_ok names None k_read_parquet (TR (read_parquet_args db m) :: rest) = true.
  Proof.
    intros db m rest. unfold name_ok. rewrite plain_read_parquet, skip_read_parquet, orb_true_r.
    destruct (read_parquet_args_head db m) as (r & ->). reflexivity.
  Qed.

  (* what a pass may do with a segment: leave it, or emit the read_parquet of a reference *)
  Definition emitter (g : nseg -> list nseg) : Prop :=
    forall s, g s = [s]
              \/ (exists f ws db mm a b, s = NFrom f ws db mm /\ g s = emit_from a b)
              \/ (exists p db mm a b, s = NJoin p db mm /\ g s = emit_join p a b).

  Lemma emitter_hp : forall g, emitter g -> hp g.
  Proof.
    intros g Hg. split.
    - intros t. destruct (Hg (NTok t)) as [E|[(f & ws & db & mm & a & b & E & _)|(p & db & mm & a & b & E & _)]]; [exact E|discriminate|discriminate].
    - intros s Hs. destruct (Hg s) as [E|[(f & ws & db & mm & a & b & E & ->)|(p & db & mm & a & b & E & ->)]].
      + rewrite E. eauto.
      + unfold emit_from. eauto.
      + unfold emit_join. eauto.
  Qed.

  Lemma wf_flat_map : forall g l, emitter g -> wf_segs names l = true -> wf_segs names (flat_map g l) = true.
  Proof.
    intros g l Hg. pose proof (emitter_hp g Hg) as Hhp.
    induction l as [|s r IH]; intros Hwf; [reflexivity|].
    cbn [wf_segs] in Hwf. apply andb_true_iff in Hwf. destruct Hwf as [Hs Hr]. specialize (IH Hr).
    cbn [flat_map].
    destruct (Hg s) as [E|[(f & ws & db & mm & a & b & E & ->)|(p & db & mm & a & b & E & ->)]].
    - rewrite E. cbn [app wf_segs]. rewrite IH, andb_true_r.
      destruct s as [t|f ws db mm|p db mm|k]; [exact Hs| | |];
        [rewrite name_ok_hd2, (hd2_flat_map g r Hhp), <- name_ok_hd2; exact Hs ..
        |rewrite nonword_head_hd2, (hd2_flat_map g r Hhp), <- nonword_head_hd2; exact Hs].
    - unfold emit_from. cbn [app wf_segs inert_tok]. rewrite IH. rewrite toks_cons. cbn [seg_toks app].
      rewrite name_ok_emitted. reflexivity.
    - subst s. apply andb_true_iff in Hs. destruct Hs as [Hp _].
      unfold emit_join. cbn [app wf_segs inert_tok]. rewrite IH. rewrite toks_cons. cbn [seg_toks app].
      rewrite name_ok_emitted, (jpre_ok_norm p Hp). reflexivity.
  Qed.
End WfPres.

(* ------------------------------------------------------------------------------------ *)
(* the rewriting is the substitution (C16 core, and half of C14)                          *)
(* ------------------------------------------------------------------------------------ *)
Lemma flat_map_flat_map : forall {A B C} (f : A -> list B) (g : B -> list C) l,
  flat_map g (flat_map f l) = flat_map (fun s => flat_map g (f s)) l.
Proof. intros. induction l as [|a l IH]; [reflexivity|]. cbn [flat_map]. rewrite flat_map_app, IH. reflexivity. Qed.

Section Transform.
  Variable names : names_t.
  Hypothesis Hrp : name_lookup k_read_parquet names = None.

  Lemma emitter_qF : emitter (g_qF names).
  Proof. intros [t|f ws [d|] mm|p db mm|k]; cbn [g_qF]; auto. right. left. do 6 eexists. split; reflexivity. Qed.
  Lemma emitter_qJ : emitter (g_qJ names).
  Proof. intros [t|f ws db mm|p [d|] mm|k]; cbn [g_qJ]; auto. right. right. do 5 eexists. split; reflexivity. Qed.
  Lemma emitter_uF : forall ctes dflt, emitter (g_uF names ctes dflt).
  Proof.
    intros ctes dflt [t|f ws [d|] mm|p db mm|k]; cbn [g_uF]; auto.
    destruct (keeps ctes names mm); auto. right. left. do 6 eexists. split; reflexivity.
  Qed.
  Lemma emitter_uJ : forall ctes dflt, emitter (g_uJ names ctes dflt).
  Proof.
    intros ctes dflt [t|f ws db mm|p [d|] mm|k]; cbn [g_uJ]; auto.
    destruct (keeps ctes names mm); auto. right. right. do 5 eexists. split; reflexivity.
  Qed.

  Lemma keeps_read_parquet : forall ctes, keeps ctes names k_read_parquet = true.
  Proof. intros ctes. unfold keeps. rewrite (skip_read_parquet names Hrp). apply orb_true_r. Qed.

  Lemma compose_nohdr : forall ctes s,
    flat_map (g_uJ names ctes k_default) (flat_map (g_uF names ctes k_default) (flat_map (g_qJ names) (g_qF names s)))
    = subst_seg names ctes k_default true s.
  Proof.
    intros ctes [t|f ws [d|] mm|p [d|] mm|k]; cbn [g_qF g_qJ g_uF g_uJ subst_seg flat_map app emit_from emit_join];
      rewrite ?keeps_read_parquet; cbn [flat_map app g_uJ g_uF]; try reflexivity.
    - destruct (keeps ctes names mm); cbn [flat_map app g_uJ emit_from]; reflexivity.
    - destruct (keeps ctes names mm); cbn [flat_map app g_uJ emit_join]; rewrite ?app_nil_r; reflexivity.
  Qed.

  Theorem passes_nohdr_subst : forall q l, wf_segs names l = true ->
    passes_nohdr q names (toks l) = toks (subst_segs names (cte_set q names (toks l)) k_default true l).
  Proof.
    intros q l Hwf. unfold passes_nohdr. set (ctes := cte_set q names (toks l)).
    rewrite (pass_qF names l Hwf).
    pose proof (wf_flat_map names Hrp _ l emitter_qF Hwf) as Hwf1.
    rewrite (pass_qJ names _ Hwf1).
    pose proof (wf_flat_map names Hrp _ _ emitter_qJ Hwf1) as Hwf2.
    rewrite (pass_uF names ctes k_default _ Hwf2).
    pose proof (wf_flat_map names Hrp _ _ (emitter_uF ctes k_default) Hwf2) as Hwf3.
    rewrite (pass_uJ names ctes k_default _ Hwf3).
    f_equal. unfold subst_segs. rewrite !flat_map_flat_map. apply flat_map_ext. intros s.
    rewrite <- !flat_map_flat_map. apply compose_nohdr.
  Qed.

  Lemma compose_hdr : forall ctes hdr s,
    flat_map (g_uJ names ctes hdr) (g_uF names ctes hdr s) = subst_seg names ctes hdr false s.
  Proof.
    intros ctes hdr [t|f ws [d|] mm|p [d|] mm|k]; cbn [g_uF g_uJ subst_seg flat_map app]; try reflexivity.
    - destruct (keeps ctes names mm); cbn [flat_map app g_uJ emit_from]; reflexivity.
    - destruct (keeps ctes names mm); cbn [flat_map app g_uJ emit_join]; rewrite ?app_nil_r; reflexivity.
  Qed.

  Theorem passes_hdr_subst : forall q word hdr l, wf_segs names l = true ->
    passes_hdr q word names hdr (toks l) = toks (subst_segs names (hdr_ctes q word names (toks l)) hdr false l).
  Proof.
    intros q word hdr l Hwf. unfold passes_hdr. set (ctes := hdr_ctes q word names (toks l)).
    rewrite (pass_uF names ctes hdr _ Hwf).
    pose proof (wf_flat_map names Hrp _ _ (emitter_uF ctes hdr) Hwf) as Hwf3.
    rewrite (pass_uJ names ctes hdr _ Hwf3).
    f_equal. unfold subst_segs. rewrite !flat_map_flat_map. apply flat_map_ext. intros s. apply compose_hdr.
  Qed.
End Transform.

(* ------------------------------------------------------------------------------------ *)
(* what the reference extractor finds on a well-formed segment list                       *)
(* ------------------------------------------------------------------------------------ *)
Lemma scan_of_app : forall {A} (a b : list (witem A)), scan_of (a ++ b) = scan_of a ++ scan_of b.
Proof. intros. unfold scan_of. apply flat_map_app. Qed.
Lemma scan_of_skips : forall {A} x, @scan_of A (map WSkip x) = [].
Proof. intros A x. induction x as [|t x IH]; [reflexivity|]. cbn. exact IH. Qed.
Lemma scan_of_flat_map : forall {A B} (f : B -> list (witem A)) l, scan_of (flat_map f l) = flat_map (fun s => scan_of (f s)) l.
Proof. intros. induction l as [|s l IH]; [reflexivity|]. cbn [flat_map]. rewrite scan_of_app, IH. reflexivity. Qed.

Definition q_of_from (s : nseg) : list (bytes * bytes) :=
  match s with NFrom _ _ (Some d) mm => [(d, mm)] | _ => [] end.
Definition q_of_join (s : nseg) : list (list bytes * bytes * bytes) :=
  match s with NJoin p (Some d) mm => [(jpre_words p, d, mm)] | _ => [] end.
Fixpoint u_of_from (l : list nseg) : list (bytes * list tok) :=
  match l with
  | [] => []
  | s :: r => (match s with
               | NFrom _ _ (Some d) mm => [(d, TO 46 :: TW mm :: toks r)]
               | NFrom _ _ None mm => [(mm, toks r)]
               | _ => [] end) ++ u_of_from r
  end.
Fixpoint u_of_join (l : list nseg) : list (list bytes * bytes * list tok) :=
  match l with
  | [] => []
  | s :: r => (match s with
               | NJoin p (Some d) mm => [(jpre_words p, d, TO 46 :: TW mm :: toks r)]
               | NJoin p None mm => [(jpre_words p, mm, toks r)]
               | _ => [] end) ++ u_of_join r
  end.

Section ScanSegs.
  Variable names : names_t.
  Lemma scan_dbF_segs : forall l, wf_segs names l = true -> scan m_db_from (toks l) = flat_map q_of_from l.
  Proof.
    intros l H. rewrite scan_walk, (walk_dbF_segs names l H), scan_of_flat_map. apply flat_map_ext.
    intros [t|f ws [d|] mm|p db mm|k]; cbn [wseg_dbF q_of_from]; try apply scan_of_skips. reflexivity.
  Qed.
  Lemma scan_dbJ_segs : forall l, wf_segs names l = true -> scan m_db_join (toks l) = flat_map q_of_join l.
  Proof.
    intros l H. rewrite scan_walk, (walk_dbJ_segs names l H), scan_of_flat_map. apply flat_map_ext.
    intros [t|f ws db mm|p [d|] mm|k]; cbn [wseg_dbJ q_of_join]; try apply scan_of_skips. reflexivity.
  Qed.
  Lemma scan_sF_segs : forall l, wf_segs names l = true -> scan m_simple_from (toks l) = u_of_from l.
  Proof.
    intros l H. rewrite scan_walk, (walk_sF_segs names l H). clear H.
    induction l as [|s r IH]; [reflexivity|]. cbn [wsegs_sF u_of_from]. rewrite scan_of_app, IH. f_equal.
    destruct s as [t|f ws [d|] mm|p db mm|k]; try apply scan_of_skips; reflexivity.
  Qed.
  Lemma scan_sJ_segs : forall l, wf_segs names l = true -> scan m_simple_join (toks l) = u_of_join l.
  Proof.
    intros l H. rewrite scan_walk, (walk_sJ_segs names l H). clear H.
    induction l as [|s r IH]; [reflexivity|]. cbn [wsegs_sJ u_of_join]. rewrite scan_of_app, IH. f_equal.
    destruct s as [t|f ws db mm|p [d|] mm|k]; try apply scan_of_skips; reflexivity.
  Qed.
End ScanSegs.

(* ------------------------------------------------------------------------------------ *)
(* keys                                                                                   *)
(* ------------------------------------------------------------------------------------ *)
Definition dotfree (w : bytes) : Prop := existsb (fun c => c =? 46) w = false.

Lemma split_at_dot : forall a a' b b', dotfree a -> dotfree a' -> a ++ 46 :: b = a' ++ 46 :: b' -> a = a' /\ b = b'.
Proof.
  unfold dotfree. induction a as [|x a IH]; intros [|y a'] b b' Ha Ha' E; cbn [app existsb] in *.
  - injection E as ->. auto.
  - injection E as <- _. rewrite N.eqb_refl in Ha'. discriminate.
  - injection E as -> _. rewrite N.eqb_refl in Ha. discriminate.
  - injection E as -> E. apply orb_false_elim in Ha, Ha'. destruct Ha as [_ Ha], Ha' as [_ Ha'].
    destruct (IH a' b b' Ha Ha' E) as [-> ->]. auto.
Qed.
Lemma to_lower_idem : forall c, to_lower (to_lower c) = to_lower c.
Proof.
  intros c. unfold to_lower. destruct (is_upper c) eqn:E; [|rewrite E; reflexivity].
  unfold is_upper, in_range in *. apply andb_true_iff in E. destruct E as [E1 E2].
  apply N.leb_le in E1, E2. destruct (andb _ _) eqn:E3; [|reflexivity].
  apply andb_true_iff in E3. destruct E3 as [_ E3]. apply N.leb_le in E3. lia.
Qed.
Lemma lower_idem : forall w, lower (lower w) = lower w.
Proof. intros w. unfold lower. rewrite map_map. apply map_ext. apply to_lower_idem. Qed.
Lemma to_lower_dot : forall c, (to_lower c =? 46) = (c =? 46).
Proof.
  intros c. unfold to_lower. destruct (is_upper c) eqn:E; [|reflexivity].
  unfold is_upper, in_range in E. apply andb_true_iff in E. destruct E as [E1 E2]. apply N.leb_le in E1, E2.
  destruct (N.eqb_spec (c + 32) 46), (N.eqb_spec c 46); try reflexivity; lia.
Qed.
Lemma lower_dotfree : forall w, dotfree w -> dotfree (lower w).
Proof.
  unfold dotfree, lower. induction w as [|c w IH]; intros H; [reflexivity|]. cbn [map existsb] in *.
  apply orb_false_elim in H. destruct H as [Hc Hw]. rewrite to_lower_dot, Hc, (IH Hw). reflexivity.
Qed.

(* a candidate of the extractor: key and reference fit together *)
Definition good_cand (c : bytes * ref) : Prop :=
  let '(k, (db, m)) := c in
  dotfree db /\ (k = db_key db m \/ k = db_key db (lower m)).

Lemma good_cands_same_key : forall k db m db' m', good_cand (k, (db, m)) -> good_cand (k, (db', m')) ->
  db = db' /\ lower m = lower m'.
Proof.
  intros k db m db' m' [Hd H] [Hd' H'].
  assert (exists X X', k = db_key db X /\ k = db_key db' X' /\ lower X = lower m /\ lower X' = lower m') as (X & X' & E & E' & HX & HX').
  { destruct H as [H|H], H' as [H'|H'].
    - exists m, m'. auto.
    - exists m, (lower m'). rewrite lower_idem. auto.
    - exists (lower m), m'. rewrite lower_idem. auto.
    - exists (lower m), (lower m'). rewrite !lower_idem. auto. }
  rewrite E in E'. unfold db_key in E'. destruct (split_at_dot _ _ _ _ Hd Hd' E') as [-> ->].
  split; [reflexivity|]. rewrite <- HX, <- HX'. reflexivity.
Qed.

Lemma mem_bytes_In : forall x l, mem_bytes x l = true <-> In x l.
Proof.
  intros x l. induction l as [|y l IH]; cbn [mem_bytes In]; [split; [discriminate|tauto]|].
  rewrite orb_true_iff, IH, bytes_eqb_eq. split; intros [H|H]; auto.
Qed.

Lemma add_cands_complete : forall cs seen k rf,
  In (Some (k, rf)) cs -> mem_bytes k seen = false ->
  exists rf', In (Some (k, rf')) cs /\ In rf' (snd (add_cands seen cs)).
Proof.
  induction cs as [|c cs IH]; intros seen k rf Hin Hk; [destruct Hin|].
  cbn [add_cands]. destruct c as [[k0 rf0]|].
  - destruct (mem_bytes k0 seen) eqn:E0.
    + destruct Hin as [Hin|Hin]; [injection Hin as -> ->; congruence|].
      destruct (IH seen k rf Hin Hk) as (rf' & H1 & H2). exists rf'. split; [right; exact H1|exact H2].
    + destruct (add_cands (k0 :: seen) cs) as [s' out] eqn:Eac. cbn [snd].
      destruct (bytes_eqb k k0) eqn:Ek.
      * apply bytes_eqb_eq in Ek. subst k0. exists rf0. split; [left; reflexivity|left; reflexivity].
      * assert (Hin' : In (Some (k, rf)) cs).
        { destruct Hin as [Hin|Hin]; [|exact Hin]. injection Hin as -> ->. rewrite bytes_eqb_refl in Ek. discriminate. }
        assert (Hk' : mem_bytes k (k0 :: seen) = false) by (cbn [mem_bytes]; rewrite Ek, Hk; reflexivity).
        destruct (IH (k0 :: seen) k rf Hin' Hk') as (rf' & H1 & H2). rewrite Eac in H2. cbn [snd] in H2.
        exists rf'. split; [right; exact H1|right; exact H2].
  - destruct Hin as [Hin|Hin]; [discriminate|].
    destruct (IH seen k rf Hin Hk) as (rf' & H1 & H2). exists rf'. split; [right; exact H1|exact H2].
Qed.

(* ------------------------------------------------------------------------------------ *)
(* every measurement the rewritten statement reads was permission-checked (C14 core)      *)
(* ------------------------------------------------------------------------------------ *)
Section Coverage.
  Variable names : names_t.
  Let ri := resolve_ident names.
  Let rs := resolve names.

  Lemma plain_ri : forall w, plain_name names w = true -> ri w = rs w.
  Proof. intros w H. apply (plain_name_facts _ _ H). Qed.
  Lemma plain_dotfree : forall w, plain_name names w = true -> dotfree (rs w).
  Proof. intros w H. apply (plain_name_facts _ _ H). Qed.

  Lemma unkept_cand : forall ex ctes mm rest, name_ok names None mm rest = true -> keeps ctes names mm = false ->
    simple_cand ex names ctes mm rest = Some (db_key k_default (if ex then rs mm else lower (rs mm)), (k_default, rs mm)).
  Proof.
    intros ex ctes mm rest Hn Hk. destruct (name_ok_facts _ _ _ _ Hn) as (Hm & _ & Hu). destruct (Hu eq_refl) as (Hdot & Hnext).
    unfold keeps, on_skip_list in Hk. apply orb_false_elim in Hk. destruct Hk as [Hk H3]. apply orb_false_elim in Hk. destruct Hk as [H1 H2].
    fold ri in H2, H3. rewrite (plain_ri mm Hm) in H2, H3.
    destruct Hnext as [Hok|Hskip]; [|unfold on_skip_list in Hskip; fold ri in Hskip; rewrite (plain_ri mm Hm) in Hskip; congruence].
    unfold next_ok in Hok. repeat (apply andb_true_iff in Hok; destruct Hok as [Hok ?]). apply negb_true_iff in H0.
    unfold simple_cand. fold rs. rewrite H3, H2, H1, Hdot, H0. reflexivity.
  Qed.

  Lemma simple_cand_good : forall ex ctes raw rest k rf, plain_name names raw = true ->
    simple_cand ex names ctes raw rest = Some (k, rf) -> good_cand (k, rf).
  Proof.
    intros ex ctes raw rest k rf Hp H. unfold simple_cand in H.
    destruct (should_skip _); [discriminate|]. destruct (_ || _); [discriminate|].
    destruct (dot_at rest); [discriminate|]. destruct (function_call_at rest); [discriminate|].
    injection H as <- <-. split; [reflexivity|]. destruct ex; [left|right]; reflexivity.
  Qed.
  Lemma db_cand_good : forall a b k rf, plain_name names a = true -> db_cand names a b = Some (k, rf) -> good_cand (k, rf).
  Proof. intros a b k rf Ha H. unfold db_cand in H. injection H as <- <-. split; [apply plain_dotfree; exact Ha|left; reflexivity]. Qed.

  Variable ctes_e : list bytes.         (* the CTE names of the extractor *)
  Variable ex : bool.                   (* keys on the name as written (fx_dedup) *)

  Definition cands (l : list nseg) : list cand :=
    map (fun x => db_cand names (fst x) (snd x)) (flat_map q_of_from l)
    ++ map (fun x => db_cand names (snd (fst x)) (snd x)) (flat_map q_of_join l)
    ++ map (fun x => simple_cand ex names ctes_e (fst x) (snd x)) (u_of_from l)
    ++ map (fun x => simple_cand ex names ctes_e (snd (fst x)) (snd x)) (u_of_join l).

  Lemma wf_tail : forall s r, wf_segs names (s :: r) = true -> wf_segs names r = true.
  Proof. intros s r H. cbn [wf_segs] in H. apply andb_true_iff in H. apply H. Qed.

  Lemma cands_good : forall l, wf_segs names l = true -> forall k rf, In (Some (k, rf)) (cands l) -> good_cand (k, rf).
  Proof.
    intros l Hwf k rf Hin. unfold cands in Hin.
    repeat (apply in_app_or in Hin; destruct Hin as [Hin|Hin]); apply in_map_iff in Hin; destruct Hin as (x & Hx & Hin).
    - apply in_flat_map in Hin. destruct Hin as (s & Hs & Hq).
      assert (plain_name names (fst x) = true).
      { clear Hx. induction l as [|s0 r IH]; [destruct Hs|]. destruct Hs as [->|Hs]; [|apply IH; [eapply wf_tail; eassumption|exact Hs]].
        destruct s as [t|f ws [d|] mm|p db mm|kp]; cbn [q_of_from In] in Hq; try contradiction. destruct Hq as [<-|[]].
        cbn [wf_segs] in Hwf. repeat (apply andb_true_iff in Hwf; destruct Hwf as [Hwf ?]).
        destruct (name_ok_facts _ _ _ _ H0) as (_ & Hd & _). exact Hd. }
      eapply db_cand_good; eassumption.
    - apply in_flat_map in Hin. destruct Hin as (s & Hs & Hq).
      assert (plain_name names (snd (fst x)) = true).
      { clear Hx. induction l as [|s0 r IH]; [destruct Hs|]. destruct Hs as [->|Hs]; [|apply IH; [eapply wf_tail; eassumption|exact Hs]].
        destruct s as [t|f ws db mm|p [d|] mm|kp]; cbn [q_of_join In] in Hq; try contradiction. destruct Hq as [<-|[]].
        cbn [wf_segs] in Hwf. repeat (apply andb_true_iff in Hwf; destruct Hwf as [Hwf ?]).
        destruct (name_ok_facts _ _ _ _ H0) as (_ & Hd & _). exact Hd. }
      eapply db_cand_good; eassumption.
    - assert (plain_name names (fst x) = true).
      { clear Hx. induction l as [|s0 r IH]; [destruct Hin|]. cbn [u_of_from] in Hin. apply in_app_or in Hin.
        destruct Hin as [Hin|Hin]; [|apply IH; [eapply wf_tail; eassumption|exact Hin]].
        cbn [wf_segs] in Hwf. apply andb_true_iff in Hwf. destruct Hwf as [Hs0 _].
        destruct s0 as [t|f ws [d|] mm|p db mm|kp]; cbn [In] in Hin; try contradiction; destruct Hin as [<-|[]]; cbn [fst];
          apply andb_true_iff in Hs0; destruct Hs0 as [_ Hn]; destruct (name_ok_facts _ _ _ _ Hn) as (Hm & Hd & _); assumption. }
      eapply simple_cand_good; eassumption.
    - assert (plain_name names (snd (fst x)) = true).
      { clear Hx. induction l as [|s0 r IH]; [destruct Hin|]. cbn [u_of_join] in Hin. apply in_app_or in Hin.
        destruct Hin as [Hin|Hin]; [|apply IH; [eapply wf_tail; eassumption|exact Hin]].
        cbn [wf_segs] in Hwf. apply andb_true_iff in Hwf. destruct Hwf as [Hs0 _].
        destruct s0 as [t|f ws db mm|p [d|] mm|kp]; cbn [In] in Hin; try contradiction; destruct Hin as [<-|[]]; cbn [fst snd];
          apply andb_true_iff in Hs0; destruct Hs0 as [_ Hn]; destruct (name_ok_facts _ _ _ _ Hn) as (Hm & Hd & _); assumption. }
      eapply simple_cand_good; eassumption.
  Qed.

  (* a reference the rewriting reads has its own candidate: (ri d, ri m) for a qualified one, (default, ri m)
     for an unqualified one *)
  Lemma read_has_cand : forall ctes dflt qualified l, wf_segs names l = true -> ctes = ctes_e ->
    forall r, In r (rewritten_refs names ctes dflt qualified l) ->
    exists k db, In (Some (k, (db, snd r))) (cands l) /\ ((qualified = true /\ db = fst r) \/ (db = k_default /\ fst r = dflt)).
  Proof.
    intros ctes dflt qualified l Hwf -> r Hin. unfold rewritten_refs in Hin.
    induction l as [|s l IH]; [destruct Hin|].
    cbn [flat_map] in Hin. apply in_app_or in Hin. destruct Hin as [Hin|Hin].
    2:{ destruct (IH (wf_tail _ _ Hwf) Hin) as (k & db & H1 & H2). exists k, db. split; [|exact H2].
        unfold cands in *. cbn [flat_map u_of_from u_of_join]. rewrite ?map_app, !in_app_iff in *. tauto. }
    cbn [wf_segs] in Hwf. apply andb_true_iff in Hwf. destruct Hwf as [Hs _].
    destruct s as [t|f ws db mm|p db mm|kp]; [destruct Hin| | |destruct Hin];
      apply andb_true_iff in Hs; destruct Hs as [_ Hn]; destruct (name_ok_facts _ _ _ _ Hn) as (Hm & Hd & _).
    - destruct db as [d|]; cbn [seg_reads] in Hin.
      + destruct qualified; [|destruct Hin]. destruct Hin as [<-|[]]. cbn [opt_plain] in Hd.
        exists (db_key (rs d) (rs mm)), (rs d). cbn [fst snd]. fold ri. rewrite (plain_ri d Hd), (plain_ri mm Hm).
        split; [|left; split; reflexivity].
        assert (E : db_cand names d mm = Some (db_key (rs d) (rs mm), (rs d, rs mm))) by reflexivity.
        unfold cands. cbn [flat_map q_of_from q_of_join u_of_from u_of_join]. rewrite ?map_app, !in_app_iff. cbn [map In fst snd]. tauto.
      + destruct (keeps ctes_e names mm) eqn:Hk; [destruct Hin|]. destruct Hin as [<-|[]].
        exists (db_key k_default (if ex then rs mm else lower (rs mm))), k_default. cbn [fst snd]. fold ri. rewrite (plain_ri mm Hm).
        split; [|right; split; reflexivity].
        pose proof (unkept_cand ex ctes_e mm (toks l) Hn Hk) as E.
        unfold cands. cbn [flat_map q_of_from q_of_join u_of_from u_of_join]. rewrite ?map_app, !in_app_iff. cbn [map In fst snd]. tauto.
    - destruct db as [d|]; cbn [seg_reads] in Hin.
      + destruct qualified; [|destruct Hin]. destruct Hin as [<-|[]]. cbn [opt_plain] in Hd.
        exists (db_key (rs d) (rs mm)), (rs d). cbn [fst snd]. fold ri. rewrite (plain_ri d Hd), (plain_ri mm Hm).
        split; [|left; split; reflexivity].
        assert (E : db_cand names d mm = Some (db_key (rs d) (rs mm), (rs d, rs mm))) by reflexivity.
        unfold cands. cbn [flat_map q_of_from q_of_join u_of_from u_of_join]. rewrite ?map_app, !in_app_iff. cbn [map In fst snd]. tauto.
      + destruct (keeps ctes_e names mm) eqn:Hk; [destruct Hin|]. destruct Hin as [<-|[]].
        exists (db_key k_default (if ex then rs mm else lower (rs mm))), k_default. cbn [fst snd]. fold ri. rewrite (plain_ri mm Hm).
        split; [|right; split; reflexivity].
        pose proof (unkept_cand ex ctes_e mm (toks l) Hn Hk) as E.
        unfold cands. cbn [flat_map q_of_from q_of_join u_of_from u_of_join]. rewrite ?map_app, !in_app_iff. cbn [map In fst snd]. tauto.
  Qed.

  Lemma extract_refs_cands : forall q l, wf_segs names l = true -> ctes_e = cte_set q names (toks l) ->
    extract_refs q ex names (toks l) = snd (add_cands [] (cands l)).
  Proof.
    intros q l Hwf E. unfold extract_refs, cands. rewrite <- E.
    rewrite (scan_dbF_segs names l Hwf), (scan_dbJ_segs names l Hwf), (scan_sF_segs names l Hwf), (scan_sJ_segs names l Hwf).
    reflexivity.
  Qed.

  Lemma covered_by_cand : forall l, wf_segs names l = true -> forall k db m,
    In (Some (k, (db, m))) (cands l) ->
    exists m', In (db, m') (snd (add_cands [] (cands l))) /\ lower m' = lower m.
  Proof.
    intros l Hwf k db m Hin.
    destruct (add_cands_complete (cands l) [] k (db, m) Hin eq_refl) as ([db' m'] & H1 & H2).
    pose proof (cands_good l Hwf _ _ Hin) as G1. pose proof (cands_good l Hwf _ _ H1) as G2.
    destruct (good_cands_same_key _ _ _ _ _ G1 G2) as [-> E]. exists m'. split; [exact H2|symmetry; exact E].
  Qed.
End Coverage.

(* with keys on the name as written, equal keys are equal references *)
Definition exact_cand (c : bytes * ref) : Prop := dotfree (fst (snd c)) /\ fst c = db_key (fst (snd c)) (snd (snd c)).
Lemma exact_cands_same_key : forall k r r', exact_cand (k, r) -> exact_cand (k, r') -> r = r'.
Proof.
  intros k [db m] [db' m'] [Hd E] [Hd' E']. cbn [fst snd] in *. rewrite E in E'. unfold db_key in E'.
  destruct (split_at_dot _ _ _ _ Hd Hd' E') as [-> ->]. reflexivity.
Qed.

Section CoverageExact.
  Variable names : names_t.
  Variable ctes_e : list bytes.

  Lemma simple_cand_exact : forall raw rest k rf, plain_name names raw = true ->
    simple_cand true names ctes_e raw rest = Some (k, rf) -> exact_cand (k, rf).
  Proof.
    intros raw rest k rf Hp H. unfold simple_cand in H.
    destruct (should_skip _); [discriminate|]. destruct (_ || _); [discriminate|].
    destruct (dot_at rest); [discriminate|]. destruct (function_call_at rest); [discriminate|].
    injection H as <- <-. split; reflexivity.
  Qed.
  Lemma db_cand_exact : forall a b k rf, plain_name names a = true -> db_cand names a b = Some (k, rf) -> exact_cand (k, rf).
  Proof. intros a b k rf Ha H. unfold db_cand in H. injection H as <- <-. split; [apply (plain_name_facts _ _ Ha)|reflexivity]. Qed.

  Lemma cands_exact : forall l, wf_segs names l = true -> forall k rf, In (Some (k, rf)) (cands names ctes_e true l) -> exact_cand (k, rf).
  Proof.
    intros l Hwf k rf Hin. unfold cands in Hin.
    repeat (apply in_app_or in Hin; destruct Hin as [Hin|Hin]); apply in_map_iff in Hin; destruct Hin as (x & Hx & Hin).
    - apply in_flat_map in Hin. destruct Hin as (s & Hs & Hq).
      assert (plain_name names (fst x) = true).
      { clear Hx. induction l as [|s0 r IH]; [destruct Hs|]. destruct Hs as [->|Hs]; [|apply IH; [eapply wf_tail; eassumption|exact Hs]].
        destruct s as [t|f ws [d|] mm|p db mm|kp]; cbn [q_of_from In] in Hq; try contradiction. destruct Hq as [<-|[]].
        cbn [wf_segs] in Hwf. repeat (apply andb_true_iff in Hwf; destruct Hwf as [Hwf ?]).
        destruct (name_ok_facts _ _ _ _ H0) as (_ & Hd & _). exact Hd. }
      eapply db_cand_exact; eassumption.
    - apply in_flat_map in Hin. destruct Hin as (s & Hs & Hq).
      assert (plain_name names (snd (fst x)) = true).
      { clear Hx. induction l as [|s0 r IH]; [destruct Hs|]. destruct Hs as [->|Hs]; [|apply IH; [eapply wf_tail; eassumption|exact Hs]].
        destruct s as [t|f ws db mm|p [d|] mm|kp]; cbn [q_of_join In] in Hq; try contradiction. destruct Hq as [<-|[]].
        cbn [wf_segs] in Hwf. repeat (apply andb_true_iff in Hwf; destruct Hwf as [Hwf ?]).
        destruct (name_ok_facts _ _ _ _ H0) as (_ & Hd & _). exact Hd. }
      eapply db_cand_exact; eassumption.
    - assert (plain_name names (fst x) = true).
      { clear Hx. induction l as [|s0 r IH]; [destruct Hin|]. cbn [u_of_from] in Hin. apply in_app_or in Hin.
        destruct Hin as [Hin|Hin]; [|apply IH; [eapply wf_tail; eassumption|exact Hin]].
        cbn [wf_segs] in Hwf. apply andb_true_iff in Hwf. destruct Hwf as [Hs0 _].
        destruct s0 as [t|f ws [d|] mm|p db mm|kp]; cbn [In] in Hin; try contradiction; destruct Hin as [<-|[]]; cbn [fst];
          apply andb_true_iff in Hs0; destruct Hs0 as [_ Hn]; destruct (name_ok_facts _ _ _ _ Hn) as (Hm & Hd & _); assumption. }
      eapply simple_cand_exact; eassumption.
    - assert (plain_name names (snd (fst x)) = true).
      { clear Hx. induction l as [|s0 r IH]; [destruct Hin|]. cbn [u_of_join] in Hin. apply in_app_or in Hin.
        destruct Hin as [Hin|Hin]; [|apply IH; [eapply wf_tail; eassumption|exact Hin]].
        cbn [wf_segs] in Hwf. apply andb_true_iff in Hwf. destruct Hwf as [Hs0 _].
        destruct s0 as [t|f ws db mm|p [d|] mm|kp]; cbn [In] in Hin; try contradiction; destruct Hin as [<-|[]]; cbn [fst snd];
          apply andb_true_iff in Hs0; destruct Hs0 as [_ Hn]; destruct (name_ok_facts _ _ _ _ Hn) as (Hm & Hd & _); assumption. }
      eapply simple_cand_exact; eassumption.
  Qed.

  Lemma covered_by_cand_exact : forall l, wf_segs names l = true -> forall k rf,
    In (Some (k, rf)) (cands names ctes_e true l) -> In rf (snd (add_cands [] (cands names ctes_e true l))).
  Proof.
    intros l Hwf k rf Hin.
    destruct (add_cands_complete (cands names ctes_e true l) [] k rf Hin eq_refl) as (rf' & H1 & H2).
    rewrite (exact_cands_same_key k rf rf' (cands_exact l Hwf _ _ Hin) (cands_exact l Hwf _ _ H1)). exact H2.
  Qed.
End CoverageExact.

Lemma covers_exact_In : forall chk r, In r chk -> covers_exact chk r = true.
Proof.
  intros chk r H. unfold covers_exact. apply existsb_exists. exists r. split; [exact H|].
  unfold ref_eqb. rewrite !bytes_eqb_refl. reflexivity.
Qed.

Theorem coverage_nohdr_exact : forall q names l, wf_segs names l = true ->
  forall r, In r (rewritten_refs names (cte_set q names (toks l)) k_default true l) ->
  covers_exact (extract_refs q true names (toks l)) r = true.
Proof.
  intros q names l Hwf r Hin.
  destruct (read_has_cand names (cte_set q names (toks l)) true _ k_default true l Hwf eq_refl r Hin) as (k & db & Hc & Hdb).
  rewrite (extract_refs_cands names (cte_set q names (toks l)) true q l Hwf eq_refl).
  apply covers_exact_In.
  assert (db = fst r) as E by (destruct Hdb as [[_ ->]|[-> ->]]; reflexivity).
  rewrite E in Hc. rewrite <- surjective_pairing in Hc.
  eapply covered_by_cand_exact; eassumption.
Qed.

Theorem coverage_hdr_exact : forall q word names hdr l, wf_segs names l = true -> hdr <> [] ->
  hdr_ctes q word names (toks l) = cte_set q names (toks l) ->
  forall r, In r (rewritten_refs names (hdr_ctes q word names (toks l)) hdr false l) ->
  covers_exact (override_default hdr (extract_refs q true names (toks l))) r = true.
Proof.
  intros q word names hdr l Hwf Hh Ec r Hin. rewrite Ec in Hin.
  destruct (read_has_cand names (cte_set q names (toks l)) true _ hdr false l Hwf eq_refl r Hin) as (k & db & Hc & Hdb).
  rewrite (extract_refs_cands names (cte_set q names (toks l)) true q l Hwf eq_refl).
  destruct Hdb as [[Hq _]|[-> Hr]]; [discriminate|].
  apply covers_exact_In. unfold override_default. destruct hdr as [|h0 hdr']; [congruence|].
  apply in_map_iff. exists (k_default, snd r). split.
  - cbn. rewrite <- Hr. symmetry. apply surjective_pairing.
  - eapply covered_by_cand_exact; eassumption.
Qed.

Theorem coverage_nohdr : forall q ex names l, wf_segs names l = true ->
  forall r, In r (rewritten_refs names (cte_set q names (toks l)) k_default true l) ->
  covers (extract_refs q ex names (toks l)) r = true.
Proof.
  intros q ex names l Hwf r Hin.
  destruct (read_has_cand names (cte_set q names (toks l)) ex _ k_default true l Hwf eq_refl r Hin) as (k & db & Hc & Hdb).
  rewrite (extract_refs_cands names (cte_set q names (toks l)) ex q l Hwf eq_refl).
  destruct (covered_by_cand names _ ex l Hwf k db (snd r) Hc) as (m' & Hm' & El).
  unfold covers. apply existsb_exists. exists (db, m'). split; [exact Hm'|]. cbn [fst snd].
  assert (db = fst r) as -> by (destruct Hdb as [[_ ->]|[-> ->]]; reflexivity).
  rewrite bytes_eqb_refl, El, bytes_eqb_refl. reflexivity.
Qed.

Theorem coverage_hdr : forall q ex word names hdr l, wf_segs names l = true -> hdr <> [] ->
  hdr_ctes q word names (toks l) = cte_set q names (toks l) ->
  forall r, In r (rewritten_refs names (hdr_ctes q word names (toks l)) hdr false l) ->
  covers (override_default hdr (extract_refs q ex names (toks l))) r = true.
Proof.
  intros q ex word names hdr l Hwf Hh Ec r Hin. rewrite Ec in Hin.
  destruct (read_has_cand names (cte_set q names (toks l)) ex _ hdr false l Hwf eq_refl r Hin) as (k & db & Hc & Hdb).
  rewrite (extract_refs_cands names (cte_set q names (toks l)) ex q l Hwf eq_refl).
  destruct (covered_by_cand names _ ex l Hwf k db (snd r) Hc) as (m' & Hm' & El).
  destruct Hdb as [[Hq _]|[-> Hr]]; [discriminate|].
  unfold covers. apply existsb_exists. exists (hdr, m'). split.
  - unfold override_default. destruct hdr as [|h0 hdr']; [congruence|].
    apply in_map_iff. exists (k_default, m'). split; [|exact Hm']. cbn. reflexivity.
  - cbn [fst snd]. rewrite Hr, bytes_eqb_refl, El, bytes_eqb_refl. reflexivity.
Qed.


(* ------------------------------------------------------------------------------------ *)
(* from segment lists to token lists and to request texts                                 *)
(* ------------------------------------------------------------------------------------ *)
Lemma toks_eqb_eq : forall a b, toks_eqb a b = true -> a = b.
Proof.
  induction a as [|x a IH]; intros b H; destruct b as [|y b]; cbn [toks_eqb] in H.
  - reflexivity.
  - discriminate.
  - destruct x; discriminate.
  - destruct x, y; try discriminate; apply andb_true_iff in H; destruct H as [H1 H2];
      try (apply bytes_eqb_eq in H1); try (apply N.eqb_eq in H1); subst; f_equal; apply IH; exact H2.
Qed.

Lemma in_grammar_facts : forall names ts, in_grammar names ts = true ->
  toks (segs_of ts) = ts /\ wf_segs names (segs_of ts) = true /\ name_lookup k_read_parquet names = None.
Proof.
  unfold in_grammar. intros names ts H. repeat (apply andb_true_iff in H; destruct H as [H ?]).
  split; [apply toks_eqb_eq; exact H|]. split; [exact H1|]. destruct (name_lookup k_read_parquet names); [discriminate|reflexivity].
Qed.

(* the statements about a request text: what the gate checks and what it executes *)
Definition req_names (s : bytes) : names_t := names_of (n_masks (norm_p s)).
Definition req_toks (s : bytes) : list tok := n_toks (norm_p s).
Definition req_segs (s : bytes) : list nseg := segs_of (req_toks s).
Definition req_in_grammar (s : bytes) : bool := in_grammar (req_names s) (req_toks s).
Definition restore (s : bytes) (ts : list tok) : bytes :=
  unmask (unmask_from (untok ts) (n_fmasks (norm_p s))) (n_masks (norm_p s)).

Theorem convert_nohdr_subst : forall q s, req_in_grammar s = true ->
  convert_nohdr q s = restore s (toks (subst_segs (req_names s) (cte_set q (req_names s) (req_toks s)) k_default true (req_segs s))).
Proof.
  intros q s H. destruct (in_grammar_facts _ _ H) as (E & Hwf & Hrp).
  unfold convert_nohdr, restore. cbv zeta. fold (req_names s) (req_toks s).
  replace (passes_nohdr q (req_names s) (req_toks s)) with (passes_nohdr q (req_names s) (toks (segs_of (req_toks s)))) by (rewrite E; reflexivity).
  rewrite (passes_nohdr_subst (req_names s) Hrp q _ Hwf). fold (req_segs s). unfold req_segs at 1. rewrite E. reflexivity.
Qed.

Theorem convert_hdr_subst : forall q kwd word fn s hdr, req_in_grammar s = true -> fast_single_gen kwd word fn s = false ->
  convert_hdr q kwd word fn s hdr = restore s (toks (subst_segs (req_names s) (hdr_ctes q word (req_names s) (req_toks s)) hdr false (req_segs s))).
Proof.
  intros q kwd word fn s hdr H Hf. destruct (in_grammar_facts _ _ H) as (E & Hwf & Hrp).
  unfold convert_hdr, restore. rewrite Hf. cbv zeta. fold (req_names s) (req_toks s).
  replace (passes_hdr q word (req_names s) hdr (req_toks s)) with (passes_hdr q word (req_names s) hdr (toks (segs_of (req_toks s)))) by (rewrite E; reflexivity).
  rewrite (passes_hdr_subst (req_names s) Hrp q word hdr _ Hwf). fold (req_segs s). unfold req_segs at 1. rewrite E. reflexivity.
Qed.

Lemma gate_exec_inv : forall fx s hdr chk rt text, gate_gen fx s hdr = OExec chk rt text ->
  chk = override_default hdr (extract_refs (fx_cteq fx) (fx_dedup fx) (req_names s) (req_toks s))
  /\ rt = route_of (fx_noraw fx) s /\ text = executed_text fx s hdr.
Proof.
  intros fx s hdr chk rt text H. unfold gate_gen in H.
  destruct (validate fx s); [discriminate|].
  destruct (negb _); [discriminate|]. destruct (_ && _); [discriminate|].
  destruct (show_databases _); [discriminate|]. destruct (show_tables _) as [cap|].
  - destruct (valid_identifier _); discriminate.
  - injection H as <- <- <-. auto.
Qed.

Definition req_ctes (fx : fixset) (s : bytes) : list bytes := cte_set (fx_cteq fx) (req_names s) (req_toks s).
Definition req_hdr_ctes (fx : fixset) (s : bytes) : list bytes := hdr_ctes (fx_cteq fx) (fx_with fx) (req_names s) (req_toks s).

Theorem gate_transform_nohdr : forall fx s chk rt text, req_in_grammar s = true ->
  gate_gen fx s [] = OExec chk rt text -> rt = Transformed ->
  text = restore s (toks (subst_segs (req_names s) (req_ctes fx s) k_default true (req_segs s)))
  /\ forall r, In r (rewritten_refs (req_names s) (req_ctes fx s) k_default true (req_segs s)) -> covers chk r = true.
Proof.
  intros fx s chk rt text Hg H Hrt. destruct (gate_exec_inv _ _ _ _ _ _ H) as (-> & -> & ->).
  destruct (in_grammar_facts _ _ Hg) as (E & Hwf & Hrp). unfold req_ctes. split.
  - unfold executed_text. rewrite Hrt. apply convert_nohdr_subst. exact Hg.
  - intros r Hr. cbn [override_default]. rewrite <- E. apply coverage_nohdr; [exact Hwf|]. unfold req_segs in Hr. rewrite E. exact Hr.
Qed.

Theorem gate_transform_hdr : forall fx s hdr chk rt text, req_in_grammar s = true -> hdr <> [] ->
  fast_single_gen (fx_single fx) (fx_with fx) (fx_fastname fx) s = false -> req_hdr_ctes fx s = req_ctes fx s ->
  gate_gen fx s hdr = OExec chk rt text -> rt = Transformed ->
  text = restore s (toks (subst_segs (req_names s) (req_hdr_ctes fx s) hdr false (req_segs s)))
  /\ forall r, In r (rewritten_refs (req_names s) (req_hdr_ctes fx s) hdr false (req_segs s)) -> covers chk r = true.
Proof.
  intros fx s hdr chk rt text Hg Hh Hf Hc H Hrt. destruct (gate_exec_inv _ _ _ _ _ _ H) as (-> & -> & ->).
  destruct (in_grammar_facts _ _ Hg) as (E & Hwf & Hrp). unfold req_hdr_ctes, req_ctes in *. split.
  - unfold executed_text. rewrite Hrt. destruct hdr as [|h0 hdr']; [congruence|]. apply convert_hdr_subst; assumption.
  - intros r Hr. rewrite <- E. apply coverage_hdr with (word := fx_with fx); try assumption; unfold req_segs in *; rewrite E; assumption.
Qed.

Theorem gate_raw_text : forall fx s hdr chk rt text, gate_gen fx s hdr = OExec chk rt text -> rt <> Transformed -> text = s.
Proof.
  intros fx s hdr chk rt text H Hrt. destruct (gate_exec_inv _ _ _ _ _ _ H) as (_ & -> & ->).
  unfold executed_text. destruct (route_of (fx_noraw fx) s); try reflexivity. congruence.
Qed.

(* ---- the current source: every repair present ---- *)
Theorem gate_current_nohdr : forall s chk rt text, req_in_grammar s = true ->
  gate_gen fx_all s [] = OExec chk rt text ->
  rt = Transformed
  /\ text = restore s (toks (subst_segs (req_names s) (req_ctes fx_all s) k_default true (req_segs s)))
  /\ forall r, In r (rewritten_refs (req_names s) (req_ctes fx_all s) k_default true (req_segs s)) -> covers_exact chk r = true.
Proof.
  intros s chk rt text Hg H. destruct (gate_exec_inv _ _ _ _ _ _ H) as (-> & -> & ->).
  destruct (in_grammar_facts _ _ Hg) as (E & Hwf & Hrp). unfold req_ctes. split; [reflexivity|]. split.
  - unfold executed_text. cbn [fx_all fx_noraw fx_cteq route_of]. apply convert_nohdr_subst. exact Hg.
  - intros r Hr. cbn [override_default fx_all fx_cteq fx_dedup]. rewrite <- E. apply coverage_nohdr_exact; [exact Hwf|].
    unfold req_segs in Hr. rewrite E. exact Hr.
Qed.

Theorem gate_current_hdr : forall s hdr chk rt text, req_in_grammar s = true -> hdr <> [] ->
  fast_single_gen true true true s = false ->
  gate_gen fx_all s hdr = OExec chk rt text ->
  rt = Transformed
  /\ text = restore s (toks (subst_segs (req_names s) (req_ctes fx_all s) hdr false (req_segs s)))
  /\ forall r, In r (rewritten_refs (req_names s) (req_ctes fx_all s) hdr false (req_segs s)) -> covers_exact chk r = true.
Proof.
  intros s hdr chk rt text Hg Hh Hf H. destruct (gate_exec_inv _ _ _ _ _ _ H) as (-> & -> & ->).
  destruct (in_grammar_facts _ _ Hg) as (E & Hwf & Hrp). unfold req_ctes. split; [reflexivity|]. split.
  - unfold executed_text. cbn [fx_all fx_noraw fx_cteq fx_single fx_with fx_fastname route_of].
    destruct hdr as [|h0 hdr']; [congruence|]. rewrite (convert_hdr_subst true true true true s _ Hg Hf). reflexivity.
  - intros r Hr. cbn [fx_all fx_cteq fx_dedup]. rewrite <- E.
    apply (coverage_hdr_exact true true (req_names s) hdr _ Hwf Hh eq_refl). unfold req_segs in Hr. rewrite E. exact Hr.
Qed.

(* with the repair of the header converters the hypothesis about the CTE names always holds *)
Lemma hdr_ctes_same : forall q names ts, hdr_ctes q true names ts = cte_set q names ts.
Proof. reflexivity. Qed.
