(* C14 - a query can only read data the caller is authorized to read
   C16 - query answers match DuckDB's semantics for the same SQL (the rewriting half)

   Only property statements live here; proofs are in Proofs.v.  Model.v transcribes the gate of
   executeQuery / executeQueryArrow / estimateQuery (ValidateSQLRequest, header checks, SHOW gate,
   checkQueryPermissions + extractTableReferences, getTransformedSQL[ForParallel], the converters) on top of
   the byte-exact lexical model of property C15; [gate s hdr] is what the correspondence runs against the
   real HTTP handler.

   The property as stated is REFUTED for the code as it is: the C14_..._refuted theorems are accepted
   requests that read a database the caller was never checked for (each replayed through the real handler
   against a sandboxed DuckDB with a canary file on every run).  The guarded theorems are what holds for
   ALL request texts [s] (any bytes: every comment, quoting, case and whitespace disguise goes through the
   normalisation inside [gate]) whose normalised token list is in the decidable class [req_in_grammar]:
   table references introduced by FROM / a join prefix + identifier, names that are not keywords. *)
From Coq Require Import String.
From Coq Require Import NArith Bool List.
From Arc Require Import SqlLex.Model SqlAst.Model SqlAst.Proofs.
Import ListNotations.
Open Scope N_scope.

Definition bs (s : string) : bytes := s2b s.
Arguments bs s%string.
Definition nl : string := String (Ascii.ascii_of_nat 10) "".
Definition canary : string := "/R/db2/secret/*/*/*/*/*.parquet".

(* ==================================================================================== *)
(* C14                                                                                    *)
(* ==================================================================================== *)

(* ------------------------------------------------------------------------------------ *)
(* C14 for the CURRENT source ([fx_all]: every repair of fixes/C14_*.patch, C16_*.patch)     *)
(* ------------------------------------------------------------------------------------ *)
(* The request text itself is never executed any more. *)
Theorem C14_current_never_raw : forall s, route_of (fx_noraw fx_all) s = Transformed.
Proof. reflexivity. Qed.
Print Assumptions C14_current_never_raw.

(* For EVERY accepted request of the class (no guard on literals, no guard on the statement kind, no route
   hypothesis): the executed text is the normalised text in which exactly the table references were replaced by
   read_parquet of their measurement, and every measurement so read is one of the references handed to the
   permission check - the same database and the same measurement, as written. *)
Theorem C14_current_sound : forall s chk rt text,
  req_in_grammar s = true ->
  gate_gen fx_all s [] = OExec chk rt text ->
  rt = Transformed
  /\ text = restore s (toks (subst_segs (req_names s) (req_ctes fx_all s) k_default true (req_segs s)))
  /\ forall r, In r (rewritten_refs (req_names s) (req_ctes fx_all s) k_default true (req_segs s)) -> covers_exact chk r = true.
Proof. exact gate_current_nohdr. Qed.
Print Assumptions C14_current_sound.

(* The same with the x-arc-database header on the regexp path (the converter now excludes exactly the CTE names
   the permission check excludes: no hypothesis about them is left). *)
Theorem C14_current_sound_header : forall s hdr chk rt text,
  req_in_grammar s = true -> hdr <> [] -> fast_single_gen true true true s = false ->
  gate_gen fx_all s hdr = OExec chk rt text ->
  rt = Transformed
  /\ text = restore s (toks (subst_segs (req_names s) (req_ctes fx_all s) hdr false (req_segs s)))
  /\ forall r, In r (rewritten_refs (req_names s) (req_ctes fx_all s) hdr false (req_segs s)) -> covers_exact chk r = true.
Proof. exact gate_current_hdr. Qed.
Print Assumptions C14_current_sound_header.

Example C14_current_satisfiable :
  let s := bs ("WITH ""recent"" AS (SELECT id, host FROM db1.cpu WHERE tag <> '/R/db2/secret/x.parquet -- y') /* c */ SELECT r.host, count(*) FROM recent r LEFT OUTER JOIN ""db1"".""mem"" m ON r.id = m.id NATURAL JOIN (SELECT id FROM db1.CPU) q -- t" ++ nl ++ " GROUP BY r.host") in
  req_in_grammar s = true /\ pathlike_free s = false
  /\ gate_gen fx_all s [] = OExec [(bs "db1", bs "cpu"); (bs "db1", bs "CPU"); (bs "db1", bs "mem")] Transformed
       (bs ("WITH ""recent"" AS (SELECT id, host FROM read_parquet('/R/db1/cpu/**/*.parquet', union_by_name=true) WHERE tag <> '/R/db2/secret/x.parquet -- y')   SELECT r.host, count(*) FROM recent r LEFT OUTER JOIN read_parquet('/R/db1/mem/**/*.parquet', union_by_name=true) m ON r.id = m.id NATURAL JOIN (SELECT id FROM read_parquet('/R/db1/CPU/**/*.parquet', union_by_name=true)) q " ++ nl ++ " GROUP BY r.host")).
Proof. vm_compute. repeat split. Qed.

(* every witness of the refutations below is now refused, or executes without touching the foreign database; the
   two spellings of the de-duplication witness are both checked *)
Definition harmless (o : outcome) : bool :=
  match o with
  | OReject _ => true
  | OExec _ _ text => negb (has_sub (bs "db2") text)
  | _ => false
  end.
Theorem C14_current_witnesses_closed :
  forallb (fun sh => harmless (gate_gen fx_all (fst sh) (snd sh)))
    [ (bs ("TABLE """ ++ canary ++ """"), []); (bs ("SUMMARIZE '" ++ canary ++ "'"), []);
      (bs ("PIVOT """ ++ canary ++ """ ON host USING count(*)"), []);
      (bs ("SELECT * -- 'read_parquet" ++ nl ++ "FROM """ ++ canary ++ """ -- '"), []);
      (bs ("WITH x AS (SELECT 1 FROM db1.cpu) TABLE """ ++ canary ++ """"), []);
      (bs ("SELECT * FROM (""" ++ canary ++ """ a CROSS JOIN db1.cpu b)"), []);
      (bs ("SELECT 'a\' FROM """ ++ canary ++ """ WHERE 'b' = 'b'"), []);
      (bs "SELECT 1 AS ""--"", * FROM read_parquet('/R/db2/secret/**/*.parquet')", []);
      (bs ("SELECT 'x' AS ""--"" FROM db1.cpu t1, '" ++ canary ++ "' t2"), []);
      (bs ("SELECT * FROM query('SELECT * FROM ''" ++ canary ++ "''')"), []);
      (bs ("WITH" ++ nl ++ "secret AS (SELECT 1) SELECT * FROM secret"), bs "db2");
      (bs "SELECT * FROM secret WINDOW w1 AS (ORDER BY id), secret AS (ORDER BY id)", bs "db2");
      (bs "SELECT * FROM cpu a JOIN LATERAL ' || $$../db2/secret$$ || ' b ON true", bs "db1") ] = true
  /\ exists text, gate_gen fx_all (bs "SELECT * FROM cpu a JOIN CPU b ON a.id = b.id") (bs "db1")
                   = OExec [(bs "db1", bs "cpu"); (bs "db1", bs "CPU")] Transformed text.
Proof. split; [vm_compute; reflexivity|]. eexists. vm_compute. reflexivity. Qed.

(* ------------------------------------------------------------------------------------ *)
(* C14 for every variant of the code (any subset of the repairs), and the refutations of    *)
(* the code as it was ([gate] = [gate_gen fx_none])                                         *)
(* ------------------------------------------------------------------------------------ *)
(* 1. Transform path, no header.  For EVERY request text in the class: the executed text is the normalised
   text in which exactly the table references (qualified ones, and unqualified ones that are neither CTE
   names nor on the skip list) were replaced by read_parquet of their measurement, literals restored;
   and every measurement so read is covered by a reference that was handed to the permission check
   (same database, same measurement up to ASCII case). *)
Theorem C14_transform_path_sound : forall fx s chk rt text,
  req_in_grammar s = true ->
  gate_gen fx s [] = OExec chk rt text -> rt = Transformed ->
  text = restore s (toks (subst_segs (req_names s) (req_ctes fx s) k_default true (req_segs s)))
  /\ forall r, In r (rewritten_refs (req_names s) (req_ctes fx s) k_default true (req_segs s)) -> covers chk r = true.
Proof. exact gate_transform_nohdr. Qed.
Print Assumptions C14_transform_path_sound.

(* 2. Transform path with the x-arc-database header (the regexp path of convertSQLToStoragePathsWithHeaderDB):
   the same, for requests on which the converter looks for CTE names whenever the permission check does. *)
Theorem C14_transform_path_sound_header : forall fx s hdr chk rt text,
  req_in_grammar s = true -> hdr <> [] -> fast_single_gen (fx_single fx) (fx_with fx) (fx_fastname fx) s = false ->
  req_hdr_ctes fx s = req_ctes fx s ->
  gate_gen fx s hdr = OExec chk rt text -> rt = Transformed ->
  text = restore s (toks (subst_segs (req_names s) (req_hdr_ctes fx s) hdr false (req_segs s)))
  /\ forall r, In r (rewritten_refs (req_names s) (req_hdr_ctes fx s) hdr false (req_segs s)) -> covers chk r = true.
Proof. exact gate_transform_hdr. Qed.
Print Assumptions C14_transform_path_sound_header.

(* 3. The two raw fast paths execute the request text itself: nothing is rewritten, so what DuckDB reads
   is decided by DuckDB's own lexer and grammar (sound only under lexer agreement and when no literal of
   the statement names a file: see the refutations below). *)
Theorem C14_raw_path_text : forall fx s hdr chk rt text,
  gate_gen fx s hdr = OExec chk rt text -> rt <> Transformed -> text = s.
Proof. exact gate_raw_text. Qed.
Print Assumptions C14_raw_path_text.

(* the class is inhabited by statements with CTEs, every join kind, subqueries, quoted and mixed-case names,
   comments, literals that contain keywords and comment markers; the outcome is not trivial *)
Example C14_guard_satisfiable :
  let s := bs ("WITH recent AS (SELECT id, host FROM db1.cpu WHERE tag <> 'from -- x') /* c */ SELECT r.host, count(*) FROM recent r LEFT OUTER JOIN ""db1"".""mem"" m ON r.id = m.id NATURAL JOIN (SELECT id FROM db1.CPU) q -- t" ++ nl ++ " GROUP BY r.host") in
  req_in_grammar s = true /\ pathlike_free s = true
  /\ gate s [] = OExec [(bs "db1", bs "cpu"); (bs "db1", bs "CPU"); (bs "db1", bs "mem")] Transformed
       (bs ("WITH recent AS (SELECT id, host FROM read_parquet('/R/db1/cpu/**/*.parquet', union_by_name=true) WHERE tag <> 'from -- x')   SELECT r.host, count(*) FROM recent r LEFT OUTER JOIN read_parquet('/R/db1/mem/**/*.parquet', union_by_name=true) m ON r.id = m.id NATURAL JOIN (SELECT id FROM read_parquet('/R/db1/CPU/**/*.parquet', union_by_name=true)) q " ++ nl ++ " GROUP BY r.host"))
  /\ request_reads fx_none s [] = [(bs "db1", bs "cpu"); (bs "db1", bs "mem"); (bs "db1", bs "CPU")].
Proof. vm_compute. repeat split. Qed.

Example C14_guard_satisfiable_header :
  let s := bs ("SELECT a.host FROM cpu a FULL OUTER JOIN (SELECT * FROM mem) m ON a.id = m.id /* x */ WHERE a.tag = 'q'") in
  req_in_grammar s = true /\ fast_single_ok false false s = false /\ req_hdr_ctes fx_none s = req_ctes fx_none s
  /\ gate s (bs "db1") = OExec [(bs "db1", bs "cpu"); (bs "db1", bs "mem")] Transformed
       (bs "SELECT a.host FROM read_parquet('/R/db1/cpu/**/*.parquet', union_by_name=true) a FULL OUTER JOIN (SELECT * FROM read_parquet('/R/db1/mem/**/*.parquet', union_by_name=true)) m ON a.id = m.id   WHERE a.tag = 'q'").
Proof. vm_compute. repeat split. Qed.

(* ---- refutations: accepted, nothing (or only the caller's own database) checked, another database read ---- *)
Definition accepted_unchecked (s hdr : bytes) (rt : route) (text : bytes) : Prop := gate s hdr = OExec [] rt text.

(* (a) statement kinds whose table position is not introduced by FROM/JOIN: no from/join in the text, so the
   raw text is executed and zero references are extracted *)
Theorem C14_raw_nofrom_refuted :
  forall k, In k ["TABLE"; "DESCRIBE"; "DESC"; "SHOW"; "SUMMARIZE"]%string ->
  let s := bs (k ++ " """ ++ canary ++ """") in accepted_unchecked s [] RawNoFrom s /\ pathlike_free s = false.
Proof. intros k H. cbn [In] in H. repeat (destruct H as [<-|H]; [vm_compute; split; reflexivity|]). destruct H. Qed.
Theorem C14_raw_nofrom_string_refuted :
  forall k, In k ["TABLE"; "DESCRIBE"; "SUMMARIZE"; "SHOW"]%string ->
  let s := bs (k ++ " '" ++ canary ++ "'") in accepted_unchecked s [] RawNoFrom s.
Proof. intros k H. cbn [In] in H. repeat (destruct H as [<-|H]; [vm_compute; reflexivity|]). destruct H. Qed.
Theorem C14_raw_pivot_refuted :
  let s := bs ("PIVOT """ ++ canary ++ """ ON host USING count(*)") in accepted_unchecked s [] RawNoFrom s.
Proof. vm_compute. reflexivity. Qed.

(* (b) the read_parquet fast path decides on the RAW text: the word inside a comment is enough, and a quote
   inside the comment hides the FROM clause from the masker *)
Theorem C14_raw_read_parquet_refuted :
  let s := bs ("SELECT * -- 'read_parquet" ++ nl ++ "FROM """ ++ canary ++ """ -- '") in
  accepted_unchecked s [] RawReadParquet s.
Proof. vm_compute. reflexivity. Qed.

(* (c) the same statement kinds on the transform path: the quoted path survives the rewriting *)
Theorem C14_transform_table_kind_refuted :
  let s := bs ("WITH x AS (SELECT 1 FROM db1.cpu) TABLE """ ++ canary ++ """") in
  req_in_grammar s = true /\ pathlike_free s = false
  /\ gate s [] = OExec [(bs "db1", bs "cpu")] Transformed
       (bs ("WITH x AS (SELECT 1 FROM read_parquet('/R/db1/cpu/**/*.parquet', union_by_name=true)) TABLE """ ++ canary ++ """")).
Proof. vm_compute. repeat split. Qed.

(* (d) a parenthesised join group: the table-position scanner forgets FROM at the parenthesis *)
Theorem C14_paren_group_refuted :
  let s := bs ("SELECT * FROM (""" ++ canary ++ """ a CROSS JOIN db1.cpu b)") in
  gate s [] = OExec [(bs "db1", bs "cpu")] Transformed
       (bs ("SELECT * FROM (""" ++ canary ++ """ a CROSS JOIN read_parquet('/R/db1/cpu/**/*.parquet', union_by_name=true) b)")).
Proof. vm_compute. reflexivity. Qed.

(* (e) backslash before a quote: the masker reads the FROM clause as part of a string, the unmasking puts
   the raw text back and DuckDB reads it as a FROM clause *)
Theorem C14_backslash_quote_refuted :
  let s := bs ("SELECT 'a\' FROM """ ++ canary ++ """ WHERE 'b' = 'b'") in accepted_unchecked s [] Transformed s.
Proof. vm_compute. reflexivity. Qed.

(* (f) a comment marker inside a quoted identifier hides a file-reading function from the denylist, whose
   normalisation deletes the identifier quotes before it strips comments *)
Theorem C14_quoted_comment_marker_refuted :
  let s := bs "SELECT 1 AS ""--"", * FROM read_parquet('/R/db2/secret/**/*.parquet')" in accepted_unchecked s [] RawReadParquet s.
Proof. vm_compute. reflexivity. Qed.

(* (f') ... and hides a string in a cross-join table position from stringLiteralInTablePosition, which runs on the
   same quote-stripped text: a transform-path read, no file-reading function needed *)
Theorem C14_quoted_comment_marker_string_position_refuted :
  let s := bs ("SELECT 'x' AS ""--"" FROM db1.cpu t1, '" ++ canary ++ "' t2") in
  gate s [] = OExec [(bs "db1", bs "cpu")] Transformed
       (bs ("SELECT 'x' AS ""--"" FROM read_parquet('/R/db1/cpu/**/*.parquet', union_by_name=true) t1, '" ++ canary ++ "' t2")).
Proof. vm_compute. reflexivity. Qed.

(* (g) table functions that run SQL text are not on the denylist *)
Theorem C14_query_function_refuted :
  let s := bs ("SELECT * FROM query('SELECT * FROM ''" ++ canary ++ "''')") in accepted_unchecked s [] Transformed s.
Proof. vm_compute. reflexivity. Qed.

(* (h) header set: the converter extracts CTE names only when the text contains "with " followed by a blank,
   the permission check always: after WITH + newline the "CTE reference" is unchecked AND rewritten *)
Theorem C14_header_cte_refuted :
  let s := bs ("WITH" ++ nl ++ "secret AS (SELECT 1) SELECT * FROM secret") in
  req_in_grammar s = true /\ pathlike_free s = true /\ fast_single_ok false false s = true
  /\ accepted_unchecked s (bs "db2") Transformed
       (bs ("WITH" ++ nl ++ "secret AS (SELECT 1) SELECT * FROM read_parquet('/R/db2/secret/**/*.parquet', union_by_name=true)")).
Proof. vm_compute. repeat split. Qed.
(* ... and the same on the regexp path of the header converter (a literal turns the fast path off) *)
Theorem C14_header_cte_slow_path_refuted :
  let s := bs ("WITH" ++ nl ++ "secret AS (SELECT 'x') SELECT * FROM secret") in
  req_in_grammar s = true /\ pathlike_free s = true /\ fast_single_ok false false s = false
  /\ req_hdr_ctes fx_none s <> req_ctes fx_none s
  /\ accepted_unchecked s (bs "db2") Transformed
       (bs ("WITH" ++ nl ++ "secret AS (SELECT 'x') SELECT * FROM read_parquet('/R/db2/secret/**/*.parquet', union_by_name=true)"))
  /\ request_reads fx_none s (bs "db2") = [(bs "db2", bs "secret")].
Proof. vm_compute. split; [reflexivity|]. split; [reflexivity|]. split; [reflexivity|]. split; [discriminate|]. split; reflexivity. Qed.
(* ... and without any WITH: the second definition of a WINDOW clause looks like a CTE to the permission check *)
Theorem C14_header_window_clause_refuted :
  let s := bs "SELECT * FROM secret WINDOW w1 AS (ORDER BY id), secret AS (ORDER BY id)" in
  req_in_grammar s = true /\ pathlike_free s = true
  /\ accepted_unchecked s (bs "db2") Transformed
       (bs "SELECT * FROM read_parquet('/R/db2/secret/**/*.parquet', union_by_name=true) WINDOW w1 AS (ORDER BY id), secret AS (ORDER BY id)")
  /\ gate_gen {| fx_with := true; fx_dedup := false; fx_scanner := false; fx_denylist := false; fx_noraw := false; fx_bsq := false; fx_single := false; fx_cteq := false; fx_quotes := false; fx_fastname := false; fx_reserved := false |} s (bs "db2")
     = OExec [] Transformed s.
Proof. vm_compute. repeat split. Qed.

(* (i) a string after JOIN LATERAL is not flagged (the scanner forgets JOIN at the word LATERAL), its placeholder
   is taken as the table name, and the unmasking splices the raw literal INTO the quoted path *)
Theorem C14_lateral_string_injection_refuted :
  let s := bs "SELECT * FROM cpu a JOIN LATERAL ' || $$../db2/secret$$ || ' b ON true" in
  req_in_grammar s = false
  /\ gate s (bs "db1") = OExec [(bs "db1", bs "cpu"); (bs "db1", bs "__STR_0__")] Transformed
       (bs "SELECT * FROM read_parquet('/R/db1/cpu/**/*.parquet', union_by_name=true) a JOIN LATERAL read_parquet('/R/db1/' || $$../db2/secret$$ || '/**/*.parquet', union_by_name=true) b ON true").
Proof. vm_compute. split; reflexivity. Qed.

(* (j) unqualified references are de-duplicated by their LOWER-CASED name: only the first spelling is
   checked, every spelling is read (the guarded theorems therefore speak of coverage up to case) *)
Theorem C14_case_dedup_refuted :
  let s := bs "SELECT * FROM cpu a JOIN CPU b ON a.id = b.id" in
  req_in_grammar s = true /\ pathlike_free s = true
  /\ exists text, gate s (bs "db1") = OExec [(bs "db1", bs "cpu")] Transformed text
  /\ request_reads fx_none s (bs "db1") = [(bs "db1", bs "cpu"); (bs "db1", bs "CPU")]
  /\ covers_exact [(bs "db1", bs "cpu")] (bs "db1", bs "CPU") = false
  /\ covers [(bs "db1", bs "cpu")] (bs "db1", bs "CPU") = true.
Proof. vm_compute. repeat split. eexists. repeat split. Qed.

(* (k) quote-scanning disagreements that survived the first round of repairs (the code at 6c73591, i.e. every repair
   but fx_quotes): a backtick inside a double-quoted alias is mapped to a double quote for the validator only ... *)
Definition fx_before_quotes : fixset :=
  {| fx_with := true; fx_dedup := true; fx_scanner := true; fx_denylist := true; fx_noraw := true; fx_bsq := true;
     fx_single := true; fx_cteq := true; fx_quotes := false; fx_fastname := false; fx_reserved := false |}.
Theorem C14_backtick_in_quoted_alias_refuted :
  let s := bs ("SELECT 1 AS ""a`b"", p.v FROM db1.cpu c, """ ++ canary ++ """ p") in
  gate_gen fx_before_quotes s [] = OExec [(bs "db1", bs "cpu")] Transformed
       (bs ("SELECT 1 AS ""a`b"", p.v FROM read_parquet('/R/db1/cpu/**/*.parquet', union_by_name=true) c, """ ++ canary ++ """ p"))
  /\ harmless (gate_gen fx_all s []) = true.
Proof. vm_compute. split; reflexivity. Qed.
(* ... and after an escaped quote in an E-string the masker takes the closing quote for a doubled one *)
Theorem C14_estring_escaped_quote_refuted :
  let s := bs ("SELECT E'a\'' AS a, p.v FROM """ ++ canary ++ """ p WHERE 'x' = 'x'") in
  gate_gen fx_before_quotes s [] = OExec [] Transformed s /\ harmless (gate_gen fx_all s []) = true.
Proof. vm_compute. split; reflexivity. Qed.

(* (l) what was still open at /repo 06c1190 (every repair up to fx_quotes): *)
Definition fx_before_reserved : fixset :=
  {| fx_with := true; fx_dedup := true; fx_scanner := true; fx_denylist := true; fx_noraw := true; fx_bsq := true;
     fx_single := true; fx_cteq := true; fx_quotes := true; fx_fastname := false; fx_reserved := false |}.
(* the header fast path takes a digit-leading name the permission check cannot see: nothing is checked and
   <header database>/2024x is read; with the repair the statement is left to the general path, which does not rewrite
   the name either (DuckDB then refuses the text: an unquoted name cannot start with a digit) *)
Theorem C14_fast_path_digit_name_refuted :
  let s := bs "SELECT * FROM 2024x" in
  fast_single_gen true true false s = true /\ fast_single_gen true true true s = false
  /\ gate_gen fx_before_reserved s (bs "db2") = OExec [] Transformed (bs "SELECT * FROM read_parquet('/R/db2/2024x/**/*.parquet', union_by_name=true)")
  /\ gate_gen fx_all s (bs "db2") = OExec [] Transformed s.
Proof. vm_compute. repeat split. Qed.
(* request text of placeholder shape is rewritten by the unmasking, after every check: a literal spliced into an
   earlier literal whose quotes then close early ... *)
Theorem C14_placeholder_in_literal_refuted :
  let s := bs ("SELECT '__STR_1__' AS a, ' , p.tag FROM """ ++ canary ++ """ p -- ' AS b") in
  req_in_grammar s = true
  /\ gate_gen fx_before_reserved s [] = OExec [] Transformed (bs ("SELECT '' , p.tag FROM """ ++ canary ++ """ p -- '' AS a, __STR_1__ AS b"))
  /\ gate_gen fx_all s [] = OReject RjReserved.
Proof. vm_compute. repeat split. Qed.
(* ... a word that becomes a FROM keyword ... *)
Theorem C14_from_mask_word_refuted :
  let s := bs ("SELECT p.tag, extract(year FROM DATE '2020-01-01') AS y __FROM_MASK_0__ """ ++ canary ++ """ p") in
  req_in_grammar s = true
  /\ gate_gen fx_before_reserved s [] = OExec [] Transformed (bs ("SELECT p.tag, extract(year FROM DATE '2020-01-01') AS y FROM """ ++ canary ++ """ p"))
  /\ gate_gen fx_all s [] = OReject RjReserved.
Proof. vm_compute. repeat split. Qed.
(* ... and a literal spliced into the emitted path through a quoted measurement name *)
Theorem C14_placeholder_identifier_path_refuted :
  let s := bs "SELECT t.tag FROM db1.""__STR_1__"" t WHERE t.tag <> ' || $$../db2/secret$$ || '" in
  gate_gen fx_before_reserved s [] = OExec [(bs "db1", bs "__STR_1__")] Transformed
    (bs "SELECT t.tag FROM read_parquet('/R/db1/' || $$../db2/secret$$ || '/**/*.parquet', union_by_name=true) t WHERE t.tag <> __STR_1__")
  /\ gate_gen fx_all s [] = OReject RjReserved.
Proof. vm_compute. repeat split. Qed.

(* the current backticksToDoubleQuotes as transcribed by the shared lexical model and the independent reading of the
   same loop in this area give the same bytes on these statements, and both differ from the old unconditional
   replacement exactly where the finding lies *)
Example bt2dq_readings_agree :
  forallb (fun s => bytes_eqb (bt2dq true s) (bt2dq_outside 0 false s))
    [ bs ("SELECT 1 AS ""a`b"", p.v FROM db1.cpu c, """ ++ canary ++ """ p");
      bs "SELECT `a``b`, 'x`y', ""q""""`"", '''`' FROM `cpu` WHERE t = '`' OR `x` = 1";
      bs "SELECT 'unterminated ` FROM `cpu`"; bs "no backtick at all"; bs "`" ] = true
  /\ bt2dq false (bs "SELECT ""a`b"", `c`") = bs "SELECT ""a""b"", ""c"""
  /\ bt2dq true  (bs "SELECT ""a`b"", `c`") = bs "SELECT ""a`b"", ""c""".
Proof. vm_compute. repeat split. Qed.

(* ==================================================================================== *)
(* C16 (rewriting)                                                                        *)
(* ==================================================================================== *)

(* For EVERY token list of the class: the four rewriting passes of convertSQLToStoragePaths produce exactly
   the statement in which the table references were substituted - every other token, every join prefix word
   (LEFT, FULL OUTER, ASOF, LATERAL ...) and the order are unchanged. *)
Theorem C16_transform_is_subst : forall q names ts, in_grammar names ts = true ->
  passes_nohdr q names ts = toks (subst_segs names (cte_set q names ts) k_default true (segs_of ts)).
Proof.
  intros q names ts H. destruct (in_grammar_facts _ _ H) as (E & Hwf & Hrp).
  rewrite <- E at 1. rewrite (passes_nohdr_subst names Hrp q _ Hwf), E. reflexivity.
Qed.
Print Assumptions C16_transform_is_subst.

Theorem C16_transform_is_subst_header : forall q same names hdr ts, in_grammar names ts = true ->
  passes_hdr q same names hdr ts = toks (subst_segs names (hdr_ctes q same names ts) hdr false (segs_of ts)).
Proof.
  intros q same names hdr ts H. destruct (in_grammar_facts _ _ H) as (E & Hwf & Hrp).
  rewrite <- E at 1. rewrite (passes_hdr_subst names Hrp q same hdr _ Hwf), E. reflexivity.
Qed.
Print Assumptions C16_transform_is_subst_header.

(* the CURRENT source: both converters exclude the CTE names of the permission check, incl. the unquoted names of
   CTEs declared with a quoted name *)
Theorem C16_current_transform_is_subst : forall names hdr ts, in_grammar names ts = true ->
  passes_nohdr true names ts = toks (subst_segs names (cte_set true names ts) k_default true (segs_of ts))
  /\ passes_hdr true true names hdr ts = toks (subst_segs names (cte_set true names ts) hdr false (segs_of ts)).
Proof.
  intros names hdr ts H. split; [apply C16_transform_is_subst; exact H|].
  rewrite (C16_transform_is_subst_header true true names hdr ts H). reflexivity.
Qed.
Print Assumptions C16_current_transform_is_subst.

(* a CTE declared quoted and referenced bare (old variant: rewritten to the measurement of that name; now: left alone) *)
Theorem C16_quoted_cte_declaration :
  let s := bs "WITH ""cpu"" AS (SELECT 1 AS one) SELECT * FROM cpu" in
  (exists text, gate s (bs "db1") = OExec [(bs "db1", bs "cpu")] Transformed text /\ has_sub (bs "read_parquet") text = true)
  /\ gate_gen fx_all s (bs "db1") = OExec [] Transformed s.
Proof. split; [eexists; split; vm_compute; reflexivity|vm_compute; reflexivity]. Qed.

(* the emitted join keeps the words of the prefix it replaces *)
Theorem C16_join_kind_preserved : forall p db m,
  toks (emit_join p db m) = read_parquet_toks (jpre_words p) db m.
Proof. exact emit_join_toks. Qed.
Print Assumptions C16_join_kind_preserved.

(* ---- shapes on which the rewriting is NOT the substitution a DuckDB with views performs ---- *)
(* the second item of a comma join is not a reference for the rewriter *)
Theorem C16_comma_join_unrewritten :
  let s := bs "SELECT * FROM cpu, mem" in
  gate s (bs "db1") = OExec [(bs "db1", bs "cpu")] Transformed
       (bs "SELECT * FROM read_parquet('/R/db1/cpu/**/*.parquet', union_by_name=true), mem").
Proof. vm_compute. reflexivity. Qed.
(* a value literal that contains the text read_parquet turns the rewriting off *)
Theorem C16_read_parquet_in_literal_unrewritten :
  let s := bs "SELECT * FROM cpu WHERE tag = 'read_parquet'" in
  gate s (bs "db1") = OExec [(bs "db1", bs "cpu")] RawReadParquet s.
Proof. vm_compute. reflexivity. Qed.
(* header + newline after WITH: the CTE reference is rewritten to a measurement *)
Theorem C16_header_cte_rewritten :
  let s := bs ("WITH" ++ nl ++ "x AS (SELECT 1 AS id) SELECT * FROM x") in
  gate s (bs "db1") = OExec [] Transformed
       (bs ("WITH" ++ nl ++ "x AS (SELECT 1 AS id) SELECT * FROM read_parquet('/R/db1/x/**/*.parquet', union_by_name=true)")).
Proof. vm_compute. reflexivity. Qed.
(* CTE names are excluded without regard to scope *)
Theorem C16_cte_scope_blind :
  let s := bs "SELECT * FROM (WITH cpu AS (SELECT 1 AS id) SELECT * FROM cpu) q JOIN cpu USING (id)" in
  gate s (bs "db1") = OExec [] Transformed s.
Proof. vm_compute. reflexivity. Qed.
(* JOIN LATERAL followed by a newline and a subquery: LATERAL is taken for the table *)
Theorem C16_lateral_newline_rewritten :
  let s := bs ("SELECT * FROM cpu a CROSS JOIN LATERAL" ++ nl ++ "(SELECT 1) b") in
  gate s (bs "db1") = OExec [(bs "db1", bs "cpu")] Transformed
       (bs ("SELECT * FROM read_parquet('/R/db1/cpu/**/*.parquet', union_by_name=true) a CROSS JOIN read_parquet('/R/db1/LATERAL/**/*.parquet', union_by_name=true)" ++ nl ++ "(SELECT 1) b")).
Proof. vm_compute. reflexivity. Qed.
(* header: the single-table fast path counts "from " and " join " with blanks; a second reference after FROM/JOIN +
   newline or tab is not counted and stays unrewritten *)
Theorem C16_fast_path_misses_references :
  let s := bs ("SELECT * FROM mem a1 WHERE a1.id IN (SELECT id" ++ nl ++ "FROM" ++ nl ++ "mem a2)") in
  req_in_grammar s = true /\ fast_single_ok false false s = true /\ fast_single_ok true false s = false
  /\ gate s (bs "db1") = OExec [(bs "db1", bs "mem")] Transformed
       (bs ("SELECT * FROM read_parquet('/R/db1/mem/**/*.parquet', union_by_name=true) a1 WHERE a1.id IN (SELECT id" ++ nl ++ "FROM" ++ nl ++ "mem a2)")).
Proof. vm_compute. repeat split. Qed.
(* measurements whose name starts with pg_ / duckdb_ / information_schema / read_parquet are never rewritten *)
Theorem C16_skip_prefix_unrewritten :
  let s := bs "SELECT * FROM pg_metrics" in gate s (bs "db1") = OExec [] Transformed s.
Proof. vm_compute. reflexivity. Qed.
