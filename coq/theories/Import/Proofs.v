From Coq Require Import List ZArith Bool NArith Lia ZifyBool.
From Arc Require Import Import.Model.
Import ListNotations.
Open Scope Z_scope.

Ltac Zify.zify_post_hook ::= Z.div_mod_to_equations.

(* ------------------------------------------------------------------------------------ *)
(* int64 wrapping and time scaling                                                        *)
(* ------------------------------------------------------------------------------------ *)

Lemma wrap64_id z : in_int64 z -> wrap64 z = z.
Proof. unfold in_int64, wrap64, two63, two64. intros H. lia. Qed.

Lemma wrap64_range z : in_int64 (wrap64 z).
Proof. unfold in_int64, wrap64, two63, two64. lia. Qed.

Lemma in_int64b_spec z : in_int64b z = true <-> in_int64 z.
Proof. unfold in_int64b, in_int64. rewrite andb_true_iff, Z.leb_le, Z.ltb_lt. tauto. Qed.

(* explicit formats: exact whenever the mathematical result fits in int64 *)
Lemma time_exact p n f :
  in_int64 (n * scale_of p f) ->
  match f with
  | EpochS | EpochMs | EpochUs => int_time_to_micros p n f = n * scale_of p f
  | EpochNs => int_time_to_micros p n f = Z.quot n (div_ns p)
  | _ => True
  end.
Proof.
  destruct f; cbn [int_time_to_micros scale_of]; intros H; try exact I; try reflexivity.
  - apply wrap64_id; exact H.
  - apply wrap64_id; exact H.
  - lia.
Qed.

(* parameters for which the magnitude-detected path cannot overflow *)
Definition good_params (p : tparams) : bool :=
  (0 <? mul_s p) && (0 <? mul_ms p) && (0 <? div_ns p) &&
  (0 <? thr_s p) && (thr_s p <=? thr_ms p) && (thr_ms p <=? thr_us p) && (thr_us p <? two63) &&
  (thr_s p * mul_s p <=? two63) && (thr_ms p * mul_ms p <=? two63).

Lemma auto_exact p n :
  good_params p = true -> in_int64 n -> auto_int p n = exact_int_time p Auto n.
Proof.
  unfold good_params. rewrite !andb_true_iff, !Z.ltb_lt, !Z.leb_le.
  intros [[[[[[[[H1 H2] H3] H4] H5] H6] H6'] H7] H8] Hn.
  unfold auto_int, exact_int_time, in_int64, two63 in *. cbv zeta.
  match goal with |- context[?c <? thr_s p] => remember c as a eqn:Ha end.
  assert (Ha' : (n = - two63 /\ a = two63 - 1) \/ (n <> - two63 /\ a = Z.abs n)).
  { subst a. unfold two63. destruct (n <? 0) eqn:E1; [|right; lia].
    match goal with |- context[n =? ?m] => destruct (n =? m) eqn:E2 end; [left|right]; lia. }
  unfold two63 in Ha'.
  clear Ha.
  destruct (a <? thr_s p) eqn:E1; destruct (Z.abs n <? thr_s p) eqn:F1;
    destruct (a <? thr_ms p) eqn:E2; destruct (Z.abs n <? thr_ms p) eqn:F2;
    destruct (a <? thr_us p) eqn:E3; destruct (Z.abs n <? thr_us p) eqn:F3;
    try reflexivity; try lia;
    try (apply wrap64_id; unfold in_int64, two63; nia).
Qed.

(* ------------------------------------------------------------------------------------ *)
(* inferAndConvertColumn: what every stored cell is, for every column                      *)
(* ------------------------------------------------------------------------------------ *)

Section Infer.
  Variable pf : bytes -> option Z.
  Variable i2f : Z -> Z.

  Definition int_cell (s : bytes) (n : Z) : Prop := is_empty s = true \/ parse_int s = Some n.
  Definition float_cell (s : bytes) (b : Z) : Prop :=
    is_empty s = true \/ pf s = Some b \/ exists n, parse_int s = Some n /\ b = i2f n.
  Definition bool_cell (s : bytes) : Prop := is_empty s = true \/ is_bool_literal s = true.

  Record scan_inv (pre : list bytes) (st : scan) : Prop := {
    si_int : isInt st = true ->
             Forall2 int_cell pre (rev (intBuf st)) /\ floatBuf st = None /\ isFloat st = true;
    si_float : isInt st = false -> isFloat st = true ->
               exists fb, floatBuf st = Some fb /\ Forall2 float_cell pre (rev fb);
    si_bool : isBool st = true -> Forall bool_cell pre;
    si_value : hasValue st = existsb (fun s => negb (is_empty s)) pre
  }.

  Definition inv (pre : list bytes) (st : scan) : Prop :=
    (stopped st = true /\ isInt st = false /\ isFloat st = false /\ isBool st = false /\ hasValue st = true)
    \/ (stopped st = false /\ scan_inv pre st).

  Lemma inv0 : inv [] scan0.
  Proof.
    right. split; [reflexivity|]. constructor; cbn; intros; try discriminate; auto.
  Qed.

  Lemma Forall2_snoc {A B} (R : A -> B -> Prop) l l' x y :
    Forall2 R l l' -> R x y -> Forall2 R (l ++ [x]) (l' ++ [y]).
  Proof. intros H1 H2. apply Forall2_app; [exact H1|constructor; [exact H2|constructor]]. Qed.

  Lemma Forall2_len {A B} (R : A -> B -> Prop) l l' : Forall2 R l l' -> length l = length l'.
  Proof. induction 1; cbn; congruence. Qed.

  Lemma existsb_snoc {A} (f : A -> bool) l x : existsb f (l ++ [x]) = existsb f l || f x.
  Proof. rewrite existsb_app. cbn. rewrite orb_false_r. reflexivity. Qed.

  Lemma Forall_snoc {A} (P : A -> Prop) l x : Forall P l -> P x -> Forall P (l ++ [x]).
  Proof. intros. apply Forall_app. split; [assumption|constructor; [assumption|constructor]]. Qed.

  Lemma int_to_float_cells pre ib :
    Forall2 int_cell pre ib -> Forall2 float_cell pre (map i2f ib).
  Proof.
    induction 1 as [|s n pre' ib' H _ IH]; cbn; constructor; [|exact IH].
    destruct H as [H|H]; [left; exact H|right; right; exists n; auto].
  Qed.

  Lemma inv_step pre st s : inv pre st -> inv (pre ++ [s]) (scan_cell pf i2f st s).
  Proof.
    intros [Hs|[Hns Hi]].
    - (* already stopped: the loop has left *)
      left. unfold scan_cell. destruct Hs as (Hst & ?). rewrite Hst. tauto.
    - unfold scan_cell. rewrite Hns.
      destruct Hi as [Hint Hfloat Hbool Hval].
      destruct (is_empty s) eqn:Es.
      + (* empty cell *)
        right. split; [reflexivity|]. constructor; cbn [isInt isFloat isBool hasValue intBuf floatBuf rev].
        * intros Hi. destruct (Hint Hi) as (F & Hfb & Hf). rewrite Hfb. repeat split; [|exact Hf].
          apply Forall2_snoc; [exact F|left; exact Es].
        * intros Hi Hf. destruct (Hfloat Hi Hf) as (fb & Hfb & F). rewrite Hfb. exists (0 :: fb).
          split; [reflexivity|]. cbn [rev]. apply Forall2_snoc; [exact F|left; exact Es].
        * intros Hb. apply Forall_snoc; [auto|left; exact Es].
        * rewrite existsb_snoc, Es, <- Hval. cbn. rewrite orb_false_r. reflexivity.
      + (* a value *)
        assert (Hv : existsb (fun s0 => negb (is_empty s0)) (pre ++ [s]) = true).
        { rewrite existsb_snoc, Es. cbn. apply orb_true_r. }
        destruct (isInt st) eqn:Ei.
        * destruct (Hint eq_refl) as (F & Hfb & Hf).
          destruct (parse_int s) as [n|] eqn:Ep.
          -- (* still an integer column *)
             right. cbn [negb andb]. split; [reflexivity|].
             constructor; cbn [isInt isFloat isBool hasValue intBuf floatBuf rev negb andb].
             ++ intros _. rewrite Hfb. repeat split; [|exact Hf].
                apply Forall2_snoc; [exact F|right; exact Ep].
             ++ intros Hx; discriminate.
             ++ intros Hb. apply andb_true_iff in Hb as [Hb1 Hb2].
                apply Forall_snoc; [auto|right; exact Hb2].
             ++ symmetry; exact Hv.
          -- (* demotion: the integer type is ruled out at this cell *)
             cbn [negb andb]. rewrite Hf. cbn [andb].
             destruct (pf s) as [b|] eqn:Epf.
             ++ right. split; [reflexivity|].
                constructor; cbn [isInt isFloat isBool hasValue intBuf floatBuf rev negb andb].
                ** intros Hx; discriminate.
                ** intros _ _. rewrite Hfb. eexists. split; [reflexivity|].
                   cbn [rev]. rewrite <- map_rev. apply Forall2_snoc.
                   --- apply int_to_float_cells; exact F.
                   --- right; left; exact Epf.
                ** intros Hb. apply andb_true_iff in Hb as [Hb1 Hb2].
                   apply Forall_snoc; [auto|right; exact Hb2].
                ** symmetry; exact Hv.
             ++ destruct (isBool st && is_bool_literal s) eqn:Eb.
                ** right. split; [reflexivity|].
                   constructor; cbn [isInt isFloat isBool hasValue intBuf floatBuf rev negb andb].
                   --- intros Hx; discriminate.
                   --- intros _ Hx; discriminate.
                   --- intros _. apply andb_true_iff in Eb as [Hb1 Hb2].
                       apply Forall_snoc; [auto|right; exact Hb2].
                   --- symmetry; exact Hv.
                ** left. cbn. auto.
        * (* integer already ruled out *)
          cbn [negb andb].
          destruct (isFloat st) eqn:Ef.
          -- destruct (Hfloat eq_refl eq_refl) as (fb & Hfb & F).
             destruct (pf s) as [b|] eqn:Epf.
             ++ right. split; [reflexivity|].
                constructor; cbn [isInt isFloat isBool hasValue intBuf floatBuf rev negb andb].
                ** intros Hx; discriminate.
                ** intros _ _. rewrite Hfb. eexists. split; [reflexivity|].
                   cbn [rev]. apply Forall2_snoc; [exact F|right; left; exact Epf].
                ** intros Hb. apply andb_true_iff in Hb as [Hb1 Hb2].
                   apply Forall_snoc; [auto|right; exact Hb2].
                ** symmetry; exact Hv.
             ++ destruct (isBool st && is_bool_literal s) eqn:Eb.
                ** right. split; [reflexivity|].
                   constructor; cbn [isInt isFloat isBool hasValue intBuf floatBuf rev negb andb].
                   --- intros Hx; discriminate.
                   --- intros _ Hx; discriminate.
                   --- intros _. apply andb_true_iff in Eb as [Hb1 Hb2].
                       apply Forall_snoc; [auto|right; exact Hb2].
                   --- symmetry; exact Hv.
                ** left. cbn. auto.
          -- destruct (isBool st && is_bool_literal s) eqn:Eb.
             ++ right. split; [reflexivity|].
                constructor; cbn [isInt isFloat isBool hasValue intBuf floatBuf rev negb andb].
                ** intros Hx; discriminate.
                ** intros _ Hx; discriminate.
                ** intros _. apply andb_true_iff in Eb as [Hb1 Hb2].
                   apply Forall_snoc; [auto|right; exact Hb2].
                ** symmetry; exact Hv.
             ++ left. cbn. auto.
  Qed.

  Lemma inv_fold raw : forall pre st, inv pre st -> inv (pre ++ raw) (fold_left (scan_cell pf i2f) raw st).
  Proof.
    induction raw as [|s r IH]; intros pre st H; cbn [fold_left].
    - rewrite app_nil_r. exact H.
    - replace (pre ++ s :: r) with ((pre ++ [s]) ++ r) by (rewrite <- app_assoc; reflexivity).
      apply IH. apply inv_step. exact H.
  Qed.

  (* what a stored column says about the uploaded cells *)
  Definition col_sound (raw : list bytes) (c : column) : Prop :=
    match c with
    | IntCol v => Forall2 (fun s o => if is_empty s then o = None
                                      else exists n, o = Some n /\ parse_int s = Some n) raw v
    | FloatCol v => Forall2 (fun s o => if is_empty s then o = None
                                        else exists b, o = Some b /\
                                             (pf s = Some b \/ exists n, parse_int s = Some n /\ b = i2f n)) raw v
    | BoolCol v => Forall2 (fun s o => if is_empty s then o = None
                                       else o = Some (bool_value s) /\ is_bool_literal s = true) raw v
    | StrCol v => v = raw
    end.

  Lemma with_validity_sound {A} (R : bytes -> A -> Prop) (R' : bytes -> option A -> Prop) raw vals :
    Forall2 R raw vals ->
    (forall s v, R s v -> if is_empty s then R' s None else R' s (Some v)) ->
    Forall2 R' raw (with_validity raw vals).
  Proof.
    intros F HR. unfold with_validity. induction F as [|s v raw' vals' H _ IH]; cbn; constructor; [|exact IH].
    specialize (HR s v H). destruct (is_empty s); exact HR.
  Qed.

  Lemma column_sound raw : col_sound raw (infer_column pf i2f raw).
  Proof.
    unfold infer_column.
    pose proof (inv_fold raw [] scan0 inv0) as H. cbn [app] in H.
    set (st := fold_left (scan_cell pf i2f) raw scan0) in *.
    destruct H as [(Hs & Hi & Hf & Hb & Hv)|(Hns & [Hint Hfloat Hbool Hval])].
    - rewrite Hi, Hf, Hb. cbn. rewrite orb_true_r. reflexivity.
    - destruct (negb (hasValue st) || negb (isInt st) && negb (isFloat st) && negb (isBool st)) eqn:E;
        [reflexivity|].
      apply orb_false_iff in E as [E1 E2].
      destruct (isInt st) eqn:Ei.
      + destruct (Hint eq_refl) as (F & _ & _). cbn [col_sound].
        eapply with_validity_sound; [exact F|].
        intros s v [He|Hp]; destruct (is_empty s) eqn:Es; try reflexivity; try discriminate.
        exists v. auto.
      + destruct (isFloat st) eqn:Ef.
        * destruct (Hfloat eq_refl eq_refl) as (fb & Hfb & F). rewrite Hfb. cbn [col_sound].
          eapply with_validity_sound; [exact F|].
          intros s v [He|Hp]; destruct (is_empty s) eqn:Es; try reflexivity; try discriminate.
          exists v. auto.
        * cbn in E2. destruct (isBool st) eqn:Eb; [|discriminate]. cbn [col_sound].
          specialize (Hbool eq_refl).
          eapply (with_validity_sound (fun s v => v = bool_value s /\ bool_cell s)).
          -- clear -Hbool. induction Hbool as [|s r H _ IH]; cbn; constructor; auto.
          -- intros s v [-> [He|Hl]]; destruct (is_empty s) eqn:Es; try reflexivity; try discriminate; auto.
  Qed.

  (* the three lossless statements of the property, as corollaries *)
  Lemma lossless_int raw v :
    infer_column pf i2f raw = IntCol v ->
    Forall2 (fun s o => if is_empty s then o = None else exists n, o = Some n /\ parse_int s = Some n) raw v.
  Proof. intros H. pose proof (column_sound raw) as S. rewrite H in S. exact S. Qed.

  Lemma lossless_bool raw v :
    infer_column pf i2f raw = BoolCol v ->
    Forall2 (fun s o => if is_empty s then o = None else o = Some (bool_value s) /\ is_bool_literal s = true) raw v.
  Proof. intros H. pose proof (column_sound raw) as S. rewrite H in S. exact S. Qed.

  Lemma lossless_string raw v : infer_column pf i2f raw = StrCol v -> v = raw.
  Proof. intros H. pose proof (column_sound raw) as S. rewrite H in S. exact S. Qed.

  Lemma lossless_float raw v :
    infer_column pf i2f raw = FloatCol v ->
    Forall2 (fun s o => if is_empty s then o = None
                        else exists b, o = Some b /\ (pf s = Some b \/ exists n, parse_int s = Some n /\ b = i2f n)) raw v.
  Proof. intros H. pose proof (column_sound raw) as S. rewrite H in S. exact S. Qed.

  (* the inferred type is the narrowest one: a column of integers is an integer column, etc. *)
  Lemma length_col raw : length (col_cells (infer_column pf i2f raw)) = length raw.
  Proof.
    pose proof (column_sound raw) as S.
    destruct (infer_column pf i2f raw); cbn [col_sound col_cells] in *; rewrite ?map_length.
    - symmetry. exact (Forall2_len _ _ _ S).
    - symmetry. exact (Forall2_len _ _ _ S).
    - symmetry. exact (Forall2_len _ _ _ S).
    - subst. reflexivity.
  Qed.
End Infer.

(* ------------------------------------------------------------------------------------ *)
(* importCSV as a whole                                                                    *)
(* ------------------------------------------------------------------------------------ *)

Section ImportCsv.
  Variable pf : bytes -> option Z.
  Variable i2f : Z -> Z.
  Variable fl_epoch : bytes -> option Z.
  Variable ttext : bytes -> option Z.
  Variable p : tparams.

  Notation imp := (import_csv pf i2f fl_epoch ttext p).

  Definition header_of (h0 : list bytes) : list bytes :=
    match h0 with [] => [] | x :: r => strip_bom x :: r end.

  Lemma time_len f raw tm :
    strings_to_time_micros fl_epoch ttext p f raw = Some tm -> length tm = length raw.
  Proof.
    revert tm. induction raw as [|s r IH]; cbn [strings_to_time_micros]; intros tm H.
    - injection H as <-. reflexivity.
    - destruct (is_empty (trim s)); [discriminate|].
      destruct (one_time_value fl_epoch ttext p f (trim s)); [|discriminate].
      destruct (strings_to_time_micros fl_epoch ttext p f r) as [ms|]; [|discriminate].
      injection H as <-. cbn. f_equal. apply IH. reflexivity.
  Qed.

  Lemma column_of_len rows i : length (column_of rows i) = length rows.
  Proof. unfold column_of. apply map_length. Qed.

  Lemma fit_short n r : (length r <= n)%nat -> fit n r = pad n r.
  Proof.
    unfold pad. revert r. induction n as [|k IH]; intros r H.
    - destruct r; [reflexivity|cbn in H; lia].
    - destruct r as [|c r']; cbn [fit length].
      + cbn [app Nat.sub repeat]. f_equal. specialize (IH [] ltac:(cbn; lia)). cbn in IH.
        rewrite Nat.sub_0_r in IH. exact IH.
      + cbn [app Nat.sub]. f_equal. apply IH. cbn in H. lia.
  Qed.

  (* the anatomy of every accepted import *)
  Lemma import_ok_shape q b :
    imp q = inr b ->
    exists h0 rows ti,
      skipn (q_skip q) (q_records q) = h0 :: rows /\ rows <> [] /\ q_csv_err q = false /\
      validate_header (header_of h0) (q_time_column q) = inr ti /\
      let header := header_of h0 in
      let fitted := map (fit (length header)) rows in
      strings_to_time_micros fl_epoch ttext p (q_fmt q) (column_of fitted ti) = Some (b_time b) /\
      b_cols b = map (fun i => (nth i header [], infer_column pf i2f (column_of fitted i)))
                     (filter (fun i => negb (Nat.eqb i ti)) (seq_nat 0 (length header))).
  Proof.
    unfold import_csv. intros H.
    destruct (negb (N.eqb (q_delim_runes q) 1)); [discriminate|].
    destruct (length (q_records q) <=? q_skip q)%nat.
    { destruct (q_csv_err q); discriminate. }
    destruct (skipn (q_skip q) (q_records q)) as [|h0 rows] eqn:Esk; [discriminate|].
    fold (header_of h0) in H.
    destruct (header_of h0) as [|hx hr] eqn:Eh; [discriminate|].
    destruct (validate_header (hx :: hr) (q_time_column q)) as [e|ti] eqn:Ev; [discriminate|].
    destruct (q_csv_err q) eqn:Ec; [discriminate|].
    destruct rows as [|r0 rows'] eqn:Er; [discriminate|].
    rewrite <- Er in *.
    destruct (strings_to_time_micros fl_epoch ttext p (q_fmt q)
                (column_of (map (fit (length (hx :: hr))) rows) ti)) as [tm|] eqn:Et; [|discriminate].
    injection H as <-. exists h0, rows, ti. rewrite Eh.
    repeat split; try assumption; try reflexivity.
    subst rows; discriminate.
  Qed.

  (* every data row is stored: the batch has exactly one time value and one cell of every column
     per data record of the upload *)
  Lemma import_rows q b :
    imp q = inr b ->
    let n := (length (q_records q) - q_skip q - 1)%nat in
    length (b_time b) = n /\
    Forall (fun nc => length (col_cells (snd nc)) = n) (b_cols b) /\
    length (stored_rows b) = n.
  Proof.
    intros H. destruct (import_ok_shape q b H) as (h0 & rows & ti & Esk & Hne & Hc & Hv & Ht & Hcols).
    cbn zeta in *.
    assert (Hn : (length (q_records q) - q_skip q - 1)%nat = length rows).
    { pose proof (skipn_length (q_skip q) (q_records q)) as L. rewrite Esk in L. cbn in L. lia. }
    cbn zeta. rewrite Hn.
    assert (Htl : length (b_time b) = length rows).
    { rewrite (time_len _ _ _ Ht), column_of_len, map_length. reflexivity. }
    split; [exact Htl|]. split.
    - rewrite Hcols. apply Forall_forall. intros nc Hin. apply in_map_iff in Hin as (i & <- & _).
      cbn [snd]. rewrite length_col, column_of_len, map_length. reflexivity.
    - unfold stored_rows. rewrite combine_length, Htl.
      assert (Lt : forall n cols, length (transpose n cols) = n).
      { induction n as [|k IH]; intros cols; cbn; [reflexivity|f_equal; apply IH]. }
      rewrite Lt. lia.
  Qed.

  (* every stored column is the faithful conversion of the uploaded cells of one header column;
     nothing is cut when no data record is longer than the header; every column whose name does
     not start with '_' is stored as converted *)
  Lemma import_lossless q b :
    imp q = inr b ->
    exists h0 rows,
      skipn (q_skip q) (q_records q) = h0 :: rows /\
      let header := header_of h0 in
      let fitted := map (fit (length header)) rows in
      Forall (fun nc => exists i, fst nc = nth i header [] /\
                                  col_sound pf i2f (column_of fitted i) (snd nc) /\
                                  (starts_underscore (fst nc) = false -> stored_cells nc = col_cells (snd nc)))
             (b_cols b) /\
      (Forall (fun r => (length r <= length header)%nat) rows -> fitted = map (pad (length header)) rows).
  Proof.
    intros H. destruct (import_ok_shape q b H) as (h0 & rows & ti & Esk & Hne & Hc & Hv & Ht & Hcols).
    exists h0, rows. split; [exact Esk|]. cbn zeta in *. split.
    - rewrite Hcols. apply Forall_forall. intros nc Hin. apply in_map_iff in Hin as (i & <- & _).
      exists i. cbn [fst snd]. split; [reflexivity|]. split; [apply column_sound|].
      intros Hu. unfold stored_cells. cbn [fst snd]. rewrite Hu. reflexivity.
    - intros Hall. apply map_ext_in. intros r Hr. apply fit_short.
      rewrite Forall_forall in Hall. apply Hall. exact Hr.
  Qed.

  (* all-or-nothing: the effects of an import on the buffer *)
  Definition import_writes (q : request) : list batch :=
    match imp q with inl _ => [] | inr b => [b] end.

  Lemma all_or_nothing q :
    (forall r, imp q = inl r -> import_writes q = []) /\
    (forall b, imp q = inr b -> import_writes q = [b] /\
               length (stored_rows b) = (length (q_records q) - q_skip q - 1)%nat).
  Proof.
    unfold import_writes. split.
    - intros r H. rewrite H. reflexivity.
    - intros b H. rewrite H. split; [reflexivity|]. apply (import_rows q b H).
  Qed.
End ImportCsv.

(* ------------------------------------------------------------------------------------ *)
(* Parquet cell conversions                                                                *)
(* ------------------------------------------------------------------------------------ *)

Lemma parquet_int_lossless t v :
  itype_range t v -> (t = U64 -> v < two63) -> arrow_int_to_int64 t v = v.
Proof.
  intros Hr Hu. destruct t; cbn [arrow_int_to_int64]; try reflexivity.
  apply wrap64_id. cbn in Hr. specialize (Hu eq_refl). unfold in_int64, two63 in *. lia.
Qed.

Lemma arrow_ts_exact p v u :
  match u with
  | USecond => in_int64 (v * mul_s p) -> arrow_ts_to_micros p v u = v * mul_s p
  | UMilli => in_int64 (v * mul_ms p) -> arrow_ts_to_micros p v u = v * mul_ms p
  | UMicro => arrow_ts_to_micros p v u = v
  | UNano => arrow_ts_to_micros p v u = Z.quot v (div_ns p)
  end.
Proof. destruct u; cbn; try reflexivity; intros H; apply wrap64_id; exact H. Qed.
