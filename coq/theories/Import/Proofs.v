From Coq Require Import List ZArith Bool NArith Lia ZifyBool.
From Arc Require Import Import.Model.
Import ListNotations.
Open Scope Z_scope.

Ltac Zify.zify_post_hook ::= Z.div_mod_to_equations.

(* ------------------------------------------------------------------------------------ *)
(* int64 wrapping and time scaling                                                        *)
(* ------------------------------------------------------------------------------------ *)

Lemma existsb_false_in {A} (f : A -> bool) l : existsb f l = false -> forall x, In x l -> f x = false.
Proof.
  induction l as [|y r IH]; intros H x []; cbn in H; apply orb_false_iff in H as [H1 H2]; [subst; exact H1|auto].
Qed.

Lemma wrap64_id z : in_int64 z -> wrap64 z = z.
Proof. unfold in_int64, wrap64, two63, two64. intros H. lia. Qed.

Lemma wrap64_range z : in_int64 (wrap64 z).
Proof. unfold in_int64, wrap64, two63, two64. lia. Qed.

Lemma in_int64b_spec z : in_int64b z = true <-> in_int64 z.
Proof. unfold in_int64b, in_int64. rewrite andb_true_iff, Z.leb_le, Z.ltb_lt. tauto. Qed.

(* explicit formats: exact whenever the mathematical result fits in int64 *)
Lemma time_exact p n f :
  in_int64 (n * scale_of p f) ->
  match f with
  | EpochS | EpochMs | EpochUs => int_time_to_micros p n f = n * scale_of p f
  | EpochNs => int_time_to_micros p n f = Z.quot n (div_ns p)
  | _ => True
  end.
Proof.
  destruct f; cbn [int_time_to_micros scale_of]; intros H; try exact I; try reflexivity.
  - apply wrap64_id; exact H.
  - apply wrap64_id; exact H.
  - lia.
Qed.

(* the checked multiplication of fix b90d6d7: it answers exactly when the product fits *)
Lemma mul_checked_spec n m :
  0 < m ->
  (mul_checked n m = Some (n * m) /\ in_int64 (n * m)) \/ (mul_checked n m = None /\ ~ in_int64 (n * m)).
Proof.
  intros Hm. unfold mul_checked.
  assert (Q1 : Z.quot (two63 - 1) m = (two63 - 1) / m)
    by (apply Z.quot_div_nonneg; unfold two63; lia).
  assert (Q2 : Z.quot (- two63) m = - (two63 / m)).
  { rewrite Z.quot_opp_l by lia. f_equal. apply Z.quot_div_nonneg; unfold two63; lia. }
  rewrite Q1, Q2. unfold in_int64, two63 in *.
  pose proof (Z.div_mod 9223372036854775807 m ltac:(lia)) as D1.
  pose proof (Z.mod_pos_bound 9223372036854775807 m Hm) as B1.
  pose proof (Z.div_mod 9223372036854775808 m ltac:(lia)) as D2.
  pose proof (Z.mod_pos_bound 9223372036854775808 m Hm) as B2.
  change (9223372036854775808 - 1) with 9223372036854775807.
  set (q1 := 9223372036854775807 / m) in *. set (r1 := 9223372036854775807 mod m) in *.
  set (q2 := 9223372036854775808 / m) in *. set (r2 := 9223372036854775808 mod m) in *.
  destruct (q1 <? n) eqn:E1; cbn [orb].
  - right. split; [reflexivity|]. apply Z.ltb_lt in E1. nia.
  - apply Z.ltb_ge in E1. destruct (n <? - q2) eqn:E2.
    + right. split; [reflexivity|]. apply Z.ltb_lt in E2. nia.
    + left. split; [reflexivity|]. apply Z.ltb_ge in E2. nia.
Qed.

(* integer epoch with an explicit unit: the conversion either is exact or rejects, and it rejects
   exactly the values whose microseconds do not fit int64 *)
Lemma int_time_checked_spec p n f :
  0 < mul_s p -> 0 < mul_ms p ->
  match int_time_checked p n f with
  | Some t => match f with
              | EpochS | EpochMs | EpochUs => t = n * scale_of p f /\ in_int64 (n * scale_of p f) \/ f = EpochUs /\ t = n
              | EpochNs => t = Z.quot n (div_ns p)
              | _ => t = auto_int p n
              end
  | None => (f = EpochS \/ f = EpochMs) /\ ~ in_int64 (n * scale_of p f)
  end.
Proof.
  intros H1 H2. destruct f; cbn [int_time_checked int_time_to_micros scale_of]; try reflexivity.
  - destruct (mul_checked_spec n (mul_s p) H1) as [[-> Hr]|[-> Hr]]; [left; auto|split; [left; reflexivity|exact Hr]].
  - destruct (mul_checked_spec n (mul_ms p) H2) as [[-> Hr]|[-> Hr]]; [left; auto|split; [right; reflexivity|exact Hr]].
  - right. auto.
Qed.

Lemma arrow_ts_checked_spec p v u :
  0 < mul_s p -> 0 < mul_ms p ->
  match arrow_ts_checked p v u with
  | Some t => match u with
              | USecond => t = v * mul_s p /\ in_int64 (v * mul_s p)
              | UMilli => t = v * mul_ms p /\ in_int64 (v * mul_ms p)
              | UMicro => t = v
              | UNano => t = Z.quot v (div_ns p)
              end
  | None => (u = USecond /\ ~ in_int64 (v * mul_s p)) \/ (u = UMilli /\ ~ in_int64 (v * mul_ms p))
  end.
Proof.
  intros H1 H2. destruct u; cbn [arrow_ts_checked arrow_ts_to_micros]; try reflexivity.
  - destruct (mul_checked_spec v (mul_s p) H1) as [[-> Hr]|[-> Hr]]; [auto|left; auto].
  - destruct (mul_checked_spec v (mul_ms p) H2) as [[-> Hr]|[-> Hr]]; [auto|right; auto].
Qed.

(* parameters for which the magnitude-detected path cannot overflow *)
Definition good_params (p : tparams) : bool :=
  (0 <? mul_s p) && (0 <? mul_ms p) && (0 <? div_ns p) &&
  (0 <? thr_s p) && (thr_s p <=? thr_ms p) && (thr_ms p <=? thr_us p) && (thr_us p <? two63) &&
  (thr_s p * mul_s p <=? two63) && (thr_ms p * mul_ms p <=? two63).

Lemma auto_exact p n :
  good_params p = true -> in_int64 n -> auto_int p n = exact_int_time p Auto n.
Proof.
  unfold good_params. rewrite !andb_true_iff, !Z.ltb_lt, !Z.leb_le.
  intros [[[[[[[[H1 H2] H3] H4] H5] H6] H6'] H7] H8] Hn.
  unfold auto_int, exact_int_time, in_int64, two63 in *. cbv zeta.
  match goal with |- context[?c <? thr_s p] => remember c as a eqn:Ha end.
  assert (Ha' : (n = - two63 /\ a = two63 - 1) \/ (n <> - two63 /\ a = Z.abs n)).
  { subst a. unfold two63. destruct (n <? 0) eqn:E1; [|right; lia].
    match goal with |- context[n =? ?m] => destruct (n =? m) eqn:E2 end; [left|right]; lia. }
  unfold two63 in Ha'.
  clear Ha.
  destruct (a <? thr_s p) eqn:E1; destruct (Z.abs n <? thr_s p) eqn:F1;
    destruct (a <? thr_ms p) eqn:E2; destruct (Z.abs n <? thr_ms p) eqn:F2;
    destruct (a <? thr_us p) eqn:E3; destruct (Z.abs n <? thr_us p) eqn:F3;
    try reflexivity; try lia;
    try (apply wrap64_id; unfold in_int64, two63; nia).
Qed.

(* ------------------------------------------------------------------------------------ *)
(* inferAndConvertColumn: what every stored cell is, for every column                      *)
(* ------------------------------------------------------------------------------------ *)

Section Infer.
  Variable pf : bytes -> option Z.
  Variable i2f : Z -> Z.

  Definition int_cell (s : bytes) (n : Z) : Prop := is_empty s = true \/ parse_int s = Some n.
  Definition float_cell (s : bytes) (b : Z) : Prop :=
    is_empty s = true \/ pf s = Some b \/ exists n, parse_int s = Some n /\ b = i2f n.
  Definition bool_cell (s : bytes) : Prop := is_empty s = true \/ is_bool_literal s = true.

  Record scan_inv (pre : list bytes) (st : scan) : Prop := {
    si_int : isInt st = true ->
             Forall2 int_cell pre (rev (intBuf st)) /\ floatBuf st = None /\ isFloat st = true;
    si_float : isInt st = false -> isFloat st = true ->
               exists fb, floatBuf st = Some fb /\ Forall2 float_cell pre (rev fb);
    si_bool : isBool st = true -> Forall bool_cell pre;
    si_value : hasValue st = existsb (fun s => negb (is_empty s)) pre
  }.

  Definition inv (pre : list bytes) (st : scan) : Prop :=
    (stopped st = true /\ isInt st = false /\ isFloat st = false /\ isBool st = false /\ hasValue st = true)
    \/ (stopped st = false /\ scan_inv pre st).

  Lemma inv0 : inv [] scan0.
  Proof.
    right. split; [reflexivity|]. constructor; cbn; intros; try discriminate; auto.
  Qed.

  Lemma Forall2_snoc {A B} (R : A -> B -> Prop) l l' x y :
    Forall2 R l l' -> R x y -> Forall2 R (l ++ [x]) (l' ++ [y]).
  Proof. intros H1 H2. apply Forall2_app; [exact H1|constructor; [exact H2|constructor]]. Qed.

  Lemma Forall2_len {A B} (R : A -> B -> Prop) l l' : Forall2 R l l' -> length l = length l'.
  Proof. induction 1; cbn; congruence. Qed.

  Lemma existsb_snoc {A} (f : A -> bool) l x : existsb f (l ++ [x]) = existsb f l || f x.
  Proof. rewrite existsb_app. cbn. rewrite orb_false_r. reflexivity. Qed.

  Lemma Forall_snoc {A} (P : A -> Prop) l x : Forall P l -> P x -> Forall P (l ++ [x]).
  Proof. intros. apply Forall_app. split; [assumption|constructor; [assumption|constructor]]. Qed.

  Lemma int_to_float_cells pre ib :
    Forall2 int_cell pre ib -> Forall2 float_cell pre (map i2f ib).
  Proof.
    induction 1 as [|s n pre' ib' H _ IH]; cbn; constructor; [|exact IH].
    destruct H as [H|H]; [left; exact H|right; right; exists n; auto].
  Qed.

  Lemma inv_step pre st s : inv pre st -> inv (pre ++ [s]) (scan_cell pf i2f st s).
  Proof.
    intros [Hs|[Hns Hi]].
    - (* already stopped: the loop has left *)
      left. unfold scan_cell. destruct Hs as (Hst & ?). rewrite Hst. tauto.
    - unfold scan_cell. rewrite Hns.
      destruct Hi as [Hint Hfloat Hbool Hval].
      destruct (is_empty s) eqn:Es.
      + (* empty cell *)
        right. split; [reflexivity|]. constructor; cbn [isInt isFloat isBool hasValue intBuf floatBuf rev].
        * intros Hi. destruct (Hint Hi) as (F & Hfb & Hf). rewrite Hfb. repeat split; [|exact Hf].
          apply Forall2_snoc; [exact F|left; exact Es].
        * intros Hi Hf. destruct (Hfloat Hi Hf) as (fb & Hfb & F). rewrite Hfb. exists (0 :: fb).
          split; [reflexivity|]. cbn [rev]. apply Forall2_snoc; [exact F|left; exact Es].
        * intros Hb. apply Forall_snoc; [auto|left; exact Es].
        * rewrite existsb_snoc, Es, <- Hval. cbn. rewrite orb_false_r. reflexivity.
      + (* a value *)
        assert (Hv : existsb (fun s0 => negb (is_empty s0)) (pre ++ [s]) = true).
        { rewrite existsb_snoc, Es. cbn. apply orb_true_r. }
        destruct (isInt st) eqn:Ei.
        * destruct (Hint eq_refl) as (F & Hfb & Hf).
          destruct (parse_int s) as [n|] eqn:Ep.
          -- (* still an integer column *)
             right. cbn [negb andb]. split; [reflexivity|].
             constructor; cbn [isInt isFloat isBool hasValue intBuf floatBuf rev negb andb].
             ++ intros _. rewrite Hfb. repeat split; [|exact Hf].
                apply Forall2_snoc; [exact F|right; exact Ep].
             ++ intros Hx; discriminate.
             ++ intros Hb. apply andb_true_iff in Hb as [Hb1 Hb2].
                apply Forall_snoc; [auto|right; exact Hb2].
             ++ symmetry; exact Hv.
          -- (* demotion: the integer type is ruled out at this cell *)
             cbn [negb andb]. rewrite Hf. cbn [andb].
             destruct (pf s) as [b|] eqn:Epf.
             ++ right. split; [reflexivity|].
                constructor; cbn [isInt isFloat isBool hasValue intBuf floatBuf rev negb andb].
                ** intros Hx; discriminate.
                ** intros _ _. rewrite Hfb. eexists. split; [reflexivity|].
                   cbn [rev]. rewrite <- map_rev. apply Forall2_snoc.
                   --- apply int_to_float_cells; exact F.
                   --- right; left; exact Epf.
                ** intros Hb. apply andb_true_iff in Hb as [Hb1 Hb2].
                   apply Forall_snoc; [auto|right; exact Hb2].
                ** symmetry; exact Hv.
             ++ destruct (isBool st && is_bool_literal s) eqn:Eb.
                ** right. split; [reflexivity|].
                   constructor; cbn [isInt isFloat isBool hasValue intBuf floatBuf rev negb andb].
                   --- intros Hx; discriminate.
                   --- intros _ Hx; discriminate.
                   --- intros _. apply andb_true_iff in Eb as [Hb1 Hb2].
                       apply Forall_snoc; [auto|right; exact Hb2].
                   --- symmetry; exact Hv.
                ** left. cbn. auto.
        * (* integer already ruled out *)
          cbn [negb andb].
          destruct (isFloat st) eqn:Ef.
          -- destruct (Hfloat eq_refl eq_refl) as (fb & Hfb & F).
             destruct (pf s) as [b|] eqn:Epf.
             ++ right. split; [reflexivity|].
                constructor; cbn [isInt isFloat isBool hasValue intBuf floatBuf rev negb andb].
                ** intros Hx; discriminate.
                ** intros _ _. rewrite Hfb. eexists. split; [reflexivity|].
                   cbn [rev]. apply Forall2_snoc; [exact F|right; left; exact Epf].
                ** intros Hb. apply andb_true_iff in Hb as [Hb1 Hb2].
                   apply Forall_snoc; [auto|right; exact Hb2].
                ** symmetry; exact Hv.
             ++ destruct (isBool st && is_bool_literal s) eqn:Eb.
                ** right. split; [reflexivity|].
                   constructor; cbn [isInt isFloat isBool hasValue intBuf floatBuf rev negb andb].
                   --- intros Hx; discriminate.
                   --- intros _ Hx; discriminate.
                   --- intros _. apply andb_true_iff in Eb as [Hb1 Hb2].
                       apply Forall_snoc; [auto|right; exact Hb2].
                   --- symmetry; exact Hv.
                ** left. cbn. auto.
          -- destruct (isBool st && is_bool_literal s) eqn:Eb.
             ++ right. split; [reflexivity|].
                constructor; cbn [isInt isFloat isBool hasValue intBuf floatBuf rev negb andb].
                ** intros Hx; discriminate.
                ** intros _ Hx; discriminate.
                ** intros _. apply andb_true_iff in Eb as [Hb1 Hb2].
                   apply Forall_snoc; [auto|right; exact Hb2].
                ** symmetry; exact Hv.
             ++ left. cbn. auto.
  Qed.

  Lemma inv_fold raw : forall pre st, inv pre st -> inv (pre ++ raw) (fold_left (scan_cell pf i2f) raw st).
  Proof.
    induction raw as [|s r IH]; intros pre st H; cbn [fold_left].
    - rewrite app_nil_r. exact H.
    - replace (pre ++ s :: r) with ((pre ++ [s]) ++ r) by (rewrite <- app_assoc; reflexivity).
      apply IH. apply inv_step. exact H.
  Qed.

  (* what a stored column says about the uploaded cells *)
  Definition col_sound (raw : list bytes) (c : column) : Prop :=
    match c with
    | IntCol v => Forall2 (fun s o => if is_empty s then o = None
                                      else exists n, o = Some n /\ parse_int s = Some n) raw v
    | FloatCol v => Forall2 (fun s o => if is_empty s then o = None
                                        else exists b, o = Some b /\
                                             (pf s = Some b \/ exists n, parse_int s = Some n /\ b = i2f n)) raw v
    | BoolCol v => Forall2 (fun s o => if is_empty s then o = None
                                       else o = Some (bool_value s) /\ is_bool_literal s = true) raw v
    | StrCol v => v = raw
    end.

  Lemma with_validity_sound {A} (R : bytes -> A -> Prop) (R' : bytes -> option A -> Prop) raw vals :
    Forall2 R raw vals ->
    (forall s v, R s v -> if is_empty s then R' s None else R' s (Some v)) ->
    Forall2 R' raw (with_validity raw vals).
  Proof.
    intros F HR. unfold with_validity. induction F as [|s v raw' vals' H _ IH]; cbn; constructor; [|exact IH].
    specialize (HR s v H). destruct (is_empty s); exact HR.
  Qed.

  Lemma column_sound raw : col_sound raw (infer_column pf i2f raw).
  Proof.
    unfold infer_column.
    pose proof (inv_fold raw [] scan0 inv0) as H. cbn [app] in H.
    set (st := fold_left (scan_cell pf i2f) raw scan0) in *.
    destruct H as [(Hs & Hi & Hf & Hb & Hv)|(Hns & [Hint Hfloat Hbool Hval])].
    - rewrite Hi, Hf, Hb. cbn. rewrite orb_true_r. reflexivity.
    - destruct (negb (hasValue st) || negb (isInt st) && negb (isFloat st) && negb (isBool st)) eqn:E;
        [reflexivity|].
      apply orb_false_iff in E as [E1 E2].
      destruct (isInt st) eqn:Ei.
      + destruct (Hint eq_refl) as (F & _ & _). cbn [col_sound].
        eapply with_validity_sound; [exact F|].
        intros s v [He|Hp]; destruct (is_empty s) eqn:Es; try reflexivity; try discriminate.
        exists v. auto.
      + destruct (isFloat st) eqn:Ef.
        * destruct (Hfloat eq_refl eq_refl) as (fb & Hfb & F). rewrite Hfb. cbn [col_sound].
          eapply with_validity_sound; [exact F|].
          intros s v [He|Hp]; destruct (is_empty s) eqn:Es; try reflexivity; try discriminate.
          exists v. auto.
        * cbn in E2. destruct (isBool st) eqn:Eb; [|discriminate]. cbn [col_sound].
          specialize (Hbool eq_refl).
          eapply (with_validity_sound (fun s v => v = bool_value s /\ bool_cell s)).
          -- clear -Hbool. induction Hbool as [|s r H _ IH]; cbn; constructor; auto.
          -- intros s v [-> [He|Hl]]; destruct (is_empty s) eqn:Es; try reflexivity; try discriminate; auto.
  Qed.

  (* the three lossless statements of the property, as corollaries *)
  Lemma lossless_int raw v :
    infer_column pf i2f raw = IntCol v ->
    Forall2 (fun s o => if is_empty s then o = None else exists n, o = Some n /\ parse_int s = Some n) raw v.
  Proof. intros H. pose proof (column_sound raw) as S. rewrite H in S. exact S. Qed.

  Lemma lossless_bool raw v :
    infer_column pf i2f raw = BoolCol v ->
    Forall2 (fun s o => if is_empty s then o = None else o = Some (bool_value s) /\ is_bool_literal s = true) raw v.
  Proof. intros H. pose proof (column_sound raw) as S. rewrite H in S. exact S. Qed.

  Lemma lossless_string raw v : infer_column pf i2f raw = StrCol v -> v = raw.
  Proof. intros H. pose proof (column_sound raw) as S. rewrite H in S. exact S. Qed.

  Lemma lossless_float raw v :
    infer_column pf i2f raw = FloatCol v ->
    Forall2 (fun s o => if is_empty s then o = None
                        else exists b, o = Some b /\ (pf s = Some b \/ exists n, parse_int s = Some n /\ b = i2f n)) raw v.
  Proof. intros H. pose proof (column_sound raw) as S. rewrite H in S. exact S. Qed.

  (* the inferred type is the narrowest one: a column of integers is an integer column, etc. *)
  Lemma length_col raw : length (col_cells (infer_column pf i2f raw)) = length raw.
  Proof.
    pose proof (column_sound raw) as S.
    destruct (infer_column pf i2f raw); cbn [col_sound col_cells] in *; rewrite ?map_length.
    - symmetry. exact (Forall2_len _ _ _ S).
    - symmetry. exact (Forall2_len _ _ _ S).
    - symmetry. exact (Forall2_len _ _ _ S).
    - subst. reflexivity.
  Qed.
End Infer.

(* ------------------------------------------------------------------------------------ *)
(* importCSV as a whole                                                                    *)
(* ------------------------------------------------------------------------------------ *)

Section ImportCsv.
  Variable pf : bytes -> option Z.
  Variable i2f : Z -> Z.
  Variable fl_epoch : bytes -> option Z.
  Variable ttext : bytes -> option Z.
  Variable p : tparams.

  Notation imp := (import_csv pf i2f fl_epoch ttext p).

  Definition header_of (h0 : list bytes) : list bytes :=
    match h0 with [] => [] | x :: r => strip_bom x :: r end.

  Lemma time_len f raw tm :
    strings_to_time_micros fl_epoch ttext p f raw = Some tm -> length tm = length raw.
  Proof.
    revert tm. induction raw as [|s r IH]; cbn [strings_to_time_micros]; intros tm H.
    - injection H as <-. reflexivity.
    - destruct (is_empty (trim s)); [discriminate|].
      destruct (one_time_value fl_epoch ttext p f (trim s)); [|discriminate].
      destruct (strings_to_time_micros fl_epoch ttext p f r) as [ms|]; [|discriminate].
      injection H as <-. cbn. f_equal. apply IH. reflexivity.
  Qed.

  Lemma column_of_len rows i : length (column_of rows i) = length rows.
  Proof. unfold column_of. apply map_length. Qed.

  Lemma fit_short n r : (length r <= n)%nat -> fit n r = pad n r.
  Proof.
    unfold pad. revert r. induction n as [|k IH]; intros r H.
    - destruct r; [reflexivity|cbn in H; lia].
    - destruct r as [|c r']; cbn [fit length].
      + cbn [app Nat.sub repeat]. f_equal. specialize (IH [] ltac:(cbn; lia)). cbn in IH.
        rewrite Nat.sub_0_r in IH. exact IH.
      + cbn [app Nat.sub]. f_equal. apply IH. cbn in H. lia.
  Qed.

  Lemma parse_int_range s n : parse_int s = Some n -> in_int64 n.
  Proof.
    unfold parse_int.
    match goal with |- context[let '(_, _) := ?X in _] => destruct X as [neg body] end.
    destruct body as [|c r]; [discriminate|].
    destruct (digits_val 0 (c :: r)) as [v|]; [|discriminate].
    destruct (in_int64b (if neg then - v else v)) eqn:E; [|discriminate].
    intros H; injection H as <-. apply in_int64b_spec. exact E.
  Qed.

  (* what a time cell becomes: an integer epoch (no '.') is converted EXACTLY - an explicit unit
     whose microseconds would not fit int64 makes the cell an error instead of wrapping *)
  Definition time_cell_ok (f : tfmt) (s : bytes) (t : Z) : Prop :=
    let s' := trim s in
    match (if has_dot s' then None else parse_int s') with
    | Some n => t = exact_int_time p f n
    | None => fl_epoch s' = Some t \/ (f = Auto /\ ttext s' = Some t)
    end.

  Lemma one_time_value_ok f s t :
    good_params p = true ->
    one_time_value fl_epoch ttext p f (trim s) = Some t -> time_cell_ok f s t.
  Proof.
    intros Hg H. unfold time_cell_ok. cbv zeta.
    assert (Hm : 0 < mul_s p /\ 0 < mul_ms p).
    { unfold good_params in Hg. rewrite !andb_true_iff, !Z.ltb_lt in Hg. tauto. }
    destruct Hm as [Hm1 Hm2].
    unfold one_time_value in H.
    destruct (if has_dot (trim s) then None else parse_int (trim s)) as [n|] eqn:En.
    - assert (Hr : in_int64 n).
      { destruct (has_dot (trim s)); [discriminate|]. eapply parse_int_range; eauto. }
      destruct f; try discriminate.
      + pose proof (int_time_checked_spec p n EpochS Hm1 Hm2) as S. rewrite H in S.
        destruct S as [[-> _]|[Hx _]]; [reflexivity|discriminate].
      + pose proof (int_time_checked_spec p n EpochMs Hm1 Hm2) as S. rewrite H in S.
        destruct S as [[-> _]|[Hx _]]; [reflexivity|discriminate].
      + injection H as <-. reflexivity.
      + injection H as <-. reflexivity.
      + injection H as <-. apply auto_exact; assumption.
    - destruct f; try discriminate; try (left; exact H).
      destruct (fl_epoch (trim s)) as [m|]; [left; exact H|right; auto].
  Qed.

  (* an integer epoch whose microseconds overflow int64 under an explicit unit rejects the upload *)
  Lemma one_time_value_overflow f s n :
    0 < mul_s p -> 0 < mul_ms p ->
    has_dot s = false -> parse_int s = Some n -> (f = EpochS \/ f = EpochMs) ->
    ~ in_int64 (n * scale_of p f) ->
    one_time_value fl_epoch ttext p f s = None.
  Proof.
    intros H1 H2 Hd Hp Hf Ho. unfold one_time_value. rewrite Hd, Hp.
    pose proof (int_time_checked_spec p n f H1 H2) as S.
    destruct Hf as [-> | ->]; destruct (int_time_checked p n _) as [t|]; try reflexivity;
      destruct S as [[_ Hr]|[Hx _]]; try discriminate; contradiction.
  Qed.

  Lemma time_cells_spec f raw tm :
    strings_to_time_micros fl_epoch ttext p f raw = Some tm ->
    Forall2 (fun s t => one_time_value fl_epoch ttext p f (trim s) = Some t) raw tm.
  Proof.
    revert tm. induction raw as [|s r IH]; cbn [strings_to_time_micros]; intros tm H.
    - injection H as <-. constructor.
    - destruct (is_empty (trim s)); [discriminate|].
      destruct (one_time_value fl_epoch ttext p f (trim s)) as [m|] eqn:E; [|discriminate].
      destruct (strings_to_time_micros fl_epoch ttext p f r) as [ms|]; [|discriminate].
      injection H as <-. constructor; [exact E|apply IH; reflexivity].
  Qed.

  Lemma time_cells_reject f raw s n :
    0 < mul_s p -> 0 < mul_ms p ->
    In s raw -> has_dot (trim s) = false -> parse_int (trim s) = Some n -> (f = EpochS \/ f = EpochMs) ->
    ~ in_int64 (n * scale_of p f) ->
    strings_to_time_micros fl_epoch ttext p f raw = None.
  Proof.
    intros H1 H2 Hin Hd Hp Hf Ho.
    destruct (strings_to_time_micros fl_epoch ttext p f raw) as [tm|] eqn:E; [|reflexivity].
    exfalso. pose proof (time_cells_spec f raw tm E) as F.
    clear E. induction F as [|x t raw' tm' Hx _ IH]; [destruct Hin|].
    destruct Hin as [->|Hin]; [|auto].
    rewrite (one_time_value_overflow f (trim s) n H1 H2 Hd Hp Hf Ho) in Hx. discriminate.
  Qed.

  (* the anatomy of every accepted import *)
  Lemma import_ok_shape q b :
    imp q = inr b ->
    exists h0 rows ti,
      skipn (q_skip q) (q_records q) = h0 :: rows /\ rows <> [] /\ q_csv_err q = false /\
      validate_header (header_of h0) (q_time_column q) = inr ti /\
      existsb (fun r => (length (header_of h0) <? length r)%nat) rows = false /\
      let header := header_of h0 in
      let fitted := map (fit (length header)) rows in
      strings_to_time_micros fl_epoch ttext p (q_fmt q) (column_of fitted ti) = Some (b_time b) /\
      b_cols b = map (fun i => (nth i header [], infer_column pf i2f (column_of fitted i)))
                     (filter (fun i => negb (Nat.eqb i ti)) (seq_nat 0 (length header))).
  Proof.
    unfold import_csv. intros H.
    destruct (negb (N.eqb (q_delim_runes q) 1)); [discriminate|].
    destruct (length (q_records q) <=? q_skip q)%nat.
    { destruct (q_csv_err q); discriminate. }
    destruct (skipn (q_skip q) (q_records q)) as [|h0 rows] eqn:Esk; [discriminate|].
    fold (header_of h0) in H.
    destruct (header_of h0) as [|hx hr] eqn:Eh; [discriminate|].
    destruct (validate_header (hx :: hr) (q_time_column q)) as [e|ti] eqn:Ev; [discriminate|].
    destruct (existsb (fun r => (length (hx :: hr) <? length r)%nat) rows) eqn:El; [discriminate|].
    destruct (q_csv_err q) eqn:Ec; [discriminate|].
    destruct rows as [|r0 rows'] eqn:Er; [discriminate|].
    rewrite <- Er in *.
    destruct (strings_to_time_micros fl_epoch ttext p (q_fmt q)
                (column_of (map (fit (length (hx :: hr))) rows) ti)) as [tm|] eqn:Et; [|discriminate].
    injection H as <-. exists h0, rows, ti. rewrite Eh.
    repeat split; try assumption; try reflexivity.
    subst rows; discriminate.
  Qed.

  (* every data row is stored: the batch has exactly one time value and one cell of every column
     per data record of the upload *)
  Lemma import_rows q b :
    imp q = inr b ->
    let n := (length (q_records q) - q_skip q - 1)%nat in
    length (b_time b) = n /\
    Forall (fun nc => length (col_cells (snd nc)) = n) (b_cols b) /\
    length (stored_rows b) = n.
  Proof.
    intros H. destruct (import_ok_shape q b H) as (h0 & rows & ti & Esk & Hne & Hc & Hv & Hlong & Ht & Hcols).
    cbn zeta in *.
    assert (Hn : (length (q_records q) - q_skip q - 1)%nat = length rows).
    { pose proof (skipn_length (q_skip q) (q_records q)) as L. rewrite Esk in L. cbn in L. lia. }
    cbn zeta. rewrite Hn.
    assert (Htl : length (b_time b) = length rows).
    { rewrite (time_len _ _ _ Ht), column_of_len, map_length. reflexivity. }
    split; [exact Htl|]. split.
    - rewrite Hcols. apply Forall_forall. intros nc Hin. apply in_map_iff in Hin as (i & <- & _).
      cbn [snd]. rewrite length_col, column_of_len, map_length. reflexivity.
    - unfold stored_rows. rewrite combine_length, Htl.
      assert (Lt : forall n cols, length (transpose n cols) = n).
      { induction n as [|k IH]; intros cols; cbn; [reflexivity|f_equal; apply IH]. }
      rewrite Lt. lia.
  Qed.

  (* every stored column is the faithful conversion of the uploaded cells of one header column;
     nothing is cut when no data record is longer than the header; every column whose name does
     not start with '_' is stored as converted *)
  Lemma bytes_eqb_eq a b : bytes_eqb a b = true <-> a = b.
  Proof.
    revert b. induction a as [|x a IH]; intros [|y b]; cbn; try (split; [discriminate|discriminate]); [tauto|].
    rewrite andb_true_iff, N.eqb_eq, IH. split; [intros [-> ->]; reflexivity|intros E; injection E; auto].
  Qed.

  (* a header that passes the first loop of validateImportHeader: no element repeats an earlier
     one, and only the time column may start with '_' *)
  Lemma header_scan_none seen h tc :
    header_scan seen h tc = None ->
    (forall x, In x h -> existsb (bytes_eqb x) seen = false) /\
    (forall x, In x h -> starts_underscore x = true -> x = tc).
  Proof.
    revert seen. induction h as [|y r IH]; intros seen H; [split; intros x []|].
    cbn [header_scan] in H. destruct (is_empty y); [discriminate|].
    destruct (starts_underscore y && negb (bytes_eqb y tc)) eqn:Eu; [discriminate|].
    destruct (existsb (bytes_eqb y) seen) eqn:Es; [discriminate|].
    destruct (IH _ H) as [I1 I2]. split.
    - intros x [<-|Hx]; [exact Es|]. specialize (I1 x Hx). cbn [existsb] in I1.
      apply orb_false_iff in I1. tauto.
    - intros x [<-|Hx] Hu; [|auto]. rewrite Hu in Eu. cbn in Eu. apply negb_false_iff in Eu.
      apply bytes_eqb_eq. exact Eu.
  Qed.

  Lemma header_scan_time_unique h tc : forall seen k ti,
    header_scan seen h tc = None -> index_of tc h k = Some ti ->
    forall i, (i < length h)%nat -> (k + i)%nat <> ti -> nth i h [] <> tc.
  Proof.
    induction h as [|y r IH]; intros seen k ti H Hi i Hlt Hne; [cbn in Hlt; lia|].
    pose proof H as H0. cbn [header_scan] in H. destruct (is_empty y); [discriminate|].
    destruct (starts_underscore y && negb (bytes_eqb y tc)); [discriminate|].
    destruct (existsb (bytes_eqb y) seen); [discriminate|].
    cbn [index_of] in Hi. destruct (bytes_eqb y tc) eqn:Ey.
    - injection Hi as <-. destruct i as [|i']; [lia|]. cbn [nth]. intros Eq.
      destruct (header_scan_none _ _ _ H) as [I1 _].
      assert (Hin : In (nth i' r []) r) by (apply nth_In; cbn in Hlt; lia).
      specialize (I1 _ Hin). cbn [existsb] in I1. apply orb_false_iff in I1 as [I1 _].
      apply bytes_eqb_eq in Ey. rewrite Eq, <- Ey in I1.
      assert (bytes_eqb y y = true) by (apply bytes_eqb_eq; reflexivity). congruence.
    - destruct i as [|i']; cbn [nth].
      + intros Eq. apply bytes_eqb_eq in Eq. congruence.
      + apply (IH (y :: seen) (S k) ti H Hi i'); [cbn in Hlt; lia|lia].
  Qed.

  Lemma seq_nat_lt i : forall start len, In i (seq_nat start len) -> (start <= i < start + len)%nat.
  Proof.
    intros start len; revert start. induction len as [|l IH]; intros start H; [destruct H|].
    destruct H as [<-|H]; [lia|]. specialize (IH _ H). lia.
  Qed.

  (* FULL STRENGTH (after fcf78a3 and 53efdcd): every stored column of an accepted upload is the
     sound conversion of ALL the cells of one header column (rows are only padded, never cut) and
     it is stored as converted (no accepted column is skipped by inferSchema) *)
  Lemma import_lossless q b :
    imp q = inr b ->
    exists h0 rows,
      skipn (q_skip q) (q_records q) = h0 :: rows /\
      let header := header_of h0 in
      let padded := map (pad (length header)) rows in
      Forall (fun r => (length r <= length header)%nat) rows /\
      Forall (fun nc => exists i, fst nc = nth i header [] /\
                                  col_sound pf i2f (column_of padded i) (snd nc) /\
                                  starts_underscore (fst nc) = false /\
                                  stored_cells nc = col_cells (snd nc))
             (b_cols b).
  Proof.
    intros H. destruct (import_ok_shape q b H) as (h0 & rows & ti & Esk & Hne & Hc & Hv & Hlong & Ht & Hcols).
    exists h0, rows. split; [exact Esk|]. cbn zeta in *.
    assert (Hall : Forall (fun r => (length r <= length (header_of h0))%nat) rows).
    { apply Forall_forall. intros r Hr. pose proof (existsb_false_in _ _ Hlong r Hr) as Hlong'. cbv beta in Hlong'.
      apply Nat.ltb_ge in Hlong'. exact Hlong'. }
    assert (Hfit : map (fit (length (header_of h0))) rows = map (pad (length (header_of h0))) rows).
    { apply map_ext_in. intros r Hr. apply fit_short. rewrite Forall_forall in Hall. auto. }
    split; [exact Hall|].
    (* the header passed validation *)
    unfold validate_header in Hv.
    destruct (header_scan [] (header_of h0) (q_time_column q)) as [e|] eqn:Hs; [discriminate|].
    destruct (index_of (q_time_column q) (header_of h0) 0) as [ti'|] eqn:Hi; [|discriminate].
    destruct (negb (bytes_eqb (q_time_column q) name_time) && existsb (bytes_eqb name_time) (header_of h0));
      [discriminate|]. injection Hv as ->.
    rewrite Hcols, <- Hfit. apply Forall_forall. intros nc Hin. apply in_map_iff in Hin as (i & <- & Hf).
    apply filter_In in Hf as [Hseq Hneq]. apply seq_nat_lt in Hseq. apply negb_true_iff, Nat.eqb_neq in Hneq.
    exists i. cbn [fst snd]. split; [reflexivity|]. split; [apply column_sound|].
    assert (Hu : starts_underscore (nth i (header_of h0) []) = false).
    { destruct (starts_underscore (nth i (header_of h0) [])) eqn:E; [|reflexivity]. exfalso.
      destruct (header_scan_none _ _ _ Hs) as [_ I2].
      apply (header_scan_time_unique _ _ _ _ _ Hs Hi i); [lia|lia|].
      apply I2; [apply nth_In; lia|exact E]. }
    split; [exact Hu|]. unfold stored_cells. cbn [fst snd]. rewrite Hu. reflexivity.
  Qed.

  (* uploads that cannot be stored losslessly are rejected as a whole *)
  Lemma import_rejects_long_row q h0 rows ti :
    N.eqb (q_delim_runes q) 1 = true -> skipn (q_skip q) (q_records q) = h0 :: rows ->
    validate_header (header_of h0) (q_time_column q) = inr ti ->
    existsb (fun r => (length (header_of h0) <? length r)%nat) rows = true ->
    imp q = inl RLongRow.
  Proof.
    intros Hd Esk Hv Hl. unfold import_csv. rewrite Hd. cbn [negb].
    assert (Hlen : (length (q_records q) <=? q_skip q)%nat = false).
    { apply Nat.leb_gt. pose proof (skipn_length (q_skip q) (q_records q)) as L. rewrite Esk in L. cbn in L. lia. }
    rewrite Hlen, Esk. fold (header_of h0).
    destruct (header_of h0) as [|hx hr] eqn:Eh.
    { unfold validate_header in Hv. cbn in Hv. discriminate. }
    rewrite Hv, Hl. reflexivity.
  Qed.

  Lemma header_rejects_underscore h tc x :
    In x h -> starts_underscore x = true -> x <> tc -> exists e, validate_header h tc = inl e.
  Proof.
    intros Hin Hu Hne. unfold validate_header.
    destruct (header_scan [] h tc) as [e|] eqn:Hs; [exists e; reflexivity|].
    destruct (header_scan_none _ _ _ Hs) as [_ I2]. exfalso. apply Hne. apply I2; assumption.
  Qed.

  (* the stored time of every data row of an accepted upload is the requested conversion of its
     time cell - exact for every integer epoch, with no overflow guard *)
  Lemma import_times_exact q b :
    good_params p = true -> imp q = inr b ->
    exists h0 rows ti,
      skipn (q_skip q) (q_records q) = h0 :: rows /\
      validate_header (header_of h0) (q_time_column q) = inr ti /\
      Forall2 (time_cell_ok (q_fmt q))
              (column_of (map (fit (length (header_of h0))) rows) ti) (b_time b).
  Proof.
    intros Hg H. destruct (import_ok_shape q b H) as (h0 & rows & ti & Esk & Hne & Hc & Hv & Hlong & Ht & Hcols).
    exists h0, rows, ti. split; [exact Esk|]. split; [exact Hv|]. cbn zeta in Ht.
    pose proof (time_cells_spec _ _ _ Ht) as F.
    clear Ht. induction F; [constructor|]. constructor; [apply one_time_value_ok; assumption|assumption].
  Qed.

  (* all-or-nothing: the effects of an import on the buffer *)
  Definition import_writes (q : request) : list batch :=
    match imp q with inl _ => [] | inr b => [b] end.

  Lemma all_or_nothing q :
    (forall r, imp q = inl r -> import_writes q = []) /\
    (forall b, imp q = inr b -> import_writes q = [b] /\
               length (stored_rows b) = (length (q_records q) - q_skip q - 1)%nat).
  Proof.
    unfold import_writes. split.
    - intros r H. rewrite H. reflexivity.
    - intros b H. rewrite H. split; [reflexivity|]. apply (import_rows q b H).
  Qed.
End ImportCsv.

(* ------------------------------------------------------------------------------------ *)
(* Parquet cell conversions                                                                *)
(* ------------------------------------------------------------------------------------ *)

Lemma parquet_int_lossless t v :
  itype_range t v -> (t = U64 -> v < two63) -> arrow_int_to_int64 t v = v.
Proof.
  intros Hr Hu. destruct t; cbn [arrow_int_to_int64]; try reflexivity.
  apply wrap64_id. cbn in Hr. specialize (Hu eq_refl). unfold in_int64, two63 in *. lia.
Qed.

(* 2599b0c: a uint64 column is stored exactly or the file is rejected - rejected exactly when some
   non-null value is above MaxInt64 *)
Lemma pq_uint64_checked p v :
  (forall z, In (Some z) v -> 0 <= z) ->
  match pq_cells p (PInt U64 v) with
  | Some cells => cells = map (fun o => match o with Some z => VInt z | None => VNull end) v /\
                  (forall z, In (Some z) v -> z < two63)
  | None => exists z, In (Some z) v /\ two63 <= z
  end.
Proof.
  intros Hpos. cbn [pq_cells].
  destruct (existsb (fun o => match o with Some z => two63 <=? z | None => false end) v) eqn:E.
  - apply existsb_exists in E as ([z|] & Hin & Hz); [|discriminate]. exists z. split; [exact Hin|lia].
  - assert (Hlt : forall z, In (Some z) v -> z < two63).
    { intros z Hin. pose proof (existsb_false_in _ _ E _ Hin) as E'. cbn in E'. lia. }
    split; [|exact Hlt]. apply map_ext_in. intros [z|] Hin; [|reflexivity].
    cbn [arrow_int_to_int64]. rewrite wrap64_id; [reflexivity|].
    specialize (Hpos z Hin). specialize (Hlt z Hin). unfold in_int64, two63 in *. lia.
Qed.

Lemma pq_int_exact p t v :
  t <> U64 -> pq_cells p (PInt t v) = Some (map (fun o => match o with Some z => VInt z | None => VNull end) v).
Proof. intros Ht. destruct t; try congruence; reflexivity. Qed.

(* 2599b0c: a non-time TIMESTAMP column is stored exactly or the file is rejected *)
Lemma pq_ts_checked p u v :
  0 < mul_s p -> 0 < mul_ms p ->
  match pq_cells p (PTs u v) with
  | Some cells =>
      Forall2 (fun o c => match o with
                          | Some z => c = VInt (match u with USecond => z * mul_s p | UMilli => z * mul_ms p
                                                          | UMicro => z | UNano => Z.quot z (div_ns p) end)
                          | None => c = VNull
                          end) v cells
  | None => exists z, In (Some z) v /\
                      ((u = USecond /\ ~ in_int64 (z * mul_s p)) \/ (u = UMilli /\ ~ in_int64 (z * mul_ms p)))
  end.
Proof.
  intros H1 H2. cbn [pq_cells]. induction v as [|o r IH]; cbn [map_opt]; [constructor|].
  destruct o as [z|].
  - pose proof (arrow_ts_checked_spec p z u H1 H2) as S.
    destruct (arrow_ts_checked p z u) as [t|].
    + destruct (map_opt _ r) as [cells|].
      * constructor; [|exact IH]. destruct u; try (destruct S as [-> _]); subst; reflexivity.
      * destruct IH as (z' & Hin & Hz). exists z'. split; [right; exact Hin|exact Hz].
    + exists z. split; [left; reflexivity|exact S].
  - destruct (map_opt _ r) as [cells|].
    + constructor; [reflexivity|exact IH].
    + destruct IH as (z' & Hin & Hz). exists z'. split; [right; exact Hin|exact Hz].
Qed.

Lemma arrow_ts_exact p v u :
  match u with
  | USecond => in_int64 (v * mul_s p) -> arrow_ts_to_micros p v u = v * mul_s p
  | UMilli => in_int64 (v * mul_ms p) -> arrow_ts_to_micros p v u = v * mul_ms p
  | UMicro => arrow_ts_to_micros p v u = v
  | UNano => arrow_ts_to_micros p v u = Z.quot v (div_ns p)
  end.
Proof. destruct u; cbn; try reflexivity; intros H; apply wrap64_id; exact H. Qed.
