(* Model of the in-process CSV / Parquet import of internal/api/import_inprocess.go:
     importCSV (after encoding/csv has split the upload into records), validateImportHeader,
     inferAndConvertColumn, isBoolLiteral, stringsToTimeMicros, oneTimeValueToMicros,
     intTimeToMicros, autoIntEpochToMicros, arrowTimestampToMicros and the per-type cell
     conversions of arrowColumnToTyped / parquetColumnToTimeMicros,
   and of what internal/ingest/arrow_writer.go keeps of a typed batch (inferSchema skips
   columns whose name starts with '_').
   Strings are byte lists (list N, each < 256).  Go int64 arithmetic that can wrap is written
   with [wrap64].  External behaviour enters as function parameters (Section variables in the
   proofs): strconv.ParseFloat [pf], int64->float64 [i2f], the float epoch path [fl_epoch],
   time.Parse over the layout list [ttext]; encoding/csv's record splitting is the input.
   Definitions only - proofs are in Proofs.v. *)
From Coq Require Import List ZArith Bool NArith.
Import ListNotations.
Open Scope Z_scope.

Definition bytes := list N.

Fixpoint bytes_eqb (a b : bytes) : bool :=
  match a, b with
  | [], [] => true
  | x :: a', y :: b' => N.eqb x y && bytes_eqb a' b'
  | _, _ => false
  end.

(* compact literal for the generated case files: n bytes, big-endian in z *)
Fixpoint bytes_of_acc (n : nat) (z : Z) (acc : bytes) : bytes :=
  match n with
  | O => acc
  | S k => bytes_of_acc k (z / 256) (Z.to_N (z mod 256) :: acc)
  end.
Definition B (n : nat) (z : Z) : bytes := bytes_of_acc n z [].

Definition is_empty (s : bytes) : bool := match s with [] => true | _ => false end.

(* ---- Go int64 -------------------------------------------------------------------------- *)

Definition two63 : Z := 9223372036854775808.
Definition two64 : Z := 18446744073709551616.
Definition in_int64 (z : Z) : Prop := - two63 <= z < two63.
Definition in_int64b (z : Z) : bool := (- two63 <=? z) && (z <? two63).
(* the value of an int64 expression whose mathematical result is z *)
Definition wrap64 (z : Z) : Z := (z + two63) mod two64 - two63.

(* ---- strconv.ParseInt(s, 10, 64) ------------------------------------------------------- *)

Definition is_digit (c : N) : bool := (48 <=? c)%N && (c <=? 57)%N.

Fixpoint digits_val (acc : Z) (s : bytes) : option Z :=
  match s with
  | [] => Some acc
  | c :: r => if is_digit c then digits_val (acc * 10 + Z.of_N (c - 48)) r else None
  end.

Definition parse_int (s : bytes) : option Z :=
  let '(neg, body) := match s with
                      | 43%N :: r => (false, r)        (* '+' *)
                      | 45%N :: r => (true, r)         (* '-' *)
                      | _ => (false, s)
                      end in
  match body with
  | [] => None
  | _ => match digits_val 0 body with
         | None => None
         | Some v => let z := if neg then - v else v in
                     if in_int64b z then Some z else None
         end
  end.

(* ---- time scaling ------------------------------------------------------------------------ *)

Inductive tfmt := EpochS | EpochMs | EpochUs | EpochNs | Auto | Unsupported.

(* thresholds / multipliers: the literals of the source (regenerated into Params_Import and
   checked equal to these defaults by an obligation) *)
Record tparams := { thr_s : Z; thr_ms : Z; thr_us : Z; mul_s : Z; mul_ms : Z; div_ns : Z }.
Definition default_tparams : tparams :=
  {| thr_s := 10000000000; thr_ms := 10000000000000; thr_us := 10000000000000000;
     mul_s := 1000000; mul_ms := 1000; div_ns := 1000 |}.

(* autoIntEpochToMicros *)
Definition auto_int (p : tparams) (n : Z) : Z :=
  let a := if n <? 0 then (if n =? - two63 then two63 - 1 else - n) else n in
  if a <? thr_s p then wrap64 (n * mul_s p)
  else if a <? thr_ms p then wrap64 (n * mul_ms p)
  else if a <? thr_us p then n
  else Z.quot n (div_ns p).

(* intTimeToMicros: Go's `n * 1_000_000` wraps silently *)
Definition int_time_to_micros (p : tparams) (n : Z) (f : tfmt) : Z :=
  match f with
  | EpochS => wrap64 (n * mul_s p)
  | EpochMs => wrap64 (n * mul_ms p)
  | EpochUs => n
  | EpochNs => Z.quot n (div_ns p)
  | _ => auto_int p n
  end.

(* mulMicrosChecked (fix b90d6d7): `if n > MaxInt64/mult || n < MinInt64/mult` (Go's truncating
   division) rejects, otherwise n * mult *)
Definition mul_checked (n mult : Z) : option Z :=
  if (Z.quot (two63 - 1) mult <? n) || (n <? Z.quot (- two63) mult) then None else Some (n * mult).

(* intTimeToMicrosChecked: the multiplying units are checked, everything else is intTimeToMicros *)
Definition int_time_checked (p : tparams) (n : Z) (f : tfmt) : option Z :=
  match f with
  | EpochS => mul_checked n (mul_s p)
  | EpochMs => mul_checked n (mul_ms p)
  | _ => Some (int_time_to_micros p n f)
  end.

(* arrowTimestampToMicros (unit: 0 s, 1 ms, 2 us, 3 ns) *)
Inductive tunit := USecond | UMilli | UMicro | UNano.
Definition arrow_ts_to_micros (p : tparams) (v : Z) (u : tunit) : Z :=
  match u with
  | USecond => wrap64 (v * mul_s p)
  | UMilli => wrap64 (v * mul_ms p)
  | UMicro => v
  | UNano => Z.quot v (div_ns p)
  end.

(* arrowTimestampToMicrosChecked: used for the TIME column of a Parquet file *)
Definition arrow_ts_checked (p : tparams) (v : Z) (u : tunit) : option Z :=
  match u with
  | USecond => mul_checked v (mul_s p)
  | UMilli => mul_checked v (mul_ms p)
  | _ => Some (arrow_ts_to_micros p v u)
  end.

(* the exact (mathematical) scaling *)
Definition scale_of (p : tparams) (f : tfmt) : Z :=
  match f with EpochS => mul_s p | EpochMs => mul_ms p | _ => 1 end.

(* ---- strings.TrimSpace on ASCII -------------------------------------------------------- *)

Definition is_space (c : N) : bool :=
  N.eqb c 32 || N.eqb c 9 || N.eqb c 10 || N.eqb c 11 || N.eqb c 12 || N.eqb c 13.

Fixpoint trim_left (s : bytes) : bytes :=
  match s with
  | c :: r => if is_space c then trim_left r else s
  | [] => []
  end.
Definition trim (s : bytes) : bytes := rev (trim_left (rev (trim_left s))).

Definition has_dot (s : bytes) : bool := existsb (N.eqb 46) s.

(* ---- time column ------------------------------------------------------------------------ *)

Section Oracles.
  Variable pf : bytes -> option Z.            (* strconv.ParseFloat: bits of the value, None on error *)
  Variable i2f : Z -> Z.                        (* float64(int64): bits *)
  Variable fl_epoch : bytes -> option Z.       (* float epoch path for the request's time_format:
                                                   ParseFloat ok and finite -> int64(f * unit) *)
  Variable ttext : bytes -> option Z.          (* parseTimestampString *)
  Variable p : tparams.

  (* oneTimeValueToMicros / the body of stringsToTimeMicros for one (already trimmed) value *)
  Definition one_time_value (f : tfmt) (s : bytes) : option Z :=
    match f with
    | Unsupported => None
    | Auto =>
        match (if has_dot s then None else parse_int s) with
        | Some n => Some (auto_int p n)
        | None => match fl_epoch s with
                  | Some m => Some m
                  | None => ttext s
                  end
        end
    | _ =>
        match (if has_dot s then None else parse_int s) with
        | Some n => int_time_checked p n f          (* an overflowing epoch is an error *)
        | None => fl_epoch s
        end
    end.

  (* stringsToTimeMicros: every cell trimmed; an empty cell or an unparsable one rejects *)
  Fixpoint strings_to_time_micros (f : tfmt) (raw : list bytes) : option (list Z) :=
    match raw with
    | [] => Some []
    | s :: r =>
        let s' := trim s in
        if is_empty s' then None
        else match one_time_value f s' with
             | None => None
             | Some m => match strings_to_time_micros f r with
                         | None => None
                         | Some ms => Some (m :: ms)
                         end
             end
    end.

  (* ---- inferAndConvertColumn ---------------------------------------------------------- *)

  Definition lower (c : N) : N := if (65 <=? c)%N && (c <=? 90)%N then (c + 32)%N else c.
  Definition lit_true : bytes := [116; 114; 117; 101]%N.
  Definition lit_false : bytes := [102; 97; 108; 115; 101]%N.
  (* strings.EqualFold against "true"/"false": on ASCII input it is equality of the lower-cased
     bytes.  (Unicode simple folding also equates U+017F LATIN SMALL LETTER LONG S with 's';
     non-ASCII spellings are outside the modelled domain.) *)
  Definition fold_eq (s w : bytes) : bool := bytes_eqb (map lower s) w.
  Definition is_bool_literal (s : bytes) : bool :=
    bytes_eqb s [49]%N || bytes_eqb s [48]%N || fold_eq s lit_true || fold_eq s lit_false.
  Definition bool_value (s : bytes) : bool := fold_eq s lit_true || bytes_eqb s [49]%N.

  Inductive column :=
  | IntCol (v : list (option Z))
  | FloatCol (v : list (option Z))       (* bits *)
  | BoolCol (v : list (option bool))
  | StrCol (v : list bytes).

  (* scan state: the three flags, hasValue, hasEmpty, "stopped", and the buffers (reversed):
     ints parsed so far, floats parsed so far (None = not yet allocated) *)
  Record scan := { isInt : bool; isFloat : bool; isBool : bool; hasValue : bool; hasEmpty : bool;
                   stopped : bool; intBuf : list Z; floatBuf : option (list Z) }.

  Definition scan0 : scan :=
    {| isInt := true; isFloat := true; isBool := true; hasValue := false; hasEmpty := false;
       stopped := false; intBuf := []; floatBuf := None |}.

  (* one iteration of the inference loop.  Buffers are kept newest-first; an empty cell leaves a
     zero in both buffers (the Go slices are zero-initialised). *)
  Definition scan_cell (st : scan) (s : bytes) : scan :=
    if stopped st then st
    else if is_empty s then
      {| isInt := isInt st; isFloat := isFloat st; isBool := isBool st; hasValue := hasValue st;
         hasEmpty := true; stopped := false;
         intBuf := 0 :: intBuf st;
         floatBuf := match floatBuf st with Some fb => Some (0 :: fb) | None => None end |}
    else
      let pi := if isInt st then parse_int s else None in
      let isInt' := match pi with Some _ => isInt st | None => false end in
      let intBuf' := match pi with Some n => n :: intBuf st | None => 0 :: intBuf st end in
      (* float is only tried once the integer type is ruled out *)
      let try_float := negb isInt' && isFloat st in
      let pfv := if try_float then pf s else None in
      let isFloat' := if try_float then match pfv with Some _ => true | None => false end else isFloat st in
      let floatBuf' :=
        if try_float then
          match pfv with
          | Some b => match floatBuf st with
                      | Some fb => Some (b :: fb)
                      | None => Some (b :: map i2f (intBuf st))   (* migrate the ints parsed so far *)
                      end
          | None => match floatBuf st with Some fb => Some (0 :: fb) | None => None end
          end
        else match floatBuf st with Some fb => Some (0 :: fb) | None => None end in
      let isBool' := isBool st && is_bool_literal s in
      {| isInt := isInt'; isFloat := isFloat'; isBool := isBool'; hasValue := true;
         hasEmpty := hasEmpty st; stopped := negb isInt' && negb isFloat' && negb isBool';
         intBuf := intBuf'; floatBuf := floatBuf' |}.

  Definition with_validity {A} (raw : list bytes) (vals : list A) : list (option A) :=
    map (fun sv => if is_empty (fst sv) then None else Some (snd sv)) (combine raw vals).

  Definition infer_column (raw : list bytes) : column :=
    let st := fold_left scan_cell raw scan0 in
    if negb (hasValue st) || (negb (isInt st) && negb (isFloat st) && negb (isBool st)) then StrCol raw
    else if isInt st then IntCol (with_validity raw (rev (intBuf st)))
    else if isFloat st then
      FloatCol (with_validity raw (match floatBuf st with Some fb => rev fb | None => map (fun _ => 0) raw end))
    else BoolCol (with_validity raw (map bool_value raw)).

  (* ---- header ------------------------------------------------------------------------- *)

  Definition bom : bytes := [239; 187; 191]%N.
  Definition strip_bom (s : bytes) : bytes :=
    match s with
    | 239%N :: 187%N :: 191%N :: r => r
    | _ => s
    end.

  Fixpoint index_of (name : bytes) (h : list bytes) (i : nat) : option nat :=
    match h with
    | [] => None
    | x :: r => if bytes_eqb x name then Some i else index_of name r (S i)
    end.

  Fixpoint has_dup (h : list bytes) : bool :=
    match h with
    | [] => false
    | x :: r => existsb (bytes_eqb x) r || has_dup r
    end.

  Definition name_time : bytes := [116; 105; 109; 101]%N.

  Inductive reject :=
  | RDelimiter | REmptyFile | RCsvError | REmptyName | RDupName | RNoTimeColumn | RTimeCollision
  | RNoRows | RTimeParse
  | RUnderscore       (* 53efdcd: a non-time column whose name starts with '_' *)
  | RLongRow.         (* fcf78a3: a data row with more fields than the header *)

  (* validateImportHeader: index of the time column *)
  (* inferSchema: `if name[0] == '_' { continue }` - such a column would not be stored *)
  Definition starts_underscore (name : bytes) : bool :=
    match name with 95%N :: _ => true | _ => false end.

  (* validateImportHeader, first loop: the names are examined in order and the FIRST offending
     one decides the error: empty name, reserved '_' prefix (the time column is exempt), duplicate *)
  Fixpoint header_scan (seen : list bytes) (h : list bytes) (tc : bytes) : option reject :=
    match h with
    | [] => None
    | x :: r =>
        if is_empty x then Some REmptyName
        else if starts_underscore x && negb (bytes_eqb x tc) then Some RUnderscore
        else if existsb (bytes_eqb x) seen then Some RDupName
        else header_scan (x :: seen) r tc
    end.

  Definition validate_header (h : list bytes) (tc : bytes) : reject + nat :=
    match header_scan [] h tc with
    | Some e => inl e
    | None =>
        match index_of tc h 0 with
        | None => inl RNoTimeColumn
        | Some i => if negb (bytes_eqb tc name_time) && existsb (bytes_eqb name_time) h
                    then inl RTimeCollision else inr i
        end
    end.

  (* ---- importCSV ------------------------------------------------------------------------ *)

  (* a ragged row is padded with "" (cells beyond the header would be dropped: since fcf78a3 such a
     row rejects the upload before [fit] is applied) *)
  Fixpoint fit (n : nat) (rec : list bytes) : list bytes :=
    match n with
    | O => []
    | S k => match rec with
             | [] => [] :: fit k []
             | c :: r => c :: fit k r
             end
    end.

  Definition column_of (rows : list (list bytes)) (i : nat) : list bytes :=
    map (fun r => nth i r []) rows.

  (* what one import writes: the time column (microseconds) and the other columns by name *)
  Record batch := { b_time : list Z; b_cols : list (bytes * column) }.

  Record request := { q_time_column : bytes; q_fmt : tfmt; q_skip : nat; q_delim_runes : N;
                      q_records : list (list bytes);   (* records produced by encoding/csv *)
                      q_csv_err : bool }.              (* the reader fails after those records *)

  Fixpoint seq_nat (start len : nat) : list nat :=
    match len with O => [] | S k => start :: seq_nat (S start) k end.

  Definition import_csv (q : request) : reject + batch :=
    if negb (N.eqb (q_delim_runes q) 1) then inl RDelimiter
    else
      let recs := q_records q in
      if (length recs <=? q_skip q)%nat then (if q_csv_err q then inl RCsvError else inl REmptyFile)
      else
        match skipn (q_skip q) recs with
        | [] => inl REmptyFile
        | h0 :: rows =>
            let header := match h0 with [] => [] | x :: r => strip_bom x :: r end in
            match header with
            | [] => inl REmptyFile
            | _ =>
                match validate_header header (q_time_column q) with
                | inl e => inl e
                | inr ti =>
                    if existsb (fun r => (length header <? length r)%nat) rows then inl RLongRow
                    else if q_csv_err q then inl RCsvError
                    else match rows with
                         | [] => inl RNoRows
                         | _ =>
                             let fitted := map (fit (length header)) rows in
                             match strings_to_time_micros (q_fmt q) (column_of fitted ti) with
                             | None => inl RTimeParse
                             | Some tm =>
                                 inr {| b_time := tm;
                                        b_cols := map (fun i => (nth i header [], infer_column (column_of fitted i)))
                                                      (filter (fun i => negb (Nat.eqb i ti)) (seq_nat 0 (length header))) |}
                             end
                         end
                end
            end
        end.

  (* ---- what the ingest pipeline stores of a batch ---------------------------------------- *)

  Inductive cellv := VNull | VInt (z : Z) | VFloat (bits : Z) | VBool (b : bool) | VStr (s : bytes) | VAbsent.

  Definition col_cells (c : column) : list cellv :=
    match c with
    | IntCol v => map (fun o => match o with Some z => VInt z | None => VNull end) v
    | FloatCol v => map (fun o => match o with Some z => VFloat z | None => VNull end) v
    | BoolCol v => map (fun o => match o with Some b => VBool b | None => VNull end) v
    | StrCol v => map VStr v
    end.

  (* inferSchema skips '_'-prefixed columns (unreachable for an accepted import since 53efdcd) *)
  Definition stored_cells (nc : bytes * column) : list cellv :=
    if starts_underscore (fst nc) then map (fun _ => VAbsent) (col_cells (snd nc)) else col_cells (snd nc).

  (* rows: time plus one cell per non-time column, in header order *)
  Fixpoint transpose (n : nat) (cols : list (list cellv)) : list (list cellv) :=
    match n with
    | O => []
    | S k => map (fun c => hd VAbsent c) cols :: transpose k (map (fun c => tl c) cols)
    end.

  Definition stored_rows (b : batch) : list (Z * list cellv) :=
    combine (b_time b) (transpose (length (b_time b)) (map stored_cells (b_cols b))).

End Oracles.

(* ---- Parquet side: per-type cell conversions of arrowColumnToTyped ----------------------- *)

(* integer columns: int8..int64 are widened; uint64 is converted with int64(v), which wraps *)
Inductive itype := I8 | I16 | I32 | I64 | U8 | U16 | U32 | U64.
Definition arrow_int_to_int64 (t : itype) (v : Z) : Z :=
  match t with U64 => wrap64 v | _ => v end.
Definition itype_range (t : itype) (v : Z) : Prop :=
  match t with
  | I8 => -128 <= v < 128 | I16 => -32768 <= v < 32768 | I32 => -2147483648 <= v < 2147483648
  | I64 => in_int64 v | U8 => 0 <= v < 256 | U16 => 0 <= v < 65536 | U32 => 0 <= v < 4294967296
  | U64 => 0 <= v < two64
  end.

(* ---- comparison helpers for the correspondence ------------------------------------------- *)

Definition cellv_eqb (a b : cellv) : bool :=
  match a, b with
  | VNull, VNull => true
  | VInt x, VInt y => x =? y
  | VFloat x, VFloat y => x =? y
  | VBool x, VBool y => Bool.eqb x y
  | VStr x, VStr y => bytes_eqb x y
  | VAbsent, VAbsent => true
  | _, _ => false
  end.

Fixpoint cells_eqb (a b : list cellv) : bool :=
  match a, b with
  | [], [] => true
  | x :: a', y :: b' => cellv_eqb x y && cells_eqb a' b'
  | _, _ => false
  end.

Definition row_eqb (a b : Z * list cellv) : bool := (fst a =? fst b) && cells_eqb (snd a) (snd b).

Fixpoint remove_first (r : Z * list cellv) (l : list (Z * list cellv)) : option (list (Z * list cellv)) :=
  match l with
  | [] => None
  | x :: t => if row_eqb r x then Some t
              else match remove_first r t with Some t' => Some (x :: t') | None => None end
  end.

(* multiset equality of rows *)
Fixpoint perm_rows (a b : list (Z * list cellv)) : bool :=
  match a with
  | [] => match b with [] => true | _ => false end
  | r :: a' => match remove_first r b with Some b' => perm_rows a' b' | None => false end
  end.

(* oracle tables of a case: every distinct (trimmed and untrimmed) cell string with the answers
   of the external functions computed independently by the harness *)
Record annot := { a_pf : option Z; a_fl : option Z; a_text : option Z }.
Fixpoint lookup_annot (t : list (bytes * annot)) (s : bytes) : option annot :=
  match t with
  | [] => None
  | (k, a) :: r => if bytes_eqb k s then Some a else lookup_annot r s
  end.
Fixpoint lookup_i2f (t : list (Z * Z)) (n : Z) : Z :=
  match t with
  | [] => 0
  | (k, v) :: r => if k =? n then v else lookup_i2f r n
  end.

(* observation: 0 = stored, otherwise the reject class (1 delimiter, 2 empty file, 3 csv error,
   4 empty name, 5 duplicate, 6 no time column, 7 "time" collision, 8 no rows, 9 time parse,
   14 reserved '_' column name; an over-long data row is reported as a csv parse error, 3);
   rows read back from the stored Parquet files; number of files found after a rejection *)
Record ccase := { c_req : request; c_table : list (bytes * annot); c_i2f : list (Z * Z); c_params : tparams;
                  c_code : N; c_rows : list (Z * list cellv); c_files : N }.

Definition reject_code (r : reject) : N :=
  match r with
  | RDelimiter => 1 | REmptyFile => 2 | RCsvError => 3 | REmptyName => 4 | RDupName => 5
  | RNoTimeColumn => 6 | RTimeCollision => 7 | RNoRows => 8 | RTimeParse => 9
  | RUnderscore => 14 | RLongRow => 3
  end%N.

Definition case_model (c : ccase) : reject + batch :=
  let t := c_table c in
  import_csv (fun s => match lookup_annot t s with Some a => a_pf a | None => None end)
             (lookup_i2f (c_i2f c))
             (fun s => match lookup_annot t s with Some a => a_fl a | None => None end)
             (fun s => match lookup_annot t s with Some a => a_text a | None => None end)
             (c_params c) (c_req c).

Definition case_agrees (c : ccase) : bool :=
  match case_model c with
  | inl r => N.eqb (c_code c) (reject_code r) && N.eqb (c_files c) 0
  | inr b => N.eqb (c_code c) 0 && perm_rows (stored_rows b) (c_rows c)
  end.

(* ---- property oracle on the implementation's output, independent of the model's conversion
        code: row count, all-or-nothing, and cell-by-cell losslessness against the uploaded
        records ------------------------------------------------------------------------- *)

Definition table_pf (c : ccase) (s : bytes) : option Z :=
  match lookup_annot (c_table c) s with Some a => a_pf a | None => None end.

(* does a stored cell faithfully represent the uploaded text? *)
Definition cell_faithful (c : ccase) (s : bytes) (v : cellv) : bool :=
  match v with
  | VNull => is_empty s
  | VInt z => match parse_int s with Some n => n =? z | None => false end
  | VFloat b => negb (is_empty s) &&
                (match table_pf c s with Some b' => b' =? b | None => false end ||
                 match parse_int s with Some n => lookup_i2f (c_i2f c) n =? b | None => false end)
  | VBool b => is_bool_literal s && Bool.eqb (bool_value s) b
  | VStr t => bytes_eqb s t
  | VAbsent => false
  end.

(* the exact, non-wrapping value of an integer epoch *)
Definition exact_int_time (p : tparams) (f : tfmt) (n : Z) : Z :=
  match f with
  | EpochS => n * mul_s p
  | EpochMs => n * mul_ms p
  | EpochUs => n
  | EpochNs => Z.quot n (div_ns p)
  | _ => let a := Z.abs n in
         if a <? thr_s p then n * mul_s p else if a <? thr_ms p then n * mul_ms p
         else if a <? thr_us p then n else Z.quot n (div_ns p)
  end.

(* is the stored time the requested conversion of the uploaded text? *)
Definition time_faithful (c : ccase) (s : bytes) (t : Z) : bool :=
  let s' := trim s in
  let f := q_fmt (c_req c) in
  match (if has_dot s' then None else parse_int s') with
  | Some n => t =? exact_int_time default_tparams f n
  | None => match lookup_annot (c_table c) s' with
            | Some a => match a_fl a with
                        | Some m => t =? m
                        | None => match f with
                                  | Auto => match a_text a with Some m => t =? m | None => false end
                                  | _ => false
                                  end
                        end
            | None => false
            end
  end.

Fixpoint all2b {A B} (f : A -> B -> bool) (a : list A) (b : list B) : bool :=
  match a, b with
  | [], [] => true
  | x :: a', y :: b' => f x y && all2b f a' b'
  | _, _ => false
  end.

(* pad a short record with empty cells - WITHOUT cutting a long one *)
Definition pad (n : nat) (rec : list bytes) : list bytes := rec ++ repeat [] (n - length rec).

Definition drop_nth {A} (i : nat) (l : list A) : list A := firstn i l ++ skipn (S i) l.

Definition row_faithful (c : ccase) (ti : nat) (u : list bytes) (r : Z * list cellv) : bool :=
  time_faithful c (nth ti u []) (fst r) && all2b (cell_faithful c) (drop_nth ti u) (snd r).

(* a bijection between uploaded data rows and stored rows under [row_faithful] (search with
   back-tracking; stored rows are few) *)
Fixpoint rows_faithful (c : ccase) (ti : nat) (up : list (list bytes)) (st : list (Z * list cellv)) : bool :=
  match up with
  | [] => match st with [] => true | _ => false end
  | u :: up' =>
      (fix find (pre post : list (Z * list cellv)) : bool :=
         match post with
         | [] => false
         | r :: post' =>
             if row_faithful c ti u r
             then rows_faithful c ti up' (rev_append pre post') || find (r :: pre) post'
             else find (r :: pre) post'
         end) [] st
  end.

Definition case_header (c : ccase) : list bytes :=
  match skipn (q_skip (c_req c)) (q_records (c_req c)) with
  | (x :: r) :: _ => strip_bom x :: r
  | _ => []
  end.

Definition case_data (c : ccase) : list (list bytes) :=
  match skipn (q_skip (c_req c)) (q_records (c_req c)) with
  | h :: rows => map (pad (length h)) rows
  | [] => []
  end.

(* (the exact conversions above are taken with [default_tparams]: 10^6 us per s, 10^3 per ms and
   the documented magnitude thresholds are facts of the specification, not of the code)
   the property on the implementation's observation: an accepted file has every data row stored
   once with every cell represented faithfully and the time converted exactly; a rejected file
   leaves nothing behind *)
Definition case_oracle (c : ccase) : bool :=
  if N.eqb (c_code c) 0 then
    (length (c_rows c) =? length (case_data c))%nat &&
    match index_of (q_time_column (c_req c)) (case_header c) 0 with
    | Some ti => rows_faithful c ti (case_data c) (c_rows c)
    | None => false
    end
  else N.eqb (c_files c) 0.

(* classes of uploads excluded by the guarded theorems (signatures of the known findings) *)
Definition has_underscore_column (c : ccase) : bool :=
  existsb (fun n => starts_underscore n && negb (bytes_eqb n (q_time_column (c_req c)))) (case_header c).
Definition has_long_row (c : ccase) : bool :=
  match skipn (q_skip (c_req c)) (q_records (c_req c)) with
  | h :: rows => existsb (fun r => (length h <? length r)%nat) rows
  | [] => false
  end.
Definition int_time_overflows (c : ccase) : bool :=
  match index_of (q_time_column (c_req c)) (case_header c) 0 with
  | Some ti =>
      existsb (fun u => let s' := trim (nth ti u []) in
                        match (if has_dot s' then None else parse_int s') with
                        | Some n => negb (in_int64b (exact_int_time default_tparams (q_fmt (c_req c)) n))
                        | None => false
                        end) (case_data c)
  | None => false
  end.

(* ---- importParquet ---------------------------------------------------------------------- *)

(* a column of the uploaded Parquet file as arrow-go presents it *)
Inductive pqcol :=
| PInt (t : itype) (v : list (option Z))
| PFloat (v : list (option Z))            (* float64 bits; float32 is widened exactly *)
| PBool (v : list (option bool))
| PStr (v : list (option bytes))          (* String / Binary *)
| PTs (u : tunit) (v : list (option Z))   (* Arrow TIMESTAMP *)
| POther.                                  (* a type arrowColumnToTyped does not support *)

Definition pq_len (c : pqcol) : nat :=
  match c with
  | PInt _ v | PFloat v | PTs _ v => length v
  | PBool v => length v
  | PStr v => length v
  | POther => O
  end.

Fixpoint all_some {A} (l : list (option A)) : option (list A) :=
  match l with
  | [] => Some []
  | None :: _ => None
  | Some x :: r => match all_some r with Some r' => Some (x :: r') | None => None end
  end.

Fixpoint map_opt {A B} (f : A -> option B) (l : list A) : option (list B) :=
  match l with
  | [] => Some []
  | x :: r => match f x with
              | None => None
              | Some y => match map_opt f r with Some r' => Some (y :: r') | None => None end
              end
  end.

(* arrowColumnToTyped + validity: what is handed to the buffer for a non-time column *)
Definition pq_cells (p : tparams) (c : pqcol) : option (list cellv) :=
  match c with
  | PInt t v =>
      (* 2599b0c: a (non-null) uint64 above MaxInt64 is a conversion error instead of wrapping *)
      if match t with U64 => existsb (fun o => match o with Some z => two63 <=? z | None => false end) v | _ => false end
      then None
      else Some (map (fun o => match o with Some z => VInt (arrow_int_to_int64 t z) | None => VNull end) v)
  | PFloat v => Some (map (fun o => match o with Some z => VFloat z | None => VNull end) v)
  | PBool v => Some (map (fun o => match o with Some x => VBool x | None => VNull end) v)
  | PStr v => Some (map (fun o => match o with Some s => VStr s | None => VNull end) v)
  | PTs u v =>
      (* 2599b0c: non-null values go through arrowTimestampToMicrosChecked *)
      map_opt (fun o => match o with
                        | Some z => match arrow_ts_checked p z u with Some t => Some (VInt t) | None => None end
                        | None => Some VNull
                        end) v
  | POther => None
  end.

(* parquetColumnToTimeMicros (after b90d6d7: timestamp and integer time values go through the
   checked conversions, a uint64 above MaxInt64 is rejected).  [fl_bits]: floatTimeToMicros on float64 bits (None for NaN/Inf);
   [one] : oneTimeValueToMicros on text *)
Definition pq_time (p : tparams) (f : tfmt) (fl_bits : Z -> option Z) (one : bytes -> option Z)
           (c : pqcol) : option (list Z) :=
  match c with
  | PTs u v => match all_some v with
               | Some zs => map_opt (fun z => arrow_ts_checked p z u) zs
               | None => None
               end
  | PInt t v =>
      match t with
      | I64 | I32 | I16 | U64 | U32 =>
          match all_some v with
          | Some zs => map_opt (fun z => if two63 <=? z then None        (* uint64 above MaxInt64 *)
                                         else int_time_checked p z f) zs
          | None => None
          end
      | _ => None                     (* Int8 / Uint8 / Uint16 are not accepted as a time column *)
      end
  | PFloat v => match all_some v with Some bs => map_opt fl_bits bs | None => None end
  | PStr v => match all_some v with Some ss => map_opt one ss | None => None end
  | _ => None
  end.

Record pqrequest := { pq_time_column : bytes; pq_fmt : tfmt; pq_cols : list (bytes * pqcol); pq_nrows : nat }.

Inductive pqreject := PQHeader (r : reject) | PQNoRows | PQTime | PQUnsupported.

Definition import_parquet (p : tparams) (fl_bits : Z -> option Z) (one : bytes -> option Z) (q : pqrequest)
  : pqreject + (list Z * list (bytes * list cellv)) :=
  let header := map fst (pq_cols q) in
  match validate_header header (pq_time_column q) with
  | inl e => inl (PQHeader e)
  | inr ti =>
      if Nat.eqb (pq_nrows q) 0 then inl PQNoRows
      else
        (* columns are converted in file order; the first failing one decides the error *)
        (fix go (i : nat) (cols : list (bytes * pqcol)) (tm : option (list Z)) (acc : list (bytes * list cellv))
           : pqreject + (list Z * list (bytes * list cellv)) :=
           match cols with
           | [] => match tm with Some t => inr (t, rev acc) | None => inl PQTime end
           | (name, c) :: r =>
               if Nat.eqb i ti then
                 match pq_time p (pq_fmt q) fl_bits one c with
                 | Some t => go (S i) r (Some t) acc
                 | None => inl PQTime
                 end
               else match pq_cells p c with
                    | Some cells => go (S i) r tm ((name, cells) :: acc)
                    | None => inl PQUnsupported
                    end
           end) O (pq_cols q) None []
  end.

Definition pq_stored_rows (t : list Z) (cols : list (bytes * list cellv)) : list (Z * list cellv) :=
  combine t (transpose (length t)
               (map (fun nc => if starts_underscore (fst nc) then map (fun _ => VAbsent) (snd nc) else snd nc) cols)).

(* observation codes: 0 stored, 4..7 header classes as for CSV, 8 no rows, 9 time, 12 unsupported column *)
Record pqcase := { pc_req : pqrequest; pc_table : list (bytes * annot); pc_fl : list (Z * option Z); pc_params : tparams;
                   pc_code : N; pc_rows : list (Z * list cellv); pc_files : N }.

Fixpoint lookup_fl (t : list (Z * option Z)) (b : Z) : option Z :=
  match t with
  | [] => None
  | (k, v) :: r => if k =? b then v else lookup_fl r b
  end.

Definition pq_one (c : pqcase) (s : bytes) : option Z :=
  let t := pc_table c in
  one_time_value (fun s => match lookup_annot t s with Some a => a_fl a | None => None end)
                 (fun s => match lookup_annot t s with Some a => a_text a | None => None end)
                 (pc_params c) (pq_fmt (pc_req c)) (trim s).

Definition pq_model (c : pqcase) := import_parquet (pc_params c) (lookup_fl (pc_fl c)) (pq_one c) (pc_req c).

Definition pq_reject_code (r : pqreject) : N :=
  match r with
  | PQHeader e => reject_code e
  | PQNoRows => 8
  | PQTime => 9
  | PQUnsupported => 12
  end%N.

Definition pqcase_agrees (c : pqcase) : bool :=
  match pq_model c with
  | inl r => N.eqb (pc_code c) (pq_reject_code r) && N.eqb (pc_files c) 0
  | inr (t, cols) => N.eqb (pc_code c) 0 && perm_rows (pq_stored_rows t cols) (pc_rows c)
  end.

(* property oracle on the implementation's output: every row once, every cell the exact
   (non-wrapping) value of the file, time exactly scaled *)
Definition pq_cell_exact (p : tparams) (c : pqcol) (i : nat) : cellv :=
  match c with
  | PInt _ v => match nth i v None with Some z => VInt z | None => VNull end
  | PFloat v => match nth i v None with Some z => VFloat z | None => VNull end
  | PBool v => match nth i v None with Some x => VBool x | None => VNull end
  | PStr v => match nth i v None with Some s => VStr s | None => VNull end
  | PTs u v => match nth i v None with
               | Some z => VInt (match u with USecond => z * mul_s p | UMilli => z * mul_ms p | UMicro => z
                                              | UNano => Z.quot z (div_ns p) end)
               | None => VNull
               end
  | POther => VAbsent
  end.

Definition pq_time_exact (c : pqcase) (col : pqcol) (i : nat) : option Z :=
  let p := default_tparams in
  match col with
  | PTs u v => match nth i v None with
               | Some z => Some (match u with USecond => z * mul_s p | UMilli => z * mul_ms p | UMicro => z
                                              | UNano => Z.quot z (div_ns p) end)
               | None => None
               end
  | PInt _ v => match nth i v None with Some z => Some (exact_int_time p (pq_fmt (pc_req c)) z) | None => None end
  | PFloat v => match nth i v None with Some b => lookup_fl (pc_fl c) b | None => None end
  | PStr v => match nth i v None with
              | Some s => let s' := trim s in
                          match (if has_dot s' then None else parse_int s') with
                          | Some n => Some (exact_int_time p (pq_fmt (pc_req c)) n)
                          | None => pq_one c s
                          end
              | None => None
              end
  | _ => None
  end.

Definition pq_expected_rows (c : pqcase) : option (list (Z * list cellv)) :=
  let q := pc_req c in
  match index_of (pq_time_column q) (map fst (pq_cols q)) 0 with
  | None => None
  | Some ti =>
      let tcol := nth ti (map snd (pq_cols q)) POther in
      let others := drop_nth ti (pq_cols q) in
      map_opt (fun i => match pq_time_exact c tcol i with
                        | Some t => Some (t, map (fun nc => pq_cell_exact default_tparams (snd nc) i) others)
                        | None => None
                        end) (seq_nat 0 (pq_nrows q))
  end.

Definition pqcase_oracle (c : pqcase) : bool :=
  if N.eqb (pc_code c) 0 then
    match pq_expected_rows c with
    | Some rows => perm_rows rows (pc_rows c)
    | None => false
    end
  else N.eqb (pc_files c) 0.

(* classes of the known findings *)
Definition pq_has_underscore (c : pqcase) : bool :=
  existsb (fun nc => starts_underscore (fst nc) && negb (bytes_eqb (fst nc) (pq_time_column (pc_req c)))) (pq_cols (pc_req c)).
Definition pq_has_big_uint64 (c : pqcase) : bool :=
  existsb (fun nc => match snd nc with
                     | PInt U64 v => existsb (fun o => match o with Some z => two63 <=? z | None => false end) v
                     | _ => false
                     end) (pq_cols (pc_req c)).
(* a NON-time TIMESTAMP column (s / ms) whose exact microseconds do not fit int64: arrowColumnToTyped
   still converts it with the unchecked arrowTimestampToMicros *)
Definition pq_tscol_overflows (c : pqcase) : bool :=
  existsb (fun nc => negb (bytes_eqb (fst nc) (pq_time_column (pc_req c))) &&
                     match snd nc with
                     | PTs u v => existsb (fun o => match o with
                                                    | Some z => negb (in_int64b (match u with USecond => z * 1000000 | UMilli => z * 1000 | _ => 0 end))
                                                    | None => false
                                                    end) v
                     | _ => false
                     end) (pq_cols (pc_req c)).
Definition pq_time_overflows (c : pqcase) : bool :=
  match index_of (pq_time_column (pc_req c)) (map fst (pq_cols (pc_req c))) 0 with
  | Some ti =>
      let tcol := nth ti (map snd (pq_cols (pc_req c))) POther in
      existsb (fun i => match pq_time_exact c tcol i with
                        | Some t => negb (in_int64b t)
                        | None => false
                        end) (seq_nat 0 (pq_nrows (pc_req c)))
  | None => false
  end.
