(* C31 - File imports store every data row of the uploaded file.
   Only property statements live here; proofs are in Proofs.v.
   [pf] strconv.ParseFloat (bits), [i2f] float64(int64) (bits), [fl_epoch] the float epoch path,
   [ttext] the textual timestamp parse are arbitrary functions (oracles); [p] the scaling
   constants.  A [request] is what encoding/csv made of the upload plus the import options. *)
From Coq Require Import List ZArith Bool NArith Lia.
From Arc Require Import Import.Model Import.Proofs.
Import ListNotations.
Open Scope Z_scope.

(* Every accepted upload stores exactly one row per data record: one time value and one cell
   of every other column for each record after the skipped rows and the header. *)
Theorem C31_rows : forall pf i2f fl_epoch ttext p q b,
  import_csv pf i2f fl_epoch ttext p q = inr b ->
  let n := (length (q_records q) - q_skip q - 1)%nat in
  length (b_time b) = n /\ Forall (fun nc => length (col_cells (snd nc)) = n) (b_cols b) /\
  length (stored_rows b) = n.
Proof. exact import_rows. Qed.
Print Assumptions C31_rows.

(* Lossless conversion, for EVERY column of cells: an integer column holds exactly the parsed
   int64 of each non-empty cell and a null exactly at each empty cell ... *)
Theorem C31_lossless_int : forall pf i2f raw v,
  infer_column pf i2f raw = IntCol v ->
  Forall2 (fun s o => if is_empty s then o = None else exists n, o = Some n /\ parse_int s = Some n) raw v.
Proof. exact lossless_int. Qed.
Print Assumptions C31_lossless_int.

(* ... a boolean column holds the truth value of each literal and nulls at the empty cells ... *)
Theorem C31_lossless_bool : forall pf i2f raw v,
  infer_column pf i2f raw = BoolCol v ->
  Forall2 (fun s o => if is_empty s then o = None else o = Some (bool_value s) /\ is_bool_literal s = true) raw v.
Proof. exact lossless_bool. Qed.
Print Assumptions C31_lossless_bool.

(* ... a string column holds the cells verbatim (empty cells are empty strings) ... *)
Theorem C31_lossless_string : forall pf i2f raw v, infer_column pf i2f raw = StrCol v -> v = raw.
Proof. exact lossless_string. Qed.
Print Assumptions C31_lossless_string.

(* ... and a float column holds ParseFloat of the cell, or float64 of its integer value for the
   integer cells that preceded the first non-integer one. *)
Theorem C31_lossless_float : forall pf i2f raw v,
  infer_column pf i2f raw = FloatCol v ->
  Forall2 (fun s o => if is_empty s then o = None
                      else exists b, o = Some b /\ (pf s = Some b \/ exists n, parse_int s = Some n /\ b = i2f n)) raw v.
Proof. exact lossless_float. Qed.
Print Assumptions C31_lossless_float.

(* the same four facts as one statement about whatever type inference chooses *)
Theorem C31_column_sound : forall pf i2f raw, col_sound pf i2f raw (infer_column pf i2f raw).
Proof. exact column_sound. Qed.
Print Assumptions C31_column_sound.

(* Time conversion (after fix b90d6d7).  An integer epoch with an explicit unit either converts
   EXACTLY or is rejected, and it is rejected exactly when its microseconds do not fit int64 ... *)
Theorem C31_time_checked : forall p n f,
  0 < mul_s p -> 0 < mul_ms p ->
  match int_time_checked p n f with
  | Some t => match f with
              | EpochS | EpochMs | EpochUs => t = n * scale_of p f /\ in_int64 (n * scale_of p f) \/ f = EpochUs /\ t = n
              | EpochNs => t = Z.quot n (div_ns p)
              | _ => t = auto_int p n
              end
  | None => (f = EpochS \/ f = EpochMs) /\ ~ in_int64 (n * scale_of p f)
  end.
Proof. exact int_time_checked_spec. Qed.
Print Assumptions C31_time_checked.

(* ... the magnitude-detected path is exact for EVERY int64 (it cannot overflow), for any
   constants satisfying [good_params] (checked for the regenerated ones in Obligations.v) ... *)
Theorem C31_auto_exact : forall p n,
  good_params p = true -> in_int64 n -> auto_int p n = exact_int_time p Auto n.
Proof. exact auto_exact. Qed.
Print Assumptions C31_auto_exact.

(* ... so, with NO overflow guard: in every accepted upload the stored time of every data row is
   the requested conversion of its time cell - for an integer epoch exactly n * unit (or the
   magnitude-detected unit), for fractional / textual values the oracle's answer. *)
Theorem C31_accepted_times_exact : forall pf i2f fl_epoch ttext p q b,
  good_params p = true -> import_csv pf i2f fl_epoch ttext p q = inr b ->
  exists h0 rows ti,
    skipn (q_skip q) (q_records q) = h0 :: rows /\
    validate_header (header_of h0) (q_time_column q) = inr ti /\
    Forall2 (time_cell_ok fl_epoch ttext p (q_fmt q))
            (column_of (map (fit (length (header_of h0))) rows) ti) (b_time b).
Proof. exact import_times_exact. Qed.
Print Assumptions C31_accepted_times_exact.

(* An upload with an integer epoch whose microseconds overflow int64 under epoch_s / epoch_ms is
   rejected as a whole (time-parse error), whatever the other cells are ... *)
Theorem C31_time_overflow_rejected : forall fl_epoch ttext p f raw s n,
  0 < mul_s p -> 0 < mul_ms p ->
  In s raw -> has_dot (trim s) = false -> parse_int (trim s) = Some n -> (f = EpochS \/ f = EpochMs) ->
  ~ in_int64 (n * scale_of p f) ->
  strings_to_time_micros fl_epoch ttext p f raw = None.
Proof. exact time_cells_reject. Qed.
Print Assumptions C31_time_overflow_rejected.

(* ... in particular the former witness (epoch_s = 9223372036855, which used to be stored at
   -9223372036854551616 us) is rejected and writes nothing; 9223372036854 is still accepted. *)
Definition overflow_request (t : bytes) : request :=
  {| q_time_column := name_time; q_fmt := EpochS; q_skip := 0; q_delim_runes := 1;
     q_records := [ [name_time; [118]%N]; [t; [49]%N] ]; q_csv_err := false |}.
Definition no_oracle (s : bytes) : option Z := None.

Theorem C31_overflow_witness_rejected :
  let big := [57; 50; 50; 51; 51; 55; 50; 48; 51; 54; 56; 53; 53]%N in          (* 9223372036855 *)
  let ok := [57; 50; 50; 51; 51; 55; 50; 48; 51; 54; 56; 53; 52]%N in           (* 9223372036854 *)
  import_csv no_oracle (fun n => n) no_oracle no_oracle default_tparams (overflow_request big) = inl RTimeParse /\
  import_writes no_oracle (fun n => n) no_oracle no_oracle default_tparams (overflow_request big) = [] /\
  exists bt, import_csv no_oracle (fun n => n) no_oracle no_oracle default_tparams (overflow_request ok) = inr bt /\
             b_time bt = [9223372036854000000].
Proof. cbv zeta. split; [vm_compute; reflexivity|]. split; [vm_compute; reflexivity|]. eexists. vm_compute. split; reflexivity. Qed.
Print Assumptions C31_overflow_witness_rejected.

(* All-or-nothing: a rejected upload writes nothing; an accepted one performs exactly one write
   that carries every data row.  (A failing flush after that write is the only partial outcome
   and is reported as an error; the buffer is an oracle here.) *)
Theorem C31_all_or_nothing : forall pf i2f fl_epoch ttext p q,
  (forall r, import_csv pf i2f fl_epoch ttext p q = inl r -> import_writes pf i2f fl_epoch ttext p q = []) /\
  (forall b, import_csv pf i2f fl_epoch ttext p q = inr b ->
             import_writes pf i2f fl_epoch ttext p q = [b] /\
             length (stored_rows b) = (length (q_records q) - q_skip q - 1)%nat).
Proof. exact all_or_nothing. Qed.
Print Assumptions C31_all_or_nothing.

(* FULL-STRENGTH losslessness of every accepted upload (after fcf78a3 and 53efdcd): no data
   record is longer than the header, so rows are only padded with empty cells and never cut;
   every stored column is the sound conversion of ALL the uploaded cells of one header column; no
   stored column has a name the ingest pipeline would skip - it is stored exactly as converted. *)
Theorem C31_stored_lossless : forall pf i2f fl_epoch ttext p q b,
  import_csv pf i2f fl_epoch ttext p q = inr b ->
  exists h0 rows,
    skipn (q_skip q) (q_records q) = h0 :: rows /\
    let header := header_of h0 in
    let padded := map (pad (length header)) rows in
    Forall (fun r => (length r <= length header)%nat) rows /\
    Forall (fun nc => exists i, fst nc = nth i header [] /\
                                col_sound pf i2f (column_of padded i) (snd nc) /\
                                starts_underscore (fst nc) = false /\
                                stored_cells nc = col_cells (snd nc))
           (b_cols b).
Proof. exact import_lossless. Qed.
Print Assumptions C31_stored_lossless.

(* Uploads that could not be stored losslessly are rejected as a whole (and, by
   C31_all_or_nothing, write nothing): a data record with more fields than the header ... *)
Theorem C31_long_row_rejected : forall pf i2f fl_epoch ttext p q h0 rows ti,
  N.eqb (q_delim_runes q) 1 = true -> skipn (q_skip q) (q_records q) = h0 :: rows ->
  validate_header (header_of h0) (q_time_column q) = inr ti ->
  existsb (fun r => (length (header_of h0) <? length r)%nat) rows = true ->
  import_csv pf i2f fl_epoch ttext p q = inl RLongRow.
Proof. exact import_rejects_long_row. Qed.
Print Assumptions C31_long_row_rejected.

(* ... and a header with a non-time column whose name starts with '_' (CSV and Parquet share
   validateImportHeader). *)
Theorem C31_underscore_column_rejected : forall h tc x,
  In x h -> starts_underscore x = true -> x <> tc -> exists e, validate_header h tc = inl e.
Proof. exact (header_rejects_underscore no_oracle no_oracle no_oracle). Qed.
Print Assumptions C31_underscore_column_rejected.

(* the former witnesses: both uploads are now rejected and write nothing *)
Definition underscore_witness : request :=
  {| q_time_column := name_time; q_fmt := Auto; q_skip := 0; q_delim_runes := 1;
     q_records := [ [name_time; [95; 104]%N; [118]%N];                      (* time,_h,v *)
                    [[49; 55; 48; 48; 48; 48; 48; 48; 48; 48]%N; [53]%N; [54]%N] ];   (* 1700000000,5,6 *)
     q_csv_err := false |}.
Definition long_row_witness : request :=
  {| q_time_column := name_time; q_fmt := Auto; q_skip := 0; q_delim_runes := 1;
     q_records := [ [name_time; [118]%N];
                    [[49; 55; 48; 48; 48; 48; 48; 48; 48; 48]%N; [53]%N; [69; 88]%N] ];   (* 1700000000,5,EX *)
     q_csv_err := false |}.

Theorem C31_former_witnesses_rejected :
  import_csv no_oracle (fun n => n) no_oracle no_oracle default_tparams underscore_witness = inl RUnderscore /\
  import_writes no_oracle (fun n => n) no_oracle no_oracle default_tparams underscore_witness = [] /\
  import_csv no_oracle (fun n => n) no_oracle no_oracle default_tparams long_row_witness = inl RLongRow /\
  import_writes no_oracle (fun n => n) no_oracle no_oracle default_tparams long_row_witness = [].
Proof. vm_compute. repeat split. Qed.
Print Assumptions C31_former_witnesses_rejected.

(* Parquet side (after 2599b0c).  Integer columns other than uint64 are widened without loss ... *)
Theorem C31_parquet_int_exact : forall p t v,
  t <> U64 -> pq_cells p (PInt t v) = Some (map (fun o => match o with Some z => VInt z | None => VNull end) v).
Proof. exact pq_int_exact. Qed.
Print Assumptions C31_parquet_int_exact.

(* ... a uint64 column is stored exactly, or the file is rejected - exactly when a non-null value is
   above MaxInt64 (it used to be stored as a negative number) ... *)
Theorem C31_parquet_uint64_checked : forall p v,
  (forall z, In (Some z) v -> 0 <= z) ->
  match pq_cells p (PInt U64 v) with
  | Some cells => cells = map (fun o => match o with Some z => VInt z | None => VNull end) v /\
                  (forall z, In (Some z) v -> z < two63)
  | None => exists z, In (Some z) v /\ two63 <= z
  end.
Proof. exact pq_uint64_checked. Qed.
Print Assumptions C31_parquet_uint64_checked.

(* ... and so is a non-time TIMESTAMP column: exact by unit, or rejected when the microseconds of a
   non-null value do not fit int64. *)
Theorem C31_parquet_ts_column_checked : forall p u v,
  0 < mul_s p -> 0 < mul_ms p ->
  match pq_cells p (PTs u v) with
  | Some cells =>
      Forall2 (fun o c => match o with
                          | Some z => c = VInt (match u with USecond => z * mul_s p | UMilli => z * mul_ms p
                                                          | UMicro => z | UNano => Z.quot z (div_ns p) end)
                          | None => c = VNull
                          end) v cells
  | None => exists z, In (Some z) v /\
                      ((u = USecond /\ ~ in_int64 (z * mul_s p)) \/ (u = UMilli /\ ~ in_int64 (z * mul_ms p)))
  end.
Proof. exact pq_ts_checked. Qed.
Print Assumptions C31_parquet_ts_column_checked.

(* the former Parquet witnesses are rejected *)
Theorem C31_former_parquet_witnesses_rejected :
  pq_cells default_tparams (PInt U64 [Some 9223372036854775813]) = None /\
  pq_cells default_tparams (PTs USecond [Some 9223372036855]) = None /\
  pq_cells default_tparams (PInt U64 [Some 9223372036854775807; None]) = Some [VInt 9223372036854775807; VNull].
Proof. vm_compute. repeat split. Qed.
Print Assumptions C31_former_parquet_witnesses_rejected.

(* The TIME column of a Parquet file (Arrow TIMESTAMP, after b90d6d7): exact by unit, or rejected -
   exactly when the microseconds do not fit int64. *)
Theorem C31_arrow_ts_checked : forall p v u,
  0 < mul_s p -> 0 < mul_ms p ->
  match arrow_ts_checked p v u with
  | Some t => match u with
              | USecond => t = v * mul_s p /\ in_int64 (v * mul_s p)
              | UMilli => t = v * mul_ms p /\ in_int64 (v * mul_ms p)
              | UMicro => t = v
              | UNano => t = Z.quot v (div_ns p)
              end
  | None => (u = USecond /\ ~ in_int64 (v * mul_s p)) \/ (u = UMilli /\ ~ in_int64 (v * mul_ms p))
  end.
Proof. exact arrow_ts_checked_spec. Qed.
Print Assumptions C31_arrow_ts_checked.

(* ---- non-vacuity --------------------------------------------------------------------- *)

(* an accepted upload with an int, a float (demoted at the second row), a bool and a string
   column and an empty cell: all hypotheses of the positive theorems hold *)
Definition ok_request : request :=
  {| q_time_column := name_time; q_fmt := EpochS; q_skip := 0; q_delim_runes := 1;
     q_records := [ [name_time; [97]%N; [98]%N; [99]%N; [100]%N];
                    [[49; 48]%N; [49]%N; [50]%N; [116; 114; 117; 101]%N; [120]%N];      (* 10,1,2,true,x *)
                    [[49; 49]%N; []; [50; 46; 53]%N; [48]%N; []] ];                     (* 11,,2.5,0,   *)
     q_csv_err := false |}.
Definition demo_pf (s : bytes) : option Z := if bytes_eqb s [50; 46; 53]%N then Some 4612811918334230528 else None.
Definition demo_i2f (n : Z) : Z := if n =? 2 then 4611686018427387904 else 0.

Example C31_accept_nonvacuous :
  exists bt, import_csv demo_pf demo_i2f no_oracle no_oracle default_tparams ok_request = inr bt /\
    b_time bt = [10000000; 11000000] /\
    b_cols bt = [ ([97]%N, IntCol [Some 1; None]);
                  ([98]%N, FloatCol [Some 4611686018427387904; Some 4612811918334230528]);
                  ([99]%N, BoolCol [Some true; Some false]);
                  ([100]%N, StrCol [[120]%N; []]) ].
Proof. eexists. vm_compute. repeat split. Qed.

Example C31_good_params_nonvacuous : good_params default_tparams = true.
Proof. reflexivity. Qed.

Example C31_reject_nonvacuous :
  import_csv no_oracle (fun n => n) no_oracle no_oracle default_tparams
    {| q_time_column := name_time; q_fmt := Auto; q_skip := 0; q_delim_runes := 1;
       q_records := [ [name_time; [118]%N]; [[]; [53]%N] ]; q_csv_err := false |} = inl RTimeParse.
Proof. reflexivity. Qed.
