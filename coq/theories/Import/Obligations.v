(* C31 obligations on the constants regenerated from /repo on every run
   (coq/gen/Params_Import.v, written by tools/props/C31.py): thresholds and multipliers of
   autoIntEpochToMicros / intTimeToMicros / arrowTimestampToMicros. *)
From Coq Require Import List ZArith Bool Lia.
From Arc Require Import Import.Model Import.Proofs.
From ArcGen Require Import Params_Import.
Import ListNotations.
Open Scope Z_scope.

(* the constants found in the source make the magnitude-detected path overflow-free and are the
   ones the refutation witnesses were computed for *)
Theorem C31_params_good : good_params import_params = true /\ import_params = default_tparams.
Proof. split; reflexivity. Qed.
Print Assumptions C31_params_good.

Theorem C31_deployed_auto_exact : forall n, in_int64 n ->
  auto_int import_params n = exact_int_time import_params Auto n.
Proof. intros n H. apply auto_exact; [apply C31_params_good|exact H]. Qed.
Print Assumptions C31_deployed_auto_exact.
