(* Model of hot->cold tier migration (internal/tiering/migrator.go, metadata.go, manager.go)
   and of the multi-tier read (internal/api/query.go buildMultiTierReadParquet).
   DURABLE state only, for one (database, measurement): the files of the hot tier, the files
   of the cold tier and the tier_files rows of the SQLite metadata (path -> tier).
   A file's content is its list of rows (N ids).  Executable definitions only.

   Transcribed code:
     Migrator.MigrateFile  -> migrate_steps = [copy (promoted only when the stream completed);
                              UpdateTier (on failure: delete the cold copy); delete hot]
                              and [migrate] with every outcome (done, crash after k steps, copy
                              failure, metadata failure with/without successful rollback, source
                              delete failure)
     Migrator.ReconcileOrphanedFiles -> reconcile (delete hot copies of files tracked as cold)
     Manager.ScanAndRegisterFiles    -> scan (every hot file is upserted with tier = hot)
     Manager.RunMigrationCycle       -> settle (scan; migrate every hot-tracked file; reconcile)
     QueryHandler.buildMultiTierReadParquet + MetadataStore.GetTiersForMeasurement -> tvisible:
                              glob the whole hot directory iff some row says hot, the whole cold
                              directory iff some row says cold; no row at all => hot only.
   The tier_migrations history rows (RecordMigration / CompleteMigration) are NOT part of the
   state: MigrateFile tolerates a failed history insert, so such a failure must not change any
   outcome (the correspondence injects it together with every other fault).  A source read that
   fails after delivering part of the file is a copy failure: nothing is promoted, hot is untouched.
   Association lists (lookup / put / dels / keys) are those of Arc.Compaction.Model. *)
From Coq Require Import List NArith Bool Arith.
From Arc Require Import Compaction.Model.
Import ListNotations.

Inductive tier := Hot | Cold.
Definition tier_eqb (a b : tier) : bool :=
  match a, b with Hot, Hot | Cold, Cold => true | _, _ => false end.

Definition tfiles := list (path * list N).
Record tstate := mkT { t_hot : tfiles; t_cold : tfiles; t_meta : list (path * tier) }.

Definition rowsof (l : tfiles) : list N := flat_map (fun kv => snd kv) l.
Definition tier_has (t : tier) (m : list (path * tier)) : bool :=
  existsb (fun kv => tier_eqb (snd kv) t) m.

(* rows returned by the multi-tier read_parquet *)
Definition tvisible (s : tstate) : list N :=
  match t_meta s with
  | [] => rowsof (t_hot s)
  | _ => (if tier_has Hot (t_meta s) then rowsof (t_hot s) else []) ++
         (if tier_has Cold (t_meta s) then rowsof (t_cold s) else [])
  end.

Inductive tstep :=
| TCopy (p : path)        (* copyFileStreaming: the cold object appears only when complete *)
| TSetCold (p : path)     (* MetadataStore.UpdateTier(path, cold) *)
| TDelHot (p : path)      (* srcBackend.Delete *)
| TDelCold (p : path).    (* rollback: dstBackend.Delete *)

Definition tapply (st : tstep) (s : tstate) : tstate :=
  match st with
  | TCopy p => match lookup p (t_hot s) with
               | Some r => mkT (t_hot s) (put p r (t_cold s)) (t_meta s)
               | None => s
               end
  | TSetCold p => match lookup p (t_meta s) with
                  | Some _ => mkT (t_hot s) (t_cold s) (put p Cold (t_meta s))
                  | None => s
                  end
  | TDelHot p => mkT (del p (t_hot s)) (t_cold s) (t_meta s)
  | TDelCold p => mkT (t_hot s) (del p (t_cold s)) (t_meta s)
  end.

Definition trun (l : list tstep) (s : tstate) : tstate := fold_left (fun s st => tapply st s) l s.

Definition migrate_steps (p : path) : list tstep := [TCopy p; TSetCold p; TDelHot p].

Inductive moutcome :=
| MDone
| MCrash (k : nat)                 (* the process dies after k durable steps *)
| MCopyFail                        (* the streaming copy fails: nothing is promoted *)
| MMetaFail (rollback_ok : bool)   (* UpdateTier fails; the cold copy is deleted (or that fails too) *)
| MDelFail.                        (* deleting the hot copy fails; the migration still succeeds *)

Definition is_hot_tracked (s : tstate) (p : path) : bool :=
  match lookup p (t_meta s) with Some Hot => true | _ => false end.

(* MigrateFile on a candidate (FindCandidates only returns files tracked as hot) *)
Definition migrate (p : path) (oc : moutcome) (s : tstate) : tstate :=
  if is_hot_tracked s p then
    match oc with
    | MDone => trun (migrate_steps p) s
    | MCrash k => trun (firstn k (migrate_steps p)) s
    | MCopyFail => s
    | MMetaFail true => trun [TCopy p; TDelCold p] s
    | MMetaFail false => trun [TCopy p] s
    | MDelFail => trun [TCopy p; TSetCold p] s
    end
  else s.

Definition has_key (p : path) (l : tfiles) : bool :=
  match lookup p l with Some _ => true | None => false end.

(* files a reconciliation pass deletes from hot: tracked as cold, still present in hot *)
Definition reconcilable (s : tstate) : list path :=
  filter (fun p => match lookup p (t_meta s) with Some Cold => has_key p (t_hot s) | _ => false end)
         (keys (t_meta s)).

(* ReconcileOrphanedFiles; an interrupted pass has deleted some subset [sel] of them *)
Definition reconcile_some (sel : list path) (s : tstate) : tstate :=
  mkT (dels (filter (fun p => memb p sel) (reconcilable s)) (t_hot s)) (t_cold s) (t_meta s).
Definition reconcile (s : tstate) : tstate :=
  mkT (dels (reconcilable s) (t_hot s)) (t_cold s) (t_meta s).

(* ScanAndRegisterFiles: RecordFile upserts every hot parquet file with tier = hot *)
Definition scan (s : tstate) : tstate :=
  mkT (t_hot s) (t_cold s) (fold_left (fun m p => put p Hot m) (keys (t_hot s)) (t_meta s)).

Definition hot_tracked (s : tstate) : list path := filter (is_hot_tracked s) (keys (t_meta s)).
Definition migrate_all (s : tstate) : tstate :=
  fold_left (fun s p => migrate p MDone s) (hot_tracked s) s.
(* one undisturbed RunMigrationCycle *)
Definition settle (s : tstate) : tstate := reconcile (migrate_all (scan s)).

Inductive top :=
| OMigrate (p : path) (oc : moutcome)
| OReconcile (sel : option (list path))     (* None: the pass completes *)
| OScan
| OSettle.

Definition top_apply (o : top) (s : tstate) : tstate :=
  match o with
  | OMigrate p oc => migrate p oc s
  | OReconcile None => reconcile s
  | OReconcile (Some sel) => reconcile_some sel s
  | OScan => scan s
  | OSettle => settle s
  end.
Definition top_run (ops : list top) (s : tstate) : tstate := fold_left (fun s o => top_apply o s) ops s.

Definition tinit (F0 : tfiles) : tstate := mkT F0 [] (map (fun kv => (fst kv, Hot)) F0).

(* ---- two (or more) overlapping migrations of the SAME file -----------------------------
   Nothing serialises RunMigrationCycle (a manual POST /api/v1/tiering/migrate may run while
   the scheduled cycle does): two MigrateFile calls for one file, both listed as candidates
   while the file was tracked hot, interleave at the granularity of their durable steps. *)
Inductive mpc := Pc0 | Pc1 | Pc2 | PcDone.      (* next: copy | UpdateTier | delete hot | finished *)
(* mi_fault = Some rb: this instance's UpdateTier fails; its rollback delete works iff rb *)
Record minst := mkInst { mi_pc : mpc; mi_fault : option bool }.

Definition inst_step (p : path) (i : minst) (s : tstate) : minst * tstate :=
  match mi_pc i with
  | Pc0 => match lookup p (t_hot s) with
           | Some _ => (mkInst Pc1 (mi_fault i), tapply (TCopy p) s)
           | None => (mkInst PcDone (mi_fault i), s)          (* source gone: the copy fails *)
           end
  | Pc1 => match mi_fault i with
           | None => (mkInst Pc2 None, tapply (TSetCold p) s)
           | Some true => (mkInst PcDone (mi_fault i), tapply (TDelCold p) s)
           | Some false => (mkInst PcDone (mi_fault i), s)
           end
  | Pc2 => (mkInst PcDone (mi_fault i), tapply (TDelHot p) s)
  | PcDone => (i, s)
  end.

(* a schedule: true = the first instance takes its next step, false = the second one *)
Fixpoint run_sched (p : path) (sch : list bool) (a b : minst) (s : tstate) : minst * minst * tstate :=
  match sch with
  | [] => (a, b, s)
  | true :: r => let '(a', s') := inst_step p a s in run_sched p r a' b s'
  | false :: r => let '(b', s') := inst_step p b s in run_sched p r a b' s'
  end.

(* the code BEFORE 6b8445f: both calls run, interleaved step by step *)
Definition overlap_unserialized (p : path) (sch : list bool) (fa fb : option bool) (s : tstate) : tstate :=
  if is_hot_tracked s p then snd (run_sched p sch (mkInst Pc0 fa) (mkInst Pc0 fb) s) else s.

(* Since 6b8445f MigrateFile registers the path in Manager.migrating: a call that starts while
   another one for the same path is in progress is refused without touching anything.  A call
   is now [started] by its first scheduled step (no durable effect); it is active from then
   until it has finished. *)
Record ginst := mkG { g_started : bool; g_inst : minst }.
Definition g_active (g : ginst) : bool :=
  g_started g && match mi_pc (g_inst g) with PcDone => false | _ => true end.

Definition gstep (p : path) (x other : ginst) (s : tstate) : ginst * tstate :=
  if g_started x then
    let '(i', s') := inst_step p (g_inst x) s in (mkG true i', s')
  else if g_active other then (mkG true (mkInst PcDone (mi_fault (g_inst x))), s)     (* refused *)
  else (mkG true (g_inst x), s).

Fixpoint run_gsched (p : path) (sch : list bool) (a b : ginst) (s : tstate) : ginst * ginst * tstate :=
  match sch with
  | [] => (a, b, s)
  | true :: r => let '(a', s') := gstep p a b s in run_gsched p r a' b s'
  | false :: r => let '(b', s') := gstep p b a s in run_gsched p r a b' s'
  end.

Definition overlap (p : path) (sch : list bool) (fa fb : option bool) (s : tstate) : tstate :=
  if is_hot_tracked s p
  then snd (run_gsched p sch (mkG false (mkInst Pc0 fa)) (mkG false (mkInst Pc0 fb)) s)
  else s.

(* operations of the correspondence: the sequential ones plus an overlap *)
Inductive xop :=
| XTop (o : top)
| XOverlap (p : path) (sch : list bool) (fa fb : option bool).
Definition xop_apply (o : xop) (s : tstate) : tstate :=
  match o with XTop t => top_apply t s | XOverlap p sch fa fb => overlap p sch fa fb s end.

(* ---- executable oracles ---- *)
Definition listN_eqb : list N -> list N -> bool := list_eqb N.eqb.

(* every file of F0 is completely readable from the tier its metadata row names *)
Definition readableb (F0 : tfiles) (s : tstate) : bool :=
  forallb (fun kv => match lookup (fst kv) (t_meta s) with
                     | Some Hot => match lookup (fst kv) (t_hot s) with Some r => listN_eqb r (snd kv) | None => false end
                     | Some Cold => match lookup (fst kv) (t_cold s) with Some r => listN_eqb r (snd kv) | None => false end
                     | None => false
                     end) F0.
(* the multi-tier read shows each row of F0 exactly once *)
Definition onceb (F0 : tfiles) (s : tstate) : bool := listN_eqb (sortN (tvisible s)) (sortN (rowsof F0)).

(* ---- correspondence cases ---- *)
Record tobs := mkTObs { o_hot : tfiles; o_cold : tfiles; o_meta : list (path * tier); o_vis : list N; o_vis_ok : bool }.
Record tcase := mkTCase { tc_files : tfiles; tc_ops : list (xop * tobs); tc_expect_once : bool }.

Definition tfiles_eqb (a b : tfiles) : bool :=
  (length a =? length b) &&
  forallb (fun kv => match lookup (fst kv) b with Some r => listN_eqb (snd kv) r | None => false end) a.
Definition tmeta_eqb (a b : list (path * tier)) : bool :=
  (length a =? length b) &&
  forallb (fun kv => match lookup (fst kv) b with Some t => tier_eqb (snd kv) t | None => false end) a.

Definition tobs_agrees (s : tstate) (o : tobs) : bool :=
  tfiles_eqb (t_hot s) (o_hot o) && tfiles_eqb (t_cold s) (o_cold o) && tmeta_eqb (t_meta s) (o_meta o) &&
  o_vis_ok o && listN_eqb (sortN (tvisible s)) (sortN (o_vis o)).

Fixpoint tops_agree (ops : list (xop * tobs)) (s : tstate) : bool :=
  match ops with
  | [] => true
  | (o, ob) :: r => let s' := xop_apply o s in tobs_agrees s' ob && tops_agree r s'
  end.
Definition tcase_agrees (c : tcase) : bool := tops_agree (tc_ops c) (tinit (tc_files c)).

Definition tobs_state (o : tobs) : tstate := mkT (o_hot o) (o_cold o) (o_meta o).

(* oracle on the IMPLEMENTATION's observations: readable after every operation; each row
   exactly once at the end of a history that is expected to have finished *)
Definition tcase_oracle (c : tcase) : bool :=
  forallb (fun oo => readableb (tc_files c) (tobs_state (snd oo)) && o_vis_ok (snd oo)) (tc_ops c) &&
  (negb (tc_expect_once c) ||
   match rev (tc_ops c) with
   | [] => true
   | (_, last) :: _ => listN_eqb (sortN (o_vis last)) (sortN (rowsof (tc_files c)))
   end).

Definition tcase_model_oracle (c : tcase) : bool :=
  let s := fold_left (fun s o => xop_apply o s) (map fst (tc_ops c)) (tinit (tc_files c)) in
  readableb (tc_files c) s && (negb (tc_expect_once c) || onceb (tc_files c) s).

(* ---- the order of the durable operations of MigrateFile, for the regenerated parameters ---- *)
Inductive mphase := MpCopy | MpSetMeta | MpDeleteSource.
Definition mphase_step (p : path) (ph : mphase) : tstep :=
  match ph with MpCopy => TCopy p | MpSetMeta => TSetCold p | MpDeleteSource => TDelHot p end.
Definition model_order : list mphase := [MpCopy; MpSetMeta; MpDeleteSource].
Definition mphase_eqb (a b : mphase) : bool :=
  match a, b with MpCopy, MpCopy | MpSetMeta, MpSetMeta | MpDeleteSource, MpDeleteSource => true | _, _ => false end.
