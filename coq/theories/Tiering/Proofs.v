(* Proofs for tier migration (C12). *)
From Coq Require Import List NArith Bool Arith Lia Permutation.
From Arc Require Import Compaction.Model Compaction.Proofs Tiering.Model.
Import ListNotations.

(* ------------------------------------------------------------------------------------ *)
(* more association-list facts (put)                                                    *)
(* ------------------------------------------------------------------------------------ *)
Section Put.
  Context {V : Type}.
  Implicit Types (l : list (N * V)).

  Lemma lookup_put_same k v l : lookup k (put k v l) = Some v.
  Proof.
    induction l as [|[k' v'] r IH]; cbn; [rewrite N.eqb_refl; reflexivity|].
    destruct (N.eqb_spec k k') as [->|Hne]; cbn.
    - rewrite N.eqb_refl. reflexivity.
    - destruct (N.eqb_spec k k'); [congruence|exact IH].
  Qed.

  Lemma lookup_put_other k k' v l : k' <> k -> lookup k' (put k v l) = lookup k' l.
  Proof.
    intros Hne. induction l as [|[k2 v2] r IH]; cbn.
    - destruct (N.eqb_spec k' k); [congruence|reflexivity].
    - destruct (N.eqb_spec k k2) as [->|Hne2]; cbn.
      + destruct (N.eqb_spec k' k2); [congruence|reflexivity].
      + destruct (N.eqb k' k2); [reflexivity|exact IH].
  Qed.

  Lemma keys_put k v l k' : In k' (keys (put k v l)) <-> k' = k \/ In k' (keys l).
  Proof.
    induction l as [|[k2 v2] r IH]; cbn.
    - intuition.
    - destruct (N.eqb_spec k k2) as [->|Hne]; cbn; [intuition|]. rewrite IH. intuition.
  Qed.

  Lemma keys_put_in k v l : In k (keys l) -> keys (put k v l) = keys l.
  Proof.
    induction l as [|[k2 v2] r IH]; cbn; [tauto|]. intros H.
    destruct (N.eqb_spec k k2) as [->|Hne]; cbn; [reflexivity|].
    f_equal. apply IH. destruct H; [congruence|assumption].
  Qed.

  Lemma NoDup_keys_put k v l : NoDup (keys l) -> NoDup (keys (put k v l)).
  Proof.
    intros H. destruct (in_dec N.eq_dec k (keys l)) as [Hin|Hn].
    - rewrite keys_put_in by exact Hin. exact H.
    - rewrite put_absent by exact Hn. apply NoDup_keys_snoc; assumption.
  Qed.
End Put.

Lemma NoDup_app_intro {A} (a b : list A) :
  NoDup a -> NoDup b -> (forall x, In x a -> ~ In x b) -> NoDup (a ++ b).
Proof.
  induction a as [|x r IH]; cbn; intros Ha Hb Hd; [exact Hb|].
  inversion Ha as [|? ? Hn Hr]; subst. constructor.
  - intros Hin. apply in_app_or in Hin. destruct Hin as [Hin|Hin]; [exact (Hn Hin)|].
    exact (Hd x (or_introl eq_refl) Hin).
  - apply IH; [exact Hr|exact Hb|]. intros y Hy. apply Hd. right; exact Hy.
Qed.

Lemma lookup_map_const {V W} (w : W) (l : list (N * V)) p :
  lookup p (map (fun kv => (fst kv, w)) l) = match lookup p l with Some _ => Some w | None => None end.
Proof.
  induction l as [|[k v] r IH]; cbn; [reflexivity|]. destruct (N.eqb p k); [reflexivity|exact IH].
Qed.

Lemma keys_map_const {V W} (w : W) (l : list (N * V)) : keys (map (fun kv => (fst kv, w)) l) = keys l.
Proof. unfold keys. rewrite map_map. reflexivity. Qed.

(* ------------------------------------------------------------------------------------ *)
(* the invariant: whatever happened, the tier named by the metadata holds the whole file *)
(* ------------------------------------------------------------------------------------ *)

Record tinv (F0 : tfiles) (s : tstate) : Prop := mkTinv {
  i_nd_hot : NoDup (keys (t_hot s));
  i_nd_cold : NoDup (keys (t_cold s));
  i_nd_meta : NoDup (keys (t_meta s));
  i_meta_keys : forall p, In p (keys (t_meta s)) <-> In p (keys F0);
  i_hot_sub : forall p r, lookup p (t_hot s) = Some r -> lookup p F0 = Some r;
  i_cold_sub : forall p r, lookup p (t_cold s) = Some r -> lookup p F0 = Some r;
  i_hot_meta : forall p, lookup p (t_meta s) = Some Hot -> lookup p (t_hot s) = lookup p F0;
  i_cold_meta : forall p, lookup p (t_meta s) = Some Cold -> lookup p (t_cold s) = lookup p F0 }.

Section Inv.
  Variable F0 : tfiles.

  Lemma tinv_init : NoDup (keys F0) -> tinv F0 (tinit F0).
  Proof.
    intros H. constructor; cbn [tinit t_hot t_cold t_meta].
    - exact H.
    - constructor.
    - rewrite keys_map_const. exact H.
    - intros p. rewrite keys_map_const. tauto.
    - auto.
    - cbn. discriminate.
    - reflexivity.
    - intros p. rewrite lookup_map_const. destruct (lookup p F0); discriminate.
  Qed.

  Lemma inv_copy s p : tinv F0 s -> lookup p (t_meta s) = Some Hot ->
    tinv F0 (tapply (TCopy p) s) /\ lookup p (t_cold (tapply (TCopy p) s)) = lookup p F0 /\
    t_meta (tapply (TCopy p) s) = t_meta s /\ t_hot (tapply (TCopy p) s) = t_hot s.
  Proof.
    intros I Hm. assert (Hh := i_hot_meta _ _ I p Hm).
    assert (Hk : In p (keys F0)) by (apply (i_meta_keys _ _ I); eapply lookup_Some_key; exact Hm).
    destruct (In_keys_lookup p F0 Hk) as [r Hr]. rewrite Hr in Hh.
    cbn [tapply]. rewrite Hh. cbn [t_hot t_cold t_meta]. split; [|rewrite lookup_put_same; auto].
    constructor; cbn [t_hot t_cold t_meta]; try apply I.
    - apply NoDup_keys_put. apply I.
    - intros q r'. destruct (N.eq_dec q p) as [->|Hne].
      + rewrite lookup_put_same. intros E; inversion E; subst. exact Hr.
      + rewrite lookup_put_other by exact Hne. apply I.
    - intros q Hq. assert (q <> p) by (intros ->; congruence).
      rewrite lookup_put_other by assumption. apply I. exact Hq.
  Qed.

  Lemma inv_setcold s p : tinv F0 s -> lookup p (t_cold s) = lookup p F0 ->
    tinv F0 (tapply (TSetCold p) s).
  Proof.
    intros I Hc. cbn [tapply]. destruct (lookup p (t_meta s)) eqn:Em; [|exact I].
    assert (Hk : In p (keys (t_meta s))) by (eapply lookup_Some_key; exact Em).
    constructor; cbn [t_hot t_cold t_meta]; try apply I.
    - apply NoDup_keys_put. apply I.
    - intros q. rewrite keys_put_in by exact Hk. apply I.
    - intros q Hq. destruct (N.eq_dec q p) as [->|Hne].
      + rewrite lookup_put_same in Hq. discriminate.
      + rewrite lookup_put_other in Hq by exact Hne. apply I. exact Hq.
    - intros q Hq. destruct (N.eq_dec q p) as [->|Hne]; [exact Hc|].
      rewrite lookup_put_other in Hq by exact Hne. apply I. exact Hq.
  Qed.

  Lemma inv_sethot s p : tinv F0 s -> In p (keys (t_hot s)) ->
    tinv F0 (mkT (t_hot s) (t_cold s) (put p Hot (t_meta s))).
  Proof.
    intros I Hp. destruct (In_keys_lookup p (t_hot s) Hp) as [r Hr].
    assert (Hf := i_hot_sub _ _ I p r Hr).
    assert (Hk : In p (keys (t_meta s))) by (apply (i_meta_keys _ _ I); eapply lookup_Some_key; exact Hf).
    constructor; cbn [t_hot t_cold t_meta]; try apply I.
    - apply NoDup_keys_put. apply I.
    - intros q. rewrite keys_put_in by exact Hk. apply I.
    - intros q Hq. destruct (N.eq_dec q p) as [->|Hne]; [congruence|].
      rewrite lookup_put_other in Hq by exact Hne. apply I. exact Hq.
    - intros q Hq. destruct (N.eq_dec q p) as [->|Hne].
      + rewrite lookup_put_same in Hq. discriminate.
      + rewrite lookup_put_other in Hq by exact Hne. apply I. exact Hq.
  Qed.

  (* deleting hot copies of files that are not tracked as hot *)
  Lemma inv_delhot s D : tinv F0 s -> (forall p, In p D -> lookup p (t_meta s) <> Some Hot) ->
    tinv F0 (mkT (dels D (t_hot s)) (t_cold s) (t_meta s)).
  Proof.
    intros I HD. constructor; cbn [t_hot t_cold t_meta]; try apply I.
    - apply NoDup_keys_dels. apply I.
    - intros q r Hq. destruct (in_dec N.eq_dec q D) as [Hin|Hn].
      + rewrite lookup_dels_in in Hq by exact Hin. discriminate.
      + rewrite lookup_dels_notin in Hq by exact Hn. apply I. exact Hq.
    - intros q Hq. rewrite lookup_dels_notin; [apply I; exact Hq|]. intros Hin. exact (HD q Hin Hq).
  Qed.

  Lemma inv_delcold s p : tinv F0 s -> lookup p (t_meta s) <> Some Cold ->
    tinv F0 (tapply (TDelCold p) s).
  Proof.
    intros I Hp. cbn [tapply]. unfold del. constructor; cbn [t_hot t_cold t_meta]; try apply I.
    - apply NoDup_keys_dels. apply I.
    - intros q r Hq. destruct (in_dec N.eq_dec q [p]) as [Hin|Hn].
      + rewrite lookup_dels_in in Hq by exact Hin. discriminate.
      + rewrite lookup_dels_notin in Hq by exact Hn. apply (i_cold_sub _ _ I). exact Hq.
    - intros q Hq. rewrite lookup_dels_notin; [apply (i_cold_meta _ _ I); exact Hq|]. intros [E|[]]. subst. contradiction.
  Qed.

  Lemma tapply_delhot p s : tapply (TDelHot p) s = mkT (dels [p] (t_hot s)) (t_cold s) (t_meta s).
  Proof. reflexivity. Qed.

  Lemma is_hot_tracked_true s p : is_hot_tracked s p = true <-> lookup p (t_meta s) = Some Hot.
  Proof.
    unfold is_hot_tracked. destruct (lookup p (t_meta s)) as [[|]|]; split; intros H; try discriminate; reflexivity.
  Qed.

  (* the state after the first two steps of a migration of a hot-tracked file *)
  Lemma migrate_prefix2 s p : tinv F0 s -> lookup p (t_meta s) = Some Hot ->
    let s1 := tapply (TCopy p) s in let s2 := tapply (TSetCold p) s1 in
    tinv F0 s1 /\ tinv F0 s2 /\ lookup p (t_meta s2) = Some Cold /\
    (forall q, q <> p -> lookup q (t_meta s2) = lookup q (t_meta s)) /\
    t_hot s2 = t_hot s /\ t_cold s2 = t_cold s1 /\ t_meta s1 = t_meta s.
  Proof.
    intros I Hm. destruct (inv_copy s p I Hm) as [I1 [Hc [Hmeta Hhot]]]. cbn zeta.
    set (s1 := tapply (TCopy p) s) in *.
    assert (I2 := inv_setcold s1 p I1 Hc).
    assert (Em : lookup p (t_meta s1) = Some Hot) by (rewrite Hmeta; exact Hm).
    split; [exact I1|]. split; [exact I2|].
    cbn [tapply]. rewrite Em. cbn [t_hot t_cold t_meta]. rewrite Hmeta.
    split; [apply lookup_put_same|]. split; [intros q Hq; apply lookup_put_other; exact Hq|].
    split; [exact Hhot|split; reflexivity].
  Qed.

  Lemma inv_migrate s p oc : tinv F0 s -> tinv F0 (migrate p oc s).
  Proof.
    intros I. unfold migrate. destruct (is_hot_tracked s p) eqn:E; [|exact I].
    apply is_hot_tracked_true in E.
    destruct (migrate_prefix2 s p I E) as [I1 [I2 [Hc [Ho [Hh [Hcold Hm1]]]]]].
    assert (I3 : tinv F0 (trun (migrate_steps p) s)).
    { cbn [trun migrate_steps fold_left]. rewrite tapply_delhot. apply inv_delhot; [exact I2|].
      intros q [<-|[]]. congruence. }
    destruct oc as [|k| |[|]|].
    - exact I3.
    - destruct k as [|[|[|k]]]; cbn [firstn migrate_steps]; [exact I|exact I1|exact I2|].
      rewrite firstn_nil. exact I3.
    - exact I.
    - cbn [trun fold_left]. apply inv_delcold; [exact I1|]. rewrite Hm1. congruence.
    - exact I1.
    - exact I2.
  Qed.

  Lemma reconcilable_cold s p : In p (reconcilable s) -> lookup p (t_meta s) = Some Cold.
  Proof.
    unfold reconcilable. rewrite filter_In. intros [_ H].
    destruct (lookup p (t_meta s)) as [[|]|]; try discriminate. reflexivity.
  Qed.

  Lemma inv_reconcile_some sel s : tinv F0 s -> tinv F0 (reconcile_some sel s).
  Proof.
    intros I. unfold reconcile_some. apply inv_delhot; [exact I|].
    intros p Hp. apply filter_In in Hp. destruct Hp as [Hp _]. apply reconcilable_cold in Hp. congruence.
  Qed.

  Lemma inv_reconcile s : tinv F0 s -> tinv F0 (reconcile s).
  Proof.
    intros I. unfold reconcile. apply inv_delhot; [exact I|].
    intros p Hp. apply reconcilable_cold in Hp. congruence.
  Qed.

  Lemma inv_scan_fold L : forall m s, tinv F0 (mkT (t_hot s) (t_cold s) m) ->
    (forall p, In p L -> In p (keys (t_hot s))) ->
    tinv F0 (mkT (t_hot s) (t_cold s) (fold_left (fun m p => put p Hot m) L m)).
  Proof.
    induction L as [|p L' IH]; intros m s I HL; cbn [fold_left]; [exact I|].
    apply IH; [|intros q Hq; apply HL; right; exact Hq].
    apply (inv_sethot (mkT (t_hot s) (t_cold s) m) p I). cbn. apply HL. left; reflexivity.
  Qed.

  Lemma inv_scan s : tinv F0 s -> tinv F0 (scan s).
  Proof.
    intros I. unfold scan. apply inv_scan_fold; [destruct s; exact I|auto].
  Qed.

  Lemma inv_fold_migrate L : forall s, tinv F0 s -> tinv F0 (fold_left (fun s p => migrate p MDone s) L s).
  Proof. induction L as [|p L' IH]; intros s I; cbn; [exact I|]. apply IH. apply inv_migrate. exact I. Qed.

  Lemma inv_settle s : tinv F0 s -> tinv F0 (settle s).
  Proof. intros I. unfold settle, migrate_all. apply inv_reconcile. apply inv_fold_migrate. apply inv_scan. exact I. Qed.

  Lemma inv_op o s : tinv F0 s -> tinv F0 (top_apply o s).
  Proof.
    intros I. destruct o as [p oc|[sel|]| |]; cbn [top_apply].
    - apply inv_migrate; exact I.
    - apply inv_reconcile_some; exact I.
    - apply inv_reconcile; exact I.
    - apply inv_scan; exact I.
    - apply inv_settle; exact I.
  Qed.

  Lemma inv_run ops : forall s, tinv F0 s -> tinv F0 (top_run ops s).
  Proof. induction ops as [|o r IH]; intros s I; cbn; [exact I|]. apply IH. apply inv_op. exact I. Qed.

  (* ---------------- readable ---------------- *)
  Lemma rowsof_in (l : tfiles) p r x : lookup p l = Some r -> In x r -> In x (rowsof l).
  Proof.
    intros Hl Hx. unfold rowsof. apply in_flat_map. exists (p, r). split; [apply lookup_Some_In; exact Hl|exact Hx].
  Qed.

  Lemma tier_has_lookup t m p : lookup p m = Some t -> tier_has t m = true.
  Proof.
    intros H. unfold tier_has. apply existsb_exists. exists (p, t). split; [apply lookup_Some_In; exact H|].
    destruct t; reflexivity.
  Qed.

  Lemma readable s p r : tinv F0 s -> lookup p F0 = Some r ->
    ((lookup p (t_meta s) = Some Hot /\ lookup p (t_hot s) = Some r) \/
     (lookup p (t_meta s) = Some Cold /\ lookup p (t_cold s) = Some r)) /\
    (forall x, In x r -> In x (tvisible s)).
  Proof.
    intros I Hr.
    assert (Hk : In p (keys (t_meta s))) by (apply (i_meta_keys _ _ I); eapply lookup_Some_key; exact Hr).
    destruct (In_keys_lookup p (t_meta s) Hk) as [t Ht].
    assert (Hne : t_meta s <> []) by (intros E; rewrite E in Hk; exact Hk).
    destruct t.
    - assert (Hh : lookup p (t_hot s) = Some r) by (rewrite (i_hot_meta _ _ I p Ht); exact Hr).
      split; [left; split; assumption|]. intros x Hx. unfold tvisible.
      destruct (t_meta s) eqn:Em; [congruence|]. rewrite <- Em in *.
      apply in_or_app; left. rewrite (tier_has_lookup Hot _ p Ht). eapply rowsof_in; eassumption.
    - assert (Hc : lookup p (t_cold s) = Some r) by (rewrite (i_cold_meta _ _ I p Ht); exact Hr).
      split; [right; split; assumption|]. intros x Hx. unfold tvisible.
      destruct (t_meta s) eqn:Em; [congruence|]. rewrite <- Em in *.
      apply in_or_app; right. rewrite (tier_has_lookup Cold _ p Ht). eapply rowsof_in; eassumption.
  Qed.

  (* ---------------- exactly once ---------------- *)
  Definition no_hot_orphan (s : tstate) : Prop := forall p, In p (keys (t_hot s)) -> lookup p (t_meta s) = Some Hot.
  Definition no_cold_orphan (s : tstate) : Prop := forall p, In p (keys (t_cold s)) -> lookup p (t_meta s) = Some Cold.
  Definition orphan_free (s : tstate) : Prop := no_hot_orphan s /\ no_cold_orphan s.

  Lemma rowsof_app a b : rowsof (a ++ b) = rowsof a ++ rowsof b.
  Proof. unfold rowsof. apply flat_map_app. Qed.

  Lemma tier_has_false t m : tier_has t m = false -> forall p, lookup p m <> Some t.
  Proof. intros H p Hp. rewrite (tier_has_lookup t m p Hp) in H. discriminate. Qed.

  Lemma keys_nil_nil {V} (l : list (N * V)) : (forall p, ~ In p (keys l)) -> l = [].
  Proof. destruct l as [|[k v] r]; [reflexivity|]. intros H. exfalso. apply (H k). left; reflexivity. Qed.

  Theorem once s : NoDup (keys F0) -> tinv F0 s -> orphan_free s -> Permutation (tvisible s) (rowsof F0).
  Proof.
    intros HF I [Hho Hco].
    assert (HP : Permutation (t_hot s ++ t_cold s) F0).
    { apply NoDup_Permutation.
      - apply (NoDup_map_inv fst). rewrite map_app.
        apply NoDup_app_intro; [apply (i_nd_hot _ _ I)|apply (i_nd_cold _ _ I)|]. intros x Hh Hc. assert (A := Hho x Hh). assert (B := Hco x Hc). congruence.
      - apply (NoDup_map_inv fst). exact HF.
      - intros [p r]. rewrite in_app_iff. split.
        + intros [H|H].
          * apply lookup_Some_In. apply (i_hot_sub _ _ I). apply In_lookup; [apply I|exact H].
          * apply lookup_Some_In. apply (i_cold_sub _ _ I). apply In_lookup; [apply I|exact H].
        + intros H. assert (Hl : lookup p F0 = Some r) by (apply In_lookup; assumption).
          destruct (readable s p r I Hl) as [[[_ Hh]|[_ Hc]] _].
          * left. apply lookup_Some_In. exact Hh.
          * right. apply lookup_Some_In. exact Hc. }
    assert (HR : Permutation (rowsof (t_hot s) ++ rowsof (t_cold s)) (rowsof F0)).
    { rewrite <- rowsof_app. unfold rowsof. apply Permutation_flat_map. exact HP. }
    unfold tvisible. destruct (t_meta s) as [|m0 ml] eqn:Em.
    - assert (Hc : t_cold s = []).
      { apply keys_nil_nil. intros p Hp. specialize (Hco p Hp). rewrite Em in Hco. discriminate. }
      rewrite Hc in HR. cbn in HR. rewrite app_nil_r in HR. exact HR.
    - rewrite <- Em.
      assert (E1 : (if tier_has Hot (t_meta s) then rowsof (t_hot s) else []) = rowsof (t_hot s)).
      { destruct (tier_has Hot (t_meta s)) eqn:E; [reflexivity|].
        rewrite (keys_nil_nil (t_hot s)); [reflexivity|]. intros p Hp. exact (tier_has_false _ _ E p (Hho p Hp)). }
      assert (E2 : (if tier_has Cold (t_meta s) then rowsof (t_cold s) else []) = rowsof (t_cold s)).
      { destruct (tier_has Cold (t_meta s)) eqn:E; [reflexivity|].
        rewrite (keys_nil_nil (t_cold s)); [reflexivity|]. intros p Hp. exact (tier_has_false _ _ E p (Hco p Hp)). }
      rewrite E1, E2. exact HR.
  Qed.
End Inv.

(* ------------------------------------------------------------------------------------ *)
(* who removes orphans                                                                   *)
(* ------------------------------------------------------------------------------------ *)
Section Orphans.
  Variable F0 : tfiles.

  Lemma tracked_tier s p : tinv F0 s -> In p (keys (t_hot s)) \/ In p (keys (t_cold s)) ->
    lookup p (t_meta s) = Some Hot \/ lookup p (t_meta s) = Some Cold.
  Proof.
    intros I H. assert (Hk : In p (keys F0)).
    { destruct H as [H|H]; destruct (In_keys_lookup p _ H) as [r Hr].
      - eapply lookup_Some_key. apply (i_hot_sub _ _ I). exact Hr.
      - eapply lookup_Some_key. apply (i_cold_sub _ _ I). exact Hr. }
    apply (i_meta_keys _ _ I) in Hk. destruct (In_keys_lookup p _ Hk) as [[|] Ht]; auto.
  Qed.

  Lemma reconcile_no_hot_orphan s : tinv F0 s -> no_hot_orphan (reconcile s).
  Proof.
    intros I q Hq. unfold reconcile in *. cbn [t_hot t_meta] in *. apply keys_dels in Hq. destruct Hq as [Hq Hn].
    destruct (tracked_tier s q I (or_introl Hq)) as [Ht|Ht]; [exact Ht|]. exfalso. apply Hn.
    unfold reconcilable. apply filter_In. split; [eapply lookup_Some_key; exact Ht|].
    rewrite Ht. unfold has_key. destruct (In_keys_lookup q _ Hq) as [r Hr]. rewrite Hr. reflexivity.
  Qed.

  Definition safe_outcome (oc : moutcome) : Prop :=
    match oc with
    | MCrash 1 => False            (* died between the copy and the metadata update *)
    | MMetaFail false => False     (* metadata update failed and so did the rollback *)
    | _ => True
    end.

  Lemma copy_cold_keys s p q : In q (keys (t_cold (tapply (TCopy p) s))) -> q = p \/ In q (keys (t_cold s)).
  Proof.
    cbn [tapply]. destruct (lookup p (t_hot s)); cbn [t_cold]; [|auto]. intros H. apply keys_put in H. exact H.
  Qed.

  Lemma migrate_cold_safe s p oc : tinv F0 s -> no_cold_orphan s -> safe_outcome oc ->
    no_cold_orphan (migrate p oc s).
  Proof.
    intros I Hc Hs. unfold migrate. destruct (is_hot_tracked s p) eqn:E; [|exact Hc].
    apply is_hot_tracked_true in E.
    destruct (migrate_prefix2 F0 s p I E) as [I1 [I2 [Hcold [Ho [Hh [Hc2 Hm1]]]]]].
    assert (K2 : no_cold_orphan (tapply (TSetCold p) (tapply (TCopy p) s))).
    { intros q Hq. rewrite Hc2 in Hq. apply copy_cold_keys in Hq. destruct Hq as [->|Hq]; [exact Hcold|].
      assert (Hqc := Hc q Hq). assert (q <> p) by (intros ->; congruence). rewrite Ho by assumption. exact Hqc. }
    assert (K3 : no_cold_orphan (trun (migrate_steps p) s)).
    { cbn [trun migrate_steps fold_left]. rewrite tapply_delhot. exact K2. }
    destruct oc as [|k| |[|]|].
    - exact K3.
    - destruct k as [|[|[|k]]]; cbn [firstn migrate_steps]; [exact Hc|destruct Hs|exact K2|].
      rewrite firstn_nil. exact K3.
    - exact Hc.
    - cbn [trun fold_left]. intros q Hq. cbn [tapply t_cold t_meta] in *. unfold del in Hq.
      apply keys_dels in Hq. destruct Hq as [Hq Hn]. apply copy_cold_keys in Hq.
      destruct Hq as [->|Hq]; [exfalso; apply Hn; left; reflexivity|].
      change (t_meta (tapply (TCopy p) s)) with (t_meta (tapply (TCopy p) s)). rewrite Hm1. exact (Hc q Hq).
    - destruct Hs.
    - exact K2.
  Qed.

  Lemma fold_put_keep L : forall m q, lookup q m = Some Hot ->
    lookup q (fold_left (fun m p => put p Hot m) L m) = Some Hot.
  Proof.
    induction L as [|p L' IH]; intros m q H; cbn; [exact H|]. apply IH.
    destruct (N.eq_dec q p) as [->|Hne]; [apply lookup_put_same|rewrite lookup_put_other by exact Hne; exact H].
  Qed.

  Lemma fold_put_set L : forall m q, In q L -> lookup q (fold_left (fun m p => put p Hot m) L m) = Some Hot.
  Proof.
    induction L as [|p L' IH]; intros m q Hin; [destruct Hin|]. destruct Hin as [->|H]; cbn.
    - apply fold_put_keep. apply lookup_put_same.
    - apply IH. exact H.
  Qed.

  Lemma scan_no_hot_orphan s : no_hot_orphan (scan s).
  Proof. intros q Hq. unfold scan in *. cbn [t_hot t_meta] in *. apply fold_put_set. exact Hq. Qed.

  Lemma migrate_done_hot s p : tinv F0 s -> no_hot_orphan s ->
    no_hot_orphan (migrate p MDone s) /\ lookup p (t_meta (migrate p MDone s)) <> Some Hot /\
    (forall q, lookup q (t_meta s) <> Some Hot -> lookup q (t_meta (migrate p MDone s)) <> Some Hot).
  Proof.
    intros I Hh. unfold migrate. destruct (is_hot_tracked s p) eqn:E.
    - apply is_hot_tracked_true in E.
      destruct (migrate_prefix2 F0 s p I E) as [I1 [I2 [Hcold [Ho [Hhot [Hc2 Hm1]]]]]].
      cbn [trun migrate_steps fold_left]. rewrite tapply_delhot. cbn [t_hot t_meta]. rewrite Hhot.
      split; [|split].
      + intros q Hq. apply keys_dels in Hq. destruct Hq as [Hq Hn].
        assert (q <> p) by (intros ->; apply Hn; left; reflexivity). rewrite Ho by assumption. exact (Hh q Hq).
      + congruence.
      + intros q Hq. destruct (N.eq_dec q p) as [->|Hne]; [congruence|]. rewrite Ho by exact Hne. exact Hq.
    - split; [exact Hh|]. split; [|auto]. intros H. apply is_hot_tracked_true in H. congruence.
  Qed.

  Lemma fold_migrate_hot L : forall s, tinv F0 s -> no_hot_orphan s ->
    no_hot_orphan (fold_left (fun s p => migrate p MDone s) L s) /\
    (forall q, In q L \/ lookup q (t_meta s) <> Some Hot ->
               lookup q (t_meta (fold_left (fun s p => migrate p MDone s) L s)) <> Some Hot).
  Proof.
    induction L as [|p L' IH]; intros s I Hh; cbn [fold_left].
    - split; [exact Hh|]. intros q [[]|H]. exact H.
    - destruct (migrate_done_hot s p I Hh) as [Hh' [Hp Hmono]].
      destruct (IH (migrate p MDone s) (inv_migrate F0 s p MDone I) Hh') as [A B].
      split; [exact A|]. intros q [[->|Hq]|Hq]; apply B; auto.
  Qed.

  (* one undisturbed migration cycle removes every orphan, whatever happened before *)
  Theorem settle_orphan_free s : tinv F0 s -> orphan_free (settle s).
  Proof.
    intros I. unfold settle.
    set (s1 := scan s). assert (I1 : tinv F0 s1) by (apply inv_scan; exact I).
    assert (H1 : no_hot_orphan s1) by apply scan_no_hot_orphan.
    set (s2 := migrate_all s1).
    assert (I2 : tinv F0 s2) by (apply inv_fold_migrate; exact I1).
    destruct (fold_migrate_hot (hot_tracked s1) s1 I1 H1) as [H2 Hall]. fold (migrate_all s1) in H2, Hall. fold s2 in H2, Hall.
    assert (Hnohot : forall q, lookup q (t_meta s2) <> Some Hot).
    { intros q. apply Hall. destruct (lookup q (t_meta s1)) as [[|]|] eqn:E; [left|right; discriminate|right; discriminate].
      unfold hot_tracked. apply filter_In. split; [eapply lookup_Some_key; exact E|]. apply is_hot_tracked_true. exact E. }
    split.
    - apply reconcile_no_hot_orphan. exact I2.
    - intros q Hq. unfold reconcile in *. cbn [t_cold t_meta] in *.
      destruct (tracked_tier s2 q I2 (or_intror Hq)) as [Ht|Ht]; [exfalso; exact (Hnohot q Ht)|exact Ht].
  Qed.

  Definition safe_op (o : top) : Prop :=
    match o with OMigrate _ oc => safe_outcome oc | OScan => False | _ => True end.

  Lemma safe_op_cold o s : tinv F0 s -> no_cold_orphan s -> safe_op o -> no_cold_orphan (top_apply o s).
  Proof.
    intros I Hc Hs. destruct o as [p oc|[sel|]| |]; cbn [top_apply].
    - apply migrate_cold_safe; assumption.
    - exact Hc.
    - exact Hc.
    - destruct Hs.
    - apply settle_orphan_free. exact I.
  Qed.

  Lemma safe_run_cold ops : forall s, tinv F0 s -> no_cold_orphan s -> Forall safe_op ops ->
    no_cold_orphan (top_run ops s).
  Proof.
    induction ops as [|o r IH]; intros s I Hc Hs; cbn; [exact Hc|]. inversion Hs; subst.
    apply IH; [apply inv_op; exact I|apply safe_op_cold; assumption|assumption].
  Qed.

  (* operations that finish what they start *)
  Definition clean_op (o : top) : Prop :=
    match o with
    | OMigrate _ MDone | OMigrate _ (MCrash 0) | OMigrate _ MCopyFail | OMigrate _ (MMetaFail true) => True
    | OReconcile None | OSettle => True
    | _ => False
    end.

  Lemma clean_safe o : clean_op o -> safe_op o.
  Proof. destruct o as [p [|[|k]| |[|]|]|[sel|]| |]; cbn; tauto. Qed.

  Lemma clean_op_hot o s : tinv F0 s -> no_hot_orphan s -> clean_op o -> no_hot_orphan (top_apply o s).
  Proof.
    intros I Hh Hc. destruct o as [p oc|[sel|]| |]; cbn [top_apply]; try (destruct Hc; fail).
    - destruct oc as [|[|k]| |[|]|]; try (destruct Hc; fail).
      + apply (migrate_done_hot s p I Hh).
      + unfold migrate. destruct (is_hot_tracked s p); exact Hh.
      + unfold migrate. destruct (is_hot_tracked s p); exact Hh.
      + unfold migrate. destruct (is_hot_tracked s p) eqn:E; [|exact Hh]. apply is_hot_tracked_true in E.
        destruct (inv_copy F0 s p I E) as [_ [_ [Hm Hhot]]].
        cbn [trun fold_left]. intros q Hq. cbn [tapply t_hot t_meta] in *. rewrite Hhot in Hq. rewrite Hm. exact (Hh q Hq).
    - apply reconcile_no_hot_orphan. exact I.
    - apply settle_orphan_free. exact I.
  Qed.

  Lemma clean_run ops : forall s, tinv F0 s -> orphan_free s -> Forall clean_op ops -> orphan_free (top_run ops s).
  Proof.
    induction ops as [|o r IH]; intros s I [Hh Hc] Hs; cbn; [split; assumption|]. inversion Hs; subst.
    apply IH; [apply inv_op; exact I| |assumption].
    split; [apply clean_op_hot; assumption|apply safe_op_cold; [assumption|assumption|apply clean_safe; assumption]].
  Qed.

  Lemma init_orphan_free : orphan_free (tinit F0).
  Proof.
    split; intros p Hp; cbn [tinit t_hot t_cold t_meta] in *; [|destruct Hp].
    rewrite lookup_map_const. destruct (In_keys_lookup p F0 Hp) as [r ->]. reflexivity.
  Qed.

  Hypothesis HF : NoDup (keys F0).

  Theorem readable_always ops p r : lookup p F0 = Some r ->
    let s := top_run ops (tinit F0) in
    ((lookup p (t_meta s) = Some Hot /\ lookup p (t_hot s) = Some r) \/
     (lookup p (t_meta s) = Some Cold /\ lookup p (t_cold s) = Some r)) /\
    (forall x, In x r -> In x (tvisible s)).
  Proof. intros Hr. apply (readable F0); [apply inv_run; apply tinv_init; exact HF|exact Hr]. Qed.

  Theorem once_after_complete ops : Forall clean_op ops ->
    Permutation (tvisible (top_run ops (tinit F0))) (rowsof F0).
  Proof.
    intros Hc. apply once; [exact HF|apply inv_run; apply tinv_init; exact HF|].
    apply clean_run; [apply tinv_init; exact HF|apply init_orphan_free|exact Hc].
  Qed.

  Theorem once_after_reconcile ops : Forall safe_op ops ->
    Permutation (tvisible (reconcile (top_run ops (tinit F0)))) (rowsof F0).
  Proof.
    intros Hs. assert (I : tinv F0 (top_run ops (tinit F0))) by (apply inv_run; apply tinv_init; exact HF).
    apply once; [exact HF|apply inv_reconcile; exact I|]. split.
    - apply reconcile_no_hot_orphan. exact I.
    - apply (safe_run_cold ops (tinit F0)); [apply tinv_init; exact HF|apply init_orphan_free|exact Hs].
  Qed.

  Theorem once_after_cycle ops :
    Permutation (tvisible (settle (top_run ops (tinit F0)))) (rowsof F0).
  Proof.
    assert (I : tinv F0 (top_run ops (tinit F0))) by (apply inv_run; apply tinv_init; exact HF).
    apply once; [exact HF|apply inv_settle; exact I|apply settle_orphan_free; exact I].
  Qed.
End Orphans.

(* ------------------------------------------------------------------------------------ *)
(* overlapping migrations of the same file                                               *)
(* ------------------------------------------------------------------------------------ *)
Section Overlap.
  Variable F0 : tfiles.
  Variable p : path.

  (* copying a file that is in hot, whatever its metadata says *)
  Lemma inv_copy_gen s r : tinv F0 s -> lookup p (t_hot s) = Some r ->
    tinv F0 (tapply (TCopy p) s) /\ lookup p (t_cold (tapply (TCopy p) s)) = lookup p F0 /\
    t_meta (tapply (TCopy p) s) = t_meta s /\ t_hot (tapply (TCopy p) s) = t_hot s.
  Proof.
    intros I Hh. assert (Hr := i_hot_sub _ _ I p r Hh).
    cbn [tapply]. rewrite Hh. cbn [t_hot t_cold t_meta]. split; [|rewrite lookup_put_same; auto].
    constructor; cbn [t_hot t_cold t_meta]; try apply I.
    - apply NoDup_keys_put. apply I.
    - intros q r'. destruct (N.eq_dec q p) as [->|Hne].
      + rewrite lookup_put_same. intros E; inversion E; subst. exact Hr.
      + rewrite lookup_put_other by exact Hne. apply (i_cold_sub _ _ I).
    - intros q Hq. destruct (N.eq_dec q p) as [->|Hne].
      + rewrite lookup_put_same. symmetry; exact Hr.
      + rewrite lookup_put_other by exact Hne. apply (i_cold_meta _ _ I). exact Hq.
  Qed.

  (* what an instance may rely on at its program counter *)
  Definition inst_ok (x : minst) (s : tstate) : Prop :=
    mi_fault x = None /\
    (mi_pc x = Pc1 -> lookup p (t_cold s) = lookup p F0) /\
    (mi_pc x = Pc2 -> lookup p (t_meta s) = Some Cold) /\
    (mi_pc x = PcDone -> lookup p (t_hot s) = None /\ lookup p (t_meta s) = Some Cold).

  Definition inv2 (a b : minst) (s : tstate) : Prop :=
    tinv F0 s /\ In p (keys F0) /\ inst_ok a s /\ inst_ok b s.

  (* one fault-free step of x preserves the invariant, with y the other instance *)
  Lemma step_inv2 x y s : tinv F0 s -> In p (keys F0) -> inst_ok x s -> inst_ok y s ->
    let '(x', s') := inst_step p x s in tinv F0 s' /\ inst_ok x' s' /\ inst_ok y s'.
  Proof.
    intros I Hk [Fx [X1 [X2 X3]]] [Fy [Y1 [Y2 Y3]]].
    assert (Hm : exists t, lookup p (t_meta s) = Some t).
    { apply In_keys_lookup. apply (i_meta_keys _ _ I). exact Hk. }
    destruct (In_keys_lookup p F0 Hk) as [r0 Hr0].
    unfold inst_step. destruct (mi_pc x) eqn:Ex.
    - (* copy *)
      destruct (lookup p (t_hot s)) as [r|] eqn:Eh.
      + destruct (inv_copy_gen s r I Eh) as [I' [Hc [Hmeta Hhot]]].
        split; [exact I'|]. split.
        * split; [exact Fx|]. cbn [mi_pc]. repeat split; try discriminate. intros _. exact Hc.
        * split; [exact Fy|]. rewrite Hmeta, Hhot. repeat split.
          -- intros E. exact Hc.
          -- exact Y2.
          -- exfalso. match goal with H : mi_pc y = PcDone |- _ => destruct (Y3 H) as [C _]; discriminate C end.
          -- exfalso. match goal with H : mi_pc y = PcDone |- _ => destruct (Y3 H) as [C _]; discriminate C end.
      + (* source gone: some migration already committed and deleted it *)
        assert (Hc : lookup p (t_meta s) = Some Cold).
        { destruct Hm as [[|] Ht]; [|exact Ht]. rewrite (i_hot_meta _ _ I p Ht), Hr0 in Eh. discriminate. }
        split; [exact I|]. split.
        * split; [exact Fx|]. cbn [mi_pc]. repeat split; try discriminate; assumption.
        * split; [exact Fy|]. split; [exact Y1|]. split; [exact Y2|]. intros Hd. destruct (Y3 Hd) as [_ C]. split; [exact Eh|exact C].
    - (* metadata update *)
      rewrite Fx. specialize (X1 eq_refl).
      assert (I' := inv_setcold F0 s p I X1).
      destruct Hm as [t Ht].
      assert (Em : t_meta (tapply (TSetCold p) s) = put p Cold (t_meta s)) by (cbn [tapply]; rewrite Ht; reflexivity).
      assert (Eh : t_hot (tapply (TSetCold p) s) = t_hot s) by (cbn [tapply]; rewrite Ht; reflexivity).
      assert (Ec : t_cold (tapply (TSetCold p) s) = t_cold s) by (cbn [tapply]; rewrite Ht; reflexivity).
      assert (Hcold : lookup p (t_meta (tapply (TSetCold p) s)) = Some Cold) by (rewrite Em; apply lookup_put_same).
      split; [exact I'|]. split.
      + split; [reflexivity|]. cbn [mi_pc]. repeat split; try discriminate. intros _. exact Hcold.
      + split; [exact Fy|]. rewrite Eh, Ec. repeat split.
        * exact Y1.
        * intros _. exact Hcold.
        * apply Y3. assumption.
        * exact Hcold.
    - (* delete hot *)
      specialize (X2 eq_refl). rewrite tapply_delhot.
      assert (I' : tinv F0 (mkT (dels [p] (t_hot s)) (t_cold s) (t_meta s))).
      { apply inv_delhot; [exact I|]. intros q [<-|[]]. congruence. }
      assert (Hgone : lookup p (dels [p] (t_hot s)) = None) by (apply lookup_dels_in; left; reflexivity).
      split; [exact I'|]. cbn [t_hot t_cold t_meta]. split.
      + split; [exact Fx|]. cbn [mi_pc]. repeat split; try discriminate; assumption.
      + split; [exact Fy|]. split; [exact Y1|]. split; [exact Y2|]. intros Hd. split; [exact Hgone|apply (Y3 Hd)].
    - split; [exact I|]. split.
      + unfold inst_ok. rewrite Ex. exact (conj Fx (conj X1 (conj X2 X3))).
      + exact (conj Fy (conj Y1 (conj Y2 Y3))).
  Qed.

  Lemma sched_inv2 sch : forall a b s, inv2 a b s ->
    let '(a', b', s') := run_sched p sch a b s in inv2 a' b' s'.
  Proof.
    induction sch as [|[|] r IH]; intros a b s [I [Hk [Ha Hb]]]; cbn [run_sched].
    - exact (conj I (conj Hk (conj Ha Hb))).
    - assert (H := step_inv2 a b s I Hk Ha Hb). destruct (inst_step p a s) as [a' s'].
      destruct H as [I' [Ha' Hb']]. apply IH. exact (conj I' (conj Hk (conj Ha' Hb'))).
    - assert (H := step_inv2 b a s I Hk Hb Ha). destruct (inst_step p b s) as [b' s'].
      destruct H as [I' [Hb' Ha']]. apply IH. exact (conj I' (conj Hk (conj Ha' Hb'))).
  Qed.

  Lemma inst_step_other x s q : q <> p ->
    lookup q (t_meta (snd (inst_step p x s))) = lookup q (t_meta s) /\
    (In q (keys (t_hot (snd (inst_step p x s)))) -> In q (keys (t_hot s))) /\
    (In q (keys (t_cold (snd (inst_step p x s)))) -> In q (keys (t_cold s))).
  Proof.
    intros Hne. unfold inst_step. destruct (mi_pc x).
    - destruct (lookup p (t_hot s)) eqn:E; cbn [snd]; [|auto]. cbn [tapply]. rewrite E. cbn [t_hot t_cold t_meta].
      repeat split; auto. intros H. apply keys_put in H. destruct H; [congruence|assumption].
    - destruct (mi_fault x) as [[|]|]; cbn [snd]; auto.
      + cbn [tapply t_hot t_cold t_meta]. repeat split; auto. unfold del. intros H. apply keys_dels in H. tauto.
      + cbn [tapply]. destruct (lookup p (t_meta s)); cbn [t_hot t_cold t_meta]; auto.
        repeat split; auto. apply lookup_put_other. exact Hne.
    - cbn [snd tapply t_hot t_cold t_meta]. repeat split; auto. unfold del. intros H. apply keys_dels in H. tauto.
    - cbn [snd]. auto.
  Qed.

  Lemma sched_other sch : forall a b s q, q <> p ->
    let s' := snd (run_sched p sch a b s) in
    lookup q (t_meta s') = lookup q (t_meta s) /\
    (In q (keys (t_hot s')) -> In q (keys (t_hot s))) /\ (In q (keys (t_cold s')) -> In q (keys (t_cold s))).
  Proof.
    induction sch as [|[|] r IH]; intros a b s q Hne; cbn [run_sched]; [cbn; auto| |].
    - destruct (inst_step p a s) as [a' s1] eqn:E. destruct (inst_step_other a s q Hne) as [A [B C]]. rewrite E in A, B, C. cbn [snd] in *.
      destruct (IH a' b s1 q Hne) as [A' [B' C']]. cbv zeta in *. rewrite A', A. auto.
    - destruct (inst_step p b s) as [b' s1] eqn:E. destruct (inst_step_other b s q Hne) as [A [B C]]. rewrite E in A, B, C. cbn [snd] in *.
      destruct (IH a b' s1 q Hne) as [A' [B' C']]. cbv zeta in *. rewrite A', A. auto.
  Qed.

  (* EVERY interleaving (and every prefix of one) of two fault-free migrations of the same
     hot-tracked file keeps the invariant - hence every file readable from the tier its
     metadata names; once both have finished, the file is cold only and no orphan was created *)
  Theorem overlap_safe sch s : tinv F0 s -> lookup p (t_meta s) = Some Hot ->
    let '(a', b', s') := run_sched p sch (mkInst Pc0 None) (mkInst Pc0 None) s in
    tinv F0 s' /\
    (mi_pc a' = PcDone -> mi_pc b' = PcDone -> orphan_free s -> orphan_free s').
  Proof.
    intros I Hm.
    assert (Hk : In p (keys F0)) by (apply (i_meta_keys _ _ I); eapply lookup_Some_key; exact Hm).
    assert (H0 : inv2 (mkInst Pc0 None) (mkInst Pc0 None) s).
    { split; [exact I|]. split; [exact Hk|]. split; (split; [reflexivity|]; cbn [mi_pc]; repeat split; discriminate). }
    assert (H := sched_inv2 sch _ _ _ H0).
    assert (Ho := fun q Hne => sched_other sch (mkInst Pc0 None) (mkInst Pc0 None) s q Hne).
    destruct (run_sched p sch (mkInst Pc0 None) (mkInst Pc0 None) s) as [[a' b'] s'].
    destruct H as [I' [_ [[_ [_ [_ A3]]] _]]]. split; [exact I'|].
    intros Da _ [Hho Hco]. destruct (A3 Da) as [Hgone Hcold]. cbn [snd] in Ho. split.
    - intros q Hq. destruct (N.eq_dec q p) as [->|Hne].
      + apply lookup_None in Hgone. contradiction.
      + destruct (Ho q Hne) as [A [B _]]. rewrite A. apply Hho. apply B. exact Hq.
    - intros q Hq. destruct (N.eq_dec q p) as [->|Hne]; [exact Hcold|].
      destruct (Ho q Hne) as [A [_ C]]. rewrite A. apply Hco. apply C. exact Hq.
  Qed.
End Overlap.

(* ------------------------------------------------------------------------------------ *)
(* overlapping migrations of the same file, serialised per path (since 6b8445f)          *)
(* ------------------------------------------------------------------------------------ *)
Section Serialized.
  Variable F0 : tfiles.
  Variable p : path.
  Variable c0 : Prop.     (* the file had a cold copy before the two calls started *)

  Definition pcof (g : ginst) : mpc := mi_pc (g_inst g).

  Lemma g_active_true g : g_active g = true <-> g_started g = true /\ pcof g <> PcDone.
  Proof.
    unfold g_active, pcof. destruct (g_started g); cbn; [|split; [discriminate|intros [H _]; discriminate]].
    destruct (mi_pc (g_inst g)); split; intros H; try (split; [reflexivity|discriminate]); try reflexivity; try discriminate.
    destruct H as [_ H]. congruence.
  Qed.

  Definition gfacts (g : ginst) (s : tstate) : Prop :=
    (g_started g = false -> pcof g = Pc0) /\
    (g_started g = true ->
       (pcof g = Pc1 -> lookup p (t_cold s) = lookup p F0 /\ lookup p (t_meta s) = Some Hot) /\
       (pcof g = Pc2 -> lookup p (t_meta s) = Some Cold)).

  Definition at_pc (g : ginst) (c : mpc) : Prop := g_started g = true /\ pcof g = c.

  Definition ginv (x y : ginst) (s : tstate) : Prop :=
    tinv F0 s /\ In p (keys F0) /\
    (g_active x = true -> g_active y = true -> False) /\
    gfacts x s /\ gfacts y s /\
    (lookup p (t_meta s) = Some Cold -> lookup p (t_hot s) = None \/ at_pc x Pc2 \/ at_pc y Pc2) /\
    (In p (keys (t_cold s)) -> lookup p (t_meta s) = Some Cold \/ at_pc x Pc1 \/ at_pc y Pc1 \/
                               mi_fault (g_inst x) = Some false \/ mi_fault (g_inst y) = Some false \/ c0).

  Lemma ginv_sym x y s : ginv x y s -> ginv y x s.
  Proof.
    intros [I [Hk [Hex [Gx [Gy [K C]]]]]]. repeat (split; try assumption); auto.
    - intros H. destruct (K H) as [A|[A|A]]; auto.
    - intros H. destruct (C H) as [A|[A|[A|[A|[A|A]]]]]; auto 8.
  Qed.

  Lemma inactive_done y : g_active y = false -> g_started y = true -> pcof y = PcDone.
  Proof.
    unfold g_active, pcof. intros H E. rewrite E in H. cbn in H. destruct (mi_pc (g_inst y)); try discriminate. reflexivity.
  Qed.

  (* facts of an instance that is not running hold in any state *)
  Lemma gfacts_idle y s s' : g_active y = false -> gfacts y s -> gfacts y s'.
  Proof.
    intros Hi [N _]. split; [exact N|]. intros Hs. rewrite (inactive_done y Hi Hs). split; discriminate.
  Qed.

  Lemma not_at y c : g_active y = false -> c <> PcDone -> ~ at_pc y c.
  Proof. intros Hi Hc [Hs Hp]. rewrite (inactive_done y Hi Hs) in Hp. congruence. Qed.

  Lemma gstep_inv x y s : ginv x y s -> let '(x', s') := gstep p x y s in ginv x' y s'.
  Proof.
    intros [I [Hk [Hex [Gx [Gy [K C]]]]]]. unfold gstep.
    destruct (g_started x) eqn:Sx.
    2:{ (* the call starts now *)
      destruct Gx as [Nx _]. specialize (Nx Sx).
      destruct (g_active y) eqn:Ay.
      - (* refused *)
        split; [exact I|]. split; [exact Hk|]. split; [intros H; cbn in H; discriminate|].
        split; [split; [discriminate|intros _; cbn; split; discriminate]|]. split; [exact Gy|]. split.
        + intros H. destruct (K H) as [A|[[A _]|A]]; auto; congruence.
        + intros H. destruct (C H) as [A|[[A _]|[A|[A|[A|A]]]]]; auto 8; congruence.
      - (* registered *)
        split; [exact I|]. split; [exact Hk|]. split; [intros _ H; congruence|].
        split; [split; [discriminate|intros _; unfold pcof in *; cbn [g_inst]; rewrite Nx; split; discriminate]|].
        split; [exact Gy|]. split.
        + intros H. destruct (K H) as [A|[[A _]|A]]; auto; congruence.
        + intros H. destruct (C H) as [A|[[A _]|[A|[A|[A|A]]]]]; auto 8; congruence. }
    (* the call takes its next durable step *)
    destruct Gx as [_ Gx]. specialize (Gx Sx). destruct Gx as [G1 G2].
    assert (Hm : exists t, lookup p (t_meta s) = Some t).
    { apply In_keys_lookup. apply (i_meta_keys _ _ I). exact Hk. }
    destruct (In_keys_lookup p F0 Hk) as [r0 Hr0].
    unfold inst_step. unfold pcof in *. destruct (mi_pc (g_inst x)) eqn:Ex.
    - (* copy *)
      assert (Ax : g_active x = true) by (apply g_active_true; unfold pcof; rewrite Sx, Ex; split; [reflexivity|discriminate]).
      assert (Ay : g_active y = false) by (destruct (g_active y) eqn:E; [exfalso; exact (Hex Ax eq_refl)|reflexivity]).
      destruct (lookup p (t_hot s)) as [r|] eqn:Eh.
      + assert (Hhot : lookup p (t_meta s) = Some Hot).
        { destruct Hm as [[|] Ht]; [exact Ht|]. exfalso. destruct (K Ht) as [A|[[_ A]|A]].
          - congruence.
          - unfold pcof in A. congruence.
          - exact (not_at y Pc2 Ay ltac:(discriminate) A). }
        destruct (inv_copy_gen F0 p s r I Eh) as [I' [Hc [Hmeta Hh]]].
        split; [exact I'|]. split; [exact Hk|]. split; [intros _ H; congruence|].
        split; [split; [discriminate|intros _; unfold pcof; cbn [g_inst mi_pc]; split; [intros _; rewrite Hmeta; auto|discriminate]]|].
        split; [eapply gfacts_idle; eassumption|]. split.
        * rewrite Hmeta, Hhot. discriminate.
        * intros _. right; left. split; reflexivity.
      + split; [exact I|]. split; [exact Hk|]. split; [intros H; cbn in H; discriminate|].
        split; [split; [discriminate|intros _; unfold pcof; cbn [g_inst mi_pc]; split; discriminate]|].
        split; [exact Gy|]. split.
        * intros H. destruct (K H) as [A|[[_ A]|A]]; auto; unfold pcof in A; congruence.
        * intros H. destruct (C H) as [A|[[_ A]|[A|[A|[A|A]]]]]; auto 8; unfold pcof in A; congruence.
    - (* metadata update *)
      assert (Ax : g_active x = true) by (apply g_active_true; unfold pcof; rewrite Sx, Ex; split; [reflexivity|discriminate]).
      assert (Ay : g_active y = false) by (destruct (g_active y) eqn:E; [exfalso; exact (Hex Ax eq_refl)|reflexivity]).
      destruct (G1 eq_refl) as [Hc Hhot].
      destruct (mi_fault (g_inst x)) as [[|]|] eqn:Fx.
      + (* failure, rollback deletes the cold copy *)
        assert (I' : tinv F0 (tapply (TDelCold p) s)) by (apply inv_delcold; [exact I|congruence]).
        split; [exact I'|]. split; [exact Hk|]. split; [intros H; cbn in H; discriminate|].
        split; [split; [discriminate|intros _; unfold pcof; cbn [g_inst mi_pc]; split; discriminate]|].
        split; [eapply gfacts_idle; eassumption|]. cbn [tapply t_hot t_cold t_meta]. split.
        * rewrite Hhot. discriminate.
        * intros H. unfold del in H. apply keys_dels in H. exfalso. apply (proj2 H). left; reflexivity.
      + (* failure, the rollback fails as well *)
        split; [exact I|]. split; [exact Hk|]. split; [intros H; cbn in H; discriminate|].
        split; [split; [discriminate|intros _; unfold pcof; cbn [g_inst mi_pc]; split; discriminate]|].
        split; [exact Gy|]. split.
        * rewrite Hhot. discriminate.
        * intros _. right; right; right; left. cbn [g_inst mi_fault]. reflexivity.
      + assert (I' := inv_setcold F0 s p I Hc).
        assert (Em : t_meta (tapply (TSetCold p) s) = put p Cold (t_meta s)) by (cbn [tapply]; rewrite Hhot; reflexivity).
        assert (Eh : t_hot (tapply (TSetCold p) s) = t_hot s) by (cbn [tapply]; rewrite Hhot; reflexivity).
        assert (Ec : t_cold (tapply (TSetCold p) s) = t_cold s) by (cbn [tapply]; rewrite Hhot; reflexivity).
        assert (Hcold : lookup p (t_meta (tapply (TSetCold p) s)) = Some Cold) by (rewrite Em; apply lookup_put_same).
        split; [exact I'|]. split; [exact Hk|]. split; [intros _ H; congruence|].
        split; [split; [discriminate|intros _; unfold pcof; cbn [g_inst mi_pc]; split; [discriminate|intros _; exact Hcold]]|].
        split; [eapply gfacts_idle; eassumption|]. split.
        * intros _. right; left. split; reflexivity.
        * intros _. left. exact Hcold.
    - (* delete hot *)
      assert (Ax : g_active x = true) by (apply g_active_true; unfold pcof; rewrite Sx, Ex; split; [reflexivity|discriminate]).
      assert (Ay : g_active y = false) by (destruct (g_active y) eqn:E; [exfalso; exact (Hex Ax eq_refl)|reflexivity]).
      assert (Hcold := G2 eq_refl). rewrite tapply_delhot.
      assert (I' : tinv F0 (mkT (dels [p] (t_hot s)) (t_cold s) (t_meta s))).
      { apply inv_delhot; [exact I|]. intros q [<-|[]]. congruence. }
      split; [exact I'|]. split; [exact Hk|]. split; [intros H; cbn in H; discriminate|].
      split; [split; [discriminate|intros _; unfold pcof; cbn [g_inst mi_pc]; split; discriminate]|].
      split; [eapply gfacts_idle; eassumption|]. cbn [t_hot t_cold t_meta]. split.
      + intros _. left. apply lookup_dels_in. left; reflexivity.
      + intros _. left. exact Hcold.
    - (* already finished *)
      split; [exact I|]. split; [exact Hk|]. split; [intros H; exfalso; apply g_active_true in H; unfold pcof in H; cbn [g_inst] in H; rewrite Ex in H; tauto|].
      split; [split; [discriminate|intros _; unfold pcof; cbn [g_inst]; rewrite Ex; split; discriminate]|].
      split; [exact Gy|]. split.
      + intros H. destruct (K H) as [A|[[_ A]|A]]; auto; unfold pcof in A; congruence.
      + intros H. destruct (C H) as [A|[[_ A]|[A|[A|[A|A]]]]]; auto 8; unfold pcof in A; congruence.
  Qed.

  Lemma gsched_inv sch : forall a b s, ginv a b s ->
    let '(a', b', s') := run_gsched p sch a b s in ginv a' b' s'.
  Proof.
    induction sch as [|[|] r IH]; intros a b s H; cbn [run_gsched]; [exact H| |].
    - assert (H1 := gstep_inv a b s H). destruct (gstep p a b s) as [a' s']. apply IH. exact H1.
    - assert (H1 := gstep_inv b a s (ginv_sym _ _ _ H)). destruct (gstep p b a s) as [b' s']. apply IH. apply ginv_sym. exact H1.
  Qed.

  Lemma gstep_other x y s q : q <> p ->
    lookup q (t_meta (snd (gstep p x y s))) = lookup q (t_meta s) /\
    (In q (keys (t_hot (snd (gstep p x y s)))) -> In q (keys (t_hot s))) /\
    (In q (keys (t_cold (snd (gstep p x y s)))) -> In q (keys (t_cold s))).
  Proof.
    intros Hne. unfold gstep. destruct (g_started x).
    - assert (H := inst_step_other p (g_inst x) s q Hne). destruct (inst_step p (g_inst x) s) as [i' s']. exact H.
    - destruct (g_active y); cbn [snd]; auto.
  Qed.

  Lemma gsched_other sch : forall a b s q, q <> p ->
    let s' := snd (run_gsched p sch a b s) in
    lookup q (t_meta s') = lookup q (t_meta s) /\
    (In q (keys (t_hot s')) -> In q (keys (t_hot s))) /\ (In q (keys (t_cold s')) -> In q (keys (t_cold s))).
  Proof.
    induction sch as [|[|] r IH]; intros a b s q Hne; cbn [run_gsched]; [cbn; auto| |].
    - destruct (gstep p a b s) as [a' s1] eqn:E. destruct (gstep_other a b s q Hne) as [A [B C]]. rewrite E in A, B, C. cbn [snd] in *.
      destruct (IH a' b s1 q Hne) as [A' [B' C']]. cbv zeta in *. rewrite A', A. auto.
    - destruct (gstep p b a s) as [b' s1] eqn:E. destruct (gstep_other b a s q Hne) as [A [B C]]. rewrite E in A, B, C. cbn [snd] in *.
      destruct (IH a b' s1 q Hne) as [A' [B' C']]. cbv zeta in *. rewrite A', A. auto.
  Qed.
End Serialized.

(* EVERY schedule of two MigrateFile calls for the same hot-tracked file - including a failing
   UpdateTier with a working or a failing rollback in either call - keeps every file readable
   from the tier its metadata names; when both calls have finished and no rollback failed, no
   orphan exists and each row is visible once. *)
Theorem serialized_overlap_safe F0 p sch fa fb s : tinv F0 s -> lookup p (t_meta s) = Some Hot ->
  let '(a', b', s') := run_gsched p sch (mkG false (mkInst Pc0 fa)) (mkG false (mkInst Pc0 fb)) s in
  tinv F0 s' /\
  (g_started a' = true -> g_started b' = true -> mi_pc (g_inst a') = PcDone -> mi_pc (g_inst b') = PcDone ->
   fa <> Some false -> fb <> Some false -> orphan_free s -> orphan_free s').
Proof.
  intros I Hm.
  assert (Hk : In p (keys F0)) by (apply (i_meta_keys _ _ I); eapply lookup_Some_key; exact Hm).
  set (c0 := In p (keys (t_cold s))).
  assert (H0 : ginv F0 p c0 (mkG false (mkInst Pc0 fa)) (mkG false (mkInst Pc0 fb)) s).
  { split; [exact I|]. split; [exact Hk|]. split; [intros H; cbn in H; discriminate|].
    split; [split; [reflexivity|discriminate]|]. split; [split; [reflexivity|discriminate]|].
    split; [rewrite Hm; discriminate|]. intros H. auto 8. }
  assert (H := gsched_inv F0 p c0 sch _ _ _ H0).
  assert (Ho := fun q Hne => gsched_other p sch (mkG false (mkInst Pc0 fa)) (mkG false (mkInst Pc0 fb)) s q Hne).
  assert (Hf : forall sch a b s0, mi_fault (g_inst (fst (fst (run_gsched p sch a b s0)))) = mi_fault (g_inst a) /\
                                  mi_fault (g_inst (snd (fst (run_gsched p sch a b s0)))) = mi_fault (g_inst b)).
  { clear. induction sch as [|[|] r IH]; intros a b s0; cbn [run_gsched]; [cbn; auto| |].
    - assert (E : mi_fault (g_inst (fst (gstep p a b s0))) = mi_fault (g_inst a)).
      { unfold gstep. destruct (g_started a).
        - unfold inst_step. destruct (mi_pc (g_inst a)); [destruct (lookup p (t_hot s0))|destruct (mi_fault (g_inst a)) as [[|]|] eqn:F| |]; cbn; auto.
        - destruct (g_active b); reflexivity. }
      destruct (gstep p a b s0) as [a' s1]. cbn [fst] in E. destruct (IH a' b s1) as [A B]. rewrite A, E. auto.
    - assert (E : mi_fault (g_inst (fst (gstep p b a s0))) = mi_fault (g_inst b)).
      { unfold gstep. destruct (g_started b).
        - unfold inst_step. destruct (mi_pc (g_inst b)); [destruct (lookup p (t_hot s0))|destruct (mi_fault (g_inst b)) as [[|]|] eqn:F| |]; cbn; auto.
        - destruct (g_active a); reflexivity. }
      destruct (gstep p b a s0) as [b' s1]. cbn [fst] in E. destruct (IH a b' s1) as [A B]. rewrite B, E. auto. }
  specialize (Hf sch (mkG false (mkInst Pc0 fa)) (mkG false (mkInst Pc0 fb)) s).
  destruct (run_gsched p sch (mkG false (mkInst Pc0 fa)) (mkG false (mkInst Pc0 fb)) s) as [[a' b'] s'].
  cbn [fst snd g_inst mi_fault] in Hf. destruct Hf as [Fa Fb].
  destruct H as [I' [_ [_ [_ [_ [K C]]]]]]. split; [exact I'|].
  intros Sa Sb Da Db Hfa Hfb [Hho Hco]. cbn [snd] in Ho.
  assert (Hmp : exists t, lookup p (t_meta s') = Some t).
  { apply In_keys_lookup. apply (i_meta_keys _ _ I'). exact Hk. }
  assert (Nc0 : ~ c0). { intros H. specialize (Hco p H). congruence. }
  split.
  - intros q Hq. destruct (N.eq_dec q p) as [->|Hne].
    + destruct Hmp as [[|] Ht]; [exact Ht|]. exfalso. destruct (K Ht) as [A|[[_ A]|[_ A]]].
      * apply lookup_None in A. contradiction.
      * unfold pcof in A. congruence.
      * unfold pcof in A. congruence.
    + destruct (Ho q Hne) as [A [B _]]. rewrite A. apply Hho. apply B. exact Hq.
  - intros q Hq. destruct (N.eq_dec q p) as [->|Hne].
    + destruct (C Hq) as [A|[[_ A]|[[_ A]|[A|[A|A]]]]]; try exact A; exfalso.
      * unfold pcof in A. congruence.
      * unfold pcof in A. congruence.
      * rewrite Fa in A. exact (Hfa A).
      * rewrite Fb in A. exact (Hfb A).
      * exact (Nc0 A).
    + destruct (Ho q Hne) as [A [_ Cc]]. rewrite A. apply Hco. apply Cc. exact Hq.
Qed.

(* ------------------------------------------------------------------------------------ *)
(* the cold orphan                                                                       *)
(* ------------------------------------------------------------------------------------ *)
Definition wit_F0 : tfiles := [(1%N, [10%N; 11%N]); (2%N, [20%N])].
Definition wit_ops : list top := [OMigrate 1%N MDone; OMigrate 2%N (MCrash 1); OReconcile None].

Lemma cold_orphan_twice :
  tvisible (top_run wit_ops (tinit wit_F0)) = [20%N; 10%N; 11%N; 20%N] /\
  ~ Permutation (tvisible (top_run wit_ops (tinit wit_F0))) (rowsof wit_F0).
Proof.
  split; [vm_compute; reflexivity|]. intros H. apply Permutation_length in H. vm_compute in H. discriminate.
Qed.

(* With a failing UpdateTier in the SECOND of two overlapping migrations, its rollback deletes
   the cold copy the first one has just committed, and the first one deletes the hot source:
   the file is in neither tier. *)
Definition wit_overlap : tstate :=
  overlap_unserialized 1%N [true; true; false; false; true] None (Some true) (tinit [(1%N, [10%N; 11%N])]).

Lemma overlap_rollback_loses_file :
  t_hot wit_overlap = [] /\ t_cold wit_overlap = [] /\ t_meta wit_overlap = [(1%N, Cold)] /\
  readableb [(1%N, [10%N; 11%N])] wit_overlap = false.
Proof. vm_compute. repeat split. Qed.
