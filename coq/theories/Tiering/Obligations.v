(* C12 obligations on the facts regenerated from /repo on every run
   (coq/gen/Params_Tiering.v, written by tools/props/C12.py with go/ast):
   the order of the durable operations on the success path of Migrator.MigrateFile, the
   branch the rollback sits in, and what ReconcileOrphanedFiles deletes. *)
From Coq Require Import List NArith Bool Arith.
From Arc Require Import Compaction.Model Tiering.Model Tiering.Proofs.
From ArcGen Require Import Params_Tiering.
Import ListNotations.

Theorem C12_migrate_order_obligations :
  list_eqb mphase_eqb migrate_file_order model_order = true /\   (* copy, then metadata, then source delete *)
  metadata_failure_deletes_destination = true /\                 (* rollback of the cold copy *)
  copy_failure_returns_before_metadata = true /\
  reconcile_deletes_only_hot = true /\
  migrate_file_serialized_per_path = true.                       (* Manager.migrating guard before the copy *)
Proof. vm_compute. repeat split. Qed.
Print Assumptions C12_migrate_order_obligations.

(* the steps of the model are the steps of the code, in the code's order *)
Theorem C12_model_steps_are_code_steps :
  forall p, migrate_steps p = map (mphase_step p) migrate_file_order.
Proof. intros p. reflexivity. Qed.
Print Assumptions C12_model_steps_are_code_steps.
