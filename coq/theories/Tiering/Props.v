(* C12 - Tier migration never makes data unreadable or visible twice.
   Only property statements live here; proofs are in Proofs.v.
   F0 is the (arbitrary) set of files of one measurement, all initially hot and tracked.
   A history is any list of operations: a migration of any file with any outcome (done,
   process crash after k = 0..3 durable steps, copy failure, metadata failure with or without
   successful rollback, source-delete failure), a reconciliation pass that completes or is
   interrupted after any subset of its deletions, a scan, or a whole undisturbed cycle. *)
From Coq Require Import List NArith Bool Arith Lia Permutation.
From Arc Require Import Compaction.Model Compaction.Proofs Tiering.Model Tiering.Proofs.
Import ListNotations.

(* After EVERY history - every crash point and every step failure - every file is completely
   readable from the tier its metadata row names, and the multi-tier read returns its rows. *)
Theorem C12_readable :
  forall F0 ops p r, NoDup (keys F0) -> lookup p F0 = Some r ->
  let s := top_run ops (tinit F0) in
  ((lookup p (t_meta s) = Some Hot /\ lookup p (t_hot s) = Some r) \/
   (lookup p (t_meta s) = Some Cold /\ lookup p (t_cold s) = Some r)) /\
  (forall x, In x r -> In x (tvisible s)).
Proof. intros F0 ops p r HF Hr. exact (readable_always F0 HF ops p r Hr). Qed.
Print Assumptions C12_readable.

(* Once every started migration has completed (or failed cleanly), the multi-tier read
   shows each row exactly once. *)
Theorem C12_once_after_complete :
  forall F0 ops, NoDup (keys F0) -> Forall clean_op ops ->
  Permutation (tvisible (top_run ops (tinit F0))) (rowsof F0).
Proof. intros F0 ops HF. exact (once_after_complete F0 HF ops). Qed.
Print Assumptions C12_once_after_complete.

(* GUARDED: after any history in which no migration died between the copy and the metadata
   update (MCrash 1) and no failed metadata update was left un-rolled-back (MMetaFail false),
   one completed reconciliation pass makes every row visible exactly once. *)
Theorem C12_once_after_reconcile :
  forall F0 ops, NoDup (keys F0) -> Forall safe_op ops ->
  Permutation (tvisible (reconcile (top_run ops (tinit F0)))) (rowsof F0).
Proof. intros F0 ops HF. exact (once_after_reconcile F0 HF ops). Qed.
Print Assumptions C12_once_after_reconcile.

(* GUARDED ("the migration is retried"): after ANY history, one undisturbed migration cycle
   (scan, migrate every hot-tracked file, reconcile) makes every row visible exactly once. *)
Theorem C12_once_after_cycle :
  forall F0 ops, NoDup (keys F0) ->
  Permutation (tvisible (settle (top_run ops (tinit F0)))) (rowsof F0).
Proof. intros F0 ops HF. exact (once_after_cycle F0 HF ops). Qed.
Print Assumptions C12_once_after_cycle.

(* REFUTATION of "reconciliation alone suffices": file 1 is migrated; the migration of file 2
   dies after the copy, before the metadata update; reconciliation runs to completion.  The
   cold copy of file 2 is an orphan reconciliation never looks at; the measurement has cold
   data, so the cold directory is globbed next to the hot one and row 20 is returned twice. *)
Theorem C12_cold_orphan_refuted :
  tvisible (top_run [OMigrate 1%N MDone; OMigrate 2%N (MCrash 1); OReconcile None]
                    (tinit [(1%N, [10%N; 11%N]); (2%N, [20%N])])) = [20%N; 10%N; 11%N; 20%N] /\
  ~ Permutation (tvisible (top_run [OMigrate 1%N MDone; OMigrate 2%N (MCrash 1); OReconcile None]
                                   (tinit [(1%N, [10%N; 11%N]); (2%N, [20%N])])))
                (rowsof [(1%N, [10%N; 11%N]); (2%N, [20%N])]).
Proof. exact cold_orphan_twice. Qed.
Print Assumptions C12_cold_orphan_refuted.

(* OVERLAPPING MIGRATIONS (the code since 6b8445f).  Nothing serialises migration CYCLES (a manual
   POST /api/v1/tiering/migrate can run while the scheduled cycle does), but MigrateFile registers
   the path in Manager.migrating and refuses a second call for a path in progress.  For EVERY
   schedule of two MigrateFile calls for the same hot-tracked file (each call is started by its
   first scheduled step; every interleaving and every prefix - a prefix is a crash), and for
   EVERY fault of either call (UpdateTier failing with a working or a failing rollback), the
   invariant of C12_readable is kept: every file stays completely readable from the tier its
   metadata names.  When both calls have finished and no rollback failed, no orphan exists and
   each row is visible exactly once. *)
Theorem C12_overlap_safe :
  forall F0 p sch fa fb s, NoDup (keys F0) -> tinv F0 s -> lookup p (t_meta s) = Some Hot ->
  let '(a, b, s') := run_gsched p sch (mkG false (mkInst Pc0 fa)) (mkG false (mkInst Pc0 fb)) s in
  tinv F0 s' /\
  (forall q r, lookup q F0 = Some r -> forall x, In x r -> In x (tvisible s')) /\
  (g_started a = true -> g_started b = true -> mi_pc (g_inst a) = PcDone -> mi_pc (g_inst b) = PcDone ->
   fa <> Some false -> fb <> Some false -> orphan_free s -> Permutation (tvisible s') (rowsof F0)).
Proof.
  intros F0 p sch fa fb s HF I Hm. assert (H := serialized_overlap_safe F0 p sch fa fb s I Hm).
  destruct (run_gsched p sch (mkG false (mkInst Pc0 fa)) (mkG false (mkInst Pc0 fb)) s) as [[a b] s'].
  destruct H as [I' Ho]. split; [exact I'|]. split.
  - intros q r Hr. apply (readable F0 s' q r I' Hr).
  - intros Sa Sb Da Db Hfa Hfb Hof. apply once; [exact HF|exact I'|apply Ho; assumption].
Qed.
Print Assumptions C12_overlap_safe.

(* The variant BEFORE 6b8445f (both calls run, interleaved step by step) was safe only without
   step failures ... *)
Theorem C12_unserialized_overlap_safe :
  forall F0 p sch s, NoDup (keys F0) -> tinv F0 s -> lookup p (t_meta s) = Some Hot ->
  let '(a, b, s') := run_sched p sch (mkInst Pc0 None) (mkInst Pc0 None) s in
  tinv F0 s' /\
  (mi_pc a = PcDone -> mi_pc b = PcDone -> orphan_free s -> Permutation (tvisible s') (rowsof F0)).
Proof.
  intros F0 p sch s HF I Hm. assert (H := overlap_safe F0 p sch s I Hm).
  destruct (run_sched p sch (mkInst Pc0 None) (mkInst Pc0 None) s) as [[a b] s'].
  destruct H as [I' Ho]. split; [exact I'|].
  intros Da Db Hof. apply once; [exact HF|exact I'|apply Ho; assumption].
Qed.
Print Assumptions C12_unserialized_overlap_safe.

(* ... and lost the file when the UpdateTier of one call failed: its rollback deleted the cold
   copy both calls shared, the other call committed tier = cold and deleted the hot source
   (the defect fixed by 6b8445f; the serialised system above runs the same schedule safely). *)
Theorem C12_unserialized_overlap_rollback_refuted :
  let F := [(1%N, [10%N; 11%N])] in
  let old := overlap_unserialized 1%N [true; true; false; false; true] None (Some true) (tinit F) in
  let new := overlap 1%N [true; false; true; true; false; false; true] None (Some true) (tinit F) in
  (t_hot old = [] /\ t_cold old = [] /\ t_meta old = [(1%N, Cold)] /\ readableb F old = false) /\
  (readableb F new = true /\ onceb F new = true).
Proof. split; [exact overlap_rollback_loses_file|vm_compute; auto]. Qed.
Print Assumptions C12_unserialized_overlap_rollback_refuted.

(* Non-vacuity: the witness meets the hypotheses; the same history with the crash one step
   later (after the metadata update) is inside the guard and reconciliation does repair it;
   a crash-free history is clean. *)
Example C12_guard_nonvacuous :
  let F3 := [(1%N, [10%N; 11%N]); (2%N, [20%N]); (3%N, [30%N])] in
  NoDup (keys F3) /\
  Forall safe_op [OMigrate 1%N MDone; OMigrate 2%N (MCrash 2); OReconcile (Some [])] /\
  length (tvisible (top_run [OMigrate 1%N MDone; OMigrate 2%N (MCrash 2)] (tinit F3))) = 5 /\
  onceb F3 (reconcile (top_run [OMigrate 1%N MDone; OMigrate 2%N (MCrash 2)] (tinit F3))) = true /\
  Forall clean_op [OMigrate 1%N MDone; OMigrate 2%N MCopyFail; OReconcile None] /\
  ~ safe_op (OMigrate 2%N (MCrash 1)).
Proof.
  cbv zeta. split; [repeat constructor; cbn; intuition discriminate|].
  split; [repeat constructor|]. split; [reflexivity|]. split; [reflexivity|].
  split; [repeat constructor|]. cbn. tauto.
Qed.
