(* C19 - model of Arc's query response encoders (internal/api, build tag duckdb_arrow).

   Transcribed (bytes are N < 256 in lists, Go strings are byte lists):
     query_json_writer.go : writeJSONString, hexDigit, writeJSONStringArray
     query_arrow_json.go  : writeArrowValue (cell dispatch, null rule, non-finite floats -> null),
                            streamArrowJSON (envelope, row loop, governanceMaxRows `goto done`)
     query_msgpack.go     : encodeColumn and the encode*Column loops (which msgpack primitive
                            each Arrow type uses), drainArrowBatches (row cap, trailing slice),
                            streamMsgPackFromBatches (envelope up to row_count)
     query_msgpack_types.go : arrowTypeName / arrowTimeUnitName
   and, from the libraries the cell encoders call (modelled from their source, tied by the
   correspondence): msgpack/v6 EncodeInt/EncodeUint/EncodeInt64/EncodeUint64/EncodeFloat*/
   EncodeString/EncodeBytes/EncodeTime/EncodeArrayLen/EncodeMapLen, arrow Timestamp.ToTime
   and Date32.ToTime (seconds/nanoseconds split).

   ORACLES (inputs of the model, not modelled): the decimal text of a finite float
   (strconv.AppendFloat 'f' -1), the RFC3339Nano text of an instant (time.AppendFormat),
   Arrow's ValueStr text for types without a native encoder, the Arrow arrays themselves.

   The SPEC side (decoders written independently of the encoders): json_scan (RFC 8259
   string token), parse_int, json_number_ok, utf8_valid (RFC 3629), mp_dec_int / mp_dec_str /
   mp_dec_bin / mp_dec_time (MessagePack spec incl. timestamp extension -1). *)
From Coq Require Import List NArith ZArith Bool Decimal DecimalN.
Import ListNotations.
Open Scope N_scope.

Definition bytes := list N.

(* ASCII helpers *)
Definition str_null : bytes := [110;117;108;108].
Definition str_true : bytes := [116;114;117;101].
Definition str_false : bytes := [102;97;108;115;101].

(* ------------------------------------------------------------------------------------ *)
(* writeJSONString                                                                       *)
(* ------------------------------------------------------------------------------------ *)

(* linear-time list reversal (List.rev is quadratic under vm_compute) *)
Definition frev (l : bytes) : bytes := rev_append l [].

Fixpoint bytes_eqb (a b : bytes) : bool :=
  match a, b with
  | [], [] => true
  | x :: a', y :: b' => (x =? y) && bytes_eqb a' b'
  | _, _ => false
  end.

Fixpoint list_eqb {A} (f : A -> A -> bool) (a b : list A) : bool :=
  match a, b with
  | [], [] => true
  | x :: a', y :: b' => f x y && list_eqb f a' b'
  | _, _ => false
  end.

(* hexDigit: if b < 10 { '0'+b } else { 'a'+b-10 } *)
Definition hex_digit (b : N) : N := if b <? 10 then 48 + b else 97 + b - 10.

(* c == QUOTE || c == BACKSLASH || c < 0x20 *)
Definition needs_escape (c : N) : bool := (c =? 34) || (c =? 92) || (c <? 32).

(* the inner switch *)
Definition escape_seq (c : N) : bytes :=
  if c =? 34 then [92;34]
  else if c =? 92 then [92;92]
  else if c =? 10 then [92;110]
  else if c =? 13 then [92;114]
  else if c =? 9 then [92;116]
  else if c =? 8 then [92;98]
  else if c =? 12 then [92;102]
  else [92;117;48;48; hex_digit (c / 16); hex_digit (c mod 16)].   (* c>>4, c&0x0f *)

(* the scan loop: `rseg` is the pending clean segment s[start:i], `rout` what was written so
   far - both kept REVERSED so that evaluation is linear *)
Fixpoint wjs_loop (s rseg rout : bytes) : bytes :=
  match s with
  | [] => frev (rseg ++ rout)                           (* remaining clean segment *)
  | c :: r => if needs_escape c then wjs_loop r [] (frev (escape_seq c) ++ rseg ++ rout)
              else wjs_loop r (c :: rseg) rout
  end.

Definition write_json_string (s : bytes) : bytes := 34 :: wjs_loop s [] [] ++ [34].

(* flat characterisation used by the proofs *)
Definition enc_byte (c : N) : bytes := if needs_escape c then escape_seq c else [c].

Fixpoint join_comma (l : list bytes) : bytes :=
  match l with
  | [] => []
  | [x] => x
  | x :: r => x ++ 44 :: join_comma r
  end.

(* writeJSONStringArray *)
Definition write_json_string_array (ss : list bytes) : bytes :=
  91 :: join_comma (map write_json_string ss) ++ [93].

(* ---- SPEC: JSON string token scanner (RFC 8259 section 7) --------------------------- *)

Definition hex_val (c : N) : option N :=
  if (48 <=? c) && (c <=? 57) then Some (c - 48)
  else if (97 <=? c) && (c <=? 102) then Some (c - 87)
  else if (65 <=? c) && (c <=? 70) then Some (c - 55)
  else None.

(* UTF-8 encoding of a BMP code point (surrogate halves are rejected by the scanner) *)
Definition utf8_encode (cp : N) : bytes :=
  if cp <? 128 then [cp]
  else if cp <? 2048 then [192 + cp / 64; 128 + cp mod 64]
  else [224 + cp / 4096; 128 + (cp / 64) mod 64; 128 + cp mod 64].

Inductive jst := JNormal | JEsc | JU (k : nat) (acc : N).

(* scans the body of a string token after the opening quote; returns the decoded bytes and
   the rest of the input after the closing quote (`acc` = decoded bytes so far, reversed) *)
Fixpoint jscan (st : jst) (acc : bytes) (s : bytes) : option (bytes * bytes) :=
  match s with
  | [] => None
  | c :: r =>
      match st with
      | JNormal =>
          if c =? 34 then Some (frev acc, r)
          else if c =? 92 then jscan JEsc acc r
          else if c <? 32 then None                    (* raw control character *)
          else jscan JNormal (c :: acc) r
      | JEsc =>
          if c =? 34 then jscan JNormal (34 :: acc) r
          else if c =? 92 then jscan JNormal (92 :: acc) r
          else if c =? 47 then jscan JNormal (47 :: acc) r
          else if c =? 98 then jscan JNormal (8 :: acc) r
          else if c =? 102 then jscan JNormal (12 :: acc) r
          else if c =? 110 then jscan JNormal (10 :: acc) r
          else if c =? 114 then jscan JNormal (13 :: acc) r
          else if c =? 116 then jscan JNormal (9 :: acc) r
          else if c =? 117 then jscan (JU 4 0) acc r
          else None
      | JU k a =>
          match hex_val c with
          | None => None
          | Some v =>
              let a' := a * 16 + v in
              match k with
              | 1%nat => if (55296 <=? a') && (a' <=? 57343) then None
                         else jscan JNormal (frev (utf8_encode a') ++ acc) r
              | S k' => jscan (JU k' a') acc r
              | O => None
              end
          end
      end
  end.

Definition json_scan (s : bytes) : option (bytes * bytes) :=
  match s with
  | c :: r => if c =? 34 then jscan JNormal [] r else None
  | [] => None
  end.

(* ---- SPEC: UTF-8 well-formedness (RFC 3629, Unicode table 3-7) ---------------------- *)

Inductive ust := UOk | UNeed (lo hi : N) (k : nat) | UBad.

Definition ustep (st : ust) (c : N) : ust :=
  match st with
  | UBad => UBad
  | UOk =>
      if c <? 128 then UOk
      else if (194 <=? c) && (c <=? 223) then UNeed 128 191 0
      else if c =? 224 then UNeed 160 191 1
      else if ((225 <=? c) && (c <=? 236)) || (c =? 238) || (c =? 239) then UNeed 128 191 1
      else if c =? 237 then UNeed 128 159 1
      else if c =? 240 then UNeed 144 191 2
      else if (241 <=? c) && (c <=? 243) then UNeed 128 191 2
      else if c =? 244 then UNeed 128 143 2
      else UBad
  | UNeed lo hi k =>
      if (lo <=? c) && (c <=? hi)
      then match k with O => UOk | S k' => UNeed 128 191 k' end
      else UBad
  end.

Definition utf8_valid (s : bytes) : bool :=
  match fold_left ustep s UOk with UOk => true | _ => false end.

(* ------------------------------------------------------------------------------------ *)
(* integers and floats in JSON                                                           *)
(* ------------------------------------------------------------------------------------ *)

Fixpoint uint_bytes (d : Decimal.uint) : bytes :=
  match d with
  | Nil => []
  | D0 r => 48 :: uint_bytes r | D1 r => 49 :: uint_bytes r | D2 r => 50 :: uint_bytes r
  | D3 r => 51 :: uint_bytes r | D4 r => 52 :: uint_bytes r | D5 r => 53 :: uint_bytes r
  | D6 r => 54 :: uint_bytes r | D7 r => 55 :: uint_bytes r | D8 r => 56 :: uint_bytes r
  | D9 r => 57 :: uint_bytes r
  end.

(* strconv.AppendUint(_, n, 10) *)
Definition dec_N (n : N) : bytes := uint_bytes (N.to_uint n).

(* strconv.AppendInt(_, z, 10) *)
Definition write_int (z : Z) : bytes :=
  match z with
  | Z0 => [48]
  | Zpos p => dec_N (Npos p)
  | Zneg p => 45 :: dec_N (Npos p)
  end.

(* SPEC: decimal numeral -> number *)
Fixpoint bytes_uint (s : bytes) : option Decimal.uint :=
  match s with
  | [] => Some Nil
  | c :: r =>
      match bytes_uint r with
      | None => None
      | Some d =>
          if c =? 48 then Some (D0 d) else if c =? 49 then Some (D1 d) else if c =? 50 then Some (D2 d)
          else if c =? 51 then Some (D3 d) else if c =? 52 then Some (D4 d) else if c =? 53 then Some (D5 d)
          else if c =? 54 then Some (D6 d) else if c =? 55 then Some (D7 d) else if c =? 56 then Some (D8 d)
          else if c =? 57 then Some (D9 d) else None
      end
  end.

Definition parse_nat_dec (s : bytes) : option N :=
  match s with
  | [] => None
  | _ => match bytes_uint s with Some d => Some (N.of_uint d) | None => None end
  end.

Definition parse_int (s : bytes) : option Z :=
  match s with
  | [] => None
  | c :: r =>
      if c =? 45
      then match parse_nat_dec r with Some n => Some (- Z.of_N n)%Z | None => None end
      else match parse_nat_dec s with Some n => Some (Z.of_N n) | None => None end
  end.

(* math.IsNaN(v) || math.IsInf(v, 0) on the IEEE-754 bit pattern *)
Definition f64_nonfinite (bits : N) : bool := (bits / 4503599627370496) mod 2048 =? 2047.
Definition f32_nonfinite (bits : N) : bool := (bits / 8388608) mod 256 =? 255.

(* the float branch of writeArrowValue; txt = strconv.AppendFloat(_, v, 'f', -1, 64) (oracle) *)
Definition json_float (nonfinite : bool) (txt : bytes) : bytes :=
  if nonfinite then str_null else txt.

(* SPEC: RFC 8259 number grammar  -? (0 | [1-9][0-9]* ) (. [0-9]+)? ([eE][+-]?[0-9]+)? *)
Definition is_digit (c : N) : bool := (48 <=? c) && (c <=? 57).
Fixpoint skip_digits (s : bytes) : bytes :=
  match s with c :: r => if is_digit c then skip_digits r else s | [] => [] end.
Definition digits1 (s : bytes) : option bytes :=
  match s with c :: r => if is_digit c then Some (skip_digits r) else None | [] => None end.
Definition json_number_ok (s : bytes) : bool :=
  let s1 := match s with 45 :: r => r | _ => s end in
  let after_int := match s1 with
                   | 48 :: r => Some r
                   | c :: r => if is_digit c then Some (skip_digits r) else None
                   | [] => None end in
  match after_int with
  | None => false
  | Some s2 =>
      let after_frac := match s2 with 46 :: r => digits1 r | _ => Some s2 end in
      match after_frac with
      | None => false
      | Some s3 =>
          match s3 with
          | [] => true
          | c :: r =>
              if (c =? 101) || (c =? 69) then
                let r' := match r with d :: r2 => if (d =? 43) || (d =? 45) then r2 else r | [] => r end in
                match digits1 r' with Some [] => true | _ => false end
              else false
          end
      end
  end.

(* ------------------------------------------------------------------------------------ *)
(* MessagePack primitives (msgpack/v6 encode_number.go, encode_slice.go, time.go)         *)
(* ------------------------------------------------------------------------------------ *)

(* big-endian, k bytes: write1/write2/write4/write8 payload *)
Fixpoint be (k : nat) (v : N) : bytes :=
  match k with
  | O => []
  | S k' => (v / 256 ^ N.of_nat k') mod 256 :: be k' v
  end.

(* uintN(z): two's complement of a Go signed integer in w bits *)
Definition twos (w : N) (z : Z) : N := Z.to_N (z mod 2 ^ Z.of_N w)%Z.

(* EncodeUint *)
Definition mp_uint (n : N) : bytes :=
  if n <=? 127 then [n]
  else if n <=? 255 then 204 :: be 1 n
  else if n <=? 65535 then 205 :: be 2 n
  else if n <=? 4294967295 then 206 :: be 4 n
  else 207 :: be 8 n.

(* EncodeInt *)
Definition mp_int (z : Z) : bytes :=
  if (0 <=? z)%Z then mp_uint (Z.to_N z)
  else if (-32 <=? z)%Z then [twos 8 z]
  else if (-128 <=? z)%Z then 208 :: be 1 (twos 8 z)
  else if (-32768 <=? z)%Z then 209 :: be 2 (twos 16 z)
  else if (-2147483648 <=? z)%Z then 210 :: be 4 (twos 32 z)
  else 211 :: be 8 (twos 64 z).

Definition mp_int64 (z : Z) : bytes := 211 :: be 8 (twos 64 z).     (* EncodeInt64 *)
Definition mp_uint64 (n : N) : bytes := 207 :: be 8 n.               (* EncodeUint64 *)
Definition mp_nil : bytes := [192].
Definition mp_bool (b : bool) : bytes := if b then [195] else [194].
Definition mp_f64 (bits : N) : bytes := 203 :: be 8 bits.            (* EncodeFloat64 *)
Definition mp_f32 (bits : N) : bytes := 202 :: be 4 bits.            (* EncodeFloat32 *)

Definition blen (s : bytes) : N := N.of_nat (length s).

(* encodeStringLen / EncodeString *)
Definition mp_str_hdr (l : N) : bytes :=
  if l <? 32 then [160 + l]
  else if l <? 256 then 217 :: be 1 l
  else if l <=? 65535 then 218 :: be 2 l
  else 219 :: be 4 l.
Definition mp_str (s : bytes) : bytes := mp_str_hdr (blen s) ++ s.

(* EncodeBytesLen / EncodeBytes (non-nil slice) *)
Definition mp_bin_hdr (l : N) : bytes :=
  if l <? 256 then 196 :: be 1 l
  else if l <=? 65535 then 197 :: be 2 l
  else 198 :: be 4 l.
Definition mp_bin (s : bytes) : bytes := mp_bin_hdr (blen s) ++ s.

(* EncodeArrayLen / EncodeMapLen *)
Definition mp_arr_hdr (l : N) : bytes :=
  if l <? 16 then [144 + l] else if l <=? 65535 then 220 :: be 2 l else 221 :: be 4 l.
Definition mp_map_hdr (l : N) : bytes :=
  if l <? 16 then [128 + l] else if l <=? 65535 then 222 :: be 2 l else 223 :: be 4 l.

(* Arrow time units *)
Inductive tunit := USec | UMilli | UMicro | UNano.
Definition per_sec (u : tunit) : Z :=
  match u with USec => 1 | UMilli => 1000 | UMicro => 1000000 | UNano => 1000000000 end%Z.

(* arrow.Timestamp.ToTime(unit): time.Unix(v,0) / UnixMilli / UnixMicro / Unix(0,v); Go
   normalises to 0 <= nsec < 1e9 (floor division).  Result: (Unix seconds, nanosecond) *)
Definition to_time (u : tunit) (v : Z) : Z * Z :=
  (v / per_sec u, (v mod per_sec u) * (1000000000 / per_sec u))%Z.

(* Encoder.EncodeTime: secs := uint64(tm.Unix()); timestamp 32 / 64 / 96 *)
Definition mp_time (sec nsec : Z) : bytes :=
  let secs := twos 64 sec in
  let ns := Z.to_N nsec in
  if secs / 17179869184 =? 0 then               (* secs>>34 == 0 *)
    let data := ns * 17179869184 + secs in        (* nsec<<34 | secs *)
    if data / 4294967296 =? 0 then 214 :: 255 :: be 4 data      (* fixext4, type -1 *)
    else 215 :: 255 :: be 8 data                                  (* fixext8 *)
  else 199 :: 12 :: 255 :: be 4 ns ++ be 8 secs.                  (* ext8 len 12 *)

Definition mp_ts (u : tunit) (v : Z) : bytes := let '(s, n) := to_time u v in mp_time s n.
(* arrow.Date32.ToTime(): epoch + d days *)
Definition mp_date32 (d : Z) : bytes := mp_time (d * 86400)%Z 0%Z.

(* ---- SPEC: MessagePack decoders (msgpack spec) -------------------------------------- *)

Fixpoint take_be (k : nat) (s : bytes) : option (N * bytes) :=
  match k with
  | O => Some (0, s)
  | S k' => match s with
            | [] => None
            | c :: r => match take_be k' r with
                        | Some (lo, rest) => Some (c * 256 ^ N.of_nat k' + lo, rest)
                        | None => None end
            end
  end.

Definition signed (w : N) (n : N) : Z :=
  if n <? 2 ^ (w - 1) then Z.of_N n else (Z.of_N n - 2 ^ Z.of_N w)%Z.

Definition mp_dec_int (s : bytes) : option (Z * bytes) :=
  match s with
  | [] => None
  | c :: r =>
      if c <=? 127 then Some (Z.of_N c, r)
      else if 224 <=? c then Some (Z.of_N c - 256, r)%Z
      else if c =? 204 then match take_be 1 r with Some (n, t) => Some (Z.of_N n, t) | None => None end
      else if c =? 205 then match take_be 2 r with Some (n, t) => Some (Z.of_N n, t) | None => None end
      else if c =? 206 then match take_be 4 r with Some (n, t) => Some (Z.of_N n, t) | None => None end
      else if c =? 207 then match take_be 8 r with Some (n, t) => Some (Z.of_N n, t) | None => None end
      else if c =? 208 then match take_be 1 r with Some (n, t) => Some (signed 8 n, t) | None => None end
      else if c =? 209 then match take_be 2 r with Some (n, t) => Some (signed 16 n, t) | None => None end
      else if c =? 210 then match take_be 4 r with Some (n, t) => Some (signed 32 n, t) | None => None end
      else if c =? 211 then match take_be 8 r with Some (n, t) => Some (signed 64 n, t) | None => None end
      else None
  end.

Fixpoint take_n (n : nat) (s : bytes) : option (bytes * bytes) :=
  match n with
  | O => Some ([], s)
  | S n' => match s with
            | [] => None
            | c :: r => match take_n n' r with Some (a, b) => Some (c :: a, b) | None => None end
            end
  end.

Definition mp_dec_str (s : bytes) : option (bytes * bytes) :=
  match s with
  | [] => None
  | c :: r =>
      if (160 <=? c) && (c <=? 191) then take_n (N.to_nat (c - 160)) r
      else if c =? 217 then match take_be 1 r with Some (n, t) => take_n (N.to_nat n) t | None => None end
      else if c =? 218 then match take_be 2 r with Some (n, t) => take_n (N.to_nat n) t | None => None end
      else if c =? 219 then match take_be 4 r with Some (n, t) => take_n (N.to_nat n) t | None => None end
      else None
  end.

Definition mp_dec_bin (s : bytes) : option (bytes * bytes) :=
  match s with
  | [] => None
  | c :: r =>
      if c =? 196 then match take_be 1 r with Some (n, t) => take_n (N.to_nat n) t | None => None end
      else if c =? 197 then match take_be 2 r with Some (n, t) => take_n (N.to_nat n) t | None => None end
      else if c =? 198 then match take_be 4 r with Some (n, t) => take_n (N.to_nat n) t | None => None end
      else None
  end.

(* timestamp extension type -1: returns ((seconds, nanoseconds), rest) *)
Definition mp_dec_time (s : bytes) : option ((Z * Z) * bytes) :=
  match s with
  | c :: t :: r =>
      if (c =? 214) && (t =? 255) then
        match take_be 4 r with Some (n, rest) => Some ((Z.of_N n, 0%Z), rest) | None => None end
      else if (c =? 215) && (t =? 255) then
        match take_be 8 r with
        | Some (n, rest) => Some ((Z.of_N (n mod 17179869184), Z.of_N (n / 17179869184)), rest)
        | None => None end
      else if (c =? 199) && (t =? 12) then
        match r with
        | ty :: r' =>
            if ty =? 255 then
              match take_be 4 r' with
              | Some (ns, r2) => match take_be 8 r2 with
                                 | Some (sc, rest) => Some ((signed 64 sc, Z.of_N ns), rest)
                                 | None => None end
              | None => None end
            else None
        | [] => None end
      else None
  | _ => None
  end.

(* ------------------------------------------------------------------------------------ *)
(* Arrow column types, cells, the two cell encoders                                      *)
(* ------------------------------------------------------------------------------------ *)

(* Arrow types without a typed case in writeArrowValue / encodeColumn *)
Inductive okind :=
  | OLargeBinary | ODate64 | OTime32 | OTime64 | ODuration | OIntervalMonths | OIntervalDayTime
  | OIntervalMDN | OFloat16 | OFixedSizeBinary | ODecimal (prec scale : N)
  | OList | OLargeList | OFixedSizeList | OStruct | OMap | ONull
  | OUnknown (arrow_string : bytes).                    (* dt.String(), oracle *)

Inductive ctype :=
  | TBool | TI8 | TI16 | TI32 | TI64 | TU8 | TU16 | TU32 | TU64 | TF32 | TF64
  | TTs (u : tunit) | TDate32 | TStr | TLStr | TBin | TOther (k : okind).

(* cell values; `txt` fields are oracle texts (see header) *)
Inductive cell :=
  | Null
  | VBool (b : bool)
  | VInt (z : Z)
  | VFloat (bits : N) (txt : bytes)
  | VTime (v : Z) (txt : bytes)
  | VBytes (b : bytes).          (* string / binary payload, or ValueStr text for TOther *)

Definition quote (t : bytes) : bytes := 34 :: t ++ [34].

(* writeArrowValue *)
Definition json_cell (t : ctype) (c : cell) : bytes :=
  match c with
  | Null => str_null
  | VBool b => if b then str_true else str_false
  | VInt z => write_int z
  | VFloat bits txt =>
      match t with
      | TF32 => json_float (f32_nonfinite bits) txt
      | _ => json_float (f64_nonfinite bits) txt
      end
  | VTime _ txt => quote txt
  | VBytes b => write_json_string b
  end.

(* ---- BLOB cells in JSON: the deployed code (BlobRaw) and the proposed repair
   (BlobDuckText: DuckDB's text form of the blob, Blob::ToString - printable ASCII except
   backslash and quotes as is, every other byte as \xHH upper case).  Which one the current source
   uses is re-extracted on every run (gen/Params_Codec.v). *)
Inductive blob_mode := BlobRaw | BlobDuckText.

Definition hex_upper (b : N) : N := if b <? 10 then 48 + b else 65 + b - 10.
Definition blob_regular (c : N) : bool :=
  (32 <=? c) && (c <=? 126) && negb (c =? 92) && negb (c =? 39) && negb (c =? 34).
Definition blob_text_byte (c : N) : bytes :=
  if blob_regular c then [c] else [92; 120; hex_upper (c / 16); hex_upper (c mod 16)].
Definition blob_text (b : bytes) : bytes := flat_map blob_text_byte b.

(* writeJSONBlob (fix): the text form written directly as a JSON string token *)
Definition blob_json_byte (c : N) : bytes :=
  if blob_regular c then [c] else [92; 92; 120; hex_upper (c / 16); hex_upper (c mod 16)].
Definition write_json_blob (b : bytes) : bytes := 34 :: flat_map blob_json_byte b ++ [34].

(* SPEC: parser of DuckDB's blob text form *)
Definition hex_upper_val (c : N) : option N :=
  if (48 <=? c) && (c <=? 57) then Some (c - 48)
  else if (65 <=? c) && (c <=? 70) then Some (c - 55) else None.
Inductive bst := BNormal | BSlash | BX | BH (hi : N).
Fixpoint blob_scan (st : bst) (acc : bytes) (s : bytes) : option bytes :=
  match s with
  | [] => match st with BNormal => Some (frev acc) | _ => None end
  | c :: r =>
      match st with
      | BNormal => if c =? 92 then blob_scan BSlash acc r
                   else if blob_regular c then blob_scan BNormal (c :: acc) r else None
      | BSlash => if c =? 120 then blob_scan BX acc r else None
      | BX => match hex_upper_val c with Some h => blob_scan (BH h) acc r | None => None end
      | BH h => match hex_upper_val c with Some l => blob_scan BNormal (h * 16 + l :: acc) r | None => None end
      end
  end.
Definition blob_text_decode (s : bytes) : option bytes := blob_scan BNormal [] s.

Definition json_cell_m (m : blob_mode) (t : ctype) (c : cell) : bytes :=
  match m, t, c with
  | BlobDuckText, TBin, VBytes b => write_json_blob b
  | _, _, _ => json_cell t c
  end.

(* encodeColumn + encode<T>Column bodies: which primitive each Arrow type uses *)
Definition mp_cell (t : ctype) (c : cell) : bytes :=
  match c with
  | Null => mp_nil
  | VBool b => mp_bool b
  | VInt z =>
      match t with
      | TI64 => mp_int64 z
      | TU64 => mp_uint64 (Z.to_N z)
      | TU8 | TU16 | TU32 => mp_uint (Z.to_N z)
      | _ => mp_int z                                   (* Int32/Int16/Int8: EncodeInt *)
      end
  | VFloat bits _ => match t with TF32 => mp_f32 bits | _ => mp_f64 bits end
  | VTime v _ => match t with TTs u => mp_ts u v | _ => mp_date32 v end
  | VBytes b => match t with TBin => mp_bin b | _ => mp_str b end
  end.

(* well-typed cells (what an Arrow array of that type can hold) *)
Definition in_range (lo hi z : Z) : bool := ((lo <=? z) && (z <=? hi))%Z.
Definition cell_ok (t : ctype) (c : cell) : bool :=
  match c, t with
  | Null, _ => true
  | VBool _, TBool => true
  | VInt z, TI8 => in_range (-128) 127 z
  | VInt z, TI16 => in_range (-32768) 32767 z
  | VInt z, TI32 => in_range (-2147483648) 2147483647 z
  | VInt z, TI64 => in_range (-9223372036854775808) 9223372036854775807 z
  | VInt z, TU8 => in_range 0 255 z
  | VInt z, TU16 => in_range 0 65535 z
  | VInt z, TU32 => in_range 0 4294967295 z
  | VInt z, TU64 => in_range 0 18446744073709551615 z
  | VFloat b _, TF32 => b <? 4294967296
  | VFloat b _, TF64 => b <? 18446744073709551616
  | VTime v _, TTs _ => in_range (-9223372036854775808) 9223372036854775807 v
  | VTime v _, TDate32 => in_range (-2147483648) 2147483647 v
  | VBytes _, (TStr | TLStr | TBin | TOther _) => true
  | _, _ => false
  end.

(* ------------------------------------------------------------------------------------ *)
(* arrowTypeName                                                                          *)
(* ------------------------------------------------------------------------------------ *)

Definition s_unit (u : tunit) : bytes :=
  match u with USec => [115] | UMilli => [109;115] | UMicro => [117;115] | UNano => [110;115] end.

Definition s_string_encoded : bytes := [115;116;114;105;110;103;95;101;110;99;111;100;101;100].
Definition s_list : bytes := [108;105;115;116].

Definition okind_name (k : okind) : bytes :=
  match k with
  | OLargeBinary => [108;97;114;103;101;95;98;105;110;97;114;121]
  | ODate64 | OTime32 | OTime64 | ODuration | OIntervalMonths | OIntervalDayTime | OIntervalMDN
  | OFloat16 | OFixedSizeBinary => s_string_encoded
  | ODecimal p s =>     (* fmt.Sprintf("decimal(%d, %d)", precision, scale) *)
      [100;101;99;105;109;97;108;40] ++ dec_N p ++ [44;32] ++ dec_N s ++ [41]
  | OList | OLargeList | OFixedSizeList => s_list
  | OStruct => [115;116;114;117;99;116]
  | OMap => [109;97;112]
  | ONull => str_null
  | OUnknown a => [117;110;107;110;111;119;110;58] ++ a      (* "unknown:" + dt.String() *)
  end.

Definition type_name (t : ctype) : bytes :=
  match t with
  | TBool => [98;111;111;108]
  | TI8 => [105;110;116;56] | TI16 => [105;110;116;49;54] | TI32 => [105;110;116;51;50] | TI64 => [105;110;116;54;52]
  | TU8 => [117;105;110;116;56] | TU16 => [117;105;110;116;49;54] | TU32 => [117;105;110;116;51;50]
  | TU64 => [117;105;110;116;54;52]
  | TF32 => [102;108;111;97;116;51;50] | TF64 => [102;108;111;97;116;54;52]
  | TTs u => [116;105;109;101;115;116;97;109;112;91] ++ s_unit u ++ [93]      (* timestamp[<unit>] *)
  | TDate32 => [100;97;116;101;51;50]
  | TStr => [117;116;102;56]
  | TLStr => [108;97;114;103;101;95;117;116;102;56]
  | TBin => [98;105;110;97;114;121]
  | TOther k => okind_name k
  end.

(* what is on the MessagePack wire for a non-null cell of the column *)
Inductive wclass :=
  | WBool | WInt (signed : bool) (width : N) | WF32 | WF64 | WTime (u : tunit) | WDate | WStr | WBin
  | WText.                        (* ValueStr text in a msgpack str *)

Definition wire_class (t : ctype) : wclass :=
  match t with
  | TBool => WBool
  | TI8 => WInt true 8 | TI16 => WInt true 16 | TI32 => WInt true 32 | TI64 => WInt true 64
  | TU8 => WInt false 8 | TU16 => WInt false 16 | TU32 => WInt false 32 | TU64 => WInt false 64
  | TF32 => WF32 | TF64 => WF64
  | TTs u => WTime u | TDate32 => WDate
  | TStr | TLStr => WStr | TBin => WBin
  | TOther _ => WText
  end.

(* SPEC of the published contract, written from the client's side: how a consumer that only
   sees the name in "types" must decode the column's non-null cells *)
Definition class_of_name (n : bytes) : wclass :=
  let is := bytes_eqb n in
  if is [98;111;111;108] then WBool
  else if is [105;110;116;56] then WInt true 8 else if is [105;110;116;49;54] then WInt true 16
  else if is [105;110;116;51;50] then WInt true 32 else if is [105;110;116;54;52] then WInt true 64
  else if is [117;105;110;116;56] then WInt false 8 else if is [117;105;110;116;49;54] then WInt false 16
  else if is [117;105;110;116;51;50] then WInt false 32 else if is [117;105;110;116;54;52] then WInt false 64
  else if is [102;108;111;97;116;51;50] then WF32 else if is [102;108;111;97;116;54;52] then WF64
  else if is [116;105;109;101;115;116;97;109;112;91;115;93] then WTime USec
  else if is [116;105;109;101;115;116;97;109;112;91;109;115;93] then WTime UMilli
  else if is [116;105;109;101;115;116;97;109;112;91;117;115;93] then WTime UMicro
  else if is [116;105;109;101;115;116;97;109;112;91;110;115;93] then WTime UNano
  else if is [100;97;116;101;51;50] then WDate
  else if is [117;116;102;56] then WStr else if is [108;97;114;103;101;95;117;116;102;56] then WStr
  else if is [98;105;110;97;114;121] then WBin
  else WText.

(* ------------------------------------------------------------------------------------ *)
(* row limit, response envelopes                                                          *)
(* ------------------------------------------------------------------------------------ *)

Section Limit.
  Context {A : Type}.

  (* streamArrowJSON: rows of one batch; (emitted rows, new rowCount, reached `goto done`) *)
  Fixpoint emit_batch (limit rc : N) (rows : list A) : list A * N * bool :=
    match rows with
    | [] => ([], rc, false)
    | r :: rest =>
        if (0 <? limit) && (limit <=? rc) then ([], rc, true)
        else let '(o, rc', d) := emit_batch limit (rc + 1) rest in (r :: o, rc', d)
    end.

  Fixpoint emit_batches (limit rc : N) (bs : list (list A)) : list A * N :=
    match bs with
    | [] => ([], rc)
    | b :: r =>
        let '(o, rc', d) := emit_batch limit rc b in
        if d then (o, rc')
        else let '(o2, rc2) := emit_batches limit rc' r in (o ++ o2, rc2)
    end.

  (* drainArrowBatches: retained batches and rowCount *)
  Fixpoint drain (cap rc : N) (bs : list (list A)) : list (list A) * N :=
    match bs with
    | [] => ([], rc)
    | b :: r =>
        let n := N.of_nat (length b) in
        if 0 <? cap then
          if cap <=? rc then ([], rc)
          else if cap <? rc + n then ([firstn (N.to_nat (cap - rc)) b], cap)
          else let '(o, rc') := drain cap (rc + n) r in (b :: o, rc')
        else let '(o, rc') := drain cap (rc + n) r in (b :: o, rc')
    end.
End Limit.

(* SPEC of the governance row limit: the first `limit` rows (0 = unlimited) *)
Definition limited {A} (limit : N) (rows : list A) : list A :=
  if 0 <? limit then firstn (N.to_nat limit) rows else rows.

Definition is_int_type (t : ctype) : bool :=
  match t with TI8 | TI16 | TI32 | TI64 | TU8 | TU16 | TU32 | TU64 => true | _ => false end.

Definition row := list cell.

Definition json_row (m : blob_mode) (types : list ctype) (r : row) : bytes :=
  91 :: join_comma (map (fun tc => json_cell_m m (fst tc) (snd tc)) (combine types r)) ++ [93].

(* {"success":true,"columns": *)
Definition s_json_open : bytes :=
  [123;34;115;117;99;99;101;115;115;34;58;116;114;117;101;44;34;99;111;108;117;109;110;115;34;58].
(* ,"data":[ *)
Definition s_json_data : bytes := [44;34;100;97;116;97;34;58;91].
(* ],"row_count": *)
Definition s_json_rc : bytes := [93;44;34;114;111;119;95;99;111;117;110;116;34;58].

(* streamArrowJSON up to and including the row_count value *)
Definition json_body (m : blob_mode) (names : list bytes) (types : list ctype) (limit : N) (bs : list (list row))
  : bytes * N :=
  let '(rows, rc) := emit_batches limit 0 bs in
  (s_json_open ++ write_json_string_array names ++ s_json_data
     ++ join_comma (map (json_row m types) rows) ++ s_json_rc ++ write_int (Z.of_N rc), rc).

Definition s_success : bytes := [115;117;99;99;101;115;115].
Definition s_columns : bytes := [99;111;108;117;109;110;115].
Definition s_types : bytes := [116;121;112;101;115].
Definition s_data : bytes := [100;97;116;97].
Definition s_row_count : bytes := [114;111;119;95;99;111;117;110;116].

Fixpoint mp_columns (types : list ctype) (j : nat) (rc : N) (rows : list row) : bytes :=
  match types with
  | [] => []
  | t :: ts =>
      mp_arr_hdr rc ++ concat (map (fun r => mp_cell t (nth j r Null)) rows)
        ++ mp_columns ts (S j) rc rows
  end.

(* drainArrowBatches + streamMsgPackFromBatches (profile == nil) up to the row_count value *)
Definition mp_body (names : list bytes) (types : list ctype) (limit : N) (bs : list (list row))
  : bytes * N * list N :=
  let '(kept, rc) := drain limit 0 bs in
  let ncols := N.of_nat (length types) in
  (mp_map_hdr 7 ++ mp_str s_success ++ mp_bool true
     ++ mp_str s_columns ++ mp_arr_hdr ncols ++ concat (map mp_str names)
     ++ mp_str s_types ++ mp_arr_hdr ncols ++ concat (map (fun t => mp_str (type_name t)) types)
     ++ mp_str s_data ++ mp_arr_hdr ncols ++ mp_columns types 0 rc (concat kept)
     ++ mp_str s_row_count ++ mp_uint rc,
   rc, map (fun b => N.of_nat (length b)) kept).

(* ------------------------------------------------------------------------------------ *)
(* correspondence cases: observations of the real encoders, model agreement and oracle    *)
(* ------------------------------------------------------------------------------------ *)

Fixpoint forall2b {A B} (f : A -> B -> bool) (a : list A) (b : list B) : bool :=
  match a, b with
  | [], [] => true
  | x :: a', y :: b' => f x y && forall2b f a' b'
  | _, _ => false
  end.

(* ---- packed byte-string literals of the correspondence cases --------------------------
   A byte string b0 b1 ... b(n-1) is written in the generated case files as ONE number
   (sentinel 1 above the most significant byte, b0 least significant) because coqc
   elaborates long lists of numerals slowly.  `pk` unpacks it (tooling, no theorem). *)
Fixpoint unpack_pos (p : positive) (k : nat) (cur : N) : bytes :=
  match p with
  | xH => []
  | xO q => match k with
            | 7%nat => cur :: unpack_pos q 0 0
            | _ => unpack_pos q (S k) cur
            end
  | xI q => let cur' := cur + 2 ^ N.of_nat k in
            match k with
            | 7%nat => cur' :: unpack_pos q 0 0
            | _ => unpack_pos q (S k) cur'
            end
  end.
Definition pk (n : N) : bytes := match n with N0 => [] | Npos p => unpack_pos p 0 0 end.

Fixpoint pack_pos (l : bytes) : N := match l with [] => 1 | c :: r => c + 256 * pack_pos r end.

Inductive vcase :=
  | CJStr (s out : bytes)
  | CJArr (ss : list bytes) (out : bytes)
  | CCol (m : blob_mode) (t : ctype) (tname : bytes) (batches : list (list cell))
         (json : list (list bytes)) (mp : bytes)
  | CResult (m : blob_mode) (names : list bytes) (types : list ctype) (limit : N) (batches : list (list row))
            (jbody : bytes) (jrc : N) (mbody : bytes) (mrc : N) (drained : list N).

Definition case_agrees (c : vcase) : bool :=
  match c with
  | CJStr s out => bytes_eqb (write_json_string s) out
  | CJArr ss out => bytes_eqb (write_json_string_array ss) out
  | CCol m t tname batches json mp =>
      bytes_eqb (type_name t) tname
      && list_eqb (list_eqb bytes_eqb) (map (map (json_cell_m m t)) batches) json
      && bytes_eqb (concat (map (mp_cell t) (concat batches))) mp
  | CResult m names types limit bs jbody jrc mbody mrc drained =>
      let '(jb, rc1) := json_body m names types limit bs in
      let '(mb, rc2, dr) := mp_body names types limit bs in
      bytes_eqb jb jbody && (rc1 =? jrc) && bytes_eqb mb mbody && (rc2 =? mrc)
      && list_eqb N.eqb dr drained
  end.

(* ---- oracle: the SPEC decoders applied to the implementation's bytes ---------------- *)

Definition no_ctl (s : bytes) : bool := forallb (fun c => 32 <=? c) s.

Definition cell_wire_eqb (a b : cell) : bool :=
  match a, b with
  | Null, Null => true
  | VBool x, VBool y => Bool.eqb x y
  | VInt x, VInt y => (x =? y)%Z
  | VFloat x _, VFloat y _ => x =? y
  | VTime x _, VTime y _ => (x =? y)%Z
  | VBytes x, VBytes y => bytes_eqb x y
  | _, _ => false
  end.

(* typed MessagePack cell decoder built from the spec decoders; floats keep their bits,
   times are rescaled to the column unit *)
Definition mp_dec_cell_w (w : wclass) (s : bytes) : option (cell * bytes) :=
  match s with
  | [] => None
  | c :: r =>
      if c =? 192 then Some (Null, r)
      else match w with
      | WBool => if c =? 195 then Some (VBool true, r) else if c =? 194 then Some (VBool false, r) else None
      | WInt _ _ => match mp_dec_int s with Some (z, rest) => Some (VInt z, rest) | None => None end
      | WF32 => if c =? 202 then match take_be 4 r with Some (b, rest) => Some (VFloat b [], rest) | None => None end else None
      | WF64 => if c =? 203 then match take_be 8 r with Some (b, rest) => Some (VFloat b [], rest) | None => None end else None
      | WTime u => match mp_dec_time s with
                   | Some ((sec, ns), rest) =>
                       Some (VTime (sec * per_sec u + ns / (1000000000 / per_sec u))%Z [], rest)
                   | None => None end
      | WDate => match mp_dec_time s with
                 | Some ((sec, ns), rest) =>
                     if ((sec mod 86400 =? 0) && (ns =? 0))%Z then Some (VTime (sec / 86400)%Z [], rest) else None
                 | None => None end
      | WStr | WText => match mp_dec_str s with Some (b, rest) => Some (VBytes b, rest) | None => None end
      | WBin => match mp_dec_bin s with Some (b, rest) => Some (VBytes b, rest) | None => None end
      end
  end.

Fixpoint mp_dec_cells (w : wclass) (n : nat) (s : bytes) : option (list cell * bytes) :=
  match n with
  | O => Some ([], s)
  | S n' => match mp_dec_cell_w w s with
            | Some (c, r) => match mp_dec_cells w n' r with
                             | Some (cs, rest) => Some (c :: cs, rest) | None => None end
            | None => None end
  end.

(* JSON cell oracle: the token decodes to the value (strings / ints exactly; floats: null
   iff non-finite else a JSON number token; times: a quoted token without control bytes) *)
Definition json_cell_oracle (m : blob_mode) (t : ctype) (c : cell) (tok : bytes) : bool :=
  match c with
  | Null => bytes_eqb tok str_null
  | VBool b => bytes_eqb tok (if b then str_true else str_false)
  | VInt z => match parse_int tok with Some z' => (z =? z')%Z | None => false end
  | VFloat bits _ =>
      let nf := match t with TF32 => f32_nonfinite bits | _ => f64_nonfinite bits end in
      if nf then bytes_eqb tok str_null else json_number_ok tok
  | VTime _ txt => match json_scan tok with Some (d, []) => bytes_eqb d txt | _ => false end
  | VBytes b => no_ctl tok && utf8_valid tok          (* a JSON text must be UTF-8, RFC 8259 8.1 *)
                && match json_scan tok with
                   | Some (d, []) =>
                       match m, t with
                       | BlobDuckText, TBin => match blob_text_decode d with Some b' => bytes_eqb b' b | None => false end
                       | _, _ => bytes_eqb d b
                       end
                   | _ => false end
  end.

Fixpoint scan_json_strings (n : nat) (s : bytes) : option (list bytes * bytes) :=
  match n with
  | O => Some ([], s)
  | S n' =>
      match json_scan s with
      | Some (d, r) =>
          match n' with
          | O => Some ([d], r)
          | _ => match r with
                 | 44 :: r' => match scan_json_strings n' r' with
                               | Some (ds, rest) => Some (d :: ds, rest) | None => None end
                 | _ => None end
          end
      | None => None
      end
  end.

(* columnar decode of the msgpack data section: ncols arrays of rc typed cells *)
Fixpoint mp_dec_columns (types : list wclass) (rc : N) (s : bytes) : option (list (list cell) * bytes) :=
  match types with
  | [] => Some ([], s)
  | t :: ts =>
      match s with
      | [] => None
      | _ =>
        let hdr := mp_arr_hdr rc in
        match take_n (length hdr) s with
        | Some (h, r) =>
            if bytes_eqb h hdr then
              match mp_dec_cells t (N.to_nat rc) r with
              | Some (cs, r2) => match mp_dec_columns ts rc r2 with
                                 | Some (cols, rest) => Some (cs :: cols, rest) | None => None end
              | None => None end
            else None
        | None => None end
      end
  end.

Definition expected_rows (limit : N) (bs : list (list row)) : list row :=
  if 0 <? limit then firstn (N.to_nat limit) (concat bs) else concat bs.

Definition column_of (j : nat) (rows : list row) : list cell := map (fun r => nth j r Null) rows.

Fixpoint columns_from (j n : nat) (rows : list row) : list (list cell) :=
  match n with O => [] | S n' => column_of j rows :: columns_from (S j) n' rows end.

Fixpoint strip_prefix (p s : bytes) : option bytes :=
  match p, s with
  | [], _ => Some s
  | x :: p', y :: s' => if x =? y then strip_prefix p' s' else None
  | _, [] => None
  end.

Fixpoint mp_dec_names (ns : list bytes) (s : bytes) : option bytes :=
  match ns with
  | [] => Some s
  | n :: ns' => match mp_dec_str s with
                | Some (d, r) => if bytes_eqb d n then mp_dec_names ns' r else None
                | None => None end
  end.

Fixpoint mp_dec_strs (k : nat) (s : bytes) : option (list bytes * bytes) :=
  match k with
  | O => Some ([], s)
  | S k' => match mp_dec_str s with
            | Some (d, r) => match mp_dec_strs k' r with Some (ds, rest) => Some (d :: ds, rest) | None => None end
            | None => None end
  end.

Definition obind {A B} (o : option A) (f : A -> option B) : option B :=
  match o with Some a => f a | None => None end.

(* the msgpack body (up to row_count) decodes - with the spec decoders - to the column
   names, the expected rows (column-wise) and the row count *)
Definition mp_body_oracle (names : list bytes) (types : list ctype) (limit : N) (bs : list (list row))
           (body : bytes) (rc : N) : bool :=
  let rows := expected_rows limit bs in
  let ncols := N.of_nat (length types) in
  let res :=
    obind (strip_prefix (mp_map_hdr 7 ++ mp_str s_success ++ mp_bool true ++ mp_str s_columns ++ mp_arr_hdr ncols) body) (fun r1 =>
    obind (mp_dec_names names r1) (fun r2 =>
    obind (strip_prefix (mp_str s_types ++ mp_arr_hdr ncols) r2) (fun r3 =>
    obind (mp_dec_strs (length types) r3) (fun tn =>
    obind (strip_prefix (mp_str s_data ++ mp_arr_hdr ncols) (snd tn)) (fun r5 =>
    obind (mp_dec_columns (map class_of_name (fst tn)) rc r5) (fun cr =>
    obind (strip_prefix (mp_str s_row_count) (snd cr)) (fun r7 =>
    obind (mp_dec_int r7) (fun zr =>
      Some (list_eqb (list_eqb cell_wire_eqb) (fst cr) (columns_from 0 (length types) rows)
            && (fst zr =? Z.of_N rc)%Z
            && match snd zr with [] => true | _ => false end))))))))) in
  (rc =? N.of_nat (length rows)) && match res with Some true => true | _ => false end.

Definition case_oracle (c : vcase) : bool :=
  match c with
  | CJStr s out =>
      no_ctl out && implb (utf8_valid s) (utf8_valid out)
      && match json_scan out with Some (d, []) => bytes_eqb d s | _ => false end
  | CJArr ss out =>
      match out with
      | 91 :: r =>
          match ss with
          | [] => bytes_eqb r [93]
          | _ => match scan_json_strings (length ss) r with
                 | Some (ds, [93]) => list_eqb bytes_eqb ds ss
                 | _ => false end
          end
      | _ => false end
  | CCol m t tname batches json mp =>
      let cells := concat batches in
      forall2b (fun cs toks => forall2b (fun c tok => json_cell_oracle m t c tok) cs toks) batches json
      && match mp_dec_cells (class_of_name tname) (length cells) mp with
         | Some (ds, []) => list_eqb cell_wire_eqb ds cells
         | _ => false end
  | CResult m names types limit bs jbody jrc mbody mrc drained =>
      let rows := expected_rows limit bs in
      (jrc =? N.of_nat (length rows))
      && mp_body_oracle names types limit bs mbody mrc
      && (fold_right N.add 0 drained =? N.of_nat (length rows))
  end.
