(* C19 - Query responses faithfully encode DuckDB's results (PARTIAL: the encoders written in
   Arc; Arrow arrays, float/time text and DuckDB/Arrow text forms are oracles).
   Only property statements live here; proofs are in Proofs.v. *)
From Coq Require Import List NArith ZArith Bool.
From Arc Require Import Codec.Model Codec.Proofs.
Import ListNotations.
Open Scope N_scope.

(* JSON strings.  For EVERY byte string s (no UTF-8 or range guard) and every continuation t
   of the document, the RFC 8259 string scanner applied to the writer's output returns
   exactly s and stops exactly at the end of the token (so no quote inside the token is
   unescaped); the token contains no raw control byte. *)
Theorem C19_json_string_roundtrip : forall s t,
  json_scan (write_json_string s ++ t) = Some (s, t) /\ no_ctl (write_json_string s) = true.
Proof. intros s t. split; [apply json_string_roundtrip|apply no_ctl_json_string]. Qed.
Print Assumptions C19_json_string_roundtrip.

(* The writer neither repairs nor breaks UTF-8: the token is well-formed UTF-8 (RFC 8259
   section 8.1 requires it) exactly when the input is.  Guarded positive half ... *)
Theorem C19_json_string_utf8_guarded : forall t b,
  utf8_valid b = true -> utf8_valid (json_cell t (VBytes b)) = true.
Proof. intros t b H. now rewrite json_bytes_cell_utf8. Qed.
Print Assumptions C19_json_string_utf8_guarded.

Theorem C19_json_string_utf8_exact : forall s, utf8_valid (write_json_string s) = utf8_valid s.
Proof. exact utf8_valid_json_string. Qed.
Print Assumptions C19_json_string_utf8_exact.

(* ... and the guard is necessary: a BLOB cell (Arrow Binary goes through writeJSONString
   unchanged) with a byte that is not UTF-8 yields a token that is not UTF-8, i.e. the
   response is not a well-formed JSON text.  Witness: the one-byte blob FF. *)
Theorem C19_json_binary_utf8_refuted : exists b,
  cell_ok TBin (VBytes b) = true /\ Forall (fun x => x < 256) b /\
  utf8_valid (json_cell TBin (VBytes b)) = false.
Proof. exact json_binary_not_utf8. Qed.
Print Assumptions C19_json_binary_utf8_refuted.

(* the "columns" header: every non-empty list of column names decodes back *)
Theorem C19_json_column_names : forall names rest, names <> [] ->
  (match rest with 44 :: _ => False | _ => True end) ->
  scan_json_strings (length names) (join_comma (map write_json_string names) ++ rest) = Some (names, rest).
Proof. exact scan_json_strings_roundtrip. Qed.
Print Assumptions C19_json_column_names.

(* integers of every width and sign in JSON *)
Theorem C19_json_int_roundtrip : forall t z, parse_int (json_cell t (VInt z)) = Some z.
Proof. exact json_int_cell_roundtrip. Qed.
Print Assumptions C19_json_int_roundtrip.

(* number rule: for every bit pattern, a float cell is `null` exactly when the value is
   NaN or +-Inf, otherwise it is the formatter's text unchanged (a JSON number token whenever
   the formatter - oracle strconv.AppendFloat - produces one for finite values) *)
Theorem C19_json_float_null_rule : forall (fmt : N -> bytes),
  (forall bits, f64_nonfinite bits = false -> json_number_ok (fmt bits) = true) ->
  forall bits,
    let tok := json_cell TF64 (VFloat bits (fmt bits)) in
    (f64_nonfinite bits = true /\ tok = str_null) \/
    (f64_nonfinite bits = false /\ tok = fmt bits /\ json_number_ok tok = true).
Proof. exact json_float_rule. Qed.
Print Assumptions C19_json_float_null_rule.

Theorem C19_nonfinite_is_ieee : forall sign expo frac,
  sign < 2 -> expo < 2048 -> frac < 4503599627370496 ->
  f64_nonfinite (sign * 9223372036854775808 + expo * 4503599627370496 + frac) = (expo =? 2047).
Proof. exact f64_nonfinite_iff. Qed.
Print Assumptions C19_nonfinite_is_ieee.

(* MessagePack integers: for every integer column type (the encoder picks EncodeInt64 /
   EncodeUint64 for 64-bit columns and the size-class EncodeInt / EncodeUint otherwise) and
   every value an array of that type can hold, the msgpack-spec integer decoder returns the
   value and the exact rest of the stream. *)
Theorem C19_msgpack_int_roundtrip : forall t z rest,
  is_int_type t = true -> cell_ok t (VInt z) = true ->
  mp_dec_int (mp_cell t (VInt z) ++ rest) = Some (z, rest).
Proof. exact mp_int_cell_roundtrip. Qed.
Print Assumptions C19_msgpack_int_roundtrip.

(* Timestamps: for every unit and EVERY int64 value the timestamp-extension decoder returns
   seconds and nanoseconds with 0 <= ns < 1e9 that reconstruct the value exactly.  The unit
   conversion is a floor division, never a multiplication, so there is no overflow case. *)
Theorem C19_ts_units : forall u v txt rest,
  (-9223372036854775808 <= v <= 9223372036854775807)%Z ->
  exists sec ns,
    mp_dec_time (mp_cell (TTs u) (VTime v txt) ++ rest) = Some ((sec, ns), rest) /\
    (0 <= ns < 1000000000)%Z /\
    (sec * per_sec u + ns / (1000000000 / per_sec u) = v)%Z.
Proof.
  intros u v txt rest H. pose proof (to_time_exact u v) as X.
  pose proof (mp_ts_roundtrip u v rest H) as R. destruct (to_time u v) as [s n].
  exists s, n. cbn [mp_cell]. split; [exact R|exact X].
Qed.
Print Assumptions C19_ts_units.

Theorem C19_date32 : forall d txt rest, (-2147483648 <= d <= 2147483647)%Z ->
  mp_dec_time (mp_cell TDate32 (VTime d txt) ++ rest) = Some ((d * 86400, 0)%Z, rest).
Proof. intros. cbn [mp_cell]. now apply mp_date32_roundtrip. Qed.
Print Assumptions C19_date32.

(* strings (fixstr/str8/16/32 by length) and binary (bin8/16/32), below 4 GiB *)
Theorem C19_msgpack_str_bin_roundtrip : forall s rest, blen s < 4294967296 ->
  mp_dec_str (mp_str s ++ rest) = Some (s, rest) /\ mp_dec_bin (mp_bin s ++ rest) = Some (s, rest).
Proof. intros. split; [now apply mp_str_roundtrip|now apply mp_bin_roundtrip]. Qed.
Print Assumptions C19_msgpack_str_bin_roundtrip.

(* Row limit: for EVERY partition of the result into batches, the rows written by the JSON
   streamer and the rows retained by the MessagePack drain are the first `limit` rows of
   the result, unchanged and in order (all rows when limit = 0), and both reported row
   counts equal their number. *)
Theorem C19_limit_prefix : forall (A : Type) (limit : N) (batches : list (list A)),
  fst (emit_batches limit 0 batches) = limited limit (concat batches)
  /\ snd (emit_batches limit 0 batches) = N.of_nat (length (limited limit (concat batches)))
  /\ concat (fst (drain limit 0 batches)) = limited limit (concat batches)
  /\ snd (drain limit 0 batches) = N.of_nat (length (limited limit (concat batches))).
Proof. intros A. exact limit_prefix. Qed.
Print Assumptions C19_limit_prefix.

(* "types" header: the published name determines how the column's cells are encoded *)
Theorem C19_type_name_determines_wire : forall t1 t2,
  type_name t1 = type_name t2 -> wire_class t1 = wire_class t2.
Proof. exact type_name_determines_wire. Qed.
Print Assumptions C19_type_name_determines_wire.

(* The client-side table (name in "types" -> how to decode the cells) agrees with what the
   encoder puts on the wire for EVERY column type, parameterised decimals and unknown types
   included.  (Implies C19_type_name_determines_wire.) *)
Theorem C19_type_name_decodes : forall t, class_of_name (type_name t) = wire_class t.
Proof. exact class_of_name_type_name. Qed.
Print Assumptions C19_type_name_decodes.

(* The repaired BLOB cell (writeJSONBlob, fixes/C19_json_blob_text_form.patch): for every
   byte string the token is well-formed ASCII JSON, the RFC 8259 scanner returns DuckDB's text
   form of the blob, and the parser of that text form returns the blob. *)
Theorem C19_json_blob_text_form : forall b t, Forall (fun x => x < 256) b ->
  json_scan (json_cell_m BlobDuckText TBin (VBytes b) ++ t) = Some (blob_text b, t)
  /\ blob_text_decode (blob_text b) = Some b
  /\ utf8_valid (json_cell_m BlobDuckText TBin (VBytes b)) = true
  /\ no_ctl (json_cell_m BlobDuckText TBin (VBytes b)) = true.
Proof. exact json_blob_text_cell. Qed.
Print Assumptions C19_json_blob_text_form.

Example C19_blob_text_example :
  json_cell_m BlobDuckText TBin (VBytes [255; 0; 92; 39; 34; 65; 126; 127; 32])
  = [34; 92;92;120;70;70; 92;92;120;48;48; 92;92;120;53;67; 92;92;120;50;55; 92;92;120;50;50; 65; 126; 92;92;120;55;70; 32; 34]
  /\ json_cell_m BlobRaw TBin (VBytes [255]) = [34; 255; 34].
Proof. split; reflexivity. Qed.

(* ---- non-vacuity / necessity examples ---------------------------------------------- *)

(* quotes, backslash, every kind of control byte, DEL, U+2028, an invalid byte *)
Example C19_json_string_example :
  write_json_string [34; 92; 10; 1; 31; 127; 226; 128; 168; 255]
  = [34; 92;34; 92;92; 92;110; 92;117;48;48;48;49; 92;117;48;48;49;102; 127; 226;128;168; 255; 34].
Proof. reflexivity. Qed.

Example C19_float_rule_examples :
  f64_nonfinite 9221120237041090560 = true      (* NaN *)
  /\ f64_nonfinite 9218868437227405312 = true   (* +Inf *)
  /\ f64_nonfinite 18442240474082181120 = true  (* -Inf *)
  /\ f64_nonfinite 9223372036854775808 = false  (* -0 *)
  /\ f64_nonfinite 4607182418800017408 = false. (* 1.0 *)
Proof. repeat split. Qed.

Example C19_msgpack_int_examples :
  mp_cell TI64 (VInt 1) = [211;0;0;0;0;0;0;0;1]
  /\ mp_cell TI32 (VInt 1) = [1] /\ mp_cell TI8 (VInt (-32)) = [224] /\ mp_cell TI16 (VInt (-33)) = [208;223]
  /\ mp_cell TU64 (VInt 18446744073709551615) = [207;255;255;255;255;255;255;255;255]
  /\ cell_ok TU64 (VInt 18446744073709551615) = true /\ is_int_type TU64 = true.
Proof. repeat split. Qed.

Example C19_ts_examples :
  mp_cell (TTs UMilli) (VTime (-1) []) = [199;12;255; 59;139;135;192; 255;255;255;255;255;255;255;255]
  /\ mp_cell (TTs USec) (VTime 0 []) = [214;255;0;0;0;0]
  /\ to_time UMilli (-1) = ((-1)%Z, 999000000%Z).
Proof. repeat split. Qed.

(* the < 4 GiB guard of the string theorem is necessary: the str32 header keeps 32 bits *)
Example C19_str_hdr_wraps : mp_str_hdr 4294967296 = [219;0;0;0;0] /\ mp_str_hdr 4294967296 = 219 :: be 4 0.
Proof. split; reflexivity. Qed.

Example C19_limit_example :
  fst (emit_batches 3 0 [[1;2];[];[3;4];[5]]) = [1;2;3]
  /\ fst (drain 3 0 [[1;2];[];[3;4];[5]]) = [[1;2];[];[3]]
  /\ fst (drain 0 0 [[1;2];[];[3;4];[5]]) = [[1;2];[];[3;4];[5]].
Proof. repeat split. Qed.

(* tooling sanity: the packed literals of the case files unpack to the bytes they denote *)
Example C19_pk_all_bytes : let l := map N.of_nat (seq 0 256) in pk (pack_pos l) = l /\ pk (pack_pos (rev l)) = rev l /\ pk 1 = [].
Proof. vm_compute. repeat split. Qed.
