(* C19 - proofs about the encoder model of Codec/Model.v *)
From Coq Require Import List NArith ZArith Bool Lia DecimalN ZifyBool ZifyN ZifyNat.
From Arc Require Import Codec.Model.
Import ListNotations.
Open Scope N_scope.
Ltac Zify.zify_post_hook ::= Z.div_mod_to_equations.

(* ------------------------------------------------------------------------------------ *)
(* A. writeJSONString                                                                     *)
(* ------------------------------------------------------------------------------------ *)

Lemma frev_rev : forall l, frev l = rev l.
Proof. intros. unfold frev. now rewrite rev_append_rev, app_nil_r. Qed.

Lemma wjs_loop_flat : forall s rseg rout,
  wjs_loop s rseg rout = rev rout ++ rev rseg ++ flat_map enc_byte s.
Proof.
  induction s as [|c r IH]; intros rseg rout; cbn [wjs_loop flat_map].
  - now rewrite frev_rev, rev_app_distr, app_nil_r.
  - unfold enc_byte at 1. destruct (needs_escape c).
    + rewrite IH, frev_rev. cbn [rev app]. rewrite !rev_app_distr, rev_involutive. now rewrite <- !app_assoc.
    + rewrite IH. cbn [rev]. now rewrite <- !app_assoc.
Qed.

Lemma write_json_string_flat : forall s, write_json_string s = 34 :: flat_map enc_byte s ++ [34].
Proof. intros s. unfold write_json_string. rewrite wjs_loop_flat. reflexivity. Qed.

Lemma lt32_cases : forall c, c < 32 -> In c (map N.of_nat (seq 0 32)).
Proof.
  intros c H. replace c with (N.of_nat (N.to_nat c)) by lia.
  apply in_map, in_seq. lia.
Qed.

Lemma jscan_escape : forall c acc r, needs_escape c = true ->
  jscan JNormal acc (escape_seq c ++ r) = jscan JNormal (c :: acc) r.
Proof.
  intros c acc r H. unfold needs_escape in H.
  destruct (c =? 34) eqn:E1; [apply N.eqb_eq in E1; subst; reflexivity|].
  destruct (c =? 92) eqn:E2; [apply N.eqb_eq in E2; subst; reflexivity|].
  cbn in H. apply N.ltb_lt in H. apply lt32_cases in H. cbn in H.
  repeat (destruct H as [<-|H]; [vm_compute; reflexivity|]). contradiction.
Qed.

Lemma jscan_plain : forall c acc r, needs_escape c = false ->
  jscan JNormal acc (c :: r) = jscan JNormal (c :: acc) r.
Proof.
  intros c acc r H. unfold needs_escape in H. cbn [jscan].
  destruct (c =? 34); [discriminate|]. destruct (c =? 92); [discriminate|].
  destruct (c <? 32); [discriminate|]. reflexivity.
Qed.

Lemma jscan_flat : forall s acc r,
  jscan JNormal acc (flat_map enc_byte s ++ 34 :: r) = Some (rev acc ++ s, r).
Proof.
  induction s as [|c s IH]; intros acc r; cbn [flat_map List.app].
  - cbn [jscan]. change (34 =? 34) with true. cbv iota. now rewrite frev_rev, app_nil_r.
  - rewrite <- app_assoc. unfold enc_byte at 1. destruct (needs_escape c) eqn:E.
    + rewrite jscan_escape by exact E. rewrite IH. cbn [rev]. now rewrite <- app_assoc.
    + change ([c] ++ flat_map enc_byte s ++ 34 :: r) with (c :: flat_map enc_byte s ++ 34 :: r).
      rewrite jscan_plain by exact E. rewrite IH. cbn [rev]. now rewrite <- app_assoc.
Qed.

Lemma json_string_roundtrip : forall s t, json_scan (write_json_string s ++ t) = Some (s, t).
Proof.
  intros s t. rewrite write_json_string_flat.
  change ((34 :: flat_map enc_byte s ++ [34]) ++ t) with (34 :: (flat_map enc_byte s ++ [34]) ++ t).
  unfold json_scan. change (34 =? 34) with true. cbv iota.
  rewrite <- app_assoc. change ([34] ++ t) with (34 :: t). now rewrite jscan_flat.
Qed.

Lemma hex_digit_bounds : forall b, b < 16 -> 48 <= hex_digit b <= 102.
Proof. intros b H. unfold hex_digit. destruct (b <? 10) eqn:E; lia. Qed.

Lemma escape_seq_shape : forall c, needs_escape c = true ->
  c < 128 /\ exists tl, escape_seq c = 92 :: tl /\ Forall (fun x => 32 <= x < 128) tl.
Proof.
  intros c H. unfold needs_escape in H. unfold escape_seq.
  destruct (c =? 34) eqn:E1. { split; [lia|]. eexists; split; [reflexivity|]. repeat constructor; lia. }
  destruct (c =? 92) eqn:E2. { split; [lia|]. eexists; split; [reflexivity|]. repeat constructor; lia. }
  cbn in H. assert (c < 32) by lia. split; [lia|].
  destruct (c =? 10); [eexists; split; [reflexivity|]; repeat constructor; lia|].
  destruct (c =? 13); [eexists; split; [reflexivity|]; repeat constructor; lia|].
  destruct (c =? 9); [eexists; split; [reflexivity|]; repeat constructor; lia|].
  destruct (c =? 8); [eexists; split; [reflexivity|]; repeat constructor; lia|].
  destruct (c =? 12); [eexists; split; [reflexivity|]; repeat constructor; lia|].
  eexists; split; [reflexivity|].
  assert (48 <= hex_digit (c / 16) <= 102) by (apply hex_digit_bounds; lia).
  assert (48 <= hex_digit (c mod 16) <= 102) by (apply hex_digit_bounds; lia).
  repeat constructor; lia.
Qed.

Lemma no_ctl_json_string : forall s, no_ctl (write_json_string s) = true.
Proof.
  intros s. rewrite write_json_string_flat. unfold no_ctl. cbn [forallb].
  rewrite forallb_app. cbn. rewrite andb_true_r.
  induction s as [|c s IH]; cbn [flat_map forallb]; [reflexivity|].
  rewrite forallb_app, IH, andb_true_r. unfold enc_byte.
  destruct (needs_escape c) eqn:E.
  - destruct (escape_seq_shape c E) as [_ [tl [-> F]]]. cbn. apply forallb_forall.
    intros x Hx. rewrite Forall_forall in F. specialize (F x Hx). lia.
  - cbn. unfold needs_escape in E. lia.
Qed.

(* ------------------------------------------------------------------------------------ *)
(* B. UTF-8: the writer neither repairs nor breaks UTF-8                                  *)
(* ------------------------------------------------------------------------------------ *)

Definition wf (st : ust) : Prop := match st with UNeed lo _ _ => 128 <= lo | _ => True end.

Lemma wf_ustep : forall st c, wf st -> wf (ustep st c).
Proof.
  intros [|lo hi k|] c H; cbn; auto.
  - repeat match goal with |- context [if ?b then _ else _] => destruct b end; cbn; lia.
  - destruct (_ && _); cbn; auto. destruct k; cbn; auto. lia.
Qed.

Lemma fold_bad : forall s, fold_left ustep s UBad = UBad.
Proof. induction s; cbn; auto. Qed.

Lemma ustep_ascii : forall st c, wf st -> c < 128 ->
  ustep st c = match st with UOk => UOk | _ => UBad end.
Proof.
  intros [|lo hi k|] c H Hc; cbn in *; auto.
  - destruct (c <? 128) eqn:E; [reflexivity|lia].
  - destruct (lo <=? c) eqn:E; [lia|reflexivity].
Qed.

Lemma fold_ascii : forall l st, wf st -> Forall (fun x => 32 <= x < 128) l -> l <> [] ->
  fold_left ustep l st = match st with UOk => UOk | _ => UBad end.
Proof.
  induction l as [|x l IH]; intros st H F Hne; [congruence|].
  inversion F; subst. cbn [fold_left]. rewrite ustep_ascii by (auto; lia).
  destruct l as [|y l'].
  - cbn. destruct st; reflexivity.
  - rewrite IH; auto; [|destruct st; cbn; auto|congruence]. destruct st; reflexivity.
Qed.

Lemma fold_enc_byte : forall c st, wf st -> fold_left ustep (enc_byte c) st = ustep st c.
Proof.
  intros c st H. unfold enc_byte. destruct (needs_escape c) eqn:E; [|reflexivity].
  destruct (escape_seq_shape c E) as [Hc [tl [-> F]]].
  rewrite fold_ascii; auto.
  - now rewrite ustep_ascii.
  - constructor; [lia|exact F].
  - congruence.
Qed.

Lemma fold_flat_enc : forall s st, wf st ->
  fold_left ustep (flat_map enc_byte s) st = fold_left ustep s st.
Proof.
  induction s as [|c s IH]; intros st H; cbn [flat_map fold_left]; [reflexivity|].
  rewrite fold_left_app, fold_enc_byte by exact H. apply IH, wf_ustep, H.
Qed.

Lemma utf8_valid_json_string : forall s, utf8_valid (write_json_string s) = utf8_valid s.
Proof.
  intros s. rewrite write_json_string_flat. unfold utf8_valid.
  cbn [fold_left]. change (ustep UOk 34) with UOk.
  rewrite fold_left_app, fold_flat_enc by exact I. cbn [fold_left].
  assert (W : wf (fold_left ustep s UOk)).
  { clear. assert (G : forall l st, wf st -> wf (fold_left ustep l st)).
    { induction l; cbn; auto. intros. apply IHl, wf_ustep; auto. }
    apply G. exact I. }
  rewrite ustep_ascii by (auto; lia). destruct (fold_left ustep s UOk); reflexivity.
Qed.

(* ------------------------------------------------------------------------------------ *)
(* C. integers in JSON                                                                    *)
(* ------------------------------------------------------------------------------------ *)

Lemma bytes_uint_roundtrip : forall d, bytes_uint (uint_bytes d) = Some d.
Proof. induction d; cbn [uint_bytes bytes_uint]; try rewrite IHd; reflexivity. Qed.

Lemma uint_bytes_head : forall d, d <> Decimal.Nil ->
  exists c r, uint_bytes d = c :: r /\ 48 <= c <= 57.
Proof. destruct d; intros H; try congruence; cbn; eexists; eexists; (split; [reflexivity|lia]). Qed.

Lemma to_uint_pos_nonnil : forall p, N.to_uint (Npos p) <> Decimal.Nil.
Proof.
  intros p H. pose proof (DecimalN.Unsigned.of_to (Npos p)) as E. rewrite H in E. discriminate.
Qed.

Lemma parse_nat_dec_roundtrip : forall p, parse_nat_dec (dec_N (Npos p)) = Some (Npos p).
Proof.
  intros p. unfold parse_nat_dec, dec_N.
  destruct (uint_bytes_head _ (to_uint_pos_nonnil p)) as [c [r [E _]]].
  rewrite E, <- E, bytes_uint_roundtrip. now rewrite DecimalN.Unsigned.of_to.
Qed.

Lemma parse_int_roundtrip : forall z, parse_int (write_int z) = Some z.
Proof.
  intros [|p|p]; unfold write_int.
  - reflexivity.
  - unfold parse_int. pose proof (parse_nat_dec_roundtrip p) as R.
    destruct (uint_bytes_head _ (to_uint_pos_nonnil p)) as [c [r [E B]]].
    unfold dec_N in *. rewrite E in *. destruct (c =? 45) eqn:E45; [lia|]. now rewrite R.
  - unfold parse_int. change (45 =? 45) with true. cbv iota. now rewrite parse_nat_dec_roundtrip.
Qed.

(* ------------------------------------------------------------------------------------ *)
(* D. MessagePack integers                                                                *)
(* ------------------------------------------------------------------------------------ *)

Lemma take_be_be : forall k v rest,
  take_be k (be k v ++ rest) = Some (v mod 256 ^ N.of_nat k, rest).
Proof.
  induction k as [|k IH]; intros v rest.
  - cbn. now rewrite N.mod_1_r.
  - cbn [be take_be app]. rewrite IH. f_equal. f_equal.
    rewrite Nat2N.inj_succ, N.pow_succ_r'.
    assert (P : 256 ^ N.of_nat k <> 0) by (apply N.pow_nonzero; lia).
    rewrite (N.mul_comm 256), N.mod_mul_r by lia. lia.
Qed.

Lemma take_be_1 : forall v rest, v < 256 -> take_be 1 (be 1 v ++ rest) = Some (v, rest).
Proof. intros. rewrite take_be_be. change (256 ^ N.of_nat 1) with 256. now rewrite N.mod_small. Qed.
Lemma take_be_2 : forall v rest, v < 65536 -> take_be 2 (be 2 v ++ rest) = Some (v, rest).
Proof. intros. rewrite take_be_be. change (256 ^ N.of_nat 2) with 65536. now rewrite N.mod_small. Qed.
Lemma take_be_4 : forall v rest, v < 4294967296 -> take_be 4 (be 4 v ++ rest) = Some (v, rest).
Proof. intros. rewrite take_be_be. change (256 ^ N.of_nat 4) with 4294967296. now rewrite N.mod_small. Qed.
Lemma take_be_8 : forall v rest, v < 18446744073709551616 -> take_be 8 (be 8 v ++ rest) = Some (v, rest).
Proof. intros. rewrite take_be_be. change (256 ^ N.of_nat 8) with 18446744073709551616. now rewrite N.mod_small. Qed.

Local Opaque be take_be.

Lemma mp_dec_uint : forall n rest, n < 18446744073709551616 ->
  mp_dec_int (mp_uint n ++ rest) = Some (Z.of_N n, rest).
Proof.
  intros n rest H. unfold mp_uint.
  destruct (n <=? 127) eqn:E1.
  { cbn [app]. unfold mp_dec_int. now rewrite E1. }
  destruct (n <=? 255) eqn:E2.
  { cbn [app]. unfold mp_dec_int. cbn. rewrite take_be_1 by lia. reflexivity. }
  destruct (n <=? 65535) eqn:E3.
  { cbn [app]. unfold mp_dec_int. cbn. rewrite take_be_2 by lia. reflexivity. }
  destruct (n <=? 4294967295) eqn:E4.
  { cbn [app]. unfold mp_dec_int. cbn. rewrite take_be_4 by lia. reflexivity. }
  cbn [app]. unfold mp_dec_int. cbn. rewrite take_be_8 by lia. reflexivity.
Qed.

Lemma mp_dec_uint64 : forall n rest, n < 18446744073709551616 ->
  mp_dec_int (mp_uint64 n ++ rest) = Some (Z.of_N n, rest).
Proof.
  intros. unfold mp_uint64. cbn [app]. unfold mp_dec_int. cbn. rewrite take_be_8 by lia. reflexivity.
Qed.

Lemma twos8 : forall z, (-128 <= z < 0)%Z -> twos 8 z = Z.to_N (z + 256).
Proof. intros. unfold twos. change (2 ^ Z.of_N 8)%Z with 256%Z. f_equal. lia. Qed.
Lemma twos16 : forall z, (-32768 <= z < 0)%Z -> twos 16 z = Z.to_N (z + 65536).
Proof. intros. unfold twos. change (2 ^ Z.of_N 16)%Z with 65536%Z. f_equal. lia. Qed.
Lemma twos32 : forall z, (-2147483648 <= z < 0)%Z -> twos 32 z = Z.to_N (z + 4294967296).
Proof. intros. unfold twos. change (2 ^ Z.of_N 32)%Z with 4294967296%Z. f_equal. lia. Qed.
Lemma twos64_neg : forall z, (-9223372036854775808 <= z < 0)%Z -> twos 64 z = Z.to_N (z + 18446744073709551616).
Proof. intros. unfold twos. change (2 ^ Z.of_N 64)%Z with 18446744073709551616%Z. f_equal. lia. Qed.
Lemma twos64_pos : forall z, (0 <= z < 18446744073709551616)%Z -> twos 64 z = Z.to_N z.
Proof. intros. unfold twos. change (2 ^ Z.of_N 64)%Z with 18446744073709551616%Z. f_equal. lia. Qed.

Lemma signed64_twos : forall z, (-9223372036854775808 <= z <= 9223372036854775807)%Z ->
  signed 64 (twos 64 z) = z /\ twos 64 z < 18446744073709551616.
Proof.
  intros z H. unfold signed. change (2 ^ (64 - 1)) with 9223372036854775808.
  change (2 ^ Z.of_N 64)%Z with 18446744073709551616%Z.
  destruct (Z.ltb_spec z 0).
  - rewrite twos64_neg by lia. destruct (_ <? _) eqn:E; lia.
  - rewrite twos64_pos by lia. destruct (_ <? _) eqn:E; lia.
Qed.

Lemma mp_dec_int64 : forall z rest, (-9223372036854775808 <= z <= 9223372036854775807)%Z ->
  mp_dec_int (mp_int64 z ++ rest) = Some (z, rest).
Proof.
  intros z rest H. destruct (signed64_twos z H) as [S B].
  unfold mp_int64. cbn [app]. unfold mp_dec_int. cbn. rewrite take_be_8 by exact B. now rewrite S.
Qed.

Lemma mp_dec_int_any : forall z rest, (-9223372036854775808 <= z <= 9223372036854775807)%Z ->
  mp_dec_int (mp_int z ++ rest) = Some (z, rest).
Proof.
  intros z rest H. unfold mp_int.
  destruct (0 <=? z)%Z eqn:E0.
  { rewrite mp_dec_uint by lia. f_equal. f_equal. lia. }
  destruct (-32 <=? z)%Z eqn:E1.
  { cbn [app]. rewrite twos8 by lia. unfold mp_dec_int.
    destruct (Z.to_N (z + 256) <=? 127) eqn:A; [lia|].
    destruct (224 <=? Z.to_N (z + 256)) eqn:B; [|lia]. f_equal. f_equal. lia. }
  destruct (-128 <=? z)%Z eqn:E2.
  { cbn [app]. rewrite twos8 by lia. unfold mp_dec_int. cbn. rewrite take_be_1 by lia.
    unfold signed. change (2 ^ (8 - 1)) with 128. change (2 ^ Z.of_N 8)%Z with 256%Z.
    destruct (_ <? _) eqn:A; f_equal; f_equal; lia. }
  destruct (-32768 <=? z)%Z eqn:E3.
  { cbn [app]. rewrite twos16 by lia. unfold mp_dec_int. cbn. rewrite take_be_2 by lia.
    unfold signed. change (2 ^ (16 - 1)) with 32768. change (2 ^ Z.of_N 16)%Z with 65536%Z.
    destruct (_ <? _) eqn:A; f_equal; f_equal; lia. }
  destruct (-2147483648 <=? z)%Z eqn:E4.
  { cbn [app]. rewrite twos32 by lia. unfold mp_dec_int. cbn. rewrite take_be_4 by lia.
    unfold signed. change (2 ^ (32 - 1)) with 2147483648. change (2 ^ Z.of_N 32)%Z with 4294967296%Z.
    destruct (_ <? _) eqn:A; f_equal; f_equal; lia. }
  apply mp_dec_int64. exact H.
Qed.

(* every integer column type, every value an Arrow array of that type can hold *)
Lemma mp_int_cell_roundtrip : forall t z rest,
  is_int_type t = true -> cell_ok t (VInt z) = true ->
  mp_dec_int (mp_cell t (VInt z) ++ rest) = Some (z, rest).
Proof.
  intros t z rest Ht Hok. unfold cell_ok, in_range in Hok.
  destruct t; try discriminate; cbn [mp_cell].
  1-3: apply mp_dec_int_any; lia.
  - apply mp_dec_int64; lia.
  - rewrite mp_dec_uint by lia. f_equal. f_equal. lia.
  - rewrite mp_dec_uint by lia. f_equal. f_equal. lia.
  - rewrite mp_dec_uint by lia. f_equal. f_equal. lia.
  - rewrite mp_dec_uint64 by lia. f_equal. f_equal. lia.
Qed.

(* ------------------------------------------------------------------------------------ *)
(* E. timestamps: unit scaling and the timestamp extension                                *)
(* ------------------------------------------------------------------------------------ *)

Lemma mp_dec_time_roundtrip : forall sec nsec rest,
  (-9223372036854775808 <= sec <= 9223372036854775807)%Z -> (0 <= nsec < 1000000000)%Z ->
  mp_dec_time (mp_time sec nsec ++ rest) = Some ((sec, nsec), rest).
Proof.
  intros sec nsec rest Hs Hn. destruct (signed64_twos sec Hs) as [S B].
  unfold mp_time. set (secs := twos 64 sec) in *. set (ns := Z.to_N nsec).
  assert (Hns : ns < 1000000000) by (subst ns; lia).
  destruct (secs / 17179869184 =? 0) eqn:E1.
  - assert (Hsec : (0 <= sec)%Z /\ secs = Z.to_N sec).
    { subst secs. destruct (Z.ltb_spec sec 0).
      - rewrite twos64_neg in E1 by lia. lia.
      - rewrite twos64_pos by lia. lia. }
    destruct Hsec as [Hs0 Hsecs].
    assert (secs < 17179869184) by lia.
    destruct ((ns * 17179869184 + secs) / 4294967296 =? 0) eqn:E2.
    + assert (ns = 0) by lia. cbn [List.app]. unfold mp_dec_time. cbn.
      rewrite take_be_4 by lia. f_equal. f_equal. f_equal; lia.
    + cbn [List.app]. unfold mp_dec_time. cbn. rewrite take_be_8 by lia.
      f_equal. f_equal. f_equal; lia.
  - cbn [List.app]. rewrite <- app_assoc. unfold mp_dec_time. cbn.
    rewrite take_be_4 by lia. rewrite take_be_8 by exact B. rewrite S.
    f_equal. f_equal. f_equal. lia.
Qed.

Lemma per_sec_cases : forall u, per_sec u = 1%Z \/ per_sec u = 1000%Z \/ per_sec u = 1000000%Z \/ per_sec u = 1000000000%Z.
Proof. destruct u; cbn; auto. Qed.

Lemma to_time_exact : forall u v, let '(s, n) := to_time u v in
  (0 <= n < 1000000000 /\ s * per_sec u + n / (1000000000 / per_sec u) = v)%Z.
Proof.
  intros u v. unfold to_time. destruct u; cbn [per_sec].
  - change (1000000000 / 1)%Z with 1000000000%Z. lia.
  - change (1000000000 / 1000)%Z with 1000000%Z. lia.
  - change (1000000000 / 1000000)%Z with 1000%Z. lia.
  - change (1000000000 / 1000000000)%Z with 1%Z. lia.
Qed.

Lemma to_time_sec_range : forall u v, (-9223372036854775808 <= v <= 9223372036854775807)%Z ->
  (-9223372036854775808 <= fst (to_time u v) <= 9223372036854775807)%Z.
Proof. intros u v H. unfold to_time. cbn [fst]. destruct u; cbn [per_sec]; lia. Qed.

Lemma mp_ts_roundtrip : forall u v rest,
  (-9223372036854775808 <= v <= 9223372036854775807)%Z ->
  mp_dec_time (mp_ts u v ++ rest) = Some (to_time u v, rest).
Proof.
  intros u v rest H. unfold mp_ts.
  pose proof (to_time_exact u v) as X. pose proof (to_time_sec_range u v H) as R.
  destruct (to_time u v) as [s n]. cbn [fst] in R. apply mp_dec_time_roundtrip; lia.
Qed.

Lemma mp_date32_roundtrip : forall d rest, (-2147483648 <= d <= 2147483647)%Z ->
  mp_dec_time (mp_date32 d ++ rest) = Some ((d * 86400, 0)%Z, rest).
Proof. intros. unfold mp_date32. apply mp_dec_time_roundtrip; lia. Qed.

(* ------------------------------------------------------------------------------------ *)
(* G. strings and binary                                                                  *)
(* ------------------------------------------------------------------------------------ *)

Lemma take_n_app : forall (s rest : bytes), take_n (length s) (s ++ rest) = Some (s, rest).
Proof. induction s; intros; cbn [length take_n List.app]; [reflexivity|now rewrite IHs]. Qed.

Lemma mp_str_roundtrip : forall s rest, blen s < 4294967296 ->
  mp_dec_str (mp_str s ++ rest) = Some (s, rest).
Proof.
  intros s rest H. unfold mp_str, mp_str_hdr, blen in *. set (l := N.of_nat (length s)) in *.
  assert (L : N.to_nat l = length s) by (subst l; lia).
  destruct (l <? 32) eqn:E1.
  { cbn [List.app]. unfold mp_dec_str.
    destruct ((160 <=? 160 + l) && (160 + l <=? 191)) eqn:A; [|lia].
    replace (160 + l - 160) with l by lia. rewrite L. apply take_n_app. }
  destruct (l <? 256) eqn:E2.
  { cbn [List.app]. rewrite <- app_assoc. unfold mp_dec_str. cbn. rewrite take_be_1 by lia. rewrite L. apply take_n_app. }
  destruct (l <=? 65535) eqn:E3.
  { cbn [List.app]. rewrite <- app_assoc. unfold mp_dec_str. cbn. rewrite take_be_2 by lia. rewrite L. apply take_n_app. }
  cbn [List.app]. rewrite <- app_assoc. unfold mp_dec_str. cbn. rewrite take_be_4 by lia. rewrite L. apply take_n_app.
Qed.

Lemma mp_bin_roundtrip : forall s rest, blen s < 4294967296 ->
  mp_dec_bin (mp_bin s ++ rest) = Some (s, rest).
Proof.
  intros s rest H. unfold mp_bin, mp_bin_hdr, blen in *. set (l := N.of_nat (length s)) in *.
  assert (L : N.to_nat l = length s) by (subst l; lia).
  destruct (l <? 256) eqn:E2.
  { cbn [List.app]. rewrite <- app_assoc. unfold mp_dec_bin. cbn. rewrite take_be_1 by lia. rewrite L. apply take_n_app. }
  destruct (l <=? 65535) eqn:E3.
  { cbn [List.app]. rewrite <- app_assoc. unfold mp_dec_bin. cbn. rewrite take_be_2 by lia. rewrite L. apply take_n_app. }
  cbn [List.app]. rewrite <- app_assoc. unfold mp_dec_bin. cbn. rewrite take_be_4 by lia. rewrite L. apply take_n_app.
Qed.

(* ------------------------------------------------------------------------------------ *)
(* H. governance row limit: both writers keep exactly the first `limit` rows              *)
(* ------------------------------------------------------------------------------------ *)

Section LimitProofs.
  Context {A : Type}.

  Lemma emit_batch_spec : forall (rows : list A) limit rc,
    let '(o, rc', d) := emit_batch limit rc rows in
    rc' = rc + N.of_nat (length o) /\
    (d = false -> o = rows) /\
    (d = true -> 0 < limit /\ limit <= rc' /\ o = firstn (N.to_nat (limit - rc)) rows) /\
    (0 < limit -> rc <= limit -> rc' <= limit).
  Proof.
    induction rows as [|r rest IH]; intros limit rc; cbn [emit_batch].
    - repeat split; try discriminate; intros; try lia. cbn; lia.
    - destruct ((0 <? limit) && (limit <=? rc)) eqn:E.
      + repeat split; try discriminate; try (cbn; lia).
        replace (N.to_nat (limit - rc)) with 0%nat by lia. reflexivity.
      + specialize (IH limit (rc + 1)). destruct (emit_batch limit (rc + 1) rest) as [[o rc'] d].
        destruct IH as [H1 [H2 [H3 H4]]]. split; [|split; [|split]].
        * cbn [length]. lia.
        * intros Hd. now rewrite (H2 Hd).
        * intros Hd. destruct (H3 Hd) as [G1 [G2 ->]]. split; [exact G1|split; [exact G2|]].
          replace (N.to_nat (limit - rc)) with (S (N.to_nat (limit - (rc + 1)))) by lia. reflexivity.
        * intros. apply H4; lia.
  Qed.

  Lemma emit_batches_spec : forall (bs : list (list A)) limit rc, (0 < limit -> rc <= limit) ->
    let '(o, rc') := emit_batches limit rc bs in
    o = (if 0 <? limit then firstn (N.to_nat (limit - rc)) (concat bs) else concat bs)
    /\ rc' = rc + N.of_nat (length o).
  Proof.
    induction bs as [|b r IH]; intros limit rc Hrc; cbn [emit_batches concat].
    - split; [|cbn; lia]. destruct (0 <? limit); [now rewrite firstn_nil|reflexivity].
    - pose proof (emit_batch_spec b limit rc) as S.
      destruct (emit_batch limit rc b) as [[o rc'] d]. destruct S as [S1 [S2 [S3 S4]]].
      destruct d.
      + destruct (S3 eq_refl) as [L1 [L2 ->]]. split; [|exact S1].
        destruct (0 <? limit) eqn:E; [|lia].
        rewrite firstn_app.
        assert (Hlen : (N.to_nat (limit - rc) <= length b)%nat).
        { rewrite S1 in L2. rewrite firstn_length in L2. lia. }
        replace (N.to_nat (limit - rc) - length b)%nat with 0%nat by lia.
        now rewrite firstn_O, app_nil_r.
      + rewrite (S2 eq_refl) in *. clear S2 S3.
        assert (Hrc' : 0 < limit -> rc' <= limit) by (intros; apply S4; auto).
        specialize (IH limit rc' Hrc'). destruct (emit_batches limit rc' r) as [o2 rc2].
        destruct IH as [-> ->]. split.
        * destruct (0 <? limit) eqn:E; [|reflexivity].
          rewrite firstn_app. specialize (Hrc' ltac:(lia)).
          rewrite (firstn_all2 b) by lia. f_equal. f_equal. lia.
        * rewrite app_length. lia.
  Qed.

  Lemma drain_spec : forall (bs : list (list A)) cap rc, (0 < cap -> rc <= cap) ->
    let '(kept, rc') := drain cap rc bs in
    concat kept = (if 0 <? cap then firstn (N.to_nat (cap - rc)) (concat bs) else concat bs)
    /\ rc' = rc + N.of_nat (length (concat kept))
    /\ (0 < cap -> rc' <= cap).
  Proof.
    induction bs as [|b r IH]; intros cap rc Hrc; cbn [drain concat].
    - repeat split; [|cbn; lia|exact Hrc]. destruct (0 <? cap); [now rewrite firstn_nil|reflexivity].
    - destruct (0 <? cap) eqn:E0.
      + destruct (cap <=? rc) eqn:E1.
        { repeat split; [|cbn; lia|lia]. cbn [concat].
          replace (N.to_nat (cap - rc)) with 0%nat by lia. reflexivity. }
        destruct (cap <? rc + N.of_nat (length b)) eqn:E2.
        { repeat split; [| |lia].
          - cbn [concat]. rewrite app_nil_r, firstn_app.
            replace (N.to_nat (cap - rc) - length b)%nat with 0%nat by lia.
            now rewrite firstn_O, app_nil_r.
          - cbn [concat]. rewrite app_nil_r, firstn_length. lia. }
        assert (Hrc' : 0 < cap -> rc + N.of_nat (length b) <= cap) by lia.
        specialize (IH cap (rc + N.of_nat (length b)) Hrc'). rewrite E0 in IH.
        destruct (drain cap (rc + N.of_nat (length b)) r) as [o rc'].
        destruct IH as [I1 [I2 I3]]. repeat split; [| |exact I3].
        * cbn [concat]. rewrite I1, firstn_app, (firstn_all2 b) by lia. f_equal. f_equal. lia.
        * cbn [concat]. rewrite app_length. lia.
      + assert (Hrc' : 0 < cap -> rc + N.of_nat (length b) <= cap) by lia.
        specialize (IH cap (rc + N.of_nat (length b)) Hrc'). rewrite E0 in IH.
        destruct (drain cap (rc + N.of_nat (length b)) r) as [o rc'].
        destruct IH as [I1 [I2 I3]]. repeat split; [| |exact I3].
        * cbn [concat]. now rewrite I1.
        * cbn [concat]. rewrite app_length. lia.
  Qed.

  Lemma limit_prefix : forall (limit : N) (bs : list (list A)),
    fst (emit_batches limit 0 bs) = limited limit (concat bs)
    /\ snd (emit_batches limit 0 bs) = N.of_nat (length (limited limit (concat bs)))
    /\ concat (fst (drain limit 0 bs)) = limited limit (concat bs)
    /\ snd (drain limit 0 bs) = N.of_nat (length (limited limit (concat bs))).
  Proof.
    intros limit bs. unfold limited.
    pose proof (emit_batches_spec bs limit 0 ltac:(lia)) as E.
    pose proof (drain_spec bs limit 0 ltac:(lia)) as D.
    destruct (emit_batches limit 0 bs) as [o rc]. destruct (drain limit 0 bs) as [k rc'].
    cbn [fst snd]. destruct E as [E1 E2]. destruct D as [D1 [D2 _]].
    rewrite N.sub_0_r in *. assert (K : concat k = o) by congruence.
    rewrite <- E1. rewrite K in *. repeat split; auto; lia.
  Qed.
End LimitProofs.

(* ------------------------------------------------------------------------------------ *)
(* I. wire type names determine the wire encoding                                         *)
(* ------------------------------------------------------------------------------------ *)

Ltac names_tac := cbn; let H := fresh in intros H; first [reflexivity | discriminate H].

Lemma type_name_determines_wire : forall t1 t2,
  type_name t1 = type_name t2 -> wire_class t1 = wire_class t2.
Proof.
  intros t1 t2. destruct t1; destruct t2.
  all: try (names_tac; fail).
  all: repeat match goal with u : tunit |- _ => destruct u end.
  all: try (names_tac; fail).
  all: repeat match goal with k : okind |- _ => destruct k end.
  all: names_tac.
Qed.

(* ------------------------------------------------------------------------------------ *)
(* K. cells                                                                               *)
(* ------------------------------------------------------------------------------------ *)

Lemma json_bytes_cell_roundtrip : forall t b rest,
  json_scan (json_cell t (VBytes b) ++ rest) = Some (b, rest).
Proof. intros. cbn [json_cell]. apply json_string_roundtrip. Qed.

Lemma json_bytes_cell_utf8 : forall t b, utf8_valid (json_cell t (VBytes b)) = utf8_valid b.
Proof. intros. cbn [json_cell]. apply utf8_valid_json_string. Qed.

Lemma json_binary_not_utf8 : exists b,
  cell_ok TBin (VBytes b) = true /\ Forall (fun x => x < 256) b /\
  utf8_valid (json_cell TBin (VBytes b)) = false.
Proof.
  exists [255]. split; [reflexivity|]. split; [|reflexivity]. constructor; [lia|constructor].
Qed.

Lemma json_int_cell_roundtrip : forall t z, parse_int (json_cell t (VInt z)) = Some z.
Proof. intros. cbn [json_cell]. apply parse_int_roundtrip. Qed.

Section FloatOracle.
  (* strconv.AppendFloat(_, v, 'f', -1, 64) as a function of the bit pattern *)
  Variable fmt : N -> bytes.
  Hypothesis fmt_number : forall bits, f64_nonfinite bits = false -> json_number_ok (fmt bits) = true.

  Lemma json_float_rule : forall bits,
    let tok := json_cell TF64 (VFloat bits (fmt bits)) in
    (f64_nonfinite bits = true /\ tok = str_null) \/
    (f64_nonfinite bits = false /\ tok = fmt bits /\ json_number_ok tok = true).
  Proof.
    intros bits. cbn [json_cell]. unfold json_float. destruct (f64_nonfinite bits) eqn:E.
    - left. auto.
    - right. repeat split. now apply fmt_number.
  Qed.
End FloatOracle.

(* the exponent test is exactly IEEE-754 NaN/Inf: all-ones exponent *)
Lemma f64_nonfinite_iff : forall sign expo frac,
  sign < 2 -> expo < 2048 -> frac < 4503599627370496 ->
  f64_nonfinite (sign * 9223372036854775808 + expo * 4503599627370496 + frac) = (expo =? 2047).
Proof.
  intros sign expo frac Hs He Hf. unfold f64_nonfinite.
  replace ((sign * 9223372036854775808 + expo * 4503599627370496 + frac) / 4503599627370496)
    with (sign * 2048 + expo) by lia.
  replace ((sign * 2048 + expo) mod 2048) with expo by lia. reflexivity.
Qed.

(* ------------------------------------------------------------------------------------ *)
(* L. the column-name array                                                               *)
(* ------------------------------------------------------------------------------------ *)

Lemma scan_json_strings_roundtrip : forall ss rest, ss <> [] ->
  (match rest with 44 :: _ => False | _ => True end) ->
  scan_json_strings (length ss) (join_comma (map write_json_string ss) ++ rest) = Some (ss, rest).
Proof.
  induction ss as [|s ss IH]; intros rest Hne Hrest; [congruence|].
  destruct ss as [|s2 ss'].
  - cbn [map join_comma length scan_json_strings]. now rewrite json_string_roundtrip.
  - change (length (s :: s2 :: ss')) with (S (length (s2 :: ss'))).
    change (join_comma (map write_json_string (s :: s2 :: ss')))
      with (write_json_string s ++ 44 :: join_comma (map write_json_string (s2 :: ss'))).
    rewrite <- app_assoc. cbn [scan_json_strings]. rewrite json_string_roundtrip.
    cbn [length]. change (44 :: join_comma (map write_json_string (s2 :: ss')) ++ rest)
      with (44 :: (join_comma (map write_json_string (s2 :: ss')) ++ rest)).
    cbn [List.app]. cbv iota.
    specialize (IH rest ltac:(congruence) Hrest). cbn [length] in IH.
    change ((44 :: join_comma (map write_json_string (s2 :: ss'))) ++ rest)
      with (44 :: (join_comma (map write_json_string (s2 :: ss')) ++ rest)).
    rewrite IH. reflexivity.
Qed.

(* ------------------------------------------------------------------------------------ *)
(* M. the published type name decodes (client-side table) to the wire encoding            *)
(* ------------------------------------------------------------------------------------ *)

Lemma class_of_name_type_name : forall t, class_of_name (type_name t) = wire_class t.
Proof.
  destruct t; try reflexivity.
  - destruct u; reflexivity.
  - destruct k; reflexivity.
Qed.

(* ------------------------------------------------------------------------------------ *)
(* N. BLOB cells as DuckDB's text form (the proposed writeJSONBlob)                       *)
(* ------------------------------------------------------------------------------------ *)

Lemma hex_upper_bounds : forall b, b < 16 ->
  (48 <= hex_upper b <= 57 \/ 65 <= hex_upper b <= 70) /\ hex_upper_val (hex_upper b) = Some b.
Proof.
  intros b H. apply N.lt_le_pred in H. cbn in H.
  assert (C : In b (map N.of_nat (seq 0 16))).
  { replace b with (N.of_nat (N.to_nat b)) by lia. apply in_map, in_seq. lia. }
  cbn in C. repeat (destruct C as [<-|C]; [split; [unfold hex_upper; cbn; lia|vm_compute; reflexivity]|]). contradiction.
Qed.

Lemma enc_plain : forall c, 32 <= c -> c <> 34 -> c <> 92 -> enc_byte c = [c].
Proof.
  intros c H1 H2 H3. unfold enc_byte, needs_escape.
  destruct (c =? 34) eqn:A; [lia|]. destruct (c =? 92) eqn:B; [lia|]. destruct (c <? 32) eqn:C; [lia|]. reflexivity.
Qed.

Lemma blob_json_is_json_of_text : forall c, c < 256 ->
  flat_map enc_byte (blob_text_byte c) = blob_json_byte c.
Proof.
  intros c Hc. unfold blob_text_byte, blob_json_byte. destruct (blob_regular c) eqn:R.
  - cbn [flat_map]. rewrite app_nil_r. unfold blob_regular in R. apply enc_plain; lia.
  - destruct (hex_upper_bounds (c / 16)) as [B1 _]; [lia|].
    destruct (hex_upper_bounds (c mod 16)) as [B2 _]; [lia|].
    cbn [flat_map]. rewrite app_nil_r.
    change (enc_byte 92) with [92;92]. change (enc_byte 120) with [120].
    rewrite (enc_plain (hex_upper (c / 16))), (enc_plain (hex_upper (c mod 16))) by lia. reflexivity.
Qed.

Lemma write_json_blob_eq : forall b, Forall (fun x => x < 256) b ->
  write_json_blob b = write_json_string (blob_text b).
Proof.
  intros b F. rewrite write_json_string_flat. unfold write_json_blob, blob_text. f_equal. f_equal.
  induction F as [|c l Hc F IH]; [reflexivity|]. cbn [flat_map].
  rewrite flat_map_app, blob_json_is_json_of_text, IH by exact Hc. reflexivity.
Qed.

Lemma blob_text_ascii : forall b, Forall (fun x => x < 256) b -> Forall (fun x => 32 <= x < 128) (blob_text b).
Proof.
  intros b F. unfold blob_text. induction F as [|c l Hc F IH]; [constructor|]. cbn [flat_map].
  apply Forall_app. split; [|exact IH]. unfold blob_text_byte. destruct (blob_regular c) eqn:R.
  - constructor; [unfold blob_regular in R; lia|constructor].
  - destruct (hex_upper_bounds (c / 16)) as [B1 _]; [lia|].
    destruct (hex_upper_bounds (c mod 16)) as [B2 _]; [lia|].
    repeat constructor; lia.
Qed.

Lemma utf8_valid_ascii : forall l, Forall (fun x => 32 <= x < 128) l -> utf8_valid l = true.
Proof.
  intros l F. unfold utf8_valid. destruct l as [|x l']; [reflexivity|].
  rewrite fold_ascii; [reflexivity|exact I|exact F|congruence].
Qed.

Lemma blob_scan_text : forall b acc, Forall (fun x => x < 256) b ->
  blob_scan BNormal acc (blob_text b) = Some (rev acc ++ b).
Proof.
  intros b acc F. revert acc. unfold blob_text.
  induction F as [|c l Hc F IH]; intros acc.
  - cbn. now rewrite frev_rev, app_nil_r.
  - cbn [flat_map]. unfold blob_text_byte at 1. destruct (blob_regular c) eqn:R.
    + cbn [List.app blob_scan]. assert (c =? 92 = false) by (unfold blob_regular in R; lia).
      rewrite H, R, IH. cbn [rev]. now rewrite <- app_assoc.
    + destruct (hex_upper_bounds (c / 16)) as [_ V1]; [lia|].
      destruct (hex_upper_bounds (c mod 16)) as [_ V2]; [lia|].
      cbn [List.app blob_scan]. change (92 =? 92) with true. change (120 =? 120) with true. cbv iota.
      rewrite V1, V2, IH. cbn [rev]. rewrite <- app_assoc. cbn [List.app].
      replace (c / 16 * 16 + c mod 16) with c by lia. reflexivity.
Qed.

Lemma json_blob_text_cell : forall b t, Forall (fun x => x < 256) b ->
  json_scan (json_cell_m BlobDuckText TBin (VBytes b) ++ t) = Some (blob_text b, t)
  /\ blob_text_decode (blob_text b) = Some b
  /\ utf8_valid (json_cell_m BlobDuckText TBin (VBytes b)) = true
  /\ no_ctl (json_cell_m BlobDuckText TBin (VBytes b)) = true.
Proof.
  intros b t F. cbn [json_cell_m]. rewrite write_json_blob_eq by exact F. repeat split.
  - apply json_string_roundtrip.
  - unfold blob_text_decode. now rewrite blob_scan_text.
  - rewrite utf8_valid_json_string. apply utf8_valid_ascii, blob_text_ascii, F.
  - apply no_ctl_json_string.
Qed.
