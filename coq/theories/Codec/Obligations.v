(* C19 - obligation over the parameter regenerated from the current Go source
   (gen/Params_Codec.v: does writeArrowValue's *array.Binary case go through writeJSONString
   (raw bytes) or through writeJSONBlob (DuckDB text form)?). *)
From Coq Require Import List NArith ZArith Bool.
From Arc Require Import Codec.Model Codec.Proofs Codec.Props.
From ArcGen Require Import Params_Codec.
Import ListNotations.
Open Scope N_scope.

Definition deployed_blob_mode : blob_mode := if json_blob_duck_text then BlobDuckText else BlobRaw.

(* Status of BLOB cells in the JSON response of the code as it is now: either the repaired
   encoder is deployed and every blob round-trips through a well-formed token, or the raw
   encoder is deployed and there is a blob whose token is not UTF-8 (known finding). *)
Theorem C19_deployed_blob_json :
  if json_blob_duck_text
  then forall b t, Forall (fun x => x < 256) b ->
         json_scan (json_cell_m deployed_blob_mode TBin (VBytes b) ++ t) = Some (blob_text b, t)
         /\ blob_text_decode (blob_text b) = Some b
         /\ utf8_valid (json_cell_m deployed_blob_mode TBin (VBytes b)) = true
         /\ no_ctl (json_cell_m deployed_blob_mode TBin (VBytes b)) = true
  else exists b, cell_ok TBin (VBytes b) = true /\ Forall (fun x => x < 256) b /\
         utf8_valid (json_cell_m deployed_blob_mode TBin (VBytes b)) = false.
Proof.
  unfold deployed_blob_mode, json_blob_duck_text.
  first [exact C19_json_blob_text_form | exact C19_json_binary_utf8_refuted].
Qed.
Print Assumptions C19_deployed_blob_json.
