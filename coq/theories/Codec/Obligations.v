(* C19 - obligation over the parameter regenerated from the current Go source
   (gen/Params_Codec.v: does writeArrowValue's *array.Binary case go through writeJSONBlob
   (DuckDB text form, repo commit 48e92ae) or through writeJSONString (raw bytes, the old
   variant refuted by C19_json_binary_utf8_refuted)?). *)
From Coq Require Import List NArith ZArith Bool.
From Arc Require Import Codec.Model Codec.Proofs Codec.Props.
From ArcGen Require Import Params_Codec.
Import ListNotations.
Open Scope N_scope.

Definition deployed_blob_mode : blob_mode := if json_blob_duck_text then BlobDuckText else BlobRaw.

(* PRIMARY statement about BLOB cells of the JSON response produced by the encoder found in
   the CURRENT source: for every blob and every continuation of the document, the token is
   scanned (RFC 8259) to DuckDB's text form of the blob and stops at its closing quote, the
   text form parses back to exactly the blob, and the token is well-formed UTF-8 without raw
   control bytes.  The statement only type-checks into a proof while the regenerated
   parameter says the repaired encoder is deployed; with the old raw encoder it fails to
   compile and the check reports the witness of C19_json_binary_utf8_refuted. *)
Theorem C19_deployed_blob_json : forall b t, Forall (fun x => x < 256) b ->
  json_scan (json_cell_m deployed_blob_mode TBin (VBytes b) ++ t) = Some (blob_text b, t)
  /\ blob_text_decode (blob_text b) = Some b
  /\ utf8_valid (json_cell_m deployed_blob_mode TBin (VBytes b)) = true
  /\ no_ctl (json_cell_m deployed_blob_mode TBin (VBytes b)) = true.
Proof. unfold deployed_blob_mode, json_blob_duck_text. exact C19_json_blob_text_form. Qed.
Print Assumptions C19_deployed_blob_json.
