(* Buffer area, pure kernels (definitions only).
   Transcription of the pure functions of internal/ingest/arrow_writer.go that decide
   WHERE and in WHICH ORDER accepted rows are written:
     HourBucketID, groupByHour, permuteByTime / permuteByTimeSort / radixSortBias /
     radixPermuteByTime, applyPermutation, sortTypedColumnBatchByKeys (default sort key
     "time"), sliceTypedColumnBatchByIndices, getColumnSignature, mergeBatches,
     flushPartitionedData (the single-hour test and the per-hour split).
   Go int64 values are Z; all functions are total.  Go panics are explicit outcomes.
   Reused by C03, C04, C05, C07, C32. *)
From Coq Require Import List ZArith NArith Bool Lia Sorting.Mergesort Orders.
Import ListNotations.
Open Scope Z_scope.

(* ------------------------------------------------------------------------------------ *)
(* Values, columns, batches (TypedColumnBatch)                                           *)
(* ------------------------------------------------------------------------------------ *)

Definition name := list N.                       (* Go string = byte string *)
Inductive ty := TInt | TFloat | TStr | TBool.    (* []int64 []float64 []string []bool; decimal128 not modelled *)
Inductive val := VZ (z : Z) | VS (s : list N).   (* ints, float bit patterns, bools (0/1) are VZ; strings VS *)
Record col := { c_ty : ty; c_vals : list val }.
Record batch := { b_cols : list (name * col); b_valid : list (name * list bool) }.
Definition cell := option val.                   (* None = SQL NULL *)

Definition time_name : name := [116; 105; 109; 101]%N.   (* "time" *)

Fixpoint bytes_eqb (a b : list N) : bool :=
  match a, b with
  | [], [] => true
  | x :: a', y :: b' => N.eqb x y && bytes_eqb a' b'
  | _, _ => false
  end.
Definition name_eqb : name -> name -> bool := bytes_eqb.

Definition ty_eqb (a b : ty) : bool :=
  match a, b with TInt, TInt | TFloat, TFloat | TStr, TStr | TBool, TBool => true | _, _ => false end.
Definition val_eqb (a b : val) : bool :=
  match a, b with VZ x, VZ y => x =? y | VS x, VS y => bytes_eqb x y | _, _ => false end.
Definition zero_of (t : ty) : val := match t with TStr => VS [] | _ => VZ 0 end.
Definition val_z (v : val) : Z := match v with VZ z => z | VS _ => 0 end.

Fixpoint lookupn {V} (k : name) (l : list (name * V)) : option V :=
  match l with
  | [] => None
  | (k', v) :: r => if name_eqb k k' then Some v else lookupn k r
  end.

(* number of rows of a batch: the code reads it from the time column when it is []int64 *)
Definition times_of (b : batch) : option (list Z) :=
  match lookupn time_name (b_cols b) with
  | Some c => match c_ty c with TInt => Some (map val_z (c_vals c)) | _ => None end
  | None => None
  end.
Definition batch_rows (b : batch) : nat :=
  match times_of b with Some ts => length ts | None => 0%nat end.

(* validity bits of a column: no entry = all valid *)
Definition valid_bits (b : batch) (c : name) (n : nat) : list bool :=
  match lookupn c (b_valid b) with Some bits => bits | None => repeat true n end.

Fixpoint zip_cells (vs : list val) (bits : list bool) : list cell :=
  match vs, bits with
  | v :: vs', ok :: bits' => (if ok then Some v else None) :: zip_cells vs' bits'
  | _, _ => []
  end.

(* the cells of column [c] of batch [b], one per row; a column the batch lacks reads NULL *)
Definition col_cells (b : batch) (c : name) : list cell :=
  match lookupn c (b_cols b) with
  | Some cl => zip_cells (c_vals cl) (valid_bits b c (length (c_vals cl)))
  | None => repeat None (batch_rows b)
  end.

(* a row = the cells of every column of the batch's own schema, by name *)
Definition row := list (name * cell).
Definition row_at (b : batch) (i : nat) : row :=
  map (fun nc => (fst nc, nth i (col_cells b (fst nc)) None)) (b_cols b).
Definition rows_of (b : batch) : list row := map (row_at b) (seq 0 (batch_rows b)).

(* what a reader sees: absent column = NULL *)
Definition row_get (r : row) (c : name) : cell :=
  match lookupn c r with Some x => x | None => None end.

(* ------------------------------------------------------------------------------------ *)
(* HourBucketID: Go's truncating / and % plus the correction for negatives               *)
(* ------------------------------------------------------------------------------------ *)

Definition hour_bucket_id (H t : Z) : Z :=
  let h := Z.quot t H in
  if (t <? 0) && negb (Z.rem t H =? 0) then h - 1 else h.

(* ------------------------------------------------------------------------------------ *)
(* groupByHour: one pass, buckets in first-seen order; the "last bucket" cache of the Go *)
(* code is a pointer to the map entry of lastID, i.e. it denotes the same bucket.        *)
(* ------------------------------------------------------------------------------------ *)

Record bucket := { bk_id : Z; bk_idx : list nat }.

Fixpoint bk_add (id : Z) (i : nat) (bs : list (Z * list nat)) : list (Z * list nat) :=
  match bs with
  | [] => [(id, [i])]
  | (id', rev_idx) :: r => if id' =? id then (id', i :: rev_idx) :: r else (id', rev_idx) :: bk_add id i r
  end.

Fixpoint group_loop (H : Z) (ts : list Z) (i : nat) (last : option Z) (bs : list (Z * list nat)) : list (Z * list nat) :=
  match ts with
  | [] => bs
  | t :: r =>
      let id := hour_bucket_id H t in
      match last with
      | Some l => if id =? l
                  then group_loop H r (S i) (Some l) (bk_add l i bs)      (* cached bucket *)
                  else group_loop H r (S i) (Some id) (bk_add id i bs)    (* map lookup / create *)
      | None => group_loop H r (S i) (Some id) (bk_add id i bs)
      end
  end.

Definition group_by_hour (H : Z) (ts : list Z) : list bucket :=
  map (fun p => {| bk_id := fst p; bk_idx := rev (snd p) |}) (group_loop H ts 0 None []).

(* ------------------------------------------------------------------------------------ *)
(* permuteByTime                                                                         *)
(* ------------------------------------------------------------------------------------ *)

Fixpoint already_sorted (ts : list Z) : bool :=
  match ts with
  | a :: ((b :: _) as r) => if b <? a then false else already_sorted r
  | _ => true
  end.

(* comparison path.  sort.Slice is library code (pdqsort, NOT stable); the model sorts the
   (time, index) pairs with the total lexicographic order, i.e. the stable result.  The
   correspondence therefore compares the time image and permutation-ness of the Go
   output, not the tie order. *)
Module TimeIdxOrder <: TotalLeBool.
  Definition t := (Z * nat)%type.
  Definition leb (x y : t) : bool :=
    (fst x <? fst y) || ((fst x =? fst y) && (Nat.leb (snd x) (snd y))).
  Theorem leb_total : forall a1 a2, leb a1 a2 = true \/ leb a2 a1 = true.
  Proof.
    intros [a i] [b j]; unfold leb; cbn [fst snd].
    destruct (a <? b) eqn:E1; [left; reflexivity|].
    destruct (b <? a) eqn:E2; [right; reflexivity|].
    apply Z.ltb_ge in E1. apply Z.ltb_ge in E2.
    assert (a = b) by lia. subst. rewrite Z.eqb_refl. cbn.
    destruct (Nat.leb i j) eqn:E3; [left; reflexivity|right].
    apply Nat.leb_le. apply Nat.leb_gt in E3. lia.
  Qed.
End TimeIdxOrder.
Module TimeIdxSort := Sort TimeIdxOrder.

Definition permute_by_time_sort (ts : list Z) : list nat :=
  map snd (TimeIdxSort.sort (combine ts (seq 0 (length ts)))).

(* radix path *)
Definition two63 : Z := 9223372036854775808.
Definition two64 : Z := 18446744073709551616.
Definition radix_bias (t : Z) : Z := Z.lxor (t mod two64) two63.        (* uint64(t) ^ 0x8000000000000000 *)
Definition digit (shift k : Z) : Z := Z.land (Z.shiftr k shift) 255.    (* (k >> shift) & 0xff *)

Definition digits256 : list Z := map Z.of_nat (seq 0 256).

(* one counting-sort pass = stable distribution by digit (the prefix-sum loop places every
   element of digit d, in src order, after all elements of smaller digits); skipped when
   all keys share the digit of src[0] *)
Definition radix_pass (shift : Z) (src : list (nat * Z)) : list (nat * Z) :=
  match src with
  | [] => src
  | s0 :: _ =>
      let tagged := map (fun p => (digit shift (snd p), p)) src in
      let d0 := digit shift (snd s0) in
      if forallb (fun q => fst q =? d0) tagged then src
      else flat_map (fun d => map snd (filter (fun q => fst q =? d) tagged)) digits256
  end.

Definition radix_shifts : list Z := [0; 8; 16; 24; 32; 40; 48; 56].

Definition radix_permute_by_time (ts : list Z) : list nat :=
  map fst (fold_left (fun src sh => radix_pass sh src) radix_shifts
                     (combine (seq 0 (length ts)) (map radix_bias ts))).

(* None = Go nil = identity (already sorted) *)
Definition permute_by_time (radix_threshold : Z) (ts : list Z) : option (list nat) :=
  match ts with
  | [] => None
  | _ => if already_sorted ts then None
         else if Z.of_nat (length ts) <? radix_threshold then Some (permute_by_time_sort ts)
         else Some (radix_permute_by_time ts)
  end.

(* applyPermutation / validity permutation.  Go would panic on an out-of-range index; the
   indices are always in range (C03_sort_perm_sorted), the default is never read. *)
Definition apply_perm {A} (d : A) (l : list A) (idx : list nat) : list A := map (fun i => nth i l d) idx.

(* sliceColumnsByIndices: out-of-range index reads the zero value / validity false *)
Definition slice_vals (t : ty) (l : list val) (idx : list nat) : list val := map (fun i => nth i l (zero_of t)) idx.
Definition slice_bits (l : list bool) (idx : list nat) : list bool := map (fun i => nth i l false) idx.

Definition permute_batch (b : batch) (idx : list nat) : batch :=
  {| b_cols := map (fun nc => (fst nc, {| c_ty := c_ty (snd nc); c_vals := apply_perm (zero_of (c_ty (snd nc))) (c_vals (snd nc)) idx |})) (b_cols b);
     b_valid := map (fun nv => (fst nv, apply_perm false (snd nv) idx)) (b_valid b) |}.

Definition slice_batch (b : batch) (idx : list nat) : batch :=
  {| b_cols := map (fun nc => (fst nc, {| c_ty := c_ty (snd nc); c_vals := slice_vals (c_ty (snd nc)) (c_vals (snd nc)) idx |})) (b_cols b);
     b_valid := map (fun nv => (fst nv, slice_bits (snd nv) idx)) (b_valid b) |}.

(* sortTypedColumnBatchByKeys with the default sort keys ["time"] *)
Definition sort_batch (radix_threshold : Z) (b : batch) : batch :=
  match times_of b with
  | None => b                                            (* error from the sort: batch returned unchanged *)
  | Some ts => match permute_by_time radix_threshold ts with
               | None => b
               | Some idx => permute_batch b idx
               end
  end.

(* ------------------------------------------------------------------------------------ *)
(* getColumnSignature: "name:typ" of every column whose name is non-empty and does not     *)
(* start with '_', sorted by name, joined with ','                                        *)
(* ------------------------------------------------------------------------------------ *)

Fixpoint bytes_ltb (a b : list N) : bool :=
  match a, b with
  | [], [] => false
  | [], _ :: _ => true
  | _ :: _, [] => false
  | x :: a', y :: b' => if N.ltb x y then true else if N.ltb y x then false else bytes_ltb a' b'
  end.

Definition ty_tag (t : ty) : list N :=
  match t with
  | TInt => [105; 54; 52]%N          (* i64 *)
  | TFloat => [102; 54; 52]%N        (* f64 *)
  | TStr => [115; 116; 114]%N        (* str *)
  | TBool => [98; 111; 111; 108]%N   (* bool *)
  end.

Definition sig_visible (n : name) : bool :=
  match n with [] => false | c :: _ => negb (N.eqb c 95) end.

Fixpoint insert_by_name (e : name * ty) (l : list (name * ty)) : list (name * ty) :=
  match l with
  | [] => [e]
  | x :: r => if bytes_ltb (fst e) (fst x) then e :: l else x :: insert_by_name e r
  end.

Fixpoint join_sig (l : list (name * ty)) : list N :=
  match l with
  | [] => []
  | [e] => fst e ++ [58%N] ++ ty_tag (snd e)
  | e :: r => fst e ++ [58%N] ++ ty_tag (snd e) ++ [44%N] ++ join_sig r
  end.

Definition column_signature (b : batch) : list N :=
  join_sig (fold_right insert_by_name []
              (map (fun nc : name * col => (fst nc, c_ty (snd nc))) (filter (fun nc => sig_visible (fst nc)) (b_cols b)))).

(* bufferSchemaKey (5cfca39): the value stored in bufferSchemas and compared on every write.  The
   plain signature when every column name is non-empty, does not start with '_' and contains no
   ','; otherwise 0x00 followed by "<len>:<name>:<typ>;" for EVERY column, sorted by name. *)
Definition name_plain (n : name) : bool :=
  match n with [] => false | c :: _ => negb (N.eqb c 95) end && negb (existsb (N.eqb 44) n).

Fixpoint dec_bytes_aux (fuel n : nat) (acc : list N) : list N :=       (* strconv.Itoa *)
  match fuel with
  | O => acc
  | S f => let acc' := N.of_nat (48 + Nat.modulo n 10) :: acc in
           if Nat.eqb (Nat.div n 10) 0 then acc' else dec_bytes_aux f (Nat.div n 10) acc'
  end.
Definition dec_bytes (n : nat) : list N := dec_bytes_aux (S n) n [].

Definition sorted_entries (cs : list (name * col)) : list (name * ty) :=
  fold_right insert_by_name [] (map (fun nc => (fst nc, c_ty (snd nc))) cs).

Definition buffer_schema_key (b : batch) : list N :=
  if forallb (fun nc => name_plain (fst nc)) (b_cols b) then column_signature b
  else 0%N :: flat_map (fun e => dec_bytes (length (fst e)) ++ [58%N] ++ fst e ++ [58%N] ++ ty_tag (snd e) ++ [59%N])
                       (sorted_entries (b_cols b)).

(* ------------------------------------------------------------------------------------ *)
(* mergeBatches                                                                          *)
(* ------------------------------------------------------------------------------------ *)

Inductive mres := MOk (b : batch) | MErr | MPanic.

(* copy(dst[off:], v) on a pre-allocated array *)
Definition splice {A} (arr : list A) (off : nat) (v : list A) : list A :=
  firstn off arr ++ firstn (length arr - off) v ++ skipn (off + length v) arr.

(* dest := arr[off : off+n] (always inside the array: off is the running row offset); for i := range dest { dest[i] = true } *)
Definition fill_true (arr : list bool) (off n : nat) : list bool :=
  firstn off arr ++ repeat true n ++ skipn (off + n) arr.
(* copy(dest, src) with dest = arr[off : off+n] *)
Definition copy_bits (arr : list bool) (off n : nat) (src : list bool) : list bool :=
  let k := Nat.min n (length src) in
  firstn off arr ++ firstn k src ++ skipn (off + k) arr.

(* PHASE 1: column types, first seen wins *)
Fixpoint add_types (cs : list (name * col)) (acc : list (name * ty)) : list (name * ty) :=
  match cs with
  | [] => acc
  | (n, c) :: r => match lookupn n acc with
                   | Some _ => add_types r acc
                   | None => add_types r (acc ++ [(n, c_ty c)])
                   end
  end.
Definition col_types (bs : list batch) : list (name * ty) :=
  fold_left (fun acc b => add_types (b_cols b) acc) bs [].

Definition total_rows (bs : list batch) : nat := fold_right (fun b n => (batch_rows b + n)%nat) 0%nat bs.

Definition is_nil {A} (l : list A) : bool := match l with [] => true | _ => false end.

(* PHASE 3 for one destination column: row-offset copies.  [None] = a type assertion
   merged[name].([]T) failed (Go panics). *)
Fixpoint merge_col_data (n : name) (t : ty) (bs : list batch) (off : nat) (arr : list val) : option (list val) :=
  match bs with
  | [] => Some arr
  | b :: r =>
      match lookupn n (b_cols b) with
      | Some c => if ty_eqb (c_ty c) t
                  then merge_col_data n t r (off + batch_rows b) (splice arr off (c_vals c))
                  else None
      | None => merge_col_data n t r (off + batch_rows b) arr
      end
  end.

Fixpoint merge_col_valid (n : name) (bs : list batch) (off : nat) (arr : list bool) : list bool :=
  match bs with
  | [] => arr
  | b :: r =>
      let rows := batch_rows b in
      match lookupn n (b_cols b) with
      | Some _ =>
          let arr' := match lookupn n (b_valid b) with
                      | Some bits => copy_bits arr off rows bits
                      | None => fill_true arr off rows
                      end in
          merge_col_valid n r (off + rows) arr'
      | None => merge_col_valid n r (off + rows) arr
      end
  end.

Fixpoint all_some {A} (l : list (option A)) : option (list A) :=
  match l with
  | [] => Some []
  | Some x :: r => match all_some r with Some xs => Some (x :: xs) | None => None end
  | None :: _ => None
  end.

Definition merge_batches (bs : list batch) : mres :=
  match bs with
  | [] => MErr                                      (* "no batches to merge" *)
  | [b] => MOk b                                    (* returned as is *)
  | _ =>
      let cts := col_types bs in
      let total := total_rows bs in
      let needs := existsb (fun b => negb (is_nil (b_valid b))) bs
                   || existsb (fun b => Nat.ltb (length (b_cols b)) (length cts)) bs in
      match all_some (map (fun nt => match merge_col_data (fst nt) (snd nt) bs 0 (repeat (zero_of (snd nt)) total) with
                                     | Some vs => Some (fst nt, {| c_ty := snd nt; c_vals := vs |})
                                     | None => None end) cts) with
      | None => MPanic
      | Some cols =>
          let valid := if needs
                       then filter (fun nv => negb (forallb (fun x => x) (snd nv)))       (* strip all-true entries *)
                                   (map (fun nt => (fst nt, merge_col_valid (fst nt) bs 0 (repeat false total))) cts)
                       else [] in
          MOk {| b_cols := cols; b_valid := valid |}
      end
  end.

(* ------------------------------------------------------------------------------------ *)
(* flushPartitionedData: which files a merged batch becomes.  A file is (hour id, batch) *)
(* ------------------------------------------------------------------------------------ *)

Definition list_min (d : Z) (l : list Z) : Z := fold_left Z.min l d.
Definition list_max (d : Z) (l : list Z) : Z := fold_left Z.max l d.

Definition flush_partitioned (H thr : Z) (b : batch) : option (list (Z * batch)) :=
  match times_of b with
  | None => None
  | Some [] => None                                                     (* "no time data in batch" *)
  | Some ((t0 :: _) as ts) =>
      let mn := list_min t0 ts in
      let mx := list_max t0 ts in
      (* minTime.Truncate(Hour).Equal(maxTime.Truncate(Hour)); the path is built from minTime *)
      if hour_bucket_id H mn =? hour_bucket_id H mx
      then Some [(hour_bucket_id H mn, sort_batch thr b)]
      else Some (map (fun bk => (bk_id bk, sort_batch thr (slice_batch b (bk_idx bk)))) (group_by_hour H ts))
  end.

Inductive fres := FOk (files : list (Z * batch)) | FErr | FPanic.

(* flushRecordsAsync / flushBufferLocked: merge, then partitioned flush *)
Definition flush_batches (H thr : Z) (bs : list batch) : fres :=
  match merge_batches bs with
  | MOk m => match flush_partitioned H thr m with Some fs => FOk fs | None => FErr end
  | MErr => FErr
  | MPanic => FPanic
  end.
