(* Buffer area: proofs about the protocol of Protocol.v, part 3 (C07): what every step does to the
   multisets of batches (volatile / stored / dropped / WAL) as a function of the pre-state and the
   label ([dframe], proved for every label), the durability invariant under the guard [benign],
   and the at-most-once invariant under the guard [noredo]. *)
From Coq Require Import List Bool Arith Lia Permutation.
From Arc Require Import Lib.AList Buffer.Protocol Buffer.ProtocolCount Buffer.ProtocolInv.
Import ListNotations.

(* ------------------------------------------------------------------ *)

Section Dur.
  Context {K B Sg F : Type}.
  Variable keqb : K -> K -> bool.
  Variable seqb : Sg -> Sg -> bool.
  Variable sigf : B -> Sg.
  Variable nrows : B -> nat.
  Variable flushf : list B -> flush_res F.
  Hypothesis keqb_spec : forall a b, reflect (a = b) (keqb a b).
  Hypothesis K_dec : forall a b : K, {a = b} + {a <> b}.
  Hypothesis B_dec : forall a b : B, {a = b} + {a <> b}.

  Notation item := (item K B).
  Notation task := (task K B).
  Notation st := (st K B Sg F).
  Notation label := (label K B).
  Notation step := (step keqb seqb sigf nrows flushf).
  Notation append := (append keqb seqb sigf nrows).
  Notation extract := (extract keqb).
  Notation complete := (complete flushf).
  Notation idec := (item_dec K_dec B_dec).
  Notation c x l := (count_occ idec l x).

  Definition stored_any (s : st) : list item := flat_map (@s_items K B F) (stored s).

  (* what a step adds / moves / drops, as functions of the pre-state and the label *)
  Definition nth_task (s : st) (i : nat) : list item :=
    match nth_error (busy s) i with Some (_, t) => t_items t | None => [] end.

  Definition f_added (s : st) (l : label) : list item :=
    match l with
    | LWrite k b _ => [{| it_id := next_id s; it_key := k; it_b := b |}]
    | LReplayEntry => match replaying s with (e :: _, _) :: _ => [e] | _ => [] end
    | _ => []
    end.
  Definition f_acc (s : st) (l : label) : list item :=
    match l with LWrite k b _ => [{| it_id := next_id s; it_key := k; it_b := b |}] | _ => [] end.
  Definition f_waladd (cfg : config) (s : st) (l : label) : list item :=
    match l with LWrite k b ok => if wal_on cfg && ok then [{| it_id := next_id s; it_key := k; it_b := b |}] else [] | _ => [] end.
  Definition f_moved (s : st) (l : label) : list item :=
    match l with
    | LDone i OOk => match flushf (map (@it_b K B) (nth_task s i)) with FlOk _ => nth_task s i | _ => [] end
    | _ => []
    end.
  Definition f_part (s : st) (l : label) : list item :=          (* flush failed after possibly writing some files *)
    match l with
    | LDone i (OFail _) => match flushf (map (@it_b K B) (nth_task s i)) with FlOk _ => nth_task s i | _ => [] end
    | _ => []
    end.
  Definition f_part_stored (s : st) (l : label) : list item :=
    match l with
    | LDone i (OFail mask) => match flushf (map (@it_b K B) (nth_task s i)) with
                              | FlOk files => if is_nil (select mask files) then [] else nth_task s i
                              | _ => [] end
    | _ => []
    end.
  Definition f_drop (cfg : config) (s : st) (l : label) : list item :=
    match l with
    | LEnqueue i => if closing s then nth_task s i else if length (queue s) <? queue_cap cfg then [] else nth_task s i
    | LDone i _ => match flushf (map (@it_b K B) (nth_task s i)) with FlOk _ => [] | _ => nth_task s i end
    | LRestart => volatile_items s
    | _ => []
    end.
  Definition f_waldel (s : st) (l : label) : list item :=
    match l with
    | LPurgeOld => flat_map (@w_entries K B) (filter (fun f => is_old (w_age f)) (wal_files s))
    | LPurgeAll => wal_active s ++ flat_map (@w_entries K B) (wal_files s)
    | LReplayFileDone => match replaying s with ([], all) :: _ => all | _ => [] end
    | _ => []
    end.

  Record dframe (cfg : config) (s : st) (l : label) (s' : st) : Prop := {
    df_v : forall x, c x (volatile_items s') + c x (f_moved s l) + c x (f_part s l) + c x (f_drop cfg s l)
                     = c x (volatile_items s) + c x (f_added s l);
    df_sf : forall x, c x (stored_items s') = c x (stored_items s) + c x (f_moved s l);
    df_sa : forall x, c x (stored_any s') = c x (stored_any s) + c x (f_moved s l) + c x (f_part_stored s l);
    df_d : forall x, c x (dropped_items s') = c x (dropped_items s) + c x (f_part s l) + c x (f_drop cfg s l);
    df_w : forall x, c x (wal_items s') + c x (f_waldel s l) = c x (wal_items s) + c x (f_waladd cfg s l);
    df_a : accepted s' = accepted s ++ f_acc s l;
    df_n : next_id s' = next_id s + length (f_acc s l)
  }.


  Lemma cnt_parts (s : st) x : cnt K_dec B_dec s x = c x (volatile_items s) + c x (stored_items s) + c x (dropped_items s).
  Proof. unfold cnt, all_items. rewrite !count_occ_app. lia. Qed.

  Lemma stored_items_eq (s1 s2 : st) : stored s1 = stored s2 -> stored_items s1 = stored_items s2 /\ stored_any s1 = stored_any s2.
  Proof. unfold stored_items, stored_any. intros ->. split; reflexivity. Qed.
  Lemma dropped_items_eq (s1 s2 : st) : dropped s1 = dropped s2 -> dropped_items s1 = dropped_items s2.
  Proof. unfold dropped_items. intros ->. reflexivity. Qed.

  Lemma append_wal cfg (s : st) it (s1 : st) : append cfg s it = Some s1 ->
    wal_active s1 = wal_active s /\ wal_files s1 = wal_files s /\ replaying s1 = replaying s /\ accepted s1 = accepted s /\ next_id s1 = next_id s.
  Proof.
    intros H. unfold Protocol.append in H.
    destruct (lookup keqb (it_key it) (buffers s)) as [[sg items]|]; [destruct (seqb sg (sigf (it_b it))); [|discriminate]|];
      inversion H; subst; destruct (max_size cfg <=? _); destruct (closing s); cbn; repeat split.
  Qed.

  Lemma append_parts cfg (s : st) it (s1 : st) x : NoDup (keys (buffers s)) -> append cfg s it = Some s1 ->
    c x (volatile_items s1) = c x (volatile_items s) + (if idec it x then 1 else 0) /\
    stored s1 = stored s /\ dropped s1 = dropped s.
  Proof.
    intros Hn H. destruct (append_cnt keqb seqb sigf nrows keqb_spec K_dec B_dec cfg s it s1 x Hn H) as [E _].
    pose proof (append_stored keqb seqb sigf nrows _ _ _ _ H) as Es. pose proof (append_dropped keqb seqb sigf nrows _ _ _ _ H) as Ed.
    rewrite !cnt_parts in E. destruct (stored_items_eq _ _ Es) as [E1 _]. rewrite E1, (dropped_items_eq _ _ Ed) in E.
    unfold one in E. split; [lia|split; assumption].
  Qed.

  Lemma extract_parts (s : st) k r (s1 : st) x : NoDup (keys (buffers s)) -> extract s k r = Some s1 ->
    c x (volatile_items s1) = c x (volatile_items s) /\ stored s1 = stored s /\ dropped s1 = dropped s /\
    wal_active s1 = wal_active s /\ wal_files s1 = wal_files s /\ replaying s1 = replaying s /\ accepted s1 = accepted s /\ next_id s1 = next_id s.
  Proof.
    intros Hn H. destruct (extract_cnt keqb keqb_spec K_dec B_dec s k r s1 x Hn H) as [E _].
    pose proof (extract_stored keqb _ _ _ _ H) as Es. pose proof (extract_dropped keqb _ _ _ _ H) as Ed.
    rewrite !cnt_parts in E. destruct (stored_items_eq _ _ Es) as [E1 _]. rewrite E1, (dropped_items_eq _ _ Ed) in E.
    split; [lia|]. split; [assumption|]. split; [assumption|].
    unfold Protocol.extract in H. destruct (lookup keqb k (buffers s)) as [[? ?]|]; [|discriminate]. inversion H; subst; cbn. repeat split.
  Qed.

  Lemma unclean_parts (s : st) : volatile_items (unclean s) = volatile_items s /\ stored (unclean s) = stored s /\ dropped (unclean s) = dropped s /\
    wal_active (unclean s) = wal_active s /\ wal_files (unclean s) = wal_files s /\ replaying (unclean s) = replaying s /\
    accepted (unclean s) = accepted s /\ next_id (unclean s) = next_id s.
  Proof. unfold unclean. destruct (closing s); cbn; repeat split. Qed.


  Lemma wal_items_eq (s1 s2 : st) : wal_active s1 = wal_active s2 -> wal_files s1 = wal_files s2 -> replaying s1 = replaying s2 ->
    wal_items s1 = wal_items s2.
  Proof. unfold wal_items. intros -> -> ->. reflexivity. Qed.

  Lemma filter_split_count {A} (f : A -> list item) (p : A -> bool) l x :
    c x (flat_map f l) = c x (flat_map f (filter (fun a => negb (p a)) l)) + c x (flat_map f (filter p l)).
  Proof. induction l as [|a l IH]; cbn; [reflexivity|]. destruct (p a); cbn; rewrite !count_occ_app, IH; lia. Qed.

  Lemma nth_split_count {A} (f : A -> list item) l i a x : nth_error l i = Some a ->
    c x (flat_map f l) = c x (flat_map f (firstn i l)) + c x (f a) + c x (flat_map f (skipn (S i) l)).
  Proof.
    revert i. induction l as [|b l IH]; intros [|i] E; try discriminate E.
    - cbn in E. inversion E; subst. cbn. rewrite count_occ_app. lia.
    - cbn [nth_error] in E. change (skipn (S (S i)) (b :: l)) with (skipn (S i) l). cbn [firstn flat_map].
      rewrite !count_occ_app, (IH _ E). lia.
  Qed.

  Lemma flat_map_map_count {A A'} (g : A -> A') (f : A' -> list item) l x : c x (flat_map f (map g l)) = c x (flat_map (fun a => f (g a)) l).
  Proof. induction l; cbn; [reflexivity|]. rewrite !count_occ_app, IHl. reflexivity. Qed.

  (* projections through the field setters *)
  Lemma vol_out (s : st) a b c' d : volatile_items (set_out s a b c' d) = volatile_items s. Proof. reflexivity. Qed.
  Lemma vol_ctl (s : st) a b c' d : volatile_items (set_ctl s a b c' d) = volatile_items s. Proof. reflexivity. Qed.
  Lemma vol_wal (s : st) a b c' : volatile_items (set_wal s a b c') = volatile_items s. Proof. reflexivity. Qed.
  Lemma vol_acc (s : st) a b : volatile_items (set_acc s a b) = volatile_items s. Proof. reflexivity. Qed.
  Lemma vol_vol (s : st) bf q bz : volatile_items (set_vol s bf q bz) =
    flat_map (fun kv => snd (snd kv)) bf ++ flat_map (@t_items K B) q ++ flat_map (fun p : role * task => t_items (snd p)) bz. Proof. reflexivity. Qed.
  Lemma vol_def (s : st) : volatile_items s =
    flat_map (fun kv => snd (snd kv)) (buffers s) ++ flat_map (@t_items K B) (queue s) ++ flat_map (fun p : role * task => t_items (snd p)) (busy s). Proof. reflexivity. Qed.
  Lemma sf_vol (s : st) a b c' : stored_items (set_vol s a b c') = stored_items s. Proof. reflexivity. Qed.
  Lemma sf_ctl (s : st) a b c' d : stored_items (set_ctl s a b c' d) = stored_items s. Proof. reflexivity. Qed.
  Lemma sf_wal (s : st) a b c' : stored_items (set_wal s a b c') = stored_items s. Proof. reflexivity. Qed.
  Lemma sf_acc (s : st) a b : stored_items (set_acc s a b) = stored_items s. Proof. reflexivity. Qed.
  Lemma sa_vol (s : st) a b c' : stored_any (set_vol s a b c') = stored_any s. Proof. reflexivity. Qed.
  Lemma sa_ctl (s : st) a b c' d : stored_any (set_ctl s a b c' d) = stored_any s. Proof. reflexivity. Qed.
  Lemma sa_wal (s : st) a b c' : stored_any (set_wal s a b c') = stored_any s. Proof. reflexivity. Qed.
  Lemma sa_acc (s : st) a b : stored_any (set_acc s a b) = stored_any s. Proof. reflexivity. Qed.
  Lemma d_vol (s : st) a b c' : dropped_items (set_vol s a b c') = dropped_items s. Proof. reflexivity. Qed.
  Lemma d_ctl (s : st) a b c' d : dropped_items (set_ctl s a b c' d) = dropped_items s. Proof. reflexivity. Qed.
  Lemma d_wal (s : st) a b c' : dropped_items (set_wal s a b c') = dropped_items s. Proof. reflexivity. Qed.
  Lemma d_acc (s : st) a b : dropped_items (set_acc s a b) = dropped_items s. Proof. reflexivity. Qed.
  Lemma w_vol (s : st) a b c' : wal_items (set_vol s a b c') = wal_items s. Proof. reflexivity. Qed.
  Lemma w_ctl (s : st) a b c' d : wal_items (set_ctl s a b c' d) = wal_items s. Proof. reflexivity. Qed.
  Lemma w_out (s : st) a b c' d : wal_items (set_out s a b c' d) = wal_items s. Proof. reflexivity. Qed.
  Lemma w_acc (s : st) a b : wal_items (set_acc s a b) = wal_items s. Proof. reflexivity. Qed.
  Lemma w_wal (s : st) a b c' : wal_items (set_wal s a b c') = a ++ flat_map (@w_entries K B) b ++ flat_map snd c'. Proof. reflexivity. Qed.
  Lemma w_def (s : st) : wal_items s = wal_active s ++ flat_map (@w_entries K B) (wal_files s) ++ flat_map snd (replaying s). Proof. reflexivity. Qed.
  Lemma sf_out (s : st) a b c' d : stored_items (set_out s a b c' d) = flat_map (fun r : srec K B F => if s_full r then s_items r else []) a. Proof. reflexivity. Qed.
  Lemma sa_out (s : st) a b c' d : stored_any (set_out s a b c' d) = flat_map (@s_items K B F) a. Proof. reflexivity. Qed.
  Lemma d_out (s : st) a b c' d : dropped_items (set_out s a b c' d) = flat_map (fun p : task * drop_reason => t_items (fst p)) b. Proof. reflexivity. Qed.
  Lemma sf_def (s : st) : stored_items s = flat_map (fun r : srec K B F => if s_full r then s_items r else []) (stored s). Proof. reflexivity. Qed.
  Lemma sa_def (s : st) : stored_any s = flat_map (@s_items K B F) (stored s). Proof. reflexivity. Qed.
  Lemma d_def (s : st) : dropped_items s = flat_map (fun p : task * drop_reason => t_items (fst p)) (dropped s). Proof. reflexivity. Qed.

  Ltac proj := repeat first [rewrite vol_out | rewrite vol_ctl | rewrite vol_wal | rewrite vol_acc | rewrite sf_vol | rewrite sf_ctl | rewrite sf_wal | rewrite sf_acc
                            | rewrite sa_vol | rewrite sa_ctl | rewrite sa_wal | rewrite sa_acc | rewrite d_vol | rewrite d_ctl | rewrite d_wal | rewrite d_acc
                            | rewrite w_vol | rewrite w_ctl | rewrite w_out | rewrite w_acc].

  Ltac rw_ctx := repeat match goal with
    | Hq : ?a = true |- context [?a] => rewrite Hq
    | Hq : ?a = false |- context [?a] => rewrite Hq
    | Hq : ?a = Some _ |- context [?a] => rewrite Hq
    | Hq : ?a = _ :: _ |- context [?a] => rewrite Hq
    | Hq : ?a = [] |- context [?a] => rewrite Hq
    | Hq : ?a = FlOk _ |- context [?a] => rewrite Hq
    | Hq : ?a = FlErr |- context [?a] => rewrite Hq
    | Hq : ?a = FlPanic |- context [?a] => rewrite Hq
    end.
  Ltac expl := split; intros; cbn [f_added f_acc f_waladd f_moved f_part f_part_stored f_drop f_waldel]; unfold nth_task; rw_ctx; proj;
        rewrite ?vol_vol, ?sf_out, ?sa_out, ?d_out, ?w_wal, ?vol_def, ?sf_def, ?sa_def, ?d_def, ?w_def, ?flat_map_app, ?count_occ_app;
        cbn [flat_map fst snd app s_full s_items t_items w_entries]; rw_ctx;
        rewrite ?app_nil_r, ?count_occ_app; cbn [count_occ accepted next_id set_out set_vol set_wal set_ctl length]; rewrite ?app_nil_r.

  Lemma complete_parts (s : st) t o (s1 : st) : complete s t o = Some s1 ->
    buffers s1 = buffers s /\ queue s1 = queue s /\ busy s1 = busy s /\ wal_active s1 = wal_active s /\ wal_files s1 = wal_files s /\
    replaying s1 = replaying s /\ accepted s1 = accepted s /\ next_id s1 = next_id s.
  Proof.
    intros H. unfold Protocol.complete in H. destruct (flushf _); [destruct o; [|destruct (_ <? _); [|discriminate]]| |];
      inversion H; subst; cbn; repeat split.
  Qed.

  Definition quiet (l : label) : bool :=
    match l with
    | LSchemaFlush _ | LFlushAllExtract _ | LAgeExtract _ | LDequeue | LCloseBegin | LCloseWait | LCloseDrain | LCloseExtract _ | LCloseEnd
    | LRotate | LAgeFile _ | LReplayStart _ | LReplayFileKeep _ _ | LResetFlag => true
    | _ => false
    end.

  Lemma dframe_quiet cfg (s : st) l (s' : st) : quiet l = true ->
    (forall x, c x (volatile_items s') = c x (volatile_items s)) -> stored s' = stored s -> dropped s' = dropped s ->
    (forall x, c x (wal_items s') = c x (wal_items s)) -> accepted s' = accepted s -> next_id s' = next_id s -> dframe cfg s l s'.
  Proof.
    intros Hq Hv Hs Hd Hw Ha Hn'. destruct (stored_items_eq _ _ Hs) as [S1 S2]. pose proof (dropped_items_eq _ _ Hd) as D1.
    destruct l; try discriminate Hq; split; intros; cbn [f_added f_acc f_waladd f_moved f_part f_part_stored f_drop f_waldel];
      rewrite ?Hv, ?S1, ?S2, ?D1, ?Hw, ?Ha, ?Hn', ?app_nil_r; cbn [count_occ length]; lia || reflexivity.
  Qed.

  Lemma extract_same (s : st) k r (s1 : st) : extract s k r = Some s1 ->
    stored s1 = stored s /\ dropped s1 = dropped s /\ wal_items s1 = wal_items s /\ accepted s1 = accepted s /\ next_id s1 = next_id s.
  Proof.
    intros H. unfold Protocol.extract in H. destruct (lookup keqb k (buffers s)) as [[? ?]|]; [|discriminate]. inversion H; subst; cbn. repeat split.
  Qed.

  Lemma complete_frame (s0 : st) t o (s1 : st) x : complete s0 t o = Some s1 ->
    let fr := flushf (map (@it_b K B) (t_items t)) in
    volatile_items s1 = volatile_items s0 /\ wal_items s1 = wal_items s0 /\ accepted s1 = accepted s0 /\ next_id s1 = next_id s0 /\
    c x (stored_items s1) = c x (stored_items s0) + c x (match o with OOk => match fr with FlOk _ => t_items t | _ => [] end | _ => [] end) /\
    c x (stored_any s1) = c x (stored_any s0) + c x (match o with OOk => match fr with FlOk _ => t_items t | _ => [] end | _ => [] end)
                          + c x (match o with OFail mask => match fr with FlOk files => if is_nil (select mask files) then [] else t_items t | _ => [] end | _ => [] end) /\
    c x (dropped_items s1) = c x (dropped_items s0)
                          + c x (match o with OFail _ => match fr with FlOk _ => t_items t | _ => [] end | _ => [] end)
                          + c x (match fr with FlOk _ => [] | _ => t_items t end).
  Proof.
    intros H. cbv zeta. unfold Protocol.complete in H.
    destruct (flushf (map (@it_b K B) (t_items t))) as [files| |] eqn:Ef; [destruct o as [|mask]; [|destruct (length (select mask files) <? length files); [|discriminate]]| |];
      inversion H; subst; clear H; proj; rewrite ?sf_out, ?sa_out, ?d_out, ?sf_def, ?sa_def, ?d_def;
      try destruct (is_nil (select mask files)); rewrite ?flat_map_app, ?count_occ_app; cbn [flat_map fst snd s_full s_items t_items app];
      rewrite ?app_nil_r; cbn [count_occ]; repeat split; try destruct o; cbn [count_occ]; lia.
  Qed.

  Lemma step_dframe cfg (s : st) l (s' : st) : NoDup (keys (buffers s)) -> step cfg s l = Some s' -> dframe cfg s l s'.
  Proof.
    intros Hn H. unfold Protocol.step in H. destruct (crashed s); [discriminate|].
    destruct l; break_match H; inv_some H.
    - (* LWrite *)
      destruct (append_wal _ _ _ _ E) as [W1 [W2 [W3 [W4 W5]]]].
      assert (P := fun x => append_parts cfg s _ s0 x Hn E).
      assert (Ws : wal_items s0 = wal_items s) by (apply wal_items_eq; assumption).
      destruct (wal_on cfg && wal_ok) eqn:Ew; split; intros; cbn [f_added f_acc f_waladd f_moved f_part f_part_stored f_drop f_waldel]; rewrite ?Ew;
        proj; try destruct (P x) as [P1 [P2 P3]];
        rewrite ?(proj1 (stored_items_eq _ _ P2)), ?(proj2 (stored_items_eq _ _ P2)), ?(dropped_items_eq _ _ P3);
        try (cbn [count_occ]; lia).
      all: try (rewrite w_wal; cbn [wal_active wal_files replaying set_acc set_wal accepted next_id length]; rewrite ?W1, ?W2, ?W3, ?W4, ?W5;
                rewrite ?w_def, ?count_occ_app; cbn [count_occ length]; try lia; try reflexivity).
      all: cbn [accepted next_id set_wal set_acc length]; rewrite ?W4, ?W5, ?Ws; try reflexivity; try lia.
    - (* LEnqueue, closing *)
      pose proof (fun x => remove_nth_count K_dec B_dec (fun p : role * task => t_items (snd p)) x _ _ _ E) as R.
      split; intros; cbn [f_added f_acc f_waladd f_moved f_part f_part_stored f_drop f_waldel]; unfold nth_task; rewrite ?E, ?E2; proj;
        rewrite ?vol_vol, ?sf_out, ?sa_out, ?d_out, ?vol_def, ?sf_def, ?sa_def, ?d_def, ?flat_map_app, ?count_occ_app; cbn [flat_map fst snd app];
        rewrite ?app_nil_r, ?count_occ_app; cbn [count_occ accepted next_id set_out set_vol length]; try specialize (R x); cbn [snd] in *; try lia; try reflexivity; rewrite ?app_nil_r; try reflexivity; try lia.
    - (* LEnqueue, queued *)
      pose proof (fun x => remove_nth_count K_dec B_dec (fun p : role * task => t_items (snd p)) x _ _ _ E) as R.
      split; intros; cbn [f_added f_acc f_waladd f_moved f_part f_part_stored f_drop f_waldel]; unfold nth_task; rewrite ?E, ?E2, ?E3; proj;
        rewrite ?vol_vol, ?sf_out, ?sa_out, ?d_out, ?vol_def, ?sf_def, ?sa_def, ?d_def, ?flat_map_app, ?count_occ_app; cbn [flat_map fst snd app];
        rewrite ?app_nil_r, ?count_occ_app; cbn [count_occ accepted next_id set_out set_vol length]; try specialize (R x); cbn [snd] in *; try lia; try reflexivity; rewrite ?app_nil_r; try reflexivity; try lia.
    - (* LEnqueue, full *)
      pose proof (fun x => remove_nth_count K_dec B_dec (fun p : role * task => t_items (snd p)) x _ _ _ E) as R.
      split; intros; cbn [f_added f_acc f_waladd f_moved f_part f_part_stored f_drop f_waldel]; unfold nth_task; rewrite ?E, ?E2, ?E3; proj;
        rewrite ?vol_vol, ?sf_out, ?sa_out, ?d_out, ?vol_def, ?sf_def, ?sa_def, ?d_def, ?flat_map_app, ?count_occ_app; cbn [flat_map fst snd app];
        rewrite ?app_nil_r, ?count_occ_app; cbn [count_occ accepted next_id set_out set_vol length]; try specialize (R x); cbn [snd] in *; try lia; try reflexivity; rewrite ?app_nil_r; try reflexivity; try lia.
    - (* LSchemaFlush *)
      destruct (extract_same _ _ _ _ E) as [X1 [X2 [X3 [X4 X5]]]]. destruct (unclean_parts s0) as [U1 [U2 [U3 [U4 [U5 [U6 [U7 U8]]]]]]].
      apply dframe_quiet; [reflexivity| |congruence|congruence| |congruence|congruence].
      + intros x. rewrite U1. apply (extract_parts s k RHeldW s0 x Hn E).
      + intros x. rewrite (wal_items_eq (unclean s0) s0) by assumption. rewrite X3. reflexivity.
    - (* LFlushAllExtract *)
      destruct (extract_same _ _ _ _ E) as [X1 [X2 [X3 [X4 X5]]]]. destruct (unclean_parts s0) as [U1 [U2 [U3 [U4 [U5 [U6 [U7 U8]]]]]]].
      apply dframe_quiet; [reflexivity| |congruence|congruence| |congruence|congruence].
      + intros x. rewrite U1. apply (extract_parts s k RHeldW s0 x Hn E).
      + intros x. rewrite (wal_items_eq (unclean s0) s0) by assumption. rewrite X3. reflexivity.
    - (* LAgeExtract *)
      destruct (extract_same _ _ _ _ H) as [X1 [X2 [X3 [X4 X5]]]].
      apply dframe_quiet; [reflexivity| |congruence|congruence| |congruence|congruence].
      + intros x. apply (extract_parts s k RHeldBg s' x Hn H).
      + intros x. rewrite X3. reflexivity.
    - (* LDequeue *)
      apply dframe_quiet; [reflexivity| |reflexivity|reflexivity|reflexivity|reflexivity|reflexivity].
      intros x. rewrite vol_vol, vol_def. rw_ctx. rewrite ?flat_map_app, ?count_occ_app. cbn [flat_map snd t_items]. rewrite ?app_nil_r, ?count_occ_app. lia.
    - (* LDone *)
      pose proof (fun x => remove_nth_count K_dec B_dec (fun p : role * task => t_items (snd p)) x _ _ _ E) as R.
      destruct (complete_parts _ _ _ _ H) as [Q1 [Q2 [Q3 [Q4 [Q5 [Q6 [Q7 Q8]]]]]]].
      split; intros; cbn [f_added f_acc f_waladd f_moved f_part f_part_stored f_drop f_waldel]; unfold nth_task; rewrite ?E;
        [destruct (complete_frame _ _ _ _ x H) as [C1 [C2 [C3 [C4 [C5 [C6 C7]]]]]]..| |];
        cbv zeta in *; rewrite ?C1, ?C2, ?C5, ?C6, ?C7, ?Q7, ?Q8; proj; rewrite ?vol_vol, ?vol_def, ?count_occ_app; cbn [snd] in *; cbn [count_occ length accepted next_id set_vol];
        try specialize (R x); try destruct o; try destruct (flushf (map (@it_b K B) (t_items t))); cbn [count_occ length] in *; rewrite ?app_nil_r; try lia; try reflexivity.
    - (* LDone *)
      pose proof (fun x => remove_nth_count K_dec B_dec (fun p : role * task => t_items (snd p)) x _ _ _ E) as R.
      destruct (complete_parts _ _ _ _ H) as [Q1 [Q2 [Q3 [Q4 [Q5 [Q6 [Q7 Q8]]]]]]].
      split; intros; cbn [f_added f_acc f_waladd f_moved f_part f_part_stored f_drop f_waldel]; unfold nth_task; rewrite ?E;
        [destruct (complete_frame _ _ _ _ x H) as [C1 [C2 [C3 [C4 [C5 [C6 C7]]]]]]..| |];
        cbv zeta in *; rewrite ?C1, ?C2, ?C5, ?C6, ?C7, ?Q7, ?Q8; proj; rewrite ?vol_vol, ?vol_def, ?count_occ_app; cbn [snd] in *; cbn [count_occ length accepted next_id set_vol];
        try specialize (R x); try destruct o; try destruct (flushf (map (@it_b K B) (t_items t))); cbn [count_occ length] in *; rewrite ?app_nil_r; try lia; try reflexivity.
    - (* LDone *)
      pose proof (fun x => remove_nth_count K_dec B_dec (fun p : role * task => t_items (snd p)) x _ _ _ E) as R.
      destruct (complete_parts _ _ _ _ H) as [Q1 [Q2 [Q3 [Q4 [Q5 [Q6 [Q7 Q8]]]]]]].
      split; intros; cbn [f_added f_acc f_waladd f_moved f_part f_part_stored f_drop f_waldel]; unfold nth_task; rewrite ?E;
        [destruct (complete_frame _ _ _ _ x H) as [C1 [C2 [C3 [C4 [C5 [C6 C7]]]]]]..| |];
        cbv zeta in *; rewrite ?C1, ?C2, ?C5, ?C6, ?C7, ?Q7, ?Q8; proj; rewrite ?vol_vol, ?vol_def, ?count_occ_app; cbn [snd] in *; cbn [count_occ length accepted next_id set_vol];
        try specialize (R x); try destruct o; try destruct (flushf (map (@it_b K B) (t_items t))); cbn [count_occ length] in *; rewrite ?app_nil_r; try lia; try reflexivity.
    - (* LDone *)
      pose proof (fun x => remove_nth_count K_dec B_dec (fun p : role * task => t_items (snd p)) x _ _ _ E) as R.
      destruct (complete_parts _ _ _ _ H) as [Q1 [Q2 [Q3 [Q4 [Q5 [Q6 [Q7 Q8]]]]]]].
      split; intros; cbn [f_added f_acc f_waladd f_moved f_part f_part_stored f_drop f_waldel]; unfold nth_task; rewrite ?E;
        [destruct (complete_frame _ _ _ _ x H) as [C1 [C2 [C3 [C4 [C5 [C6 C7]]]]]]..| |];
        cbv zeta in *; rewrite ?C1, ?C2, ?C5, ?C6, ?C7, ?Q7, ?Q8; proj; rewrite ?vol_vol, ?vol_def, ?count_occ_app; cbn [snd] in *; cbn [count_occ length accepted next_id set_vol];
        try specialize (R x); try destruct o; try destruct (flushf (map (@it_b K B) (t_items t))); cbn [count_occ length] in *; rewrite ?app_nil_r; try lia; try reflexivity.
    - (* LCloseBegin *) apply dframe_quiet; reflexivity.
    - (* LCloseWait *) apply dframe_quiet; reflexivity.
    - (* LCloseDrain *)
      apply dframe_quiet; [reflexivity| |reflexivity|reflexivity|reflexivity|reflexivity|reflexivity].
      intros x. rewrite vol_vol, vol_def. rw_ctx. rewrite ?flat_map_app, ?count_occ_app. cbn [flat_map snd t_items]. rewrite ?app_nil_r, ?count_occ_app. lia.
    - (* LCloseExtract *)
      destruct (extract_same _ _ _ _ H) as [X1 [X2 [X3 [X4 X5]]]].
      apply dframe_quiet; [reflexivity| |congruence|congruence| |congruence|congruence].
      + intros x. apply (extract_parts s k RHeldClose s' x Hn H).
      + intros x. rewrite X3. reflexivity.
    - (* LCloseEnd *) apply dframe_quiet; reflexivity.
    - (* LRotate *)
      apply dframe_quiet; try reflexivity.
      intros x. rewrite w_wal, w_def, ?flat_map_app, ?count_occ_app. cbn [flat_map w_entries app]. rewrite ?app_nil_r, ?count_occ_app. cbn [count_occ]. lia.
    - (* LAgeFile *)
      apply dframe_quiet; try reflexivity.
      intros x. rewrite w_wal, w_def, ?count_occ_app. rewrite (nth_split_count (@w_entries K B) _ _ _ x E).
      rewrite flat_map_app, count_occ_app. cbn [flat_map w_entries]. rewrite count_occ_app.
      change (match wal_files s with [] => [] | _ :: l => skipn i l end) with (skipn (S i) (wal_files s)). lia.
    - (* LPurgeOld *)
      split; intros; cbn [f_added f_acc f_waladd f_moved f_part f_part_stored f_drop f_waldel]; proj; cbn [count_occ accepted next_id set_wal length]; rewrite ?app_nil_r; try lia; try reflexivity.
      rewrite w_wal, w_def, ?count_occ_app. rewrite (filter_split_count (@w_entries K B) (fun f => is_old (w_age f)) (wal_files s) x). lia.
    - (* LPurgeAll *)
      split; intros; cbn [f_added f_acc f_waladd f_moved f_part f_part_stored f_drop f_waldel]; proj; cbn [count_occ accepted next_id set_wal length]; rewrite ?app_nil_r; try lia; try reflexivity.
      rewrite w_wal, w_def, ?count_occ_app. cbn [flat_map app count_occ]. lia.
    - (* LReplayStart *)
      apply dframe_quiet; try reflexivity.
      intros x. rewrite w_wal, w_def, ?flat_map_app, ?count_occ_app. cbn [flat_map snd app]. rewrite ?app_nil_r.
      rewrite (remove_nth_count K_dec B_dec (@w_entries K B) x _ _ _ E). lia.
    - (* LReplayEntry *)
      destruct (append_wal _ _ _ _ E2) as [W1 [W2 [W3 [W4 W5]]]].
      assert (P := fun x => append_parts cfg s _ s0 x Hn E2).
      split; intros; cbn [f_added f_acc f_waladd f_moved f_part f_part_stored f_drop f_waldel]; rw_ctx; proj;
        try destruct (P x) as [P1 [P2 P3]];
        rewrite ?(proj1 (stored_items_eq _ _ P2)), ?(proj2 (stored_items_eq _ _ P2)), ?(dropped_items_eq _ _ P3);
        cbn [count_occ accepted next_id set_wal length]; rewrite ?W4, ?W5, ?app_nil_r; try lia; try reflexivity.
      rewrite w_wal, w_def, W1, W2. rw_ctx. cbn [flat_map snd]. lia.
    - (* LReplayFileDone *)
      split; intros; cbn [f_added f_acc f_waladd f_moved f_part f_part_stored f_drop f_waldel]; rw_ctx; proj; cbn [count_occ accepted next_id set_wal length]; rewrite ?app_nil_r; try lia; try reflexivity.
      rewrite w_wal, w_def. rw_ctx. cbn [flat_map snd]. rewrite ?count_occ_app. lia.
    - (* LReplayFileKeep *)
      apply dframe_quiet; try reflexivity.
      intros x. rewrite w_wal, w_def. rw_ctx. cbn [flat_map snd]. rewrite flat_map_app, !count_occ_app. cbn [flat_map w_entries]. rewrite !count_occ_app.
      rewrite <- (firstn_skipn i (wal_files s)) at 3. rewrite flat_map_app, count_occ_app. lia.
    - (* LResetFlag *) apply dframe_quiet; reflexivity.
    - (* LRestart *)
      split; intros; cbn [f_added f_acc f_waladd f_moved f_part f_part_stored f_drop f_waldel]; proj; rewrite ?sf_out, ?sa_out, ?d_out, ?vol_vol;
        cbn [count_occ accepted next_id set_wal set_ctl set_out set_vol length flat_map app stored]; rewrite ?app_nil_r; try reflexivity; try lia;
        try (rewrite <- ?sf_def, <- ?sa_def; lia).
      + rewrite flat_map_app, count_occ_app. rewrite <- d_def. rewrite vol_def. rewrite !flat_map_app, !count_occ_app, !flat_map_map_count. cbn [fst snd t_items].
        change (fun a : task => t_items a) with (@t_items K B). lia.
      + rewrite w_wal, w_def. cbn [app flat_map]. rewrite app_nil_r. rewrite flat_map_map_count. cbn [w_entries].
        rewrite !flat_map_app, !count_occ_app. rewrite flat_map_map_count. cbn [w_entries].
        change (fun a : list item * list item => snd a) with (@snd (list item) (list item)).
        change (fun a : wfile K B => w_entries a) with (@w_entries K B).
        destruct (wal_active s); cbn [is_nil flat_map w_entries app count_occ]; rewrite ?app_nil_r; lia.
  Qed.
End Dur.

(* ------------------------------------------------------------------ *)

Section Dur2.
  Context {K B Sg F : Type}.
  Variable keqb : K -> K -> bool.
  Variable seqb : Sg -> Sg -> bool.
  Variable sigf : B -> Sg.
  Variable nrows : B -> nat.
  Variable flushf : list B -> flush_res F.
  Hypothesis keqb_spec : forall a b, reflect (a = b) (keqb a b).
  Hypothesis K_dec : forall a b : K, {a = b} + {a <> b}.
  Hypothesis B_dec : forall a b : B, {a = b} + {a <> b}.

  Notation item := (item K B).
  Notation task := (task K B).
  Notation st := (st K B Sg F).
  Notation label := (label K B).
  Notation step := (step keqb seqb sigf nrows flushf).
  Notation idec := (item_dec K_dec B_dec).
  Notation c x l := (count_occ idec l x).
  Notation f_added := (@f_added K B Sg F).
  Notation f_acc := (@f_acc K B Sg F).
  Notation f_waladd := (@f_waladd K B Sg F).
  Notation f_moved := (f_moved flushf).
  Notation f_part := (f_part flushf).
  Notation f_part_stored := (f_part_stored flushf).
  Notation f_drop := (f_drop flushf).
  Notation f_waldel := (@f_waldel K B Sg F).
  Notation dframe := (dframe flushf K_dec B_dec).

  Lemma cpos x (l : list item) : In x l <-> c x l >= 1.
  Proof. rewrite (count_occ_In idec). lia. Qed.

  Lemma cnil x (l : list item) : l = [] -> c x l = 0.
  Proof. intros ->. reflexivity. Qed.

  (* a label either deletes WAL entries or touches the volatile part, never both *)
  Lemma excl cfg (s : st) l : f_waldel s l = [] \/ (f_moved s l = [] /\ f_part s l = [] /\ f_drop cfg s l = [] /\ f_added s l = [] /\ f_acc s l = []).
  Proof. destruct l; cbn; auto 10. Qed.

  Lemma acc_added (s : st) l : f_acc s l = [] \/ (f_added s l = f_acc s l /\ f_moved s l = [] /\ f_part s l = [] /\ (forall cfg, f_drop cfg s l = []) /\ f_waldel s l = []).
  Proof. destruct l; cbn; auto. right. repeat split. Qed.

  Lemma part_stored_le (s : st) l x : c x (f_part_stored s l) <= c x (f_part s l).
  Proof.
    destruct l; cbn; try lia. destruct o; cbn; try lia. destruct (flushf _); cbn; try lia. destruct (is_nil _); cbn; lia.
  Qed.

  (* ---------------- durability ---------------- *)
  Definition durable (s : st) : Prop :=
    forall x, In x (accepted s) -> In x (stored_items s) \/ In x (volatile_items s) \/ In x (wal_items s).

  (* the steps that could delete the last copy of an acknowledged batch are constrained:
     G1 a live write reaches the WAL (no backpressure drop);
     G2 files are purged only when their entries are stored; a replayed file is deleted only
        when its entries are stored or (re-)buffered;
     G4 a batch leaves memory unflushed (queue full, closing, failed flush, restart) only if
        it is stored or still has its WAL copy *)
  Definition benign (cfg : config) (s : st) (l : label) : Prop :=
    (forall x, In x (f_drop cfg s l ++ f_part s l) -> In x (stored_items s) \/ In x (wal_items s)) /\
    (forall x, In x (f_waldel s l) -> In x (stored_items s) \/ (l = LReplayFileDone /\ In x (volatile_items s))) /\
    (f_waladd cfg s l = f_acc s l).

  Lemma durable_step cfg (s : st) l (s' : st) : durable s -> benign cfg s l -> dframe cfg s l s' -> durable s'.
  Proof.
    intros Hd [G4 [G2 G1]] [Dv Dsf Dsa Dd Dw Da Dn] x Hin. rewrite Da in Hin. rewrite !cpos.
    specialize (Dv x). specialize (Dsf x). specialize (Dw x).
    apply in_app_iff in Hin. destruct Hin as [Hin|Hin].
    - assert (Hsf : c x (stored_items s) >= 1 -> c x (stored_items s') >= 1 \/ c x (volatile_items s') >= 1 \/ c x (wal_items s') >= 1) by (intros; lia).
      assert (Hw : c x (wal_items s) >= 1 -> c x (f_waldel s l) = 0 -> c x (stored_items s') >= 1 \/ c x (volatile_items s') >= 1 \/ c x (wal_items s') >= 1) by (intros; lia).
      destruct (Hd x Hin) as [H1|[H1|H1]]; rewrite cpos in H1.
      + auto.
      + destruct (Nat.eq_dec (c x (volatile_items s')) 0) as [Ez|]; [|lia].
        destruct (Nat.eq_dec (c x (f_moved s l)) 0) as [Em|]; [|lia].
        assert (Hdp : In x (f_drop cfg s l ++ f_part s l)) by (rewrite cpos, count_occ_app; lia).
        destruct (G4 x Hdp) as [H2|H2]; rewrite cpos in H2; [auto|].
        apply Hw; [exact H2|]. destruct (excl cfg s l) as [E|[_ [E1 [E2 _]]]]; [rewrite E; reflexivity|].
        rewrite E1, E2 in Hdp. destruct Hdp.
      + destruct (Nat.eq_dec (c x (f_waldel s l)) 0) as [Ez|Ez]; [auto|].
        assert (Hwd : In x (f_waldel s l)) by (rewrite cpos; lia).
        destruct (G2 x Hwd) as [H2|[_ H2]]; rewrite cpos in H2; [auto|].
        destruct (excl cfg s l) as [E|[E0 [E1 [E2 [E3 _]]]]]; [rewrite E in Ez; cbn in Ez; lia|].
        rewrite E0, E1, E2, E3 in Dv. cbn in Dv. lia.
    - destruct (acc_added s l) as [E|[E0 [E1 [E2 [E3 _]]]]]; [rewrite E in Hin; destruct Hin|].
      rewrite E0, E1, E2, (E3 cfg) in Dv. cbn in Dv. apply cpos in Hin. lia.
  Qed.

  Inductive reachB (cfg : config) : st -> Prop :=
  | rb_init : reachB cfg init
  | rb_step s l s' : reachB cfg s -> benign cfg s l -> step cfg s l = Some s' -> reachB cfg s'.

  Lemma reachB_nodup cfg s : reachB cfg s -> NoDup (keys (buffers s)).
  Proof.
    induction 1; [constructor|]. eapply (step_nodup keqb seqb sigf nrows flushf keqb_spec); eassumption.
  Qed.

  Theorem durable_reach cfg s : reachB cfg s -> durable s.
  Proof.
    induction 1 as [|s l s' Hr IH Hb Hs]; [intros x []|].
    eapply durable_step; [exact IH|exact Hb|].
    apply (step_dframe keqb seqb sigf nrows flushf keqb_spec K_dec B_dec); [apply reachB_nodup with cfg; exact Hr|exact Hs].
  Qed.
End Dur2.

(* ------------------------------------------------------------------ *)

Section Dur3.
  Context {K B Sg F : Type}.
  Variable keqb : K -> K -> bool.
  Variable seqb : Sg -> Sg -> bool.
  Variable sigf : B -> Sg.
  Variable nrows : B -> nat.
  Variable flushf : list B -> flush_res F.
  Hypothesis keqb_spec : forall a b, reflect (a = b) (keqb a b).
  Hypothesis K_dec : forall a b : K, {a = b} + {a <> b}.
  Hypothesis B_dec : forall a b : B, {a = b} + {a <> b}.

  Notation item := (item K B).
  Notation task := (task K B).
  Notation st := (st K B Sg F).
  Notation label := (label K B).
  Notation step := (step keqb seqb sigf nrows flushf).
  Notation idec := (item_dec K_dec B_dec).
  Notation c x l := (count_occ idec l x).
  Notation f_added := (@f_added K B Sg F).
  Notation f_acc := (@f_acc K B Sg F).
  Notation f_waladd := (@f_waladd K B Sg F).
  Notation f_moved := (f_moved flushf).
  Notation f_part := (f_part flushf).
  Notation f_part_stored := (f_part_stored flushf).
  Notation f_drop := (f_drop flushf).
  Notation f_waldel := (@f_waldel K B Sg F).
  Notation dframe := (dframe flushf K_dec B_dec).
  Notation stored_any := (@stored_any K B Sg F).
  Notation cpos := (cpos K_dec B_dec).

  (* how a step changes the list of files being replayed *)
  Lemma step_replaying cfg (s : st) l (s' : st) : step cfg s l = Some s' ->
    replaying s' = replaying s \/ (exists f, replaying s' = replaying s ++ [(f, f)]) \/
    (exists e rest all more, replaying s = (e :: rest, all) :: more /\ replaying s' = (rest, all) :: more) \/
    (exists all more, replaying s = ([], all) :: more /\ replaying s' = more) \/ replaying s' = [].
  Proof.
    intros H. unfold Protocol.step in H. destruct (crashed s); [discriminate|].
    destruct l; break_match H; inv_some H;
      try (left; reflexivity);
      try (match goal with E : Protocol.complete _ _ _ _ = Some _ |- _ => destruct (complete_parts flushf _ _ _ _ E) as [_ [_ [_ [_ [_ [Q _]]]]]]; left; exact Q end).
    - destruct (append_wal keqb seqb sigf nrows _ _ _ _ E) as [_ [_ [W3 _]]]. left. destruct (wal_on cfg && wal_ok); cbn; exact W3.
    - left. destruct (unclean_parts s0) as [_ [_ [_ [_ [_ [U6 _]]]]]]. rewrite U6.
      unfold Protocol.extract in E. destruct (lookup keqb k (buffers s)) as [[? ?]|]; [|discriminate]. inversion E; reflexivity.
    - left. destruct (unclean_parts s0) as [_ [_ [_ [_ [_ [U6 _]]]]]]. rewrite U6.
      unfold Protocol.extract in E. destruct (lookup keqb k (buffers s)) as [[? ?]|]; [|discriminate]. inversion E; reflexivity.
    - left. unfold Protocol.extract in H. destruct (lookup keqb k (buffers s)) as [[? ?]|]; [|discriminate]. inversion H; reflexivity.
    - left. unfold Protocol.extract in H. destruct (lookup keqb k (buffers s)) as [[? ?]|]; [|discriminate]. inversion H; reflexivity.
    - right. left. eexists. reflexivity.
    - right. right. left. destruct (append_wal keqb seqb sigf nrows _ _ _ _ E2) as [_ [_ [W3 _]]]. do 4 eexists. split; [reflexivity|]. cbn. reflexivity.
    - right. right. right. left. do 2 eexists. split; reflexivity.
    - right. right. right. left. do 2 eexists. split; reflexivity.
    - right. right. right. right. reflexivity.
  Qed.

  Definition rem_sub (s : st) : Prop := forall r, In r (replaying s) -> incl (fst r) (snd r).

  Lemma rem_sub_step cfg (s : st) l (s' : st) : rem_sub s -> step cfg s l = Some s' -> rem_sub s'.
  Proof.
    intros Hr H. unfold rem_sub in *.
    destruct (step_replaying _ _ _ _ H) as [E|[[f E]|[[e [rest [all [more [E1 E2]]]]]|[[all [more [E1 E2]]]|E]]]].
    - rewrite E. exact Hr.
    - rewrite E. intros r Hin. apply in_app_iff in Hin. destruct Hin as [Hin|[<-|[]]]; [apply Hr; exact Hin|]. cbn. apply incl_refl.
    - rewrite E2. intros r [<-|Hin]; [|apply Hr; rewrite E1; right; exact Hin]. cbn.
      specialize (Hr (e :: rest, all)). rewrite E1 in Hr. specialize (Hr (or_introl eq_refl)). cbn in Hr. intros y Hy. apply Hr. right. exact Hy.
    - rewrite E2. intros r Hin. apply Hr. rewrite E1. right. exact Hin.
    - rewrite E. intros r [].
  Qed.

  Definition somewhere (s : st) : list item := volatile_items s ++ stored_any s ++ wal_items s ++ dropped_items s.
  Definition known (s : st) : Prop := forall x, In x (somewhere s) -> In x (accepted s).
  Definition accid (s : st) : Prop := forall x, In x (accepted s) -> it_id x < next_id s.

  Lemma waladd_le cfg (s : st) l x : c x (f_waladd cfg s l) <= c x (f_acc s l).
  Proof. destruct l; cbn; try lia. destruct (wal_on cfg && wal_ok); cbn; try lia; destruct (idec _ _); lia. Qed.

  Lemma replay_head_known (s : st) e : rem_sub s -> known s -> In e (f_added s LReplayEntry) -> In e (accepted s).
  Proof.
    intros Hr Hk Hin. cbn in Hin. destruct (replaying s) as [|[[|e0 rest] all] more] eqn:E; try destruct Hin as [<-|[]]; try destruct Hin.
    apply Hk. unfold somewhere. apply in_or_app. right. apply in_or_app. right. apply in_or_app. left.
    unfold wal_items. apply in_or_app. right. apply in_or_app. right. rewrite E. cbn. apply in_or_app. left.
    specialize (Hr (e0 :: rest, all)). rewrite E in Hr. apply (Hr (or_introl eq_refl)). left. reflexivity.
  Qed.

  Lemma added_cases (s : st) l : f_added s l = f_acc s l \/ (l = LReplayEntry /\ f_acc s l = []).
  Proof. destruct l; cbn; auto. Qed.

  Lemma known_step cfg (s : st) l (s' : st) : rem_sub s -> known s -> dframe cfg s l s' -> known s'.
  Proof.
    intros Hr Hk [Dv Dsf Dsa Dd Dw Da Dn] x Hin. rewrite Da. apply in_or_app.
    assert (Hold : c x (somewhere s) >= 1 -> In x (accepted s)) by (intros; apply Hk; apply cpos; assumption).
    assert (Hadd : c x (f_added s l) >= 1 -> In x (accepted s) \/ In x (f_acc s l)).
    { intros Hc. destruct (added_cases s l) as [E|[-> E]]; [right; rewrite <- E; apply cpos; exact Hc|].
      left. apply replay_head_known; try assumption. apply cpos. exact Hc. }
    apply cpos in Hin. unfold somewhere in *. rewrite !count_occ_app in *.
    specialize (Dv x). specialize (Dsa x). specialize (Dd x). specialize (Dw x).
    pose proof (part_stored_le flushf K_dec B_dec s l x) as Hps. pose proof (waladd_le cfg s l x) as Hwa.
    destruct (Nat.eq_dec (c x (f_added s l)) 0) as [E0|E0].
    - destruct (Nat.eq_dec (c x (f_acc s l)) 0) as [E1|E1]; [left; apply Hold; lia|right; apply cpos; lia].
    - destruct (Hadd ltac:(lia)); auto.
  Qed.

  Lemma accid_step cfg (s : st) l (s' : st) : accid s -> dframe cfg s l s' -> accid s'.
  Proof.
    intros Ha [_ _ _ _ _ Da Dn] x Hin. rewrite Da in Hin. rewrite Dn. apply in_app_iff in Hin. destruct Hin as [Hin|Hin].
    - specialize (Ha x Hin). lia.
    - destruct l; cbn in Hin; try destruct Hin as [<-|[]]; try destruct Hin. cbn. lia.
  Qed.

  (* ---------------- at most once ---------------- *)
  Definition once (s : st) : Prop := forall x, c x (volatile_items s) + c x (stored_any s) <= 1.

  (* G5: the WAL replay re-buffers only entries that are neither buffered nor (partly) stored *)
  Definition noredo (s : st) (l : label) : Prop :=
    l = LReplayEntry -> forall e, In e (f_added s l) -> ~ In e (volatile_items s) /\ ~ In e (stored_any s).

  Lemma once_step cfg (s : st) l (s' : st) : known s -> accid s -> once s -> noredo s l -> dframe cfg s l s' -> once s'.
  Proof.
    intros Hk Ha Ho Hg [Dv Dsf Dsa Dd Dw Da Dn] x. specialize (Dv x). specialize (Dsa x). specialize (Ho x).
    pose proof (part_stored_le flushf K_dec B_dec s l x) as Hps.
    destruct (Nat.eq_dec (c x (f_added s l)) 0) as [E0|E0]; [lia|].
    assert (Hx : In x (f_added s l)) by (apply cpos; lia).
    assert (Hzero : c x (volatile_items s) + c x (stored_any s) = 0).
    { destruct (added_cases s l) as [E|[-> E]].
      - (* fresh id *)
        destruct (Nat.eq_dec (c x (volatile_items s) + c x (stored_any s)) 0) as [|Hn]; [assumption|exfalso].
        assert (In x (accepted s)).
        { apply Hk. unfold somewhere. apply cpos. rewrite !count_occ_app. lia. }
        specialize (Ha x H). rewrite E in Hx. destruct l; cbn in Hx; try destruct Hx as [<-|[]]; try destruct Hx. cbn in Ha. lia.
      - destruct (Hg eq_refl x Hx) as [H1 H2]. rewrite (cpos x) in H1, H2. lia. }
    assert (Hone : c x (f_added s l) <= 1).
    { destruct l; cbn; try lia; [destruct (idec _ _); lia|].
      destruct (replaying s) as [|[[|e0 rest] all] more]; cbn; try lia. destruct (idec _ _); lia. }
    lia.
  Qed.

  Inductive reachO (cfg : config) : st -> Prop :=
  | ro_init : reachO cfg init
  | ro_step s l s' : reachO cfg s -> noredo s l -> step cfg s l = Some s' -> reachO cfg s'.

  Theorem once_reach cfg s : reachO cfg s -> once s /\ known s /\ accid s.
  Proof.
    assert (Hall : reachO cfg s -> NoDup (keys (buffers s)) /\ rem_sub s /\ known s /\ accid s /\ once s).
    { induction 1 as [|s l s' Hr IH Hg Hs].
      - split; [constructor|]. split; [intros r []|]. split; [intros x []|]. split; [intros x []|]. intros x. cbn. lia.
      - destruct IH as [Hn [Hrs [Hk [Ha Ho]]]].
        pose proof (step_dframe keqb seqb sigf nrows flushf keqb_spec K_dec B_dec cfg s l s' Hn Hs) as D.
        split; [eapply (step_nodup keqb seqb sigf nrows flushf keqb_spec); eassumption|].
        split; [eapply rem_sub_step; eassumption|].
        split; [eapply known_step; eassumption|].
        split; [eapply accid_step; eassumption|].
        eapply once_step; eassumption. }
    intros H. destruct (Hall H) as [_ [_ [Hk [Ha Ho]]]]. tauto.
  Qed.
  (* acknowledged batches are pairwise distinct (fresh ids) *)
  Lemma accnodup_step cfg (s : st) l (s' : st) : accid s -> NoDup (accepted s) -> dframe cfg s l s' -> NoDup (accepted s').
  Proof.
    intros Ha Hn [_ _ _ _ _ Da _]. rewrite Da. destruct l; cbn; rewrite ?app_nil_r; try exact Hn.
    apply NoDup_app_iff || idtac.
    assert (Hni : ~ In {| it_id := next_id s; it_key := k; it_b := b |} (accepted s)).
    { intros Hin. specialize (Ha _ Hin). cbn in Ha. lia. }
    clear -Hn Hni. induction (accepted s) as [|a l IH]; cbn; [constructor; [tauto|constructor]|].
    inversion Hn; subst. constructor.
    - rewrite in_app_iff. cbn. intros [?|[?|[]]]; [tauto|]. apply Hni. left. congruence.
    - apply IH; [assumption|]. intros Hin. apply Hni. right. exact Hin.
  Qed.

  Lemma sf_le_sa (s : st) x : c x (stored_items s) <= c x (stored_any s).
  Proof.
    unfold stored_items, ProtocolDur.stored_any. induction (stored s) as [|r l IH]; cbn; [lia|].
    rewrite !count_occ_app. destruct (s_full r); cbn; lia.
  Qed.

  (* both guards along one run *)
  Inductive reachBO (cfg : config) : st -> Prop :=
  | rbo_init : reachBO cfg init
  | rbo_step s l s' : reachBO cfg s -> benign flushf cfg s l -> noredo s l -> step cfg s l = Some s' -> reachBO cfg s'.

  Lemma reachBO_B cfg s : reachBO cfg s -> reachB keqb seqb sigf nrows flushf cfg s.
  Proof. induction 1; [constructor|econstructor; eassumption]. Qed.
  Lemma reachBO_O cfg s : reachBO cfg s -> reachO cfg s.
  Proof. induction 1; [constructor|econstructor; eassumption]. Qed.

  Lemma reachO_nodup_acc cfg s : reachO cfg s -> NoDup (accepted s).
  Proof.
    assert (Hall : reachO cfg s -> NoDup (keys (buffers s)) /\ accid s /\ NoDup (accepted s)).
    { induction 1 as [|s l s' Hr IH Hg Hs].
      - split; [constructor|]. split; [intros x []|constructor].
      - destruct IH as [Hn [Ha Hd]].
        pose proof (step_dframe keqb seqb sigf nrows flushf keqb_spec K_dec B_dec cfg s l s' Hn Hs) as D.
        split; [eapply (step_nodup keqb seqb sigf nrows flushf keqb_spec); eassumption|].
        split; [eapply accid_step; eassumption|eapply accnodup_step; eassumption]. }
    intros H. apply Hall. exact H.
  Qed.

  (* once the memory and the WAL are empty, every acknowledged batch is stored exactly once *)
  Theorem exactly_once cfg s : reachBO cfg s -> volatile_items s = [] -> wal_items s = [] ->
    Permutation (accepted s) (stored_items s) /\ (forall x, c x (stored_any s) <= 1).
  Proof.
    intros Hr Hv Hw.
    pose proof (durable_reach keqb seqb sigf nrows flushf keqb_spec K_dec B_dec cfg s (reachBO_B _ _ Hr)) as Hd.
    destruct (once_reach cfg s (reachBO_O _ _ Hr)) as [Ho [Hk _]].
    pose proof (reachO_nodup_acc cfg s (reachBO_O _ _ Hr)) as Hn.
    split.
    - apply (Permutation_count_occ idec). intros x. pose proof (sf_le_sa s x) as Hle. specialize (Ho x).
      destruct (in_dec idec x (accepted s)) as [Hin|Hnin].
      + assert (c x (accepted s) = 1) by (apply NoDup_count_occ'; assumption).
        destruct (Hd x Hin) as [H1|[H1|H1]]; [|rewrite Hv in H1; destruct H1|rewrite Hw in H1; destruct H1].
        apply cpos in H1. lia.
      + assert (c x (accepted s) = 0) by (apply count_occ_not_In; exact Hnin).
        destruct (Nat.eq_dec (c x (stored_items s)) 0) as [|Hne]; [lia|exfalso]. apply Hnin. apply Hk.
        unfold somewhere. apply cpos. rewrite !count_occ_app. lia.
    - intros x. specialize (Ho x). lia.
  Qed.
  (* checking the guards along a concrete run *)
  Fixpoint guarded_run (cfg : config) (s : st) (ls : list label) : Prop :=
    match ls with
    | [] => True
    | l :: r => benign flushf cfg s l /\ noredo s l /\
                match step cfg s l with Some s' => guarded_run cfg s' r | None => False end
    end.

  Lemma guarded_run_reach cfg : forall ls s s', reachBO cfg s -> guarded_run cfg s ls ->
    Protocol.run keqb seqb sigf nrows flushf cfg s ls = Some s' -> reachBO cfg s'.
  Proof.
    induction ls as [|l r IH]; intros s s' Hr Hg Hrun; cbn in *.
    - inversion Hrun; subst; exact Hr.
    - destruct Hg as [Hb [Hn Hg]]. destruct (step cfg s l) as [s1|] eqn:Es; [|contradiction].
      eapply IH; [|exact Hg|exact Hrun]. econstructor; eassumption.
  Qed.
  (* a run without WAL replay satisfies [noredo] trivially *)
  Lemma run_reachO cfg : forall ls s s', reachO cfg s -> forallb (@no_replay K B) ls = true ->
    Protocol.run keqb seqb sigf nrows flushf cfg s ls = Some s' -> reachO cfg s'.
  Proof.
    induction ls as [|l r IH]; intros s s' Hr Hq Hrun; cbn in *.
    - inversion Hrun; subst; exact Hr.
    - apply andb_true_iff in Hq. destruct Hq as [Hl Hq]. destruct (step cfg s l) as [s1|] eqn:Es; [|discriminate].
      eapply IH; [|exact Hq|exact Hrun]. econstructor; [exact Hr| |exact Es].
      intros E. subst l. discriminate Hl.
  Qed.
End Dur3.
