(* C07 - Backpressure and storage outages never lose or duplicate acknowledged writes.
   Only property statements live here; proofs are in ProtocolDur.v, ShutdownProofs.v, ProofsC07.v. *)
From Coq Require Import List ZArith NArith Bool Lia Permutation Sorting.Sorted String.
From Arc Require Import Lib.AList Buffer.Model Buffer.Proofs Buffer.ProtocolDur Buffer.Shutdown Buffer.ShutdownProofs Buffer.ModelC07 Buffer.ProofsC07.
Import ListNotations.
Open Scope Z_scope.

Notation st7 := (st N batch (list N) (Z * batch)%type) (only parsing).
Notation breachB H thr := (reachB N.eqb bytes_eqb buffer_schema_key batch_rows (bflush H thr)).
Notation breachO H thr := (reachO N.eqb bytes_eqb buffer_schema_key batch_rows (bflush H thr)).

(* Durability with the WAL enabled, for ALL interleavings of writers, workers, the age flusher,
   FlushAll, Close, WAL rotation / ageing / purge / replay, restarts and for ALL storage fault
   sequences (every flush may fail, also half-way through a multi-hour write), provided every
   step respects [benign]:
     G1 the live write reaches the WAL (no backpressure drop; needs wal_on);
     G2 a WAL file is purged only when its entries are stored; a replayed file is deleted only
        when its entries are stored or re-buffered;
     G4 a batch leaves memory unflushed (queue full, closing, failed flush, restart) only while
        it is stored or still has its WAL copy.
   Then every acknowledged batch is stored, or still in memory, or still in the WAL. *)
Theorem C07_durable_inv : forall H thr cfg (s : st7), breachB H thr cfg s ->
  forall x, In x (accepted s) -> In x (stored_items s) \/ In x (volatile_items s) \/ In x (wal_items s).
Proof.
  intros H thr cfg s Hr. exact (durable_reach N.eqb bytes_eqb buffer_schema_key batch_rows (bflush H thr) N_eqb_spec' N.eq_dec batch_dec cfg s Hr).
Qed.
Print Assumptions C07_durable_inv.

(* No batch is ever in two places, and none is stored twice (not even partly), for all
   interleavings and fault sequences, provided the replay only re-buffers entries that are
   neither buffered nor (partly) stored [noredo]. *)
Theorem C07_at_most_once : forall H thr cfg (s : st7), breachO H thr cfg s ->
  forall x, (count_occ (item_dec N.eq_dec batch_dec) (volatile_items s) x
           + count_occ (item_dec N.eq_dec batch_dec) (stored_any s) x <= 1)%nat.
Proof.
  intros H thr cfg s Hr. destruct (once_reach N.eqb bytes_eqb buffer_schema_key batch_rows (bflush H thr) N_eqb_spec' N.eq_dec batch_dec cfg s Hr) as [Ho _]. exact Ho.
Qed.
Print Assumptions C07_at_most_once.

(* Eventually exactly once: along a run that respects both guards, as soon as nothing is left in
   memory and in the WAL (faults stopped, flushes and maintenance done), the stored batches are
   exactly the acknowledged ones, each stored once. *)
Theorem C07_eventually_once : forall H thr cfg (s : st7), breachBO H thr cfg s ->
  volatile_items s = [] -> wal_items s = [] ->
  Permutation (accepted s) (stored_items s) /\
  (forall x, (count_occ (item_dec N.eq_dec batch_dec) (stored_any s) x <= 1)%nat).
Proof.
  intros H thr cfg s. exact (exactly_once N.eqb bytes_eqb buffer_schema_key batch_rows (bflush H thr) N_eqb_spec' N.eq_dec batch_dec cfg s).
Qed.
Print Assumptions C07_eventually_once.

(* the guards are satisfiable by a run with a storage failure, a rotation, a replay and a second,
   successful flush; it ends with the batch stored exactly once *)
Example C07_guarded_nonvacuous :
  exists s, brun Hreal thr_real (cfg7 true 1 8) binit run_good = Some s /\ breachBO Hreal thr_real (cfg7 true 1 8) s /\
    List.length (accepted s) = 1%nat /\ List.length (stored_items s) = 1%nat /\ volatile_items s = [] /\ wal_items s = [].
Proof. exact good_run_guarded. Qed.

(* With the WAL disabled nothing protects a batch that leaves memory unflushed: the statement
   "a write whose rows cannot be buffered or flushed is not acknowledged" is false ... *)
Theorem C07_no_ack_without_wal_refuted :
  exists s, brun Hreal thr_real (cfg7 false 1 1) binit run_nowal_full = Some s /\
    List.length (accepted s) = 3%nat /\ List.length (stored_items s) = 2%nat /\ volatile_items s = [] /\ wal_items s = [] /\
    map snd (dropped s) = [DQueueFull].
Proof. exact nowal_full_refuted. Qed.
Print Assumptions C07_no_ack_without_wal_refuted.

(* ... and what does hold without a WAL is conservation: as long as no batch is dropped (no queue
   overflow, no failed flush, no write racing Close) every acknowledged batch is buffered,
   queued, being flushed or stored (C03_conservation with an empty drop list). *)
Theorem C07_no_wal_guarded : forall H thr cfg ls (s : st7),
  brun H thr cfg binit ls = Some s -> forallb (@no_replay N batch) ls = true -> dropped s = [] ->
  Permutation (volatile_items s ++ stored_items s) (accepted s).
Proof.
  intros H thr cfg ls s Hr Hq Hd.
  pose proof (conservation N.eqb bytes_eqb buffer_schema_key batch_rows (bflush H thr) N_eqb_spec' N.eq_dec batch_dec cfg ls s Hr Hq) as P.
  unfold all_items, dropped_items in P. rewrite Hd in P. cbn in P. rewrite app_nil_r in P. exact P.
Qed.
Print Assumptions C07_no_wal_guarded.

(* Graceful shutdown of the code as it is (arrow-buffer Close, then wal-purge, then wal Close): after a
   complete failure-free Close every WAL entry is already stored, so the purge respects the guard;
   when a flush failure is recorded the purge is skipped (ModelC07.O7PurgeGuarded). *)
Theorem C07_shutdown_purge_safe : forall H thr, 0 < H -> forall cfg ls (s : st7),
  brun H thr cfg binit ls = Some s ->
  forallb (fun l : label N batch => no_replay l && outcome_ok l) ls = true ->
  fix_drain cfg = true -> phase s = PClosed -> clean s = true -> inputs_ok s ->
  (forall t r, In (t, r) (dropped s) -> r <> DQueueFull) ->
  bbenign H thr cfg s LPurgeAll /\ Permutation (accepted s) (stored_items s).
Proof. exact shutdown_purge_safe. Qed.
Print Assumptions C07_shutdown_purge_safe.

(* The ways in which the guards are broken.  C07_shutdown_purge_refuted / C07_shutdown_queue_refuted
   are about the OLD shutdown order (wal-purge as a hook, before f1d141d) and the old Close,
   C07_purge_before_replay_refuted about the tick before 8a1c0f1, C07_replay_buffered_old_refuted about
   the replay before 7b9e05e; the others are about the code as it is and are reproduced on it by the
   check on every run. *)
Theorem C07_shutdown_purge_refuted :
  exists s, brun Hreal thr_real (cfg7 true 100 8) binit run_shutdown_purge = Some s /\ phase s = PClosed /\ all_lost s.
Proof. exact shutdown_purge_refuted. Qed.
Print Assumptions C07_shutdown_purge_refuted.

Theorem C07_shutdown_queue_refuted :
  exists s, brun Hreal thr_real (cfg7_old true 1 8) binit run_shutdown_queue = Some s /\
    List.length (accepted s) = 2%nat /\ List.length (stored_items s) = 1%nat /\ volatile_items s = [] /\ wal_items s = [].
Proof. exact shutdown_queue_refuted. Qed.
Print Assumptions C07_shutdown_queue_refuted.

Theorem C07_replay_duplicates_refuted :
  (exists s, brun Hreal thr_real (cfg7 true 2 8) binit run_partial_replay = Some s /\
     List.length (accepted s) = 1%nat /\ volatile_items s = [] /\ wal_items s = [] /\
     map (fun f => fst (snd f)) (stored_kfiles s) = [hour_bucket_id Hreal T0; hour_bucket_id Hreal T0; hour_bucket_id Hreal (T0 + Hreal)]) /\
  (exists s, brun Hreal thr_real (cfg7 true 1 8) binit run_replay_dup = Some s /\
     List.length (accepted s) = 2%nat /\ map (@it_id N batch) (stored_items s) = [0; 0; 1]%nat).
Proof. split; [exact partial_replay_refuted|exact replay_dup_refuted]. Qed.
Print Assumptions C07_replay_duplicates_refuted.

Theorem C07_purge_before_replay_refuted :
  exists s, brun Hreal thr_real (cfg7 true 1 8) binit run_purge_before_replay = Some s /\ flush_failed s = false /\ all_lost s.
Proof. exact purge_before_replay_refuted. Qed.
Print Assumptions C07_purge_before_replay_refuted.

(* about the replay before 7b9e05e (file deleted while the re-buffered rows were still buffered) *)
Theorem C07_replay_buffered_old_refuted :
  exists s, brun Hreal thr_real (cfg7 true 100 8) binit run_replay_buffered_old = Some s /\ all_lost s.
Proof. exact replay_buffered_old_refuted. Qed.
Print Assumptions C07_replay_buffered_old_refuted.

(* the code as it is: rows whose re-buffering triggered the size flush are only queued when the file
   is deleted (FlushAll does not wait for the worker) *)
Theorem C07_replay_then_fail_refuted :
  exists s, brun Hreal thr_real (cfg7 true 1 8) binit run_replay_then_fail = Some s /\ all_lost s.
Proof. exact replay_then_fail_refuted. Qed.
Print Assumptions C07_replay_then_fail_refuted.

(* the flag is reset although the file with the failed rows was skipped (too young / active), or was
   kept because FlushReplayed failed *)
Theorem C07_reset_after_skip_refuted :
  (exists s, brun Hreal thr_real (cfg7 true 1 8) binit run_reset_after_skip = Some s /\ flush_failed s = false /\ all_lost s) /\
  (exists s, brun Hreal thr_real (cfg7 true 100 8) binit run_reset_after_keep = Some s /\ flush_failed s = false /\ all_lost s).
Proof. split; [exact reset_after_skip_refuted|exact reset_after_keep_refuted]. Qed.
Print Assumptions C07_reset_after_skip_refuted.

(* Graceful shutdown order, for EVERY registration table and every choice of priorities: the
   coordinator runs the hooks sorted by priority, then the components sorted by priority ... *)
Theorem C07_shutdown_order_spec : forall regs,
  exists hs cs, shutdown_order regs = hs ++ cs /\
    Permutation hs (filter is_hook regs) /\ Permutation cs (filter is_comp regs) /\
    StronglySorted (fun a b => r_prio a <= r_prio b) hs /\ StronglySorted (fun a b => r_prio a <= r_prio b) cs /\
    Forall (fun r => r_kind r = RHook) hs /\ Forall (fun r => r_kind r = RComp) cs.
Proof. exact shutdown_order_spec. Qed.
Print Assumptions C07_shutdown_order_spec.

(* ... hence a HOOK (wal-purge, priority 35) runs before a COMPONENT (arrow-buffer, priority 30)
   whatever the two priorities are *)
Theorem C07_hooks_before_components : forall regs i j a b,
  nth_error (shutdown_order regs) i = Some a -> nth_error (shutdown_order regs) j = Some b ->
  r_kind a = RHook -> r_kind b = RComp -> (i < j)%nat.
Proof. exact hooks_before_components. Qed.
Print Assumptions C07_hooks_before_components.
