(* Buffer area (C07): model of internal/shutdown.Coordinator.Shutdown (definitions only).
   Hooks and components are kept in registration order, each list is sorted by the
   coordinator's own exchange sort (not stable), ALL hooks run first, then ALL components. *)
From Coq Require Import List ZArith String Bool.
Import ListNotations.
Open Scope Z_scope.

Inductive rkind := RHook | RComp.
Record reg := { r_name : string; r_kind : rkind; r_prio : Z }.

Definition is_hook (r : reg) : bool := match r_kind r with RHook => true | RComp => false end.
Definition is_comp (r : reg) : bool := negb (is_hook r).

(* inner loop for a fixed i:  for j := i+1; j < n; j++ { if c[j].priority < c[i].priority { swap } } *)
Fixpoint inner (x : reg) (rest : list reg) : reg * list reg :=
  match rest with
  | [] => (x, [])
  | y :: r => if r_prio y <? r_prio x
              then let (m, r') := inner y r in (m, x :: r')
              else let (m, r') := inner x r in (m, y :: r')
  end.

Fixpoint ssort (fuel : nat) (l : list reg) : list reg :=
  match fuel, l with
  | S f, x :: r => let (m, r') := inner x r in m :: ssort f r'
  | _, _ => l
  end.

Definition sort_prio (l : list reg) : list reg := ssort (List.length l) l.

(* Coordinator.Shutdown: "Execute hooks first", then "Shutdown components" *)
Definition shutdown_order (regs : list reg) : list reg :=
  sort_prio (filter is_hook regs) ++ sort_prio (filter is_comp regs).

Fixpoint index_of (n : string) (l : list reg) (i : nat) : option nat :=
  match l with
  | [] => None
  | r :: t => if String.eqb (r_name r) n then Some i else index_of n t (S i)
  end.

(* the obligation of C07 on the deployed registration table: the WAL purge must not run
   before the buffer's final flush (arrow-buffer Close), and the WAL writer closes last *)
Definition runs_before (a b : string) (regs : list reg) : bool :=
  match index_of a (shutdown_order regs) 0, index_of b (shutdown_order regs) 0 with
  | Some i, Some j => Nat.ltb i j
  | _, _ => false
  end.
Definition registered (a : string) (regs : list reg) : bool :=
  match index_of a regs 0 with Some _ => true | None => false end.

Definition purge_after_flush (regs : list reg) : bool :=
  negb (registered "wal-purge" regs) || runs_before "arrow-buffer" "wal-purge" regs.
