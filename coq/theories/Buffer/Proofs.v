(* Buffer area: instance-level proofs (ArrowBuffer = generic protocol + kernels), the Close
   refutation witness and the non-vacuity examples.  Kernel proofs: KernelProofs.v; protocol
   proofs: ProtocolCount.v, ProtocolInv.v. *)
From Coq Require Import List ZArith NArith Bool Lia Permutation Sorting.Sorted SetoidList SetoidPermutation RelationClasses.
From Arc Require Import Lib.AList Buffer.Model.
From Arc Require Export Buffer.KernelProofs Buffer.KeyProofs Buffer.ProtocolCount Buffer.ProtocolInv.
Import ListNotations.
Open Scope Z_scope.

(* ------------------------------------------------------------------ *)

Lemma N_eqb_spec' a b : reflect (a = b) (N.eqb a b).
Proof. apply N.eqb_spec. Qed.
Lemma bytes_eqb_spec a b : reflect (a = b) (bytes_eqb a b).
Proof. apply iff_reflect. symmetry. apply bytes_eqb_eq. Qed.

Lemma val_dec : forall a b : val, {a = b} + {a <> b}.
Proof. decide equality; [apply Z.eq_dec|apply (list_eq_dec N.eq_dec)]. Qed.
Lemma ty_dec : forall a b : ty, {a = b} + {a <> b}.
Proof. decide equality. Qed.
Lemma col_dec : forall a b : col, {a = b} + {a <> b}.
Proof. decide equality; [apply (list_eq_dec val_dec)|apply ty_dec]. Qed.
Lemma batch_dec : forall a b : batch, {a = b} + {a <> b}.
Proof.
  decide equality.
  - apply list_eq_dec. decide equality; [apply (list_eq_dec Bool.bool_dec)|apply (list_eq_dec N.eq_dec)].
  - apply list_eq_dec. decide equality; [apply col_dec|apply (list_eq_dec N.eq_dec)].
Qed.

Definition good_batch (b : batch) : Prop := wf_batch b /\ batch_times_ok b /\ (0 < batch_rows b)%nat.

(* batches with the same buffer routing key agree on the type of every column they share - a
   THEOREM about bufferSchemaKey (KeyProofs.key_sound), no longer a hypothesis on the inputs *)
Definition sig_sound (bs : list batch) : Prop :=
  forall b1 b2, In b1 bs -> In b2 bs -> buffer_schema_key b1 = buffer_schema_key b2 -> types_agree [b1; b2].

Lemma sig_sound_wf (bs : list batch) : Forall wf_batch bs -> sig_sound bs.
Proof. intros Hw b1 b2 H1 H2 E. rewrite Forall_forall in Hw. apply key_sound; auto. Qed.

Lemma good_task_flush H thr (k : bkey) (items : list bitem) : 0 < H ->
  items_ok buffer_schema_key k items ->
  (forall it, In it items -> good_batch (it_b it)) -> sig_sound (map it_b items) ->
  exists files, bflush H thr (map it_b items) = FlOk files /\
    NoDup (map fst files) /\ Forall (file_ok H) files /\
    PermutationA row_equiv (flat_map (fun f => rows_of (snd f)) files) (flat_map rows_of (map it_b items)).
Proof.
  intros HH [Hne [Hk Hsg]] Hgood Hss.
  assert (Hwf : Forall wf_batch (map it_b items)).
  { apply Forall_forall. intros b Hb. apply in_map_iff in Hb. destruct Hb as [it [<- Hin]]. apply (Hgood it Hin). }
  assert (Hto : Forall batch_times_ok (map it_b items)).
  { apply Forall_forall. intros b Hb. apply in_map_iff in Hb. destruct Hb as [it [<- Hin]]. apply (Hgood it Hin). }
  assert (Hag : types_agree (map it_b items)).
  { intros b1 b2 n c1 c2 H1 H2 L1 L2.
    pose proof H1 as H1'. pose proof H2 as H2'.
    apply in_map_iff in H1'. destruct H1' as [i1 [<- Hi1]]. apply in_map_iff in H2'. destruct H2' as [i2 [<- Hi2]].
    apply (Hss _ _ H1 H2 (Hsg _ _ Hi1 Hi2) (it_b i1) (it_b i2) n c1 c2); cbn; tauto. }
  assert (Hpos : (0 < total_rows (map it_b items))%nat).
  { destruct items as [|it r]; [exfalso; apply Hne; reflexivity|]. cbn. destruct (Hgood it (or_introl eq_refl)) as [_ [_ Hp]]. lia. }
  destruct (flush_batches_rows H thr (map it_b items) HH) as [files [Ef R]]; try assumption.
  { destruct items; [exfalso; apply Hne; reflexivity|discriminate]. }
  exists files. unfold bflush. rewrite Ef. split; [reflexivity|exact R].
Qed.

(* ------------------------------------------------------------------ *)

Section Inst.
  Variables (H thr : Z).
  Hypothesis HH : 0 < H.

  Notation reach_ctl := (reach_ctl N.eqb bytes_eqb buffer_schema_key batch_rows (bflush H thr)).
  Notation reach_shape := (reach_shape N.eqb bytes_eqb buffer_schema_key batch_rows (bflush H thr) N_eqb_spec' bytes_eqb_spec).
  Notation conservation := (conservation N.eqb bytes_eqb buffer_schema_key batch_rows (bflush H thr) N_eqb_spec' N.eq_dec batch_dec).
  Notation close_complete := (close_complete N.eqb bytes_eqb buffer_schema_key batch_rows (bflush H thr) N_eqb_spec' N.eq_dec batch_dec).
  Notation reach_drop := (reach_drop N.eqb bytes_eqb buffer_schema_key batch_rows (bflush H thr)).
  Notation reach_full := (reach_full N.eqb bytes_eqb buffer_schema_key batch_rows (bflush H thr)).

  Definition inputs_ok (s : bst) : Prop := forall it, In it (accepted s) -> good_batch (it_b it).

  Lemma inputs_sound (s : bst) : inputs_ok s -> sig_sound (map it_b (accepted s)).
  Proof.
    intros Hg. apply sig_sound_wf. apply Forall_forall. intros b Hb. apply in_map_iff in Hb. destruct Hb as [it [<- Hin]]. apply (Hg it Hin).
  Qed.

  Lemma sig_sound_incl (l1 l2 : list batch) : incl l1 l2 -> sig_sound l2 -> sig_sound l1.
  Proof. intros Hi Hs b1 b2 H1 H2. apply Hs; apply Hi; assumption. Qed.

  Lemma permA_flat_map {A} (f g : A -> list row) (l : list A) :
    (forall x, In x l -> PermutationA row_equiv (f x) (g x)) -> PermutationA row_equiv (flat_map f l) (flat_map g l).
  Proof.
    induction l as [|a l IH]; cbn; intros Hx; [constructor|].
    apply PermutationA_app; [typeclasses eauto|apply Hx; left; reflexivity|apply IH; intros; apply Hx; right; assumption].
  Qed.

  Lemma flat_map_flat_map {A B' C} (f : B' -> list C) (g : A -> list B') l : flat_map f (flat_map g l) = flat_map (fun x => flat_map f (g x)) l.
  Proof. induction l; cbn; [reflexivity|]. rewrite flat_map_app, IHl. reflexivity. Qed.
  Lemma flat_map_map {A B' C} (f : B' -> list C) (g : A -> B') l : flat_map f (map g l) = flat_map (fun x => f (g x)) l.
  Proof. induction l; cbn; [reflexivity|]. rewrite IHl. reflexivity. Qed.
  Lemma Permutation_flat_map {A B'} (f : A -> list B') l1 l2 : Permutation l1 l2 -> Permutation (flat_map f l1) (flat_map f l2).
  Proof. induction 1; cbn; [reflexivity|apply Permutation_app_head; assumption|rewrite !app_assoc; apply Permutation_app_tail; apply Permutation_app_comm|etransitivity; eassumption]. Qed.

  (* every complete flush recorded in [stored]: one file per hour, each in the directory of its
     rows, each time-sorted, together exactly the rows of the flushed batches *)
  Theorem stored_files_ok cfg ls (s : bst) : brun H thr cfg binit ls = Some s -> forallb (@no_replay bkey batch) ls = true ->
    inputs_ok s ->
    forall r, In r (stored s) -> s_full r = true ->
      (forall it, In it (s_items r) -> it_key it = s_key r) /\
      NoDup (map fst (s_files r)) /\ Forall (file_ok H) (s_files r) /\
      PermutationA row_equiv (flat_map (fun f => rows_of (snd f)) (s_files r)) (flat_map rows_of (map it_b (s_items r))).
  Proof.
    intros Hr Hq Hgood r Hin Hfull. pose proof (inputs_sound s Hgood) as Hss.
    destruct (reach_shape _ _ _ Hr) as [_ [_ [_ [Hs _]]]]. rewrite Forall_forall in Hs. destruct (Hs r Hin) as [Hio [files [Ef [Hf1 _]]]].
    rewrite (Hf1 Hfull).
    assert (Hsub : incl (s_items r) (accepted s)).
    { intros it Hit. eapply Permutation_in; [apply (conservation _ _ _ Hr Hq)|].
      unfold all_items. apply in_or_app. right. apply in_or_app. left. unfold stored_items. apply in_flat_map. exists r. rewrite Hfull. tauto. }
    destruct (good_task_flush H thr (s_key r) (s_items r) HH Hio) as [files' [Ef' R]].
    - intros it Hit. apply Hgood. apply Hsub. exact Hit.
    - eapply sig_sound_incl; [|exact Hss]. intros b Hb. apply in_map_iff in Hb. destruct Hb as [it [<- Hit]]. apply in_map. apply Hsub. exact Hit.
    - rewrite Ef in Ef'. inversion Ef'; subst files'. split; [apply Hio|exact R].
  Qed.

  (* the corrected Close: explicit flush + Close with no concurrent writer activity stores every
     accepted row exactly once, in the directory of its hour, unless the queue overflowed *)
  Theorem flush_close_stores_all cfg ls (s : bst) : brun H thr cfg binit ls = Some s ->
    forallb (fun l : blabel => no_replay l && outcome_ok l) ls = true ->
    fix_drain cfg = true -> phase s = PClosed -> clean s = true -> inputs_ok s ->
    (forall t r, In (t, r) (dropped s) -> r <> DQueueFull) ->
    dropped s = [] /\ buffers s = [] /\ queue s = [] /\ busy s = [] /\
    Permutation (accepted s) (stored_items s) /\
    PermutationA row_equiv (flat_map (fun f => rows_of (snd (snd f))) (stored_kfiles s))
                           (flat_map rows_of (map it_b (accepted s))).
  Proof.
    intros Hr Hq Hfix Hph Hcl Hin Hnq.
    assert (Hq1 : forallb (@no_replay bkey batch) ls = true).
    { clear -Hq. induction ls; cbn in *; [reflexivity|]. apply andb_true_iff in Hq. destruct Hq as [Ha Hb]. apply andb_true_iff in Ha. rewrite (proj1 Ha). cbn. auto. }
    assert (Hq2 : forallb (@outcome_ok bkey batch) ls = true).
    { clear -Hq. induction ls; cbn in *; [reflexivity|]. apply andb_true_iff in Hq. destruct Hq as [Ha Hb]. apply andb_true_iff in Ha. rewrite (proj2 Ha). cbn. auto. }
    destruct (close_complete _ _ _ Hr Hq1 Hfix Hph Hcl) as [Hb [Hqe [Hz Hperm]]].
    pose proof (reach_drop _ _ _ Hr Hq) as Hd. pose proof (reach_full _ _ _ Hr Hq2) as Hfull.
    destruct (reach_shape _ _ _ Hr) as [_ [_ [_ [Hs Hdo]]]].
    pose proof Hin as Hgood. pose proof (inputs_sound s Hin) as Hss. clear Hin.
    assert (Hdrop : dropped s = []).
    { assert (Hnone : forall p, In p (dropped s) -> False); [|destruct (dropped s) as [|p dl]; [reflexivity|exfalso; apply (Hnone p); left; reflexivity]].
      intros [t r] Hi.
      destruct (Hd t r Hi) as [D1 [D2 D3]]. specialize (Hnq t r Hi).
      rewrite Forall_forall in Hdo. destruct (Hdo _ Hi) as [Ht [E1 [E2 _]]]. cbn in *.
      assert (Hsub : incl (t_items t) (accepted s)).
      { intros it Hit. eapply Permutation_in; [symmetry; exact Hperm|]. apply in_or_app. right. unfold dropped_items. apply in_flat_map. exists (t, r). tauto. }
      destruct (good_task_flush H thr (t_key t) (t_items t) HH Ht) as [files [Ef _]].
      - intros it Hit. apply Hgood. apply Hsub. exact Hit.
      - eapply sig_sound_incl; [|exact Hss]. intros b Hb'. apply in_map_iff in Hb'. destruct Hb' as [it [<- Hit]]. apply in_map. apply Hsub. exact Hit.
      - destruct r; try congruence.
        + destruct (D3 eq_refl) as [Hc _]. congruence.
        + rewrite (E1 eq_refl) in Ef. discriminate.
        + rewrite (E2 eq_refl) in Ef. discriminate. }
    split; [exact Hdrop|]. split; [exact Hb|]. split; [exact Hqe|]. split; [exact Hz|].
    assert (Hp2 : Permutation (accepted s) (stored_items s)).
    { unfold dropped_items in Hperm. rewrite Hdrop in Hperm. cbn in Hperm. rewrite app_nil_r in Hperm. exact Hperm. }
    split; [exact Hp2|].
    transitivity (flat_map rows_of (map it_b (stored_items s))).
    - unfold stored_kfiles, stored_items. rewrite map_flat_map. rewrite !flat_map_flat_map.
      apply permA_flat_map. intros r Hin. rewrite (Hfull r Hin). rewrite flat_map_map. cbn [snd].
      destruct (stored_files_ok cfg ls s Hr Hq1 Hgood r Hin (Hfull r Hin)) as [_ [_ [_ R]]]. exact R.
    - apply Permutation_PermutationA; [typeclasses eauto|]. apply Permutation_flat_map. apply Permutation_map. symmetry. exact Hp2.
  Qed.

  (* the primary statement of C03 for the code as it is: explicit flush + Close with no concurrent
     writer, no storage failure, no queue overflow -> every accepted row is stored exactly once,
     every file is in the directory of the hour of all its rows, time-sorted, one file per hour and flush *)
  Theorem accepted_rows_stored_once cfg ls (s : bst) : brun H thr cfg binit ls = Some s ->
    forallb (fun l : blabel => no_replay l && outcome_ok l) ls = true ->
    fix_drain cfg = true -> phase s = PClosed -> clean s = true -> inputs_ok s ->
    (forall t r, In (t, r) (dropped s) -> r <> DQueueFull) ->
    Permutation (accepted s) (stored_items s) /\
    PermutationA row_equiv (flat_map (fun f => rows_of (snd (snd f))) (stored_kfiles s)) (flat_map rows_of (map it_b (accepted s))) /\
    (forall r, In r (stored s) ->
       (forall it, In it (s_items r) -> it_key it = s_key r) /\ NoDup (map fst (s_files r)) /\ Forall (file_ok H) (s_files r)) /\
    buffers s = [] /\ queue s = [] /\ busy s = [] /\ dropped s = [].
  Proof.
    intros Hr Hq Hfix Hph Hcl Hin Hnq.
    destruct (flush_close_stores_all cfg ls s Hr Hq Hfix Hph Hcl Hin Hnq) as [Hd [Hb [Hqe [Hz [Hp Hrows]]]]].
    assert (Hq1 : forallb (@no_replay bkey batch) ls = true).
    { clear -Hq. induction ls; cbn in *; [reflexivity|]. apply andb_true_iff in Hq. destruct Hq as [Ha Hb]. apply andb_true_iff in Ha. rewrite (proj1 Ha). cbn. auto. }
    assert (Hq2 : forallb (@outcome_ok bkey batch) ls = true).
    { clear -Hq. induction ls; cbn in *; [reflexivity|]. apply andb_true_iff in Hq. destruct Hq as [Ha Hb]. apply andb_true_iff in Ha. rewrite (proj2 Ha). cbn. auto. }
    pose proof (reach_full _ _ _ Hr Hq2) as Hfull.
    split; [exact Hp|]. split; [exact Hrows|]. split; [|tauto].
    intros r Hrin. destruct (stored_files_ok cfg ls s Hr Hq1 Hin r Hrin (Hfull r Hrin)) as [A [Bn [C _]]]. tauto.
  Qed.
End Inst.

(* ------------------------------------------------------------------ *)

Definition schema (b : batch) : list (name * ty) := map (fun nc => (fst nc, c_ty (snd nc))) (b_cols b).

Lemma same_schema_sound (bs : list batch) : (forall b1 b2, In b1 bs -> In b2 bs -> schema b1 = schema b2) -> sig_sound bs.
Proof.
  intros Hs b1 b2 H1 H2 _ x y n c1 c2 Hx Hy L1 L2.
  assert (E : schema x = schema y).
  { destruct Hx as [<-|[<-|[]]]; destruct Hy as [<-|[<-|[]]]; auto. }
  assert (Lx : lookupn n (schema x) = Some (c_ty c1)).
  { unfold schema. rewrite (lookupn_map (fun _ c => c_ty c)). rewrite L1. reflexivity. }
  assert (Ly : lookupn n (schema y) = Some (c_ty c2)).
  { unfold schema. rewrite (lookupn_map (fun _ c => c_ty c)). rewrite L2. reflexivity. }
  rewrite E in Lx. congruence.
Qed.

(* a one-row batch {time = t, v = x} *)
Definition vname : name := [118%N].
Definition row1 (t x : Z) : batch :=
  {| b_cols := [(time_name, {| c_ty := TInt; c_vals := [VZ t] |}); (vname, {| c_ty := TInt; c_vals := [VZ x] |})]; b_valid := [] |}.

Lemma row1_good t x : int64 t -> good_batch (row1 t x).
Proof.
  intros Ht. split; [|split].
  - split; cbn.
    + repeat constructor; cbn; intuition discriminate.
    + constructor.
    + eexists. split; reflexivity.
    + intros n c [E|[E|[]]]; inversion E; subst; reflexivity.
    + intros n bits [].
  - exists [t]. split; [reflexivity|]. constructor; [exact Ht|constructor].
  - cbn. lia.
Qed.

Definition Hreal : Z := 3600000000.
Definition thr_real : Z := 4096.

Definition wit_batches : list batch := [row1 10 1; row1 20 2; row1 30 3; row1 40 4].
Definition wit_cfg (fix_ : bool) : config := {| max_size := 1; queue_cap := 10; wal_on := false; fix_drain := fix_ |}.
Definition wit_labels : list (label N batch) := close_witness_labels false 1%N wit_batches 0.

Lemma wit_inputs (s : st N batch (list N) (Z * batch)) : map it_b (accepted s) = wit_batches -> inputs_ok s.
Proof.
  intros E it Hin. assert (In (it_b it) wit_batches) by (rewrite <- E; apply in_map; exact Hin).
  unfold wit_batches in H. cbn in H. destruct H as [<-|[<-|[<-|[<-|[]]]]]; apply row1_good; unfold int64, two63; lia.
Qed.

(* the Close BEFORE 2ed39c6 (fix_drain = false): with one worker still flushing and three size-triggered tasks queued, a Close
   that nobody interferes with completes and leaves the three queued batches unwritten *)
Theorem close_refuted :
  exists ls s, brun Hreal thr_real (wit_cfg false) binit ls = Some s /\
    forallb (fun l : label N batch => no_replay l && outcome_ok l) ls = true /\
    phase s = PClosed /\ clean s = true /\ inputs_ok s /\ dropped s = [] /\
    length (accepted s) = 4%nat /\ length (stored_items s) = 1%nat /\ length (queue s) = 3%nat /\
    ~ Permutation (accepted s) (stored_items s).
Proof.
  exists wit_labels. eexists. split; [vm_compute; reflexivity|].
  split; [reflexivity|]. split; [reflexivity|]. split; [reflexivity|].
  split; [apply wit_inputs; vm_compute; reflexivity|].
  split; [reflexivity|]. split; [reflexivity|]. split; [reflexivity|]. split; [reflexivity|].
  intros P. apply Permutation_length in P. vm_compute in P. discriminate.
Qed.

(* the same schedule prefix under the corrected Close: the queue is drained, everything is stored *)
Definition wit_labels_fixed : list (label N batch) :=
  [LWrite 1%N (row1 10 1) true; LEnqueue 0; LDequeue;
   LWrite 1%N (row1 20 2) true; LEnqueue 1; LWrite 1%N (row1 30 3) true; LEnqueue 1; LWrite 1%N (row1 40 4) true; LEnqueue 1;
   LCloseBegin; LDone 0 OOk; LCloseWait;
   LCloseDrain; LDone 0 OOk; LCloseDrain; LDone 0 OOk; LCloseDrain; LDone 0 OOk; LCloseEnd].

Example fixed_close_nonvacuous :
  exists s, brun Hreal thr_real (wit_cfg true) binit wit_labels_fixed = Some s /\
    forallb (fun l : label N batch => no_replay l && outcome_ok l) wit_labels_fixed = true /\
    phase s = PClosed /\ clean s = true /\ inputs_ok s /\ dropped s = [] /\ length (stored_items s) = 4%nat.
Proof.
  eexists. split; [vm_compute; reflexivity|].
  split; [reflexivity|]. split; [reflexivity|]. split; [reflexivity|].
  split; [apply wit_inputs; vm_compute; reflexivity|]. split; reflexivity.
Qed.
