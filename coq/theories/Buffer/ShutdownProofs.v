(* Buffer area (C07): proofs about the shutdown coordinator model of Shutdown.v. *)
From Coq Require Import List ZArith String Bool Lia Permutation Sorting.Sorted.
From Arc Require Import Buffer.Shutdown.
Import ListNotations.
Open Scope Z_scope.

Lemma inner_spec x rest : forall m r', inner x rest = (m, r') ->
  Permutation (x :: rest) (m :: r') /\ Forall (fun z => r_prio m <= r_prio z) r' /\ r_prio m <= r_prio x /\ List.length r' = List.length rest.
Proof.
  revert x. induction rest as [|y r IH]; intros x m r' H; cbn in H.
  - inversion H; subst. repeat split; [reflexivity|constructor|lia].
  - destruct (Z.ltb_spec (r_prio y) (r_prio x)).
    + destruct (inner y r) as [m0 r0] eqn:E. inversion H; subst. destruct (IH _ _ _ E) as [P [Fa [Hle Hl]]].
      repeat split.
      * transitivity (x :: m :: r0); [constructor; exact P|apply perm_swap].
      * constructor; [lia|exact Fa].
      * lia.
      * cbn. lia.
    + destruct (inner x r) as [m0 r0] eqn:E. inversion H; subst. destruct (IH _ _ _ E) as [P [Fa [Hle Hl]]].
      repeat split.
      * transitivity (y :: x :: r); [apply perm_swap|]. transitivity (y :: m :: r0); [constructor; exact P|apply perm_swap].
      * constructor; [lia|exact Fa].
      * lia.
      * cbn. lia.
Qed.

Lemma ssort_spec : forall fuel l, (List.length l <= fuel)%nat ->
  Permutation l (ssort fuel l) /\ StronglySorted (fun a b => r_prio a <= r_prio b) (ssort fuel l).
Proof.
  induction fuel as [|f IH]; intros l Hl.
  - destruct l; [split; [reflexivity|constructor]|cbn in Hl; lia].
  - destruct l as [|x r]; [split; [reflexivity|constructor]|]. cbn [ssort].
    destruct (inner x r) as [m r'] eqn:E. destruct (inner_spec _ _ _ _ E) as [P [Fa [_ Hlen]]].
    destruct (IH r') as [P2 S2]; [cbn in Hl; lia|]. split.
    + rewrite P. constructor. exact P2.
    + constructor; [exact S2|]. rewrite Forall_forall in *. intros z Hz. apply Fa. eapply Permutation_in; [symmetry; exact P2|exact Hz].
Qed.

Lemma sort_prio_spec l : Permutation l (sort_prio l) /\ StronglySorted (fun a b => r_prio a <= r_prio b) (sort_prio l).
Proof. apply ssort_spec. lia. Qed.

(* all hooks, sorted by priority, then all components, sorted by priority *)
Theorem shutdown_order_spec regs :
  exists hs cs, shutdown_order regs = hs ++ cs /\
    Permutation hs (filter is_hook regs) /\ Permutation cs (filter is_comp regs) /\
    StronglySorted (fun a b => r_prio a <= r_prio b) hs /\ StronglySorted (fun a b => r_prio a <= r_prio b) cs /\
    Forall (fun r => r_kind r = RHook) hs /\ Forall (fun r => r_kind r = RComp) cs.
Proof.
  exists (sort_prio (filter is_hook regs)), (sort_prio (filter is_comp regs)).
  destruct (sort_prio_spec (filter is_hook regs)) as [P1 S1]. destruct (sort_prio_spec (filter is_comp regs)) as [P2 S2].
  split; [reflexivity|]. split; [symmetry; exact P1|]. split; [symmetry; exact P2|]. split; [exact S1|]. split; [exact S2|]. split.
  - apply Forall_forall. intros r Hr. assert (In r (filter is_hook regs)) by (eapply Permutation_in; [symmetry; exact P1|exact Hr]).
    apply filter_In in H. destruct H as [_ H]. unfold is_hook in H. destruct (r_kind r); [reflexivity|discriminate].
  - apply Forall_forall. intros r Hr. assert (In r (filter is_comp regs)) by (eapply Permutation_in; [symmetry; exact P2|exact Hr]).
    apply filter_In in H. destruct H as [_ H]. unfold is_comp, is_hook in H. destruct (r_kind r); [discriminate|reflexivity].
Qed.

(* whatever the priorities: every hook runs before every component *)
Theorem hooks_before_components regs i j a b :
  nth_error (shutdown_order regs) i = Some a -> nth_error (shutdown_order regs) j = Some b ->
  r_kind a = RHook -> r_kind b = RComp -> (i < j)%nat.
Proof.
  destruct (shutdown_order_spec regs) as [hs [cs [E [_ [_ [_ [_ [Fh Fc]]]]]]]]. rewrite E. intros Ha Hb Ka Kb.
  destruct (Nat.lt_ge_cases i (List.length hs)) as [Hi|Hi]; destruct (Nat.lt_ge_cases j (List.length hs)) as [Hj|Hj]; try lia.
  - rewrite nth_error_app1 in Hb by exact Hj. rewrite Forall_forall in Fh. apply nth_error_In in Hb. specialize (Fh _ Hb). congruence.
  - rewrite nth_error_app2 in Ha by exact Hi. rewrite Forall_forall in Fc. apply nth_error_In in Ha. specialize (Fc _ Ha). congruence.
  - rewrite nth_error_app2 in Ha by exact Hi. rewrite Forall_forall in Fc. apply nth_error_In in Ha. specialize (Fc _ Ha). congruence.
Qed.
