(* C07 obligations on the shutdown registration table regenerated from cmd/arc on every run
   (coq/gen/Params_Shutdown.v, written by tools/lib_buffer.py through tools/goast). *)
From Coq Require Import List ZArith NArith Bool String Lia.
From Arc Require Import Buffer.Shutdown Buffer.ShutdownProofs Buffer.Model Buffer.Proofs Buffer.ModelC07 Buffer.ProofsC07 Buffer.PropsC07.
From ArcGen Require Import Params_Shutdown.
Import ListNotations.
Open Scope Z_scope.

(* the order the real coordinator will use for the deployed table (names) *)
Definition deployed_order : list string := map r_name (shutdown_order registrations).
Definition deployed_purge_after_flush : bool := purge_after_flush registrations.
Definition deployed_wal_close_last : bool :=
  negb (registered "wal" registrations) || (runs_before "arrow-buffer" "wal" registrations && (negb (registered "wal-purge" registrations) || runs_before "wal-purge" "wal" registrations)).

(* The obligation "the WAL purge runs after the buffer's final flush" is DECIDED on the current
   table: either it holds, or it fails and then the model has a run of exactly that order that
   loses an acknowledged batch.  Which disjunct holds is read back by the check (Eval). *)
Theorem C07_deployed_shutdown_decided :
  hooks_loop_first = true ->
  deployed_purge_after_flush = true \/
  (deployed_purge_after_flush = false /\
   exists s, brun Hreal thr_real (cfg7 true 100 8) binit run_shutdown_purge = Some s /\ phase s = PClosed /\ all_lost s).
Proof.
  intros _. destruct deployed_purge_after_flush eqn:E; [left; reflexivity|right]. split; [reflexivity|exact C07_shutdown_purge_refuted].
Qed.
Print Assumptions C07_deployed_shutdown_decided.

(* PRIMARY obligation on the table regenerated from cmd/arc: the WAL purge runs AFTER the buffer's
   final flush, and it is skipped when a flush failure is recorded *)
Theorem C07_deployed_purge_after_flush :
  deployed_purge_after_flush = true /\ purge_guarded = true /\ runs_before "arrow-buffer" "wal-purge" registrations = true.
Proof. vm_compute. repeat split. Qed.
Print Assumptions C07_deployed_purge_after_flush.

(* PRIMARY obligation on the maintenance tick as transcribed from the current main.go / recovery.go:
   the failure branch does not purge by age before it replays, and a replayed file is deleted only
   after FlushReplayed (ArrowBuffer.FlushAll) succeeded *)
Theorem C07_deployed_tick : tick_purges_before_replay = false /\ tick_flushes_before_delete = true.
Proof. vm_compute. split; reflexivity. Qed.
Print Assumptions C07_deployed_tick.

(* the WAL writer is closed after the buffer's Close and after the purge *)
Theorem C07_deployed_wal_close_last : deployed_wal_close_last = true.
Proof. vm_compute. reflexivity. Qed.
Print Assumptions C07_deployed_wal_close_last.
