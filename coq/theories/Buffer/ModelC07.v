(* Buffer area, C07 (definitions only): deterministic scheduler for fault traces (storage
   failures, blocked worker / queue overflow, WAL rotation per entry, file ageing, the
   maintenance tick, the wal-purge hook, Close) over the protocol of Protocol.v, and the
   executable case predicates of the C07 correspondence.  Where the real code is
   non-deterministic (which hour files of a multi-hour flush were written before the failing
   one: Go map order) the scheduler branches; a trace denotes a list of possible states. *)
From Coq Require Import List ZArith NArith Bool String.
From Arc Require Import Lib.AList Buffer.Model Buffer.Shutdown.
Import ListNotations.
Open Scope Z_scope.

Inductive fmode := FNone | FAll | FHours (hs : list Z).

Inductive op7 :=
| O7Write (k : N) (b : batch)
| O7Fail (m : fmode)
| O7Block                  (* the single flush worker blocks inside its next storage.Write *)
| O7BlockCtx               (* ... on a context-aware backend: the blocked Write returns ctx.Err() when Close cancels *)
| O7Unblock
| O7FlushAll
| O7Age (old : bool)       (* rotated WAL files become older than MinFileAge (false) / older than safeAge (true) *)
| O7Tick
| O7PurgeAll
| O7PurgeGuarded         (* a purge that is skipped while hasFlushFailure is set *)
| O7Close.

Notation st7 := (st N batch (list N) (Z * batch)%type) (only parsing).
Record sstate := { ss : st7; ss_mode : fmode; ss_blocked : bool; ss_ctx : bool }.

Fixpoint find_idx {A} (p : A -> bool) (l : list A) (i : nat) : option nat :=
  match l with
  | [] => None
  | x :: r => if p x then Some i else find_idx p r (S i)
  end.

Section Sched7.
  Variables (H thr : Z) (cfg : config).
  Let stp := bstep H thr cfg.

  Definition zmem (x : Z) (l : list Z) : bool := existsb (Z.eqb x) l.

  Fixpoint masks (oks : list bool) : list (list bool) :=       (* failing files: false; ok files: either *)
    match oks with
    | [] => [[]]
    | true :: r => flat_map (fun m => [true :: m; false :: m]) (masks r)
    | false :: r => map (fun m => false :: m) (masks r)
    end.

  (* possible outcomes of the storage writes of one flush under the fault mode *)
  Definition outcomes (m : fmode) (t : task N batch) : list outcome :=
    match m with
    | FNone => [OOk]
    | FAll => [OFail []]
    | FHours hs =>
        match bflush H thr (map (@it_b N batch) (t_items t)) with
        | FlOk files =>
            let oks := map (fun f => negb (zmem (fst f) hs)) files in
            if forallb (fun x => x) oks then [OOk] else map OFail (masks oks)
        | _ => [OOk]
        end
    end.

  Definition lift (x : sstate) (o : option st7) : list sstate :=
    match o with Some s' => [{| ss := s'; ss_mode := ss_mode x; ss_blocked := ss_blocked x; ss_ctx := ss_ctx x |}] | None => [] end.
  Definition bindl (xs : list sstate) (f : sstate -> list sstate) : list sstate := flat_map f xs.

  Definition done_all (x : sstate) (i : nat) : list sstate :=
    match nth_error (busy (ss x)) i with
    | Some (_, t) => flat_map (fun o => lift x (stp (ss x) (LDone i o))) (outcomes (ss_mode x) t)
    | None => []
    end.

  (* let every goroutine finish what it carries (the harness waits for idle after every op);
     a blocked worker keeps its task inside storage.Write and dequeues nothing more *)
  Fixpoint settle7 (fuel : nat) (x : sstate) : list sstate :=
    match fuel with
    | O => [x]
    | S f =>
        let s := ss x in
        match find_idx (fun p : role * task N batch => role_eqb (fst p) RPending) (busy s) 0 with
        | Some i => bindl (lift x (stp s (LEnqueue i))) (settle7 f)
        | None =>
            match find_idx (fun p : role * task N batch => negb (role_eqb (fst p) RInflight)) (busy s) 0 with
            | Some i => bindl (done_all x i) (settle7 f)
            | None =>
                match busy s with
                | _ :: _ => if ss_blocked x then [x] else bindl (done_all x 0) (settle7 f)
                | [] => match queue s with
                        | _ :: _ => if workers s then bindl (lift x (stp s LDequeue)) (settle7 f) else [x]
                        | [] => [x]
                        end
                end
            end
        end
    end.

  Definition write7 (skip_wal : bool) (x : sstate) (k : N) (b : batch) (lbl : label N batch) : list sstate :=
    let s := ss x in
    let pre := match lookup N.eqb k (buffers s) with
               | Some (sg, _) => if bytes_eqb sg (buffer_schema_key b) then [x]
                                 else bindl (lift x (stp s (LSchemaFlush k))) (settle7 6)
               | None => [x]
               end in
    bindl pre (fun x1 =>
      bindl (lift x1 (stp (ss x1) lbl)) (fun x2 =>
        let x3 := if wal_on cfg && negb skip_wal then lift x2 (stp (ss x2) LRotate) else [x2] in
        bindl x3 (settle7 12))).

  Fixpoint extract_all7 (mk : N -> label N batch) (keys : list N) (x : sstate) : list sstate :=
    match keys with
    | [] => [x]
    | k :: r => bindl (bindl (lift x (stp (ss x) (mk k))) (settle7 6)) (extract_all7 mk r)
    end.

  Fixpoint iter_label (n : nat) (l : label N batch) (x : sstate) : list sstate :=
    match n with O => [x] | S m => bindl (lift x (stp (ss x) l)) (iter_label m l) end.

  (* age every rotated file: to Mid (old = false; Young files only) or to Old (old = true) *)
  Fixpoint age_files (old : bool) (i : nat) (n : nat) (x : sstate) : list sstate :=
    match n with
    | O => [x]
    | S m =>
        match nth_error (wal_files (ss x)) i with
        | Some f =>
            let bumps := match w_age f, old with
                         | Young, false => 1 | Young, true => 2 | Mid, true => 1 | _, _ => 0 end%nat in
            bindl (iter_label bumps (LAgeFile i) x) (age_files old (S i) m)
        | None => [x]
        end
    end.

  (* replay every entry of the file at the head of [replaying] (stops when none is left) *)
  Fixpoint replay_entries (fuel : nat) (x : sstate) : list sstate :=
    match fuel with
    | O => [x]
    | S f =>
        match replaying (ss x) with
        | (e :: _, _) :: _ => bindl (write7 true x (it_key e) (it_b e) LReplayEntry) (replay_entries f)
        | _ => [x]
        end
    end.

  Definition flush_all7 (x : sstate) : list sstate :=
    extract_all7 (fun k => LFlushAllExtract k) (map fst (buffers (ss x))) x.

  (* RecoverWithOptions: the rotated files in order; a file younger than MinFileAge is skipped; the
     others are replayed, then FlushReplayed (= ArrowBuffer.FlushAll, 7b9e05e) runs and the file is
     deleted only if that flush reported no error, otherwise it stays where it is *)
  Fixpoint replay_files (todo p : nat) (x : sstate) : list sstate :=
    match todo with
    | O => [x]
    | S t =>
        match nth_error (wal_files (ss x)) p with
        | None => [x]
        | Some f =>
            if is_young (w_age f) then replay_files t (S p) x
            else
              bindl (bindl (lift x (stp (ss x) (LReplayStart p))) (replay_entries 64)) (fun x1 =>
                let d0 := List.length (dropped (ss x1)) in
                bindl (flush_all7 x1) (fun x2 =>
                  if Nat.eqb (List.length (dropped (ss x2))) d0
                  then bindl (lift x2 (stp (ss x2) LReplayFileDone)) (replay_files t p)
                  else bindl (lift x2 (stp (ss x2) (LReplayFileKeep p (w_age f)))) (replay_files t (S p))))
        end
    end.

  (* Close cancelled the buffer context: a Write blocked on a context-aware backend returns ctx.Err() *)
  Fixpoint cancel_inflight (fuel : nat) (x : sstate) : list sstate :=
    match fuel with
    | O => [x]
    | S f => match find_idx (fun p : role * task N batch => role_eqb (fst p) RInflight) (busy (ss x)) 0 with
             | Some i => bindl (lift x (stp (ss x) (LDone i (OFail [])))) (cancel_inflight f)
             | None => [x]
             end
    end.

  (* Close drains the queue itself (only when the configuration says so: fix_drain) *)
  Fixpoint drain7 (n : nat) (x : sstate) : list sstate :=
    match n with
    | O => [x]
    | S m => if fix_drain cfg
             then match queue (ss x) with
                  | [] => [x]
                  | _ :: _ => bindl (bindl (lift x (stp (ss x) LCloseDrain)) (settle7 4)) (drain7 m)
                  end
             else [x]
    end.

  Definition op7_run (x : sstate) (o : op7) : list sstate :=
    match o with
    | O7Write k b => write7 false x k b (LWrite k b true)
    | O7Fail m => [{| ss := ss x; ss_mode := m; ss_blocked := ss_blocked x; ss_ctx := ss_ctx x |}]
    | O7Block => [{| ss := ss x; ss_mode := ss_mode x; ss_blocked := true; ss_ctx := false |}]
    | O7BlockCtx => [{| ss := ss x; ss_mode := ss_mode x; ss_blocked := true; ss_ctx := true |}]
    | O7Unblock => settle7 64 {| ss := ss x; ss_mode := ss_mode x; ss_blocked := false; ss_ctx := false |}
    | O7FlushAll => extract_all7 (fun k => LFlushAllExtract k) (map fst (buffers (ss x))) x
    | O7Age old => age_files old 0 (List.length (wal_files (ss x))) x
    | O7Tick =>
        (* one fire of the maintenance ticker (main.go as of 8a1c0f1 / 7b9e05e): with the failure flag
           set, replay (no purge by age first), flush before delete, reset the flag; otherwise purge by
           age.  The harness keeps the flush worker blocked while the tick body runs, so that the order
           "replay enqueues ... ResetFlushFailure ... asynchronous flushes finish" is deterministic *)
        if flush_failed (ss x)
        then let xb := {| ss := ss x; ss_mode := ss_mode x; ss_blocked := true; ss_ctx := false |} in
             bindl (bindl (replay_files (List.length (wal_files (ss xb))) 0 xb) (fun x1 => lift x1 (stp (ss x1) LResetFlag)))
                   (fun x2 => settle7 64 {| ss := ss x2; ss_mode := ss_mode x2; ss_blocked := ss_blocked x; ss_ctx := ss_ctx x |})
        else lift x (stp (ss x) LPurgeOld)
    | O7PurgeAll => lift x (stp (ss x) LPurgeAll)
    | O7PurgeGuarded => if flush_failed (ss x) then [x] else lift x (stp (ss x) LPurgeAll)
    | O7Close =>
        bindl (lift x (stp (ss x) LCloseBegin)) (fun x0 =>
        bindl (if ss_ctx x0 then cancel_inflight 4 {| ss := ss x0; ss_mode := ss_mode x0; ss_blocked := false; ss_ctx := false |} else [x0]) (fun x1 =>
        bindl (lift x1 (stp (ss x1) LCloseWait)) (fun x2 =>
        bindl (drain7 (List.length (queue (ss x2))) x2) (fun x2' =>
        bindl (extract_all7 (fun k => LCloseExtract k) (map fst (buffers (ss x2'))) x2') (fun x3 =>
        lift x3 (stp (ss x3) LCloseEnd))))))
    end.

  Definition sched7 (ops : list op7) : list sstate :=
    fold_left (fun xs o => bindl xs (fun x => op7_run x o)) ops [{| ss := binit; ss_mode := FNone; ss_blocked := false; ss_ctx := false |}].
End Sched7.

(* ------------------------------------------------------------------------------------ *)
(* observations and oracles                                                              *)
(* ------------------------------------------------------------------------------------ *)

Record obs7 := { o_files : list (N * (Z * batch)); o_walfiles : nat; o_walentries : nat; o_failed : bool }.

Definition state_matches (s : st7) (o : obs7) : bool :=
  kfiles_meq (stored_kfiles s) (o_files o) &&
  Nat.eqb (List.length (wal_files s) + (if is_nil (wal_active s) then 0 else 1)) (o_walfiles o) &&
  Nat.eqb (List.length (wal_items s)) (o_walentries o) &&
  Bool.eqb (flush_failed s) (o_failed o).

Fixpoint multiset_subb {A} (eqb : A -> A -> bool) (a b : list A) : bool :=      (* a is a sub-multiset of b *)
  match a with
  | [] => true
  | x :: a' => match remove_first eqb x b with Some b' => multiset_subb eqb a' b' | None => false end
  end.

(* rows already stored are not stored a second time: per directory the stored rows are a
   sub-multiset of the acknowledged rows of that hour, and every file is in its directory *)
Definition at_most_once_oracle (H : Z) (writes : list (N * batch)) (files : list (N * (Z * batch))) : bool :=
  forallb (fun f => file_oracle H (snd f)) files &&
  forallb (fun f => multiset_subb row_equivb
                      (flat_map (fun g => if dir_eqb (fst g, fst (snd g)) (fst f, fst (snd f)) then rows_of (snd (snd g)) else []) files)
                      (rows_in_dir H (fst f) (fst (snd f)) writes)) files.

Inductive ccase7 :=
| CTrace (H thr : Z) (cfg : config) (ops : list op7) (final : N) (obs : obs7)
| COrder (regs : list reg) (obs : list string) (events : list (bool * string)).   (* events: (true, n) = n starts, (false, n) = n has returned *)

Definition writes_of_ops7 (ops : list op7) : list (N * batch) :=
  flat_map (fun o => match o with O7Write k b => [(k, b)] | _ => [] end) ops.

Definition trace_agrees (H thr : Z) (cfg : config) (ops : list op7) (obs : obs7) : bool :=
  existsb (fun x => state_matches (ss x) obs) (sched7 H thr cfg ops).

(* the property on the implementation's output: never a duplicate; [final] = 1: the trace ends with
   the faults gone and maintenance / flush completed, every acknowledged row must be stored once;
   [final] = 2: the trace ends after Close (nothing left in memory): every acknowledged row is stored
   or the WAL still holds entries *)
Definition trace_oracle (H : Z) (ops : list op7) (final : N) (obs : obs7) : bool :=
  at_most_once_oracle H (writes_of_ops7 ops) (o_files obs) &&
  match final with
  | 1%N => conservation_oracle H (writes_of_ops7 ops) (o_files obs)
  | 2%N => conservation_oracle H (writes_of_ops7 ops) (o_files obs) || negb (Nat.eqb (o_walentries obs) 0)
  | _ => true
  end.

Fixpoint string_list_eqb (a b : list string) : bool :=
  match a, b with
  | [], [] => true
  | x :: a', y :: b' => String.eqb x y && string_list_eqb a' b'
  | _, _ => false
  end.

Fixpoint ev_index (start : bool) (n : string) (l : list (bool * string)) (i : nat) : option nat :=
  match l with
  | [] => None
  | (b, m) :: r => if Bool.eqb b start && String.eqb m n then Some i else ev_index start n r (S i)
  end.

Fixpoint events_eqb (a b : list (bool * string)) : bool :=
  match a, b with
  | [], [] => true
  | (x, n) :: a', (y, m) :: b' => Bool.eqb x y && String.eqb n m && events_eqb a' b'
  | _, _ => false
  end.

(* the model coordinator runs one hook / Close at a time *)
Definition sequential_events (order : list string) : list (bool * string) :=
  flat_map (fun n => [(true, n); (false, n)]) order.

Definition case7_agrees (c : ccase7) : bool :=
  match c with
  | CTrace H thr cfg ops _ obs => trace_agrees H thr cfg ops obs
  | COrder regs obs events =>
      string_list_eqb (map r_name (shutdown_order regs)) obs &&
      events_eqb (sequential_events (map r_name (shutdown_order regs))) events
  end.

(* the ordering property itself, on what the REAL coordinator did: the WAL purge must not START
   before the buffer's Close has RETURNED (whatever the implementation: sorted lists, bands, ...) *)
Definition purge_after_close_events (events : list (bool * string)) : bool :=
  match ev_index true "wal-purge" events 0, ev_index false "arrow-buffer" events 0 with
  | Some ps, Some ce => Nat.ltb ce ps
  | Some _, None => negb (existsb (fun e => String.eqb (snd e) "arrow-buffer") events)
  | None, _ => true
  end.

Definition case7_oracle (c : ccase7) : bool :=
  match c with
  | CTrace H _ _ ops final obs => trace_oracle H ops final obs
  | COrder _ _ events => purge_after_close_events events
  end.
