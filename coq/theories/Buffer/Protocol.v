(* Buffer area, the ArrowBuffer protocol as an interleaving system (definitions only).

   One label = one atomic section of some goroutine of internal/ingest/arrow_writer.go
   (a shard-lock critical section, a channel operation, a storage write) or of the WAL
   maintenance code of cmd/arc/main.go.  Goroutines are anonymous: what a goroutine
   carries between two of its atomic sections (the batches it extracted and is about to
   enqueue / is flushing with the lock released) lives in the shared multiset [busy],
   tagged with the role of the carrier.  Any number of writers, flush workers and
   FlushAll callers is therefore covered; a schedule is a list of labels and [run]
   executes it.  "For all interleavings" = for all label lists.

   The system is generic in the batch type, the signature function and the flush function
   (Kernels.flush_batches in the instance used by C03/C07), so that the protocol proofs do
   not depend on the kernels.  Reused by C03, C04, C05, C07, C32. *)
From Coq Require Import List Bool Arith Lia.
From Arc Require Import Lib.AList.
Import ListNotations.

Inductive flush_res (F : Type) := FlOk (files : list F) | FlErr | FlPanic.
Arguments FlOk {F}. Arguments FlErr {F}. Arguments FlPanic {F}.

Inductive role := RPending      (* writer: extracted under the lock, not yet at tryEnqueueFlush *)
                | RInflight     (* flush worker: dequeued, inside flushRecordsAsync *)
                | RHeldW        (* writer (schema change) or FlushAll caller inside flushBufferLocked's unlocked I/O window *)
                | RHeldBg       (* periodicFlush goroutine inside flushBufferLocked (waited for by Close's wg.Wait) *)
                | RHeldClose.   (* Close itself inside flushBufferLocked (or draining the queue in the corrected Close) *)
Definition role_eqb (a b : role) : bool :=
  match a, b with
  | RPending, RPending | RInflight, RInflight | RHeldW, RHeldW | RHeldBg, RHeldBg | RHeldClose, RHeldClose => true
  | _, _ => false
  end.

Inductive phase_t := POpen | PWaiting | PFlushing | PClosed.
Definition phase_eqb (a b : phase_t) : bool :=
  match a, b with POpen, POpen | PWaiting, PWaiting | PFlushing, PFlushing | PClosed, PClosed => true | _, _ => false end.

Inductive age_t := Young | Mid | Old.      (* rotated WAL file: < MinFileAge, in between, > safeAge *)
Inductive drop_reason := DClosing | DQueueFull | DFlushFail | DMergeErr | DPanic | DAbandoned.

(* outcome of the storage writes of one flush: all ok, or a failure after the files
   selected by the mask were written (the hour buckets are iterated in map order) *)
Inductive outcome := OOk | OFail (mask : list bool).

Record config := { max_size : nat;        (* ingest.max_buffer_size (rows) *)
                   queue_cap : nat;       (* ingest.flush_queue_size *)
                   wal_on : bool;
                   fix_drain : bool }.    (* true: the code (Close drains the queue after wg.Wait, since 2ed39c6); false: the Close before that fix *)

Section Protocol.
  Context {K B Sg F : Type}.
  Variable keqb : K -> K -> bool.
  Variable seqb : Sg -> Sg -> bool.
  Variable sigf : B -> Sg.                          (* TypedColumnBatch.Signature / getColumnSignature *)
  Variable nrows : B -> nat.                        (* numRecords *)
  Variable flushf : list B -> flush_res F.          (* mergeBatches + flushPartitionedData up to the storage writes *)

  Record item := { it_id : nat; it_key : K; it_b : B }.      (* it_id: ghost, order of acceptance *)
  Record task := { t_key : K; t_items : list item }.
  Record srec := { s_key : K; s_items : list item; s_files : list F; s_full : bool }.
  Record wfile := { w_entries : list item; w_age : age_t }.

  Record st := {
    buffers : list (K * (Sg * list item));     (* shard.buffers + bufferSchemas (counts are derived) *)
    queue : list task;                        (* flushQueue, FIFO *)
    busy : list (role * task);
    stored : list srec;                       (* one record per flush that wrote at least one file *)
    dropped : list (task * drop_reason);      (* ghost: batches that left memory without being stored *)
    accepted : list item;                     (* ghost: writes that returned nil *)
    next_id : nat;
    closing : bool;
    workers : bool;                           (* flush workers and periodicFlush still running *)
    phase : phase_t;
    clean : bool;                             (* ghost: no writer / FlushAll activity since Close began *)
    wal_active : list item;
    wal_files : list wfile;
    replaying : list (list item * list item); (* (entries still to replay, all entries of the file still on disk) *)
    flush_failed : bool;                      (* hasFlushFailure *)
    crashed : bool
  }.

  Definition init : st :=
    {| buffers := []; queue := []; busy := []; stored := []; dropped := []; accepted := []; next_id := 0;
       closing := false; workers := true; phase := POpen; clean := true;
       wal_active := []; wal_files := []; replaying := []; flush_failed := false; crashed := false |}.

  (* field updates *)
  Definition set_vol (s : st) (bf : list (K * (Sg * list item))) (q : list task) (bz : list (role * task)) : st :=
    {| buffers := bf; queue := q; busy := bz; stored := stored s; dropped := dropped s; accepted := accepted s;
       next_id := next_id s; closing := closing s; workers := workers s; phase := phase s; clean := clean s;
       wal_active := wal_active s; wal_files := wal_files s; replaying := replaying s; flush_failed := flush_failed s;
       crashed := crashed s |}.
  Definition set_out (s : st) (sto : list srec) (dr : list (task * drop_reason)) (ff cr : bool) : st :=
    {| buffers := buffers s; queue := queue s; busy := busy s; stored := sto; dropped := dr; accepted := accepted s;
       next_id := next_id s; closing := closing s; workers := workers s; phase := phase s; clean := clean s;
       wal_active := wal_active s; wal_files := wal_files s; replaying := replaying s; flush_failed := ff;
       crashed := cr |}.
  Definition set_ctl (s : st) (cl wk : bool) (ph : phase_t) (cn : bool) : st :=
    {| buffers := buffers s; queue := queue s; busy := busy s; stored := stored s; dropped := dropped s; accepted := accepted s;
       next_id := next_id s; closing := cl; workers := wk; phase := ph; clean := cn;
       wal_active := wal_active s; wal_files := wal_files s; replaying := replaying s; flush_failed := flush_failed s;
       crashed := crashed s |}.
  Definition set_wal (s : st) (wa : list item) (wf : list wfile) (rp : list (list item * list item)) : st :=
    {| buffers := buffers s; queue := queue s; busy := busy s; stored := stored s; dropped := dropped s; accepted := accepted s;
       next_id := next_id s; closing := closing s; workers := workers s; phase := phase s; clean := clean s;
       wal_active := wa; wal_files := wf; replaying := rp; flush_failed := flush_failed s;
       crashed := crashed s |}.
  Definition set_acc (s : st) (acc : list item) (n : nat) : st :=
    {| buffers := buffers s; queue := queue s; busy := busy s; stored := stored s; dropped := dropped s; accepted := acc;
       next_id := n; closing := closing s; workers := workers s; phase := phase s; clean := clean s;
       wal_active := wal_active s; wal_files := wal_files s; replaying := replaying s; flush_failed := flush_failed s;
       crashed := crashed s |}.

  Fixpoint remove_nth {A} (i : nat) (l : list A) : list A :=
    match l, i with
    | [], _ => []
    | _ :: r, O => r
    | x :: r, S j => x :: remove_nth j r
    end.

  Fixpoint select {A} (mask : list bool) (l : list A) : list A :=
    match mask, l with
    | true :: m, x :: r => x :: select m r
    | false :: m, _ :: r => select m r
    | _, _ => []
    end.

  Definition is_nil {A} (l : list A) : bool := match l with [] => true | _ => false end.
  Definition has_role (r : role) (bz : list (role * task)) : bool := existsb (fun p => role_eqb (fst p) r) bz.
  Definition rows_of_items (l : list item) : nat := fold_right (fun it n => nrows (it_b it) + n) 0 l.

  (* append under the shard lock + the size-triggered extract (writeColumnarInternal, both
     for live writes and for WAL replay).  None: the buffered signature differs, the
     writer has to go through flushOnSchemaChangeLocked first (label LSchemaFlush). *)
  Definition append (cfg : config) (s : st) (it : item) : option st :=
    let k := it_key it in
    let cur := match lookup keqb k (buffers s) with
               | Some (sg, items) => if seqb sg (sigf (it_b it)) then Some (sg, items) else None
               | None => Some (sigf (it_b it), [])
               end in
    match cur with
    | None => None
    | Some (sg, items) =>
        let items' := items ++ [it] in
        let s1 := if max_size cfg <=? rows_of_items items'
                  then set_vol s (remove keqb k (buffers s)) (queue s) (busy s ++ [(RPending, {| t_key := k; t_items := items' |})])
                  else set_vol s (insert keqb k (sg, items') (buffers s)) (queue s) (busy s) in
        Some (if closing s then set_ctl s1 (closing s1) (workers s1) (phase s1) false else s1)
    end.

  (* extract the whole buffer of key k (flushBufferLocked up to the Unlock) *)
  Definition extract (s : st) (k : K) (r : role) : option st :=
    match lookup keqb k (buffers s) with
    | Some (_, items) => Some (set_vol s (remove keqb k (buffers s)) (queue s) (busy s ++ [(r, {| t_key := k; t_items := items |})]))
    | None => None
    end.

  (* the flush of a carried task finishes *)
  Definition complete (s : st) (t : task) (o : outcome) : option st :=
    match flushf (map it_b (t_items t)) with
    (* a panic inside merge / encode is recovered by flushRecordsAsync / flushRecovered and
       treated like a flush error (markFlushFailure); before 763beab it killed the process *)
    | FlPanic => Some (set_out s (stored s) (dropped s ++ [(t, DPanic)]) true (crashed s))
    | FlErr => Some (set_out s (stored s) (dropped s ++ [(t, DMergeErr)]) true (crashed s))
    | FlOk files =>
        match o with
        | OOk => Some (set_out s (stored s ++ [{| s_key := t_key t; s_items := t_items t; s_files := files; s_full := true |}])
                               (dropped s) (flush_failed s) (crashed s))
        | OFail mask =>
            let part := select mask files in
            if length part <? length files
            then Some (set_out s (if is_nil part then stored s
                                  else stored s ++ [{| s_key := t_key t; s_items := t_items t; s_files := part; s_full := false |}])
                               (dropped s ++ [(t, DFlushFail)]) true (crashed s))
            else None
        end
    end.

  Definition unclean (s : st) : st :=
    if closing s then set_ctl s (closing s) (workers s) (phase s) false else s.

  Definition bump (a : age_t) : age_t := match a with Young => Mid | _ => Old end.
  Definition is_old (a : age_t) : bool := match a with Old => true | _ => false end.
  Definition is_young (a : age_t) : bool := match a with Young => true | _ => false end.

  Inductive label :=
  | LWrite (k : K) (b : B) (wal_ok : bool)   (* WAL append (accepted or dropped on backpressure) + locked append + size check *)
  | LEnqueue (i : nat)                       (* tryEnqueueFlush of the i-th carried task (must be RPending) *)
  | LSchemaFlush (k : K)                     (* writer: signature differs -> flushBufferLocked extracts, lock released *)
  | LFlushAllExtract (k : K)                 (* FlushAll: same, for a FlushAll caller *)
  | LAgeExtract (k : K)                      (* flushAgedBuffers *)
  | LDequeue                                 (* flush worker receives from flushQueue *)
  | LDone (i : nat) (o : outcome)            (* the i-th carried task (not RPending) finishes its flush *)
  | LCloseBegin                              (* closing.Store(true); cancel() *)
  | LCloseWait                               (* wg.Wait() returns *)
  | LCloseDrain                              (* corrected Close only: take one queued task *)
  | LCloseExtract (k : K)                    (* Close: flushBufferLocked of a remaining buffer *)
  | LCloseEnd
  | LRotate                                  (* WAL writer rotates *)
  | LAgeFile (i : nat)                       (* time passes for rotated file i *)
  | LPurgeOld                                (* Writer.PurgeOlderThan(safeAge) *)
  | LPurgeAll                                (* Writer.PurgeAll (shutdown hook wal-purge) *)
  | LReplayStart (i : nat)                   (* maintenance tick with hasFlushFailure: Recovery picks rotated file i *)
  | LReplayEntry                             (* callback -> WriteColumnarDirectNoWAL of the next entry *)
  | LReplayFileDone                          (* all entries replayed (and, since 7b9e05e, FlushReplayed succeeded): os.Remove(file) *)
  | LReplayFileKeep (i : nat) (a : age_t)    (* all entries replayed but FlushReplayed failed: the file stays (position i, age a) *)
  | LResetFlag                               (* ResetFlushFailure *)
  | LRestart.                                (* process exit + start: volatile state is gone, startup recovery is enabled *)

  Definition step (cfg : config) (s : st) (l : label) : option st :=
    if crashed s then None else
    match l with
    | LWrite k b wal_ok =>
        let it := {| it_id := next_id s; it_key := k; it_b := b |} in
        match append cfg s it with
        | None => None
        | Some s1 =>
            let s2 := set_acc s1 (accepted s1 ++ [it]) (S (next_id s1)) in
            Some (if wal_on cfg && wal_ok then set_wal s2 (wal_active s2 ++ [it]) (wal_files s2) (replaying s2) else s2)
        end
    | LEnqueue i =>
        match nth_error (busy s) i with
        | Some (RPending, t) =>
            let bz := remove_nth i (busy s) in
            if closing s then Some (set_out (set_vol s (buffers s) (queue s) bz) (stored s) (dropped s ++ [(t, DClosing)]) (flush_failed s) (crashed s))
            else if length (queue s) <? queue_cap cfg then Some (set_vol s (buffers s) (queue s ++ [t]) bz)
            else Some (set_out (set_vol s (buffers s) (queue s) bz) (stored s) (dropped s ++ [(t, DQueueFull)]) (flush_failed s) (crashed s))
        | _ => None
        end
    | LSchemaFlush k | LFlushAllExtract k => option_map unclean (extract s k RHeldW)
    | LAgeExtract k => if workers s then extract s k RHeldBg else None
    | LDequeue =>
        if workers s then
          match queue s with
          | t :: q => Some (set_vol s (buffers s) q (busy s ++ [(RInflight, t)]))
          | [] => None
          end
        else None
    | LDone i o =>
        match nth_error (busy s) i with
        | Some (RPending, _) => None
        | Some (_, t) => complete (set_vol s (buffers s) (queue s) (remove_nth i (busy s))) t o
        | None => None
        end
    | LCloseBegin =>
        if phase_eqb (phase s) POpen
        then Some (set_ctl s true (workers s) PWaiting (negb (has_role RPending (busy s)) && negb (has_role RHeldW (busy s))))
        else None
    | LCloseWait =>
        if phase_eqb (phase s) PWaiting && negb (has_role RInflight (busy s)) && negb (has_role RHeldBg (busy s))
        then Some (set_ctl s (closing s) false PFlushing (clean s))
        else None
    | LCloseDrain =>
        if fix_drain cfg && phase_eqb (phase s) PFlushing then
          match queue s with
          | t :: q => Some (set_vol s (buffers s) q (busy s ++ [(RHeldClose, t)]))
          | [] => None
          end
        else None
    | LCloseExtract k => if phase_eqb (phase s) PFlushing then extract s k RHeldClose else None
    | LCloseEnd =>
        if phase_eqb (phase s) PFlushing && negb (has_role RHeldClose (busy s))
           && (negb (clean s) || (is_nil (buffers s) && (negb (fix_drain cfg) || is_nil (queue s))))
        then Some (set_ctl s (closing s) (workers s) PClosed (clean s))
        else None
    | LRotate =>
        if wal_on cfg then Some (set_wal s [] (wal_files s ++ [{| w_entries := wal_active s; w_age := Young |}]) (replaying s))
        else None
    | LAgeFile i =>
        match nth_error (wal_files s) i with
        | Some f => Some (set_wal s (wal_active s)
                            (firstn i (wal_files s) ++ {| w_entries := w_entries f; w_age := bump (w_age f) |} :: skipn (S i) (wal_files s))
                            (replaying s))
        | None => None
        end
    | LPurgeOld => Some (set_wal s (wal_active s) (filter (fun f => negb (is_old (w_age f))) (wal_files s)) (replaying s))
    | LPurgeAll => Some (set_wal s [] [] (replaying s))
    | LReplayStart i =>
        match nth_error (wal_files s) i with
        | Some f => if flush_failed s && negb (is_young (w_age f))
                    then Some (set_wal s (wal_active s) (remove_nth i (wal_files s)) (replaying s ++ [(w_entries f, w_entries f)]))
                    else None
        | None => None
        end
    | LReplayEntry =>
        match replaying s with
        | (e :: rest, all) :: more =>
            match append cfg s e with
            | Some s1 => Some (set_wal s1 (wal_active s1) (wal_files s1) ((rest, all) :: more))
            | None => None
            end
        | _ => None
        end
    | LReplayFileDone =>
        match replaying s with
        | ([], _) :: more => Some (set_wal s (wal_active s) (wal_files s) more)
        | _ => None
        end
    | LReplayFileKeep i a =>
        match replaying s with
        | ([], all) :: more =>
            Some (set_wal s (wal_active s) (firstn i (wal_files s) ++ {| w_entries := all; w_age := a |} :: skipn i (wal_files s)) more)
        | _ => None
        end
    | LResetFlag =>
        if flush_failed s && is_nil (replaying s)
        then Some (set_out s (stored s) (dropped s) false (crashed s))
        else None
    | LRestart =>
        (* everything volatile is lost; the old active file becomes a rotated one; startup
           recovery replays every file without the age guard: modelled by ageing Young files
           and enabling the replay labels through the failure flag *)
        let lost := map (fun kv => ({| t_key := fst kv; t_items := snd (snd kv) |}, DAbandoned)) (buffers s)
                    ++ map (fun t => (t, DAbandoned)) (queue s)
                    ++ map (fun p => (snd p, DAbandoned)) (busy s) in
        let files := map (fun f => {| w_entries := w_entries f; w_age := match w_age f with Young => Mid | a => a end |})
                         (wal_files s ++ (if is_nil (wal_active s) then [] else [{| w_entries := wal_active s; w_age := Mid |}])
                          ++ map (fun r => {| w_entries := snd r; w_age := Mid |}) (replaying s)) in
        Some (set_wal (set_ctl (set_out (set_vol s [] [] []) (stored s) (dropped s ++ lost) true (crashed s))
                               false true POpen true)
                      [] files [])
    end.

  Fixpoint run (cfg : config) (s : st) (ls : list label) : option st :=
    match ls with
    | [] => Some s
    | l :: r => match step cfg s l with Some s' => run cfg s' r | None => None end
    end.

  Definition reach (cfg : config) (s : st) : Prop := exists ls, run cfg init ls = Some s.

  (* ---- observation functions ------------------------------------------------------- *)
  Definition buffer_items (s : st) : list item := flat_map (fun kv => snd (snd kv)) (buffers s).
  Definition task_items (ts : list task) : list item := flat_map t_items ts.
  Definition busy_items (s : st) : list item := flat_map (fun p => t_items (snd p)) (busy s).
  Definition stored_items (s : st) : list item := flat_map (fun r => if s_full r then s_items r else []) (stored s).
  Definition dropped_items (s : st) : list item := flat_map (fun p => t_items (fst p)) (dropped s).
  Definition volatile_items (s : st) : list item := buffer_items s ++ task_items (queue s) ++ busy_items s.
  Definition all_items (s : st) : list item := volatile_items s ++ stored_items s ++ dropped_items s.
  Definition wal_items (s : st) : list item :=
    wal_active s ++ flat_map w_entries (wal_files s) ++ flat_map snd (replaying s).

  (* labels of the fragment without the WAL replay / restart machinery (C03) *)
  Definition no_replay (l : label) : bool :=
    match l with LReplayStart _ | LReplayEntry | LReplayFileDone | LReplayFileKeep _ _ | LRestart => false | _ => true end.
  Definition outcome_ok (l : label) : bool :=
    match l with LDone _ (OFail _) => false | _ => true end.
End Protocol.

Arguments item : clear implicits.
Arguments task : clear implicits.
Arguments srec : clear implicits.
Arguments wfile : clear implicits.
Arguments st : clear implicits.
Arguments label : clear implicits.
