(* Buffer area: proofs about the protocol of Protocol.v, part 2: control invariant, shape invariant,
   drop reasons, and the run-level theorems (conservation, complete Close). *)
From Coq Require Import List Bool Arith Lia Permutation.
From Arc Require Import Lib.AList Buffer.Protocol Buffer.ProtocolCount.
Import ListNotations.

(* ------------------------------------------------------------------ *)

Section Proofs2.
  Context {K B Sg F : Type}.
  Notation st := (st K B Sg F).
  Notation task := (task K B).

  Ltac hr := rewrite ?has_role_app; cbn [role_eqb]; rewrite ?orb_false_r; auto using has_role_remove.

  Lemma cstep_ctl cfg (s s' : st) : ctl_ok cfg s -> cstep cfg s s' -> ctl_ok cfg s'.
  Proof.
    intros [C1 [C2 [C3 [C4 [C5 C6]]]]] Hs. unfold ctl_ok.
    destruct Hs; unfold same3 in *;
      repeat match goal with H : _ /\ _ |- _ => destruct H | H : exists _, _ |- _ => destruct H end;
      repeat match goal with H : ?f s' = _ |- _ => rewrite H; clear H end.
    - tauto.
    - (* append *)
      split; [exact C1|]. split; [exact C2|]. split; [intros Hc; rewrite Hc; discriminate|].
      split; [intros Hp; destruct (C4 Hp) as [? [? ?]]; split; [assumption|]; destruct H2 as [->|[t ->]]; hr|].
      split; [intros Hp; specialize (C5 Hp); destruct H2 as [->|[t ->]]; hr|].
      intros Hp. rewrite (C2 ltac:(congruence)). discriminate.
    - (* enq *)
      split; [exact C1|]. split; [exact C2|].
      split; [intros Hc Hn; destruct (C3 Hc Hn); split; hr|].
      split; [intros Hp; destruct (C4 Hp) as [? [? ?]]; split; [assumption|split; hr]|].
      split; [intros Hp; specialize (C5 Hp); hr|].
      intros Hp Hn. destruct (C6 Hp Hn) as [Hb Hq]. split; [exact Hb|]. intros Hf.
      destruct H4 as [->|[Hc _]]; [auto|]. rewrite (C2 ltac:(congruence)) in Hc. discriminate.
    - (* extract *)
      split; [exact C1|]. split; [exact C2|].
      destruct H2 as [[-> Hcl]|[[-> [Hw Hcl]]|[-> [Hph Hcl]]]]; rewrite Hcl.
      + split; [intros Hc; rewrite Hc; discriminate|].
        split; [intros Hp; destruct (C4 Hp) as [? [? ?]]; split; [assumption|split; hr]|].
        split; [intros Hp; specialize (C5 Hp); hr|].
        intros Hp. rewrite (C2 ltac:(congruence)). discriminate.
      + split; [intros Hc Hn; destruct (C3 Hc Hn); split; hr|].
        split; [intros Hp; destruct (C4 Hp) as [? [? ?]]; congruence|].
        split; [intros Hp; specialize (C5 Hp); hr|].
        intros Hp. destruct (C4 (or_intror Hp)) as [? _]. congruence.
      + split; [intros Hc Hn; destruct (C3 Hc Hn); split; hr|].
        split; [intros Hp; destruct (C4 Hp) as [? [? ?]]; split; [assumption|split; hr]|].
        split; [intros Hp; congruence|].
        intros Hp; congruence.
    - (* deq *)
      split; [exact C1|]. split; [exact C2|].
      split; [intros Hc Hn; destruct (C3 Hc Hn); split; hr|].
      split; [intros Hp; destruct (C4 Hp) as [? [? ?]]; congruence|].
      split; [intros Hp; specialize (C5 Hp); hr|].
      intros Hp. destruct (C4 (or_intror Hp)) as [? _]. congruence.
    - (* done *)
      split; [exact C1|]. split; [exact C2|].
      split; [intros Hc Hn; destruct (C3 Hc Hn); split; hr|].
      split; [intros Hp; destruct (C4 Hp) as [? [? ?]]; split; [assumption|split; hr]|].
      split; [intros Hp; specialize (C5 Hp); hr|].
      exact C6.
    - (* begin *)
      split; [discriminate|]. split; [reflexivity|].
      split; [intros _ Hn; apply andb_true_iff in Hn; destruct Hn as [Hn1 Hn2]; apply negb_true_iff in Hn1; apply negb_true_iff in Hn2; tauto|].
      split; [intros [?|?]; discriminate|].
      split; [intros _; apply C5; congruence|].
      discriminate.
    - (* wait *)
      split; [discriminate|]. split; [intros _; apply C2; congruence|].
      split; [exact C3|].
      split; [intros _; tauto|].
      split; [intros Hp; congruence|].
      discriminate.
    - (* drain *)
      split; [exact C1|]. split; [exact C2|].
      split; [intros Hc Hn; destruct (C3 Hc Hn); split; hr|].
      split; [intros Hp; destruct (C4 Hp) as [? [? ?]]; split; [assumption|split; hr]|].
      split; [intros Hp; congruence|].
      intros Hp; congruence.
    - (* end *)
      split; [discriminate|]. split; [intros _; apply C2; congruence|].
      split; [exact C3|].
      split; [intros _; apply C4; left; assumption|].
      split; [intros _; assumption|].
      intros _ Hn. auto.
    - (* restart *)
      split; [reflexivity|]. split; [congruence|]. split; [discriminate|]. split; [intros [?|?]; discriminate|].
      split; [reflexivity|]. discriminate.
  Qed.
End Proofs2.

(* ------------------------------------------------------------------ *)

Section Proofs3.
  Context {K B Sg F : Type}.
  Variable keqb : K -> K -> bool.
  Variable seqb : Sg -> Sg -> bool.
  Variable sigf : B -> Sg.
  Variable nrows : B -> nat.
  Variable flushf : list B -> flush_res F.
  Hypothesis keqb_spec : forall a b, reflect (a = b) (keqb a b).
  Hypothesis seqb_spec : forall a b, reflect (a = b) (seqb a b).

  Notation item := (item K B).
  Notation task := (task K B).
  Notation srec := (srec K B F).
  Notation st := (st K B Sg F).
  Notation step := (step keqb seqb sigf nrows flushf).
  Notation append := (append keqb seqb sigf nrows).
  Notation extract := (extract keqb).
  Notation complete := (complete flushf).

  Definition items_ok (k : K) (items : list item) : Prop :=
    items <> [] /\ (forall it, In it items -> it_key it = k) /\
    (forall i1 i2, In i1 items -> In i2 items -> sigf (it_b i1) = sigf (it_b i2)).
  Definition task_ok (t : task) : Prop := items_ok (t_key t) (t_items t).
  Definition buf_ok (kv : K * (Sg * list item)) : Prop :=
    snd (snd kv) <> [] /\ forall it, In it (snd (snd kv)) -> it_key it = fst kv /\ sigf (it_b it) = fst (snd kv).
  Definition srec_ok (r : srec) : Prop :=
    items_ok (s_key r) (s_items r) /\
    exists files, flushf (map it_b (s_items r)) = FlOk files /\
      (s_full r = true -> s_files r = files) /\
      (s_full r = false -> s_files r <> [] /\ length (s_files r) < length files /\ exists mask, s_files r = select mask files).
  Definition drop_ok (p : task * drop_reason) : Prop :=
    task_ok (fst p) /\
    (snd p = DMergeErr -> flushf (map it_b (t_items (fst p))) = FlErr) /\
    (snd p = DPanic -> flushf (map it_b (t_items (fst p))) = FlPanic) /\
    (snd p = DFlushFail -> exists files, flushf (map it_b (t_items (fst p))) = FlOk files).

  Definition shape (s : st) : Prop :=
    Forall buf_ok (buffers s) /\ Forall task_ok (queue s) /\ Forall (fun p => task_ok (snd p)) (busy s) /\
    Forall srec_ok (stored s) /\ Forall drop_ok (dropped s).

  Lemma forall_remove {V} (P : K * V -> Prop) k l : Forall P l -> Forall P (remove keqb k l).
  Proof. induction 1 as [|[k' v] l Hp Hl IH]; cbn; [constructor|]. destruct (keqb k k'); [exact IH|constructor; assumption]. Qed.

  Lemma lookup_in {V} k (l : list (K * V)) v : lookup keqb k l = Some v -> In (k, v) l.
  Proof.
    induction l as [|[k' v'] l IH]; cbn; [discriminate|]. destruct (keqb_spec k k') as [->|].
    - intros E; inversion E; left; reflexivity.
    - intros E; right; apply IH; exact E.
  Qed.

  Lemma forall_remove_nth {A} (P : A -> Prop) i l : Forall P l -> Forall P (remove_nth i l).
  Proof. intros H. revert i. induction H; intros [|i]; cbn; try constructor; auto. Qed.

  Lemma forall_snoc {A} (P : A -> Prop) l x : Forall P l -> P x -> Forall P (l ++ [x]).
  Proof. intros. apply Forall_app. split; [assumption|constructor; [assumption|constructor]]. Qed.

  Lemma buf_to_task k sg items : buf_ok (k, (sg, items)) -> items_ok k items.
  Proof.
    intros [Hne Hall]. cbn in *. split; [exact Hne|]. split; [intros it Hi; apply Hall; exact Hi|].
    intros i1 i2 H1 H2. destruct (Hall _ H1) as [_ ->]. destruct (Hall _ H2) as [_ ->]. reflexivity.
  Qed.

  Lemma append_shape cfg (s : st) it (s1 : st) : shape s -> append cfg s it = Some s1 ->
    shape s1.
  Proof.
    intros [Hb [Hq [Hz [Hs Hd]]]] H. unfold Protocol.append in H.
    assert (Hcur : exists sg items, (items = [] \/ buf_ok (it_key it, (sg, items))) /\ sigf (it_b it) = sg /\
              exists s2, Some s1 = Some (if closing s then set_ctl s2 (closing s2) (workers s2) (phase s2) false else s2) /\
              s2 = (if max_size cfg <=? rows_of_items nrows (items ++ [it])
                    then set_vol s (remove keqb (it_key it) (buffers s)) (queue s) (busy s ++ [(RPending, {| t_key := it_key it; t_items := items ++ [it] |})])
                    else set_vol s (insert keqb (it_key it) (sg, items ++ [it]) (buffers s)) (queue s) (busy s))).
    { destruct (lookup keqb (it_key it) (buffers s)) as [[sg items]|] eqn:El.
      - destruct (seqb_spec sg (sigf (it_b it))) as [Es|]; [|discriminate]. exists sg, items. split.
        + right. rewrite Forall_forall in Hb. apply Hb. apply lookup_in. exact El.
        + split; [congruence|]. eexists. split; [symmetry; exact H|reflexivity].
      - exists (sigf (it_b it)), []. split; [left; reflexivity|]. split; [reflexivity|]. eexists. split; [symmetry; exact H|reflexivity]. }
    destruct Hcur as [sg [items [Hitems [Hsg [s2 [E1 E2]]]]]]. inversion E1; subst s1; clear E1 H.
    assert (Hnew : buf_ok (it_key it, (sg, items ++ [it]))).
    { split; cbn; [destruct items; discriminate|]. intros x Hx. apply in_app_iff in Hx. destruct Hx as [Hx|[<-|[]]]; [|tauto].
      destruct Hitems as [->|[_ Ho]]; [destruct Hx|]. apply Ho. exact Hx. }
    assert (Hs2 : shape s2).
    { subst s2. destruct (max_size cfg <=? _); unfold shape; cbn.
      - split; [apply forall_remove; exact Hb|]. split; [exact Hq|]. split; [|tauto].
        apply forall_snoc; [exact Hz|]. cbn. apply (buf_to_task _ sg). exact Hnew.
      - split; [|tauto]. unfold insert. constructor; [exact Hnew|apply forall_remove; exact Hb]. }
    destruct (closing s); [|exact Hs2]. exact Hs2.
  Qed.

  Lemma extract_shape (s : st) k r (s1 : st) : shape s -> extract s k r = Some s1 -> shape s1.
  Proof.
    intros [Hb [Hq [Hz [Hs Hd]]]] H. unfold Protocol.extract in H.
    destruct (lookup keqb k (buffers s)) as [[sg items]|] eqn:El; [|discriminate]. inversion H; subst; clear H. unfold shape; cbn.
    split; [apply forall_remove; exact Hb|]. split; [exact Hq|]. split; [|tauto].
    apply forall_snoc; [exact Hz|]. cbn. apply (buf_to_task _ sg). rewrite Forall_forall in Hb. apply Hb. apply lookup_in. exact El.
  Qed.

  Lemma select_length {A} mask (l : list A) : length (select mask l) <= length l.
  Proof. revert l. induction mask as [|[] m IH]; intros [|x l]; cbn; try lia; specialize (IH l); lia. Qed.

  Lemma complete_shape (s : st) t o (s1 : st) : shape s -> task_ok t -> complete s t o = Some s1 -> shape s1.
  Proof.
    intros [Hb [Hq [Hz [Hs Hd]]]] Ht H. unfold Protocol.complete in H.
    destruct (flushf (map it_b (t_items t))) as [files| |] eqn:Ef.
    - destruct o as [|mask].
      + inversion H; subst; clear H. unfold shape; cbn. repeat (split; [assumption|]). split; [|assumption].
        apply forall_snoc; [exact Hs|]. split; [exact Ht|]. cbn. exists files. split; [exact Ef|]. split; [reflexivity|discriminate].
      + destruct (length (select mask files) <? length files) eqn:El; [|discriminate]. apply Nat.ltb_lt in El.
        inversion H; subst; clear H. unfold shape; cbn. repeat (split; [assumption|]). split.
        * destruct (select mask files) eqn:Esel; cbn; [exact Hs|]. apply forall_snoc; [exact Hs|]. split; [exact Ht|]. cbn.
          exists files. split; [exact Ef|]. split; [discriminate|]. intros _. split; [discriminate|]. split; [exact El|].
          exists mask. symmetry. exact Esel.
        * apply forall_snoc; [exact Hd|]. split; [exact Ht|]. cbn. split; [discriminate|]. split; [discriminate|]. intros _. exists files. exact Ef.
    - inversion H; subst; clear H. unfold shape; cbn. repeat (split; [assumption|]).
      apply forall_snoc; [exact Hd|]. split; [exact Ht|]. cbn. split; [intros _; exact Ef|]. split; discriminate.
    - inversion H; subst; clear H. unfold shape; cbn. repeat (split; [assumption|]).
      apply forall_snoc; [exact Hd|]. split; [exact Ht|]. cbn. split; [discriminate|]. split; [intros _; exact Ef|discriminate].
  Qed.

  Lemma unclean_shape (s : st) : shape s -> shape (unclean s).
  Proof. unfold unclean. destruct (closing s); intros H; exact H. Qed.

  Lemma nth_error_forall {A} (P : A -> Prop) l i x : Forall P l -> nth_error l i = Some x -> P x.
  Proof. intros H E. rewrite Forall_forall in H. apply H. eapply nth_error_In; exact E. Qed.

  Lemma step_shape cfg (s : st) l (s' : st) : shape s -> step cfg s l = Some s' -> shape s'.
  Proof.
    intros Hsh H. unfold Protocol.step in H. destruct (crashed s); [discriminate|].
    pose proof Hsh as [Hb [Hq [Hz [Hs Hd]]]].
    destruct l; break_match H; inv_some H.
    - (* LWrite *) pose proof (append_shape _ _ _ _ Hsh E) as H1. destruct (wal_on cfg && wal_ok); exact H1.
    - (* LEnqueue *) pose proof (nth_error_forall _ _ _ _ Hz E) as Ht. cbn in Ht.
      unfold shape; cbn. split; [assumption|]. split; [assumption|]. split; [apply forall_remove_nth; assumption|]. split; [assumption|].
      apply forall_snoc; [assumption|]. split; [exact Ht|]. cbn. repeat split; discriminate.
    - pose proof (nth_error_forall _ _ _ _ Hz E) as Ht. cbn in Ht.
      unfold shape; cbn. split; [assumption|]. split; [apply forall_snoc; assumption|]. split; [apply forall_remove_nth; assumption|]. tauto.
    - pose proof (nth_error_forall _ _ _ _ Hz E) as Ht. cbn in Ht.
      unfold shape; cbn. split; [assumption|]. split; [assumption|]. split; [apply forall_remove_nth; assumption|]. split; [assumption|].
      apply forall_snoc; [assumption|]. split; [exact Ht|]. cbn. repeat split; discriminate.
    - apply unclean_shape. eapply extract_shape; eassumption.
    - apply unclean_shape. eapply extract_shape; eassumption.
    - eapply extract_shape; eassumption.
    - (* LDequeue *) inversion Hq; subst. unfold shape; cbn. split; [assumption|]. split; [assumption|]. split; [apply forall_snoc; assumption|]. tauto.
    - (* LDone *) pose proof (nth_error_forall _ _ _ _ Hz E) as Ht. cbn in Ht. eapply complete_shape; [|exact Ht|exact H].
      unfold shape; cbn. split; [assumption|]. split; [assumption|]. split; [apply forall_remove_nth; assumption|]. tauto.
    - pose proof (nth_error_forall _ _ _ _ Hz E) as Ht. cbn in Ht. eapply complete_shape; [|exact Ht|exact H].
      unfold shape; cbn. split; [assumption|]. split; [assumption|]. split; [apply forall_remove_nth; assumption|]. tauto.
    - pose proof (nth_error_forall _ _ _ _ Hz E) as Ht. cbn in Ht. eapply complete_shape; [|exact Ht|exact H].
      unfold shape; cbn. split; [assumption|]. split; [assumption|]. split; [apply forall_remove_nth; assumption|]. tauto.
    - pose proof (nth_error_forall _ _ _ _ Hz E) as Ht. cbn in Ht. eapply complete_shape; [|exact Ht|exact H].
      unfold shape; cbn. split; [assumption|]. split; [assumption|]. split; [apply forall_remove_nth; assumption|]. tauto.
    - exact Hsh.
    - exact Hsh.
    - (* LCloseDrain *) inversion Hq; subst. unfold shape; cbn. split; [assumption|]. split; [assumption|]. split; [apply forall_snoc; assumption|]. tauto.
    - eapply extract_shape; eassumption.
    - exact Hsh.
    - exact Hsh.
    - exact Hsh.
    - exact Hsh.
    - exact Hsh.
    - exact Hsh.
    - (* LReplayEntry *) exact (append_shape _ _ _ _ Hsh E2).
    - exact Hsh.
    - exact Hsh.
    - exact Hsh.
    - (* LRestart *) unfold shape; cbn. repeat (split; [try constructor; try assumption|]).
      apply Forall_app. split; [exact Hd|]. apply Forall_app. split; [|apply Forall_app; split].
      + apply Forall_forall. intros p Hp. apply in_map_iff in Hp. destruct Hp as [[k [sg items]] [<- Hin]].
        split; [|cbn; repeat split; discriminate]. cbn. rewrite Forall_forall in Hb. apply (buf_to_task _ sg). apply Hb. exact Hin.
      + apply Forall_forall. intros p Hp. apply in_map_iff in Hp. destruct Hp as [t [<- Hin]].
        split; [|cbn; repeat split; discriminate]. cbn. rewrite Forall_forall in Hq. apply Hq. exact Hin.
      + apply Forall_forall. intros p Hp. apply in_map_iff in Hp. destruct Hp as [[r t] [<- Hin]].
        split; [|cbn; repeat split; discriminate]. cbn. rewrite Forall_forall in Hz. apply (Hz _ Hin).
  Qed.
End Proofs3.

(* ------------------------------------------------------------------ *)

Section Proofs4.
  Context {K B Sg F : Type}.
  Variable keqb : K -> K -> bool.
  Variable seqb : Sg -> Sg -> bool.
  Variable sigf : B -> Sg.
  Variable nrows : B -> nat.
  Variable flushf : list B -> flush_res F.
  Hypothesis keqb_spec : forall a b, reflect (a = b) (keqb a b).
  Hypothesis seqb_spec : forall a b, reflect (a = b) (seqb a b).
  Hypothesis K_dec : forall a b : K, {a = b} + {a <> b}.
  Hypothesis B_dec : forall a b : B, {a = b} + {a <> b}.

  Notation item := (item K B).
  Notation task := (task K B).
  Notation st := (st K B Sg F).
  Notation label := (label K B).
  Notation step := (step keqb seqb sigf nrows flushf).
  Notation run := (run keqb seqb sigf nrows flushf).
  Notation append := (append keqb seqb sigf nrows).
  Notation extract := (extract keqb).
  Notation complete := (complete flushf).

  Definition drop_inv (s : st) : Prop :=
    forall t r, In (t, r) (dropped s) -> r <> DFlushFail /\ r <> DAbandoned /\ (r = DClosing -> clean s = false /\ closing s = true).

  Lemma append_dropped cfg (s : st) it (s1 : st) : append cfg s it = Some s1 -> dropped s1 = dropped s.
  Proof.
    intros H. unfold Protocol.append in H.
    destruct (lookup keqb (it_key it) (buffers s)) as [[sg items]|]; [destruct (seqb sg (sigf (it_b it))); [|discriminate]|];
      inversion H; subst; destruct (max_size cfg <=? _); destruct (closing s); reflexivity.
  Qed.
  Lemma extract_dropped (s : st) k r (s1 : st) : extract s k r = Some s1 -> dropped s1 = dropped s.
  Proof. intros H. unfold Protocol.extract in H. destruct (lookup keqb k (buffers s)) as [[? ?]|]; [|discriminate]. inversion H; reflexivity. Qed.
  Lemma complete_dropped (s : st) t (s1 : st) : complete s t OOk = Some s1 ->
    dropped s1 = dropped s \/ exists r, dropped s1 = dropped s ++ [(t, r)] /\ (r = DMergeErr \/ r = DPanic).
  Proof.
    intros H. unfold Protocol.complete in H. destruct (flushf _); inversion H; subst; cbn.
    - left; reflexivity.
    - right; eexists; split; [reflexivity|tauto].
    - right; eexists; split; [reflexivity|tauto].
  Qed.

  Lemma drop_inv_weaken (s s' : st) : drop_inv s -> dropped s' = dropped s ->
    (clean s' = clean s \/ clean s' = false) -> closing s' = closing s -> drop_inv s'.
  Proof.
    intros Hd Ed Ec Ecl t r Hin. rewrite Ed in Hin. destruct (Hd t r Hin) as [H1 [H2 H3]]. split; [exact H1|]. split; [exact H2|].
    intros Hr. destruct (H3 Hr) as [H4 H5]. rewrite Ecl. split; [|exact H5]. destruct Ec as [->| ->]; [exact H4|reflexivity].
  Qed.

  Lemma drop_inv_add (s s' : st) t r : drop_inv s -> dropped s' = dropped s ++ [(t, r)] ->
    (clean s' = clean s \/ clean s' = false) -> closing s' = closing s ->
    r <> DFlushFail -> r <> DAbandoned -> (r = DClosing -> clean s' = false /\ closing s' = true) -> drop_inv s'.
  Proof.
    intros Hd Ed Ec Ecl R1 R2 R3 t' r' Hin. rewrite Ed in Hin. apply in_app_iff in Hin. destruct Hin as [Hin|[E|[]]].
    - destruct (Hd t' r' Hin) as [H1 [H2 H3]]. split; [exact H1|]. split; [exact H2|].
      intros Hr. destruct (H3 Hr) as [H4 H5]. rewrite Ecl. split; [|exact H5]. destruct Ec as [->| ->]; [exact H4|reflexivity].
    - inversion E; subst. tauto.
  Qed.

  Lemma step_drop cfg (s : st) l (s' : st) : ctl_ok cfg s -> drop_inv s -> no_replay l = true -> outcome_ok l = true ->
    step cfg s l = Some s' -> drop_inv s'.
  Proof.
    intros Hc Hd Hl Ho H. unfold Protocol.step in H. destruct (crashed s); [discriminate|].
    destruct Hc as [C1 [C2 [C3 [C4 [C5 C6]]]]].
    destruct l; try discriminate Hl; break_match H; inv_some H.
    - (* LWrite *) destruct (append_ctl _ _ _ _ _ _ _ _ E) as [A1 [A2 [A3 [A4 [A5 A6]]]]]. pose proof (append_dropped _ _ _ _ E) as A7.
      apply (drop_inv_weaken s); [exact Hd|destruct (wal_on cfg && wal_ok); cbn; exact A7| |destruct (wal_on cfg && wal_ok); cbn; exact A1].
      destruct (wal_on cfg && wal_ok); cbn; rewrite A5; destruct (closing s); tauto.
    - (* LEnqueue closing *) apply (drop_inv_add s _ t DClosing); cbn; try tauto; try discriminate.
      intros _. split; [|exact E2]. destruct (clean s) eqn:En; [|reflexivity].
      destruct (C3 eq_refl eq_refl) as [Hp _]. rewrite (nth_error_has_role _ _ _ _ E) in Hp. discriminate.
    - apply (drop_inv_weaken s); cbn; tauto.
    - apply (drop_inv_add s _ t DQueueFull); cbn; try tauto; try discriminate.
    - (* LSchemaFlush *) destruct (extract_ctl' _ _ _ _ _ E) as [[A1 [A2 A3]] [A4 [A5 [t A6]]]]. destruct (unclean_ctl s0) as [U1 [U2 [U3 [U4 [U5 [U6 U7]]]]]].
      apply (drop_inv_weaken s); [exact Hd| | |congruence].
      + unfold unclean. destruct (closing s0); cbn; eapply extract_dropped; eassumption.
      + rewrite U7, A1, A5. destruct (closing s); tauto.
    - destruct (extract_ctl' _ _ _ _ _ E) as [[A1 [A2 A3]] [A4 [A5 [t A6]]]]. destruct (unclean_ctl s0) as [U1 [U2 [U3 [U4 [U5 [U6 U7]]]]]].
      apply (drop_inv_weaken s); [exact Hd| | |congruence].
      + unfold unclean. destruct (closing s0); cbn; eapply extract_dropped; eassumption.
      + rewrite U7, A1, A5. destruct (closing s); tauto.
    - destruct (extract_ctl' _ _ _ _ _ H) as [[A1 [A2 A3]] [A4 [A5 [t A6]]]].
      apply (drop_inv_weaken s); [exact Hd|eapply extract_dropped; eassumption|tauto|exact A1].
    - apply (drop_inv_weaken s); cbn; tauto.
    - (* LDone *) destruct o; [|discriminate Ho]. destruct (complete_ctl _ _ _ _ _ H) as [A1 [A2 [A3 [A4 [A5 [A6 A7]]]]]].
      destruct (complete_dropped _ _ _ H) as [Ed|[r0 [Ed Hr]]].
      + apply (drop_inv_weaken s); cbn in *; tauto.
      + apply (drop_inv_add s _ t r0); cbn in *; try tauto; destruct Hr as [-> | ->]; discriminate.
    - destruct o; [|discriminate Ho]. destruct (complete_ctl _ _ _ _ _ H) as [A1 [A2 [A3 [A4 [A5 [A6 A7]]]]]].
      destruct (complete_dropped _ _ _ H) as [Ed|[r0 [Ed Hr]]].
      + apply (drop_inv_weaken s); cbn in *; tauto.
      + apply (drop_inv_add s _ t r0); cbn in *; try tauto; destruct Hr as [-> | ->]; discriminate.
    - destruct o; [|discriminate Ho]. destruct (complete_ctl _ _ _ _ _ H) as [A1 [A2 [A3 [A4 [A5 [A6 A7]]]]]].
      destruct (complete_dropped _ _ _ H) as [Ed|[r0 [Ed Hr]]].
      + apply (drop_inv_weaken s); cbn in *; tauto.
      + apply (drop_inv_add s _ t r0); cbn in *; try tauto; destruct Hr as [-> | ->]; discriminate.
    - destruct o; [|discriminate Ho]. destruct (complete_ctl _ _ _ _ _ H) as [A1 [A2 [A3 [A4 [A5 [A6 A7]]]]]].
      destruct (complete_dropped _ _ _ H) as [Ed|[r0 [Ed Hr]]].
      + apply (drop_inv_weaken s); cbn in *; tauto.
      + apply (drop_inv_add s _ t r0); cbn in *; try tauto; destruct Hr as [-> | ->]; discriminate.
    - (* LCloseBegin *) apply phase_eqb_eq in E. intros t r Hin. cbn in Hin. destruct (Hd t r Hin) as [H1 [H2 H3]].
      split; [exact H1|]. split; [exact H2|]. intros Hr. destruct (H3 Hr) as [_ H5]. rewrite (C1 E) in H5. discriminate.
    - apply (drop_inv_weaken s); cbn; tauto.
    - apply (drop_inv_weaken s); cbn; tauto.
    - destruct (extract_ctl' _ _ _ _ _ H) as [[A1 [A2 A3]] [A4 [A5 [t A6]]]].
      apply (drop_inv_weaken s); [exact Hd|eapply extract_dropped; eassumption|tauto|exact A1].
    - apply (drop_inv_weaken s); cbn; tauto.
    - apply (drop_inv_weaken s); cbn; tauto.
    - apply (drop_inv_weaken s); cbn; tauto.
    - apply (drop_inv_weaken s); cbn; tauto.
    - apply (drop_inv_weaken s); cbn; tauto.
    - apply (drop_inv_weaken s); cbn; tauto.
  Qed.
End Proofs4.

(* ------------------------------------------------------------------ *)

Section Proofs5.
  Context {K B Sg F : Type}.
  Variable keqb : K -> K -> bool.
  Variable seqb : Sg -> Sg -> bool.
  Variable sigf : B -> Sg.
  Variable nrows : B -> nat.
  Variable flushf : list B -> flush_res F.
  Hypothesis keqb_spec : forall a b, reflect (a = b) (keqb a b).
  Hypothesis seqb_spec : forall a b, reflect (a = b) (seqb a b).
  Hypothesis K_dec : forall a b : K, {a = b} + {a <> b}.
  Hypothesis B_dec : forall a b : B, {a = b} + {a <> b}.

  Notation item := (item K B).
  Notation task := (task K B).
  Notation st := (st K B Sg F).
  Notation label := (label K B).
  Notation step := (step keqb seqb sigf nrows flushf).
  Notation run := (run keqb seqb sigf nrows flushf).
  Notation init := (@init K B Sg F).

  Lemma run_invariant cfg (P : st -> Prop) (Q : label -> bool) :
    (forall s l s', P s -> Q l = true -> step cfg s l = Some s' -> P s') ->
    forall ls s s', P s -> forallb Q ls = true -> run cfg s ls = Some s' -> P s'.
  Proof.
    intros Hstep. induction ls as [|l ls IH]; intros s s' Hp Hq Hr; cbn in *.
    - inversion Hr; subst; exact Hp.
    - apply andb_true_iff in Hq. destruct Hq as [Hq1 Hq2].
      destruct (step cfg s l) as [s1|] eqn:Es; [|discriminate].
      eapply IH; [eapply Hstep; eassumption|exact Hq2|exact Hr].
  Qed.

  Lemma forallb_true {A} (l : list A) : forallb (fun _ => true) l = true.
  Proof. induction l; cbn; auto. Qed.

  Lemma ctl_init cfg : ctl_ok cfg init.
  Proof. unfold ctl_ok; cbn. repeat split; try discriminate; try reflexivity; intros; try congruence. destruct H; discriminate. Qed.

  Theorem reach_ctl cfg ls s : run cfg init ls = Some s -> ctl_ok cfg s.
  Proof.
    intros H. eapply (run_invariant cfg (ctl_ok cfg) (fun _ => true)); [|apply ctl_init|apply forallb_true|exact H].
    intros s0 l s1 Hc _ Hs. eapply cstep_ctl; [exact Hc|]. eapply step_cstep; eassumption.
  Qed.

  Theorem reach_shape cfg ls s : run cfg init ls = Some s -> shape sigf flushf s.
  Proof.
    intros H. eapply (run_invariant cfg (shape sigf flushf) (fun _ => true)); [|..|exact H].
    - intros s0 l s1 Hc _ Hs. eapply step_shape; eassumption.
    - unfold shape; cbn. repeat split; constructor.
    - apply forallb_true.
  Qed.

  Theorem reach_nodup cfg ls s : run cfg init ls = Some s -> NoDup (keys (buffers s)).
  Proof.
    intros H. eapply (run_invariant cfg (fun s => NoDup (keys (buffers s))) (fun _ => true)); [|..|exact H].
    - intros s0 l s1 Hc _ Hs. eapply step_nodup; eassumption.
    - constructor.
    - apply forallb_true.
  Qed.

  (* conservation over all interleavings of the fragment without WAL replay *)
  Theorem conservation cfg ls s : run cfg init ls = Some s -> forallb (@no_replay K B) ls = true ->
    Permutation (all_items s) (accepted s).
  Proof.
    intros H Hq.
    assert (Hinv : NoDup (keys (buffers s)) /\ forall x, cnt K_dec B_dec s x = count_occ (item_dec K_dec B_dec) (accepted s) x).
    { eapply (run_invariant cfg (fun s => NoDup (keys (buffers s)) /\ forall x, cnt K_dec B_dec s x = count_occ (item_dec K_dec B_dec) (accepted s) x) (@no_replay K B));
        [| |exact Hq|exact H].
      - intros s0 l s1 [Hn Hc] Hl Hs. split; [eapply step_nodup; eassumption|].
        eapply step_count; eassumption.
      - split; [constructor|]. intros x. reflexivity. }
    destruct Hinv as [_ Hc]. apply (Permutation_count_occ (item_dec K_dec B_dec)). exact Hc.
  Qed.

  Lemma no_roles_nil (l : list (role * task)) : (forall r, has_role r l = false) -> l = [].
  Proof.
    destruct l as [|[r t] l]; [reflexivity|]. intros H. specialize (H r). unfold has_role in H. cbn in H.
    destruct r; cbn in H; discriminate.
  Qed.

  (* a Close that ran to completion without concurrent writer activity leaves nothing behind
     (corrected Close: fix_drain = true) *)
  Theorem close_complete cfg ls s : run cfg init ls = Some s -> forallb (@no_replay K B) ls = true ->
    fix_drain cfg = true -> phase s = PClosed -> clean s = true ->
    buffers s = [] /\ queue s = [] /\ busy s = [] /\ Permutation (accepted s) (stored_items s ++ dropped_items s).
  Proof.
    intros H Hq Hf Hp Hc. destruct (reach_ctl _ _ _ H) as [C1 [C2 [C3 [C4 [C5 C6]]]]].
    destruct (C6 Hp Hc) as [Hb Hqe]. specialize (Hqe Hf).
    assert (Hcl : closing s = true) by (apply C2; congruence).
    destruct (C3 Hcl Hc) as [R1 R2]. destruct (C4 (or_intror Hp)) as [_ [R3 R4]]. assert (R5 := C5 ltac:(congruence)).
    assert (Hz : busy s = []) by (apply no_roles_nil; intros []; assumption).
    split; [exact Hb|]. split; [exact Hqe|]. split; [exact Hz|].
    pose proof (conservation _ _ _ H Hq) as P. unfold all_items, volatile_items, buffer_items, busy_items, task_items in P.
    rewrite Hb, Hqe, Hz in P. cbn in P. symmetry. exact P.
  Qed.

  Theorem reach_drop cfg ls s : run cfg init ls = Some s -> forallb (fun l : label => no_replay l && outcome_ok l) ls = true ->
    drop_inv s.
  Proof.
    intros H Hq.
    assert (Hinv : ctl_ok cfg s /\ drop_inv s).
    { eapply (run_invariant cfg (fun s => ctl_ok cfg s /\ drop_inv s) (fun l : label => no_replay l && outcome_ok l)); [| |exact Hq|exact H].
      - intros s0 l s1 [Hc Hd] Hl Hs. apply andb_true_iff in Hl. destruct Hl as [Hl1 Hl2].
        split; [eapply cstep_ctl; [exact Hc|eapply step_cstep; eassumption]|]. eapply step_drop; eassumption.
      - split; [apply ctl_init|]. intros t r []. }
    tauto.
  Qed.
  (* without injected storage failures every stored record is a complete flush *)
  Definition all_full (s : st) : Prop := forall r, In r (stored s) -> s_full r = true.

  Lemma append_stored cfg (s : st) it (s1 : st) : Protocol.append keqb seqb sigf nrows cfg s it = Some s1 -> stored s1 = stored s.
  Proof.
    intros H. unfold Protocol.append in H.
    destruct (lookup keqb (it_key it) (buffers s)) as [[sg items]|]; [destruct (seqb sg (sigf (it_b it))); [|discriminate]|];
      inversion H; subst; destruct (max_size cfg <=? _); destruct (closing s); reflexivity.
  Qed.
  Lemma extract_stored (s : st) k r (s1 : st) : Protocol.extract keqb s k r = Some s1 -> stored s1 = stored s.
  Proof. intros H. unfold Protocol.extract in H. destruct (lookup keqb k (buffers s)) as [[? ?]|]; [|discriminate]. inversion H; reflexivity. Qed.
  Lemma complete_full (s : st) t (s1 : st) : all_full s -> Protocol.complete flushf s t OOk = Some s1 -> all_full s1.
  Proof.
    intros Ha H. unfold Protocol.complete in H. destruct (flushf _); inversion H; subst; cbn; try exact Ha.
    intros r Hin. cbn in Hin. apply in_app_iff in Hin. destruct Hin as [Hin|[<-|[]]]; [apply Ha; exact Hin|reflexivity].
  Qed.

  Lemma step_full cfg (s : st) l (s' : st) : all_full s -> outcome_ok l = true -> step cfg s l = Some s' -> all_full s'.
  Proof.
    intros Ha Ho H. unfold Protocol.step in H. destruct (crashed s); [discriminate|].
    destruct l; break_match H; inv_some H;
      try (destruct o; [|discriminate Ho]; eapply complete_full; [|exact H]; exact Ha);
      try (unfold all_full; try destruct (wal_on cfg && _); cbn;
           repeat match goal with
           | E : Protocol.append _ _ _ _ _ _ _ = Some _ |- _ => rewrite (append_stored _ _ _ _ E); clear E
           | E : Protocol.extract _ _ _ _ = Some _ |- _ => rewrite (extract_stored _ _ _ _ E); clear E
           end; exact Ha).
    - unfold all_full, unclean. destruct (closing s0); cbn; rewrite (extract_stored _ _ _ _ E); exact Ha.
    - unfold all_full, unclean. destruct (closing s0); cbn; rewrite (extract_stored _ _ _ _ E); exact Ha.
  Qed.

  Theorem reach_full cfg ls s : run cfg init ls = Some s -> forallb (@outcome_ok K B) ls = true -> all_full s.
  Proof.
    intros H Hq. eapply (run_invariant cfg all_full (@outcome_ok K B)); [| |exact Hq|exact H].
    - intros s0 l s1 Ha Hl Hs. eapply step_full; eassumption.
    - intros r [].
  Qed.
End Proofs5.
