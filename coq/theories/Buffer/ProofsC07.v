(* Buffer area, C07: instance-level statements' proofs - refutation witnesses (concrete runs of the
   faithful model that lose or duplicate acknowledged batches) and the non-vacuity run. *)
From Coq Require Import List ZArith NArith Bool Lia Permutation String.
From Arc Require Import Lib.AList Buffer.Model Buffer.Proofs Buffer.ProtocolDur Buffer.ModelC07 Buffer.Shutdown.
Import ListNotations.
Open Scope Z_scope.

Definition T0 : Z := 1700000000000000.
Definition cfg7 (wal : bool) (ms qc : nat) : config := {| max_size := ms; queue_cap := qc; wal_on := wal; fix_drain := true |}.
(* the Close before 2ed39c6 *)
Definition cfg7_old (wal : bool) (ms qc : nat) : config := {| max_size := ms; queue_cap := qc; wal_on := wal; fix_drain := false |}.
Definition two_hours : batch :=
  {| b_cols := [(time_name, {| c_ty := TInt; c_vals := [VZ T0; VZ (T0 + Hreal)] |}); (vname, {| c_ty := TInt; c_vals := [VZ 1; VZ 2] |})]; b_valid := [] |}.

Notation st7 := (st N batch (list N) (Z * batch)%type) (only parsing).
Definition all_lost (s : st7) : Prop :=
  accepted s <> [] /\ stored_items s = [] /\ volatile_items s = [] /\ wal_items s = [].

(* (i) OLD shutdown order (before f1d141d): hook wal-purge (PurgeAll) runs before component
   arrow-buffer (Close); the final flush fails -> the acknowledged batch is nowhere *)
Definition run_shutdown_purge : list (label N batch) :=
  [LWrite 1%N (row1 T0 1) true; LRotate; LPurgeAll; LCloseBegin; LCloseWait; LCloseExtract 1%N; LDone 0 (OFail []); LCloseEnd].
Lemma shutdown_purge_refuted :
  exists s, brun Hreal thr_real (cfg7 true 100 8) binit run_shutdown_purge = Some s /\ phase s = PClosed /\ all_lost s.
Proof. eexists. split; [vm_compute; reflexivity|]. vm_compute. repeat split; discriminate. Qed.

(* (i') OLD variants of both fixes together: the purge hook first and the Close that abandons a
   queued task (before 2ed39c6), no storage failure at all; after the restart nothing brings it back *)
Definition run_shutdown_queue : list (label N batch) :=
  [LWrite 1%N (row1 T0 1) true; LRotate; LEnqueue 0; LDequeue;
   LWrite 1%N (row1 (T0 + 1) 2) true; LRotate; LEnqueue 1;
   LPurgeAll; LCloseBegin; LDone 0 OOk; LCloseWait; LCloseEnd; LRestart].
Lemma shutdown_queue_refuted :
  exists s, brun Hreal thr_real (cfg7_old true 1 8) binit run_shutdown_queue = Some s /\
    List.length (accepted s) = 2%nat /\ List.length (stored_items s) = 1%nat /\ volatile_items s = [] /\ wal_items s = [].
Proof. eexists. split; [vm_compute; reflexivity|]. vm_compute. repeat split. Qed.

(* (ii) WAL disabled, queue full: the write returns success, the extracted batch is dropped *)
Definition run_nowal_full : list (label N batch) :=
  [LWrite 1%N (row1 T0 1) true; LEnqueue 0; LDequeue;
   LWrite 1%N (row1 (T0 + 1) 2) true; LEnqueue 1;
   LWrite 1%N (row1 (T0 + 2) 3) true; LEnqueue 1;
   LDone 0 OOk; LDequeue; LDone 0 OOk].
Lemma nowal_full_refuted :
  exists s, brun Hreal thr_real (cfg7 false 1 1) binit run_nowal_full = Some s /\
    List.length (accepted s) = 3%nat /\ List.length (stored_items s) = 2%nat /\ volatile_items s = [] /\ wal_items s = [] /\
    map snd (dropped s) = [DQueueFull].
Proof. eexists. split; [vm_compute; reflexivity|]. vm_compute. repeat split. Qed.

(* (iii) a two-hour batch whose second hour fails after the first hour was written; the replay
   stores the whole batch again: the first hour's row is in two files *)
Definition run_partial_replay : list (label N batch) :=
  [LWrite 1%N two_hours true; LRotate; LEnqueue 0; LDequeue; LDone 0 (OFail [true; false]);
   LAgeFile 0; LReplayStart 0; LReplayEntry; LReplayFileDone; LResetFlag; LEnqueue 0; LDequeue; LDone 0 OOk].
Lemma partial_replay_refuted :
  exists s, brun Hreal thr_real (cfg7 true 2 8) binit run_partial_replay = Some s /\
    List.length (accepted s) = 1%nat /\ volatile_items s = [] /\ wal_items s = [] /\
    map (fun f => fst (snd f)) (stored_kfiles s) = [hour_bucket_id Hreal T0; hour_bucket_id Hreal T0; hour_bucket_id Hreal (T0 + Hreal)].
Proof. eexists. split; [vm_compute; reflexivity|]. vm_compute. repeat split. Qed.

(* (iv) a batch that was flushed fine shares the replayed WAL generation with one that failed *)
Definition run_replay_dup : list (label N batch) :=
  [LWrite 1%N (row1 T0 1) true; LRotate; LEnqueue 0; LDequeue; LDone 0 OOk;
   LWrite 2%N (row1 T0 2) true; LRotate; LEnqueue 0; LDequeue; LDone 0 (OFail []);
   LAgeFile 0; LAgeFile 1; LReplayStart 0; LReplayEntry; LReplayFileDone; LReplayStart 0; LReplayEntry; LReplayFileDone; LResetFlag;
   LEnqueue 0; LEnqueue 0; LDequeue; LDone 0 OOk; LDequeue; LDone 0 OOk].
Lemma replay_dup_refuted :
  exists s, brun Hreal thr_real (cfg7 true 1 8) binit run_replay_dup = Some s /\
    List.length (accepted s) = 2%nat /\ map (@it_id N batch) (stored_items s) = [0; 0; 1]%nat.
Proof. eexists. split; [vm_compute; reflexivity|]. vm_compute. repeat split. Qed.

(* (v) OLD tick (before 8a1c0f1): the maintenance tick purges files older than safeAge BEFORE it replays *)
Definition run_purge_before_replay : list (label N batch) :=
  [LWrite 1%N (row1 T0 1) true; LRotate; LEnqueue 0; LDequeue; LDone 0 (OFail []); LAgeFile 0; LAgeFile 0; LPurgeOld; LResetFlag].
Lemma purge_before_replay_refuted :
  exists s, brun Hreal thr_real (cfg7 true 1 8) binit run_purge_before_replay = Some s /\ flush_failed s = false /\ all_lost s.
Proof. eexists. split; [vm_compute; reflexivity|]. vm_compute. repeat split; discriminate. Qed.

(* (vi) the replay deletes the file while the re-buffered rows are only QUEUED for the asynchronous
   worker (re-buffering reached max_size): FlushReplayed = FlushAll (7b9e05e) flushes the shard
   buffers, finds none, reports no error; the outage persists and the worker's flush fails.
   Still a run of the code as it is. *)
Definition run_replay_then_fail : list (label N batch) :=
  [LWrite 1%N (row1 T0 1) true; LRotate; LEnqueue 0; LDequeue; LDone 0 (OFail []);
   LAgeFile 0; LReplayStart 0; LReplayEntry; LReplayFileDone; LResetFlag; LEnqueue 0; LDequeue; LDone 0 (OFail [])].
Lemma replay_then_fail_refuted :
  exists s, brun Hreal thr_real (cfg7 true 1 8) binit run_replay_then_fail = Some s /\ all_lost s.
Proof. eexists. split; [vm_compute; reflexivity|]. vm_compute. repeat split; discriminate. Qed.

(* (vii) the tick resets the failure flag although the file holding the failed rows was skipped
   (younger than MinFileAge, or the active file); the next normal-mode tick purges it by age *)
Definition run_reset_after_skip : list (label N batch) :=
  [LWrite 1%N (row1 T0 1) true; LRotate; LEnqueue 0; LDequeue; LDone 0 (OFail []);
   LPurgeOld; LResetFlag;            (* tick 1: the file is Young, nothing is replayed, the flag is reset *)
   LAgeFile 0; LAgeFile 0; LPurgeOld (* later, normal mode: PurgeOlderThan(safeAge) *)].
Lemma reset_after_skip_refuted :
  exists s, brun Hreal thr_real (cfg7 true 1 8) binit run_reset_after_skip = Some s /\ flush_failed s = false /\ all_lost s.
Proof. eexists. split; [vm_compute; reflexivity|]. vm_compute. repeat split; discriminate. Qed.

(* (vi-old) before 7b9e05e the file was deleted although the re-buffered rows were still in the shard
   buffer; the next flush fails *)
Definition run_replay_buffered_old : list (label N batch) :=
  [LWrite 1%N (row1 T0 1) true; LRotate; LFlushAllExtract 1%N; LDone 0 (OFail []);
   LAgeFile 0; LReplayStart 0; LReplayEntry; LReplayFileDone; LResetFlag; LFlushAllExtract 1%N; LDone 0 (OFail [])].
Lemma replay_buffered_old_refuted :
  exists s, brun Hreal thr_real (cfg7 true 100 8) binit run_replay_buffered_old = Some s /\ all_lost s.
Proof. eexists. split; [vm_compute; reflexivity|]. vm_compute. repeat split; discriminate. Qed.

(* (vii-b) the code as it is: FlushReplayed fails, the file is kept - and the flag is reset all the
   same; nothing replays the file again and the normal-mode purge removes it once it is old *)
Definition run_reset_after_keep : list (label N batch) :=
  [LWrite 1%N (row1 T0 1) true; LRotate; LFlushAllExtract 1%N; LDone 0 (OFail []);
   LAgeFile 0; LReplayStart 0; LReplayEntry; LFlushAllExtract 1%N; LDone 0 (OFail []); LReplayFileKeep 0 Mid; LResetFlag;
   LAgeFile 0; LPurgeOld].
Lemma reset_after_keep_refuted :
  exists s, brun Hreal thr_real (cfg7 true 100 8) binit run_reset_after_keep = Some s /\ flush_failed s = false /\ all_lost s.
Proof. eexists. split; [vm_compute; reflexivity|]. vm_compute. repeat split; discriminate. Qed.

(* non-vacuity: a run that satisfies both guards at every step, contains a storage failure, a
   rotation, a replay and a purge, and ends with the batch stored exactly once *)
Definition run_good : list (label N batch) :=
  [LWrite 1%N (row1 T0 1) true; LRotate; LEnqueue 0; LDequeue; LDone 0 (OFail []);
   LAgeFile 0; LReplayStart 0; LReplayEntry; LReplayFileDone; LResetFlag; LEnqueue 0; LDequeue; LDone 0 OOk].

Notation breachBO H thr := (reachBO N.eqb bytes_eqb buffer_schema_key batch_rows (bflush H thr)).
Notation bbenign H thr := (@benign N batch (list N) (Z * batch) (bflush H thr)).

Ltac indisj := solve [ reflexivity | assumption | left; indisj | right; indisj | split; indisj ].
Ltac gsolve := repeat split; intros;
  repeat match goal with H : _ \/ _ |- _ => destruct H | H : False |- _ => destruct H | H : _ /\ _ |- _ => destruct H end;
  subst; try discriminate; try tauto; try indisj.

Ltac gstep :=
  cbn [guarded_run]; split; [unfold benign; vm_compute; gsolve | split; [unfold noredo; vm_compute; gsolve | ]];
  lazymatch goal with
  | |- match ?e with Some _ => _ | None => False end =>
      let v := eval vm_compute in e in change e with v; cbv iota beta
  end.

Lemma good_run_guarded :
  exists s, brun Hreal thr_real (cfg7 true 1 8) binit run_good = Some s /\ breachBO Hreal thr_real (cfg7 true 1 8) s /\
    List.length (accepted s) = 1%nat /\ List.length (stored_items s) = 1%nat /\ volatile_items s = [] /\ wal_items s = [].
Proof.
  eexists. split; [vm_compute; reflexivity|]. split.
  - eapply (guarded_run_reach N.eqb bytes_eqb buffer_schema_key batch_rows (bflush Hreal thr_real) _ run_good binit); [constructor| |vm_compute; reflexivity].
    unfold run_good.
    do 13 gstep. exact I.
  - vm_compute. repeat split.
Qed.


(* After a complete, failure-free Close (the code as it is) purging the whole WAL is safe: every
   WAL entry is already stored, i.e. the purge step satisfies the guard [benign]. *)
Lemma shutdown_purge_safe H thr : 0 < H -> forall cfg ls (s : st7),
  brun H thr cfg binit ls = Some s ->
  forallb (fun l : label N batch => no_replay l && outcome_ok l) ls = true ->
  fix_drain cfg = true -> phase s = PClosed -> clean s = true -> inputs_ok s ->
  (forall t r, In (t, r) (dropped s) -> r <> DQueueFull) ->
  bbenign H thr cfg s LPurgeAll /\ Permutation (accepted s) (stored_items s).
Proof.
  intros HH cfg ls s Hr Hq Hfix Hph Hcl Hin Hnq.
  destruct (flush_close_stores_all H thr HH cfg ls s Hr Hq Hfix Hph Hcl Hin Hnq) as [_ [_ [_ [_ [Hp _]]]]].
  split; [|exact Hp].
  assert (Hq1 : forallb (@no_replay N batch) ls = true).
  { clear -Hq. induction ls; cbn in *; [reflexivity|]. apply andb_true_iff in Hq. destruct Hq as [Ha Hb]. apply andb_true_iff in Ha. rewrite (proj1 Ha). cbn. auto. }
  assert (Hro : reachO N.eqb bytes_eqb buffer_schema_key batch_rows (bflush H thr) cfg s).
  { eapply (run_reachO N.eqb bytes_eqb buffer_schema_key batch_rows (bflush H thr)); [constructor|exact Hq1|exact Hr]. }
  destruct (once_reach N.eqb bytes_eqb buffer_schema_key batch_rows (bflush H thr) N_eqb_spec' N.eq_dec batch_dec cfg s Hro) as [_ [Hk _]].
  unfold benign. split; [intros x []|]. split; [|reflexivity].
  intros x Hx. left. cbn [f_waldel] in Hx.
  eapply Permutation_in; [exact Hp|]. apply Hk. unfold somewhere, wal_items.
  apply in_or_app. right. apply in_or_app. right. apply in_or_app. left.
  apply in_app_iff in Hx. destruct Hx as [Hx|Hx]; apply in_or_app; [left; exact Hx|right; apply in_or_app; left; exact Hx].
Qed.
