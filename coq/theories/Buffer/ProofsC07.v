(* Buffer area, C07: instance-level statements' proofs - refutation witnesses (concrete runs of the
   faithful model that lose or duplicate acknowledged batches) and the non-vacuity run. *)
From Coq Require Import List ZArith NArith Bool Lia Permutation String.
From Arc Require Import Lib.AList Buffer.Model Buffer.Proofs Buffer.ProtocolDur Buffer.ModelC07 Buffer.Shutdown.
Import ListNotations.
Open Scope Z_scope.

Definition T0 : Z := 1700000000000000.
Definition cfg7 (wal : bool) (ms qc : nat) : config := {| max_size := ms; queue_cap := qc; wal_on := wal; fix_drain := false |}.
Definition two_hours : batch :=
  {| b_cols := [(time_name, {| c_ty := TInt; c_vals := [VZ T0; VZ (T0 + Hreal)] |}); (vname, {| c_ty := TInt; c_vals := [VZ 1; VZ 2] |})]; b_valid := [] |}.

Notation st7 := (st N batch (list N) (Z * batch)%type) (only parsing).
Definition all_lost (s : st7) : Prop :=
  accepted s <> [] /\ stored_items s = [] /\ volatile_items s = [] /\ wal_items s = [].

(* (i) graceful shutdown: hook wal-purge (PurgeAll) runs before component arrow-buffer (Close);
   the final flush fails -> the acknowledged batch is nowhere *)
Definition run_shutdown_purge : list (label N batch) :=
  [LWrite 1%N (row1 T0 1) true; LRotate; LPurgeAll; LCloseBegin; LCloseWait; LCloseExtract 1%N; LDone 0 (OFail []); LCloseEnd].
Lemma shutdown_purge_refuted :
  exists s, brun Hreal thr_real (cfg7 true 100 8) binit run_shutdown_purge = Some s /\ phase s = PClosed /\ all_lost s.
Proof. eexists. split; [vm_compute; reflexivity|]. vm_compute. repeat split; discriminate. Qed.

(* (i') the same order without any storage failure: a task still queued when Close runs is
   abandoned (C03) and its WAL copy was already purged; after the restart nothing brings it back *)
Definition run_shutdown_queue : list (label N batch) :=
  [LWrite 1%N (row1 T0 1) true; LRotate; LEnqueue 0; LDequeue;
   LWrite 1%N (row1 (T0 + 1) 2) true; LRotate; LEnqueue 1;
   LPurgeAll; LCloseBegin; LDone 0 OOk; LCloseWait; LCloseEnd; LRestart].
Lemma shutdown_queue_refuted :
  exists s, brun Hreal thr_real (cfg7 true 1 8) binit run_shutdown_queue = Some s /\
    List.length (accepted s) = 2%nat /\ List.length (stored_items s) = 1%nat /\ volatile_items s = [] /\ wal_items s = [].
Proof. eexists. split; [vm_compute; reflexivity|]. vm_compute. repeat split. Qed.

(* (ii) WAL disabled, queue full: the write returns success, the extracted batch is dropped *)
Definition run_nowal_full : list (label N batch) :=
  [LWrite 1%N (row1 T0 1) true; LEnqueue 0; LDequeue;
   LWrite 1%N (row1 (T0 + 1) 2) true; LEnqueue 1;
   LWrite 1%N (row1 (T0 + 2) 3) true; LEnqueue 1;
   LDone 0 OOk; LDequeue; LDone 0 OOk].
Lemma nowal_full_refuted :
  exists s, brun Hreal thr_real (cfg7 false 1 1) binit run_nowal_full = Some s /\
    List.length (accepted s) = 3%nat /\ List.length (stored_items s) = 2%nat /\ volatile_items s = [] /\ wal_items s = [] /\
    map snd (dropped s) = [DQueueFull].
Proof. eexists. split; [vm_compute; reflexivity|]. vm_compute. repeat split. Qed.

(* (iii) a two-hour batch whose second hour fails after the first hour was written; the replay
   stores the whole batch again: the first hour's row is in two files *)
Definition run_partial_replay : list (label N batch) :=
  [LWrite 1%N two_hours true; LRotate; LEnqueue 0; LDequeue; LDone 0 (OFail [true; false]);
   LAgeFile 0; LReplayStart 0; LReplayEntry; LReplayFileDone; LResetFlag; LEnqueue 0; LDequeue; LDone 0 OOk].
Lemma partial_replay_refuted :
  exists s, brun Hreal thr_real (cfg7 true 2 8) binit run_partial_replay = Some s /\
    List.length (accepted s) = 1%nat /\ volatile_items s = [] /\ wal_items s = [] /\
    map (fun f => fst (snd f)) (stored_kfiles s) = [hour_bucket_id Hreal T0; hour_bucket_id Hreal T0; hour_bucket_id Hreal (T0 + Hreal)].
Proof. eexists. split; [vm_compute; reflexivity|]. vm_compute. repeat split. Qed.

(* (iv) a batch that was flushed fine shares the replayed WAL generation with one that failed *)
Definition run_replay_dup : list (label N batch) :=
  [LWrite 1%N (row1 T0 1) true; LRotate; LEnqueue 0; LDequeue; LDone 0 OOk;
   LWrite 2%N (row1 T0 2) true; LRotate; LEnqueue 0; LDequeue; LDone 0 (OFail []);
   LAgeFile 0; LAgeFile 1; LReplayStart 0; LReplayEntry; LReplayFileDone; LReplayStart 0; LReplayEntry; LReplayFileDone; LResetFlag;
   LEnqueue 0; LEnqueue 0; LDequeue; LDone 0 OOk; LDequeue; LDone 0 OOk].
Lemma replay_dup_refuted :
  exists s, brun Hreal thr_real (cfg7 true 1 8) binit run_replay_dup = Some s /\
    List.length (accepted s) = 2%nat /\ map (@it_id N batch) (stored_items s) = [0; 0; 1]%nat.
Proof. eexists. split; [vm_compute; reflexivity|]. vm_compute. repeat split. Qed.

(* (v) the maintenance tick purges files older than safeAge BEFORE it replays *)
Definition run_purge_before_replay : list (label N batch) :=
  [LWrite 1%N (row1 T0 1) true; LRotate; LEnqueue 0; LDequeue; LDone 0 (OFail []); LAgeFile 0; LAgeFile 0; LPurgeOld; LResetFlag].
Lemma purge_before_replay_refuted :
  exists s, brun Hreal thr_real (cfg7 true 1 8) binit run_purge_before_replay = Some s /\ flush_failed s = false /\ all_lost s.
Proof. eexists. split; [vm_compute; reflexivity|]. vm_compute. repeat split; discriminate. Qed.

(* (vi) the replay deletes the file once the rows are re-buffered; the outage persists *)
Definition run_replay_then_fail : list (label N batch) :=
  [LWrite 1%N (row1 T0 1) true; LRotate; LEnqueue 0; LDequeue; LDone 0 (OFail []);
   LAgeFile 0; LReplayStart 0; LReplayEntry; LReplayFileDone; LResetFlag; LEnqueue 0; LDequeue; LDone 0 (OFail [])].
Lemma replay_then_fail_refuted :
  exists s, brun Hreal thr_real (cfg7 true 1 8) binit run_replay_then_fail = Some s /\ all_lost s.
Proof. eexists. split; [vm_compute; reflexivity|]. vm_compute. repeat split; discriminate. Qed.

(* non-vacuity: a run that satisfies both guards at every step, contains a storage failure, a
   rotation, a replay and a purge, and ends with the batch stored exactly once *)
Definition run_good : list (label N batch) :=
  [LWrite 1%N (row1 T0 1) true; LRotate; LEnqueue 0; LDequeue; LDone 0 (OFail []);
   LAgeFile 0; LReplayStart 0; LReplayEntry; LReplayFileDone; LResetFlag; LEnqueue 0; LDequeue; LDone 0 OOk].

Notation breachBO H thr := (reachBO N.eqb bytes_eqb column_signature batch_rows (bflush H thr)).
Notation bbenign H thr := (@benign N batch (list N) (Z * batch) (bflush H thr)).

Ltac indisj := solve [ reflexivity | assumption | left; indisj | right; indisj | split; indisj ].
Ltac gsolve := repeat split; intros;
  repeat match goal with H : _ \/ _ |- _ => destruct H | H : False |- _ => destruct H | H : _ /\ _ |- _ => destruct H end;
  subst; try discriminate; try tauto; try indisj.

Ltac gstep :=
  cbn [guarded_run]; split; [unfold benign; vm_compute; gsolve | split; [unfold noredo; vm_compute; gsolve | ]];
  lazymatch goal with
  | |- match ?e with Some _ => _ | None => False end =>
      let v := eval vm_compute in e in change e with v; cbv iota beta
  end.

Lemma good_run_guarded :
  exists s, brun Hreal thr_real (cfg7 true 1 8) binit run_good = Some s /\ breachBO Hreal thr_real (cfg7 true 1 8) s /\
    List.length (accepted s) = 1%nat /\ List.length (stored_items s) = 1%nat /\ volatile_items s = [] /\ wal_items s = [].
Proof.
  eexists. split; [vm_compute; reflexivity|]. split.
  - eapply (guarded_run_reach N.eqb bytes_eqb column_signature batch_rows (bflush Hreal thr_real) _ run_good binit); [constructor| |vm_compute; reflexivity].
    unfold run_good.
    do 13 gstep. exact I.
  - vm_compute. repeat split.
Qed.
