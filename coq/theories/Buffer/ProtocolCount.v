(* Buffer area: proofs about the protocol of Protocol.v, part 1: item counting (conservation),
   NoDup of buffer keys, and the abstraction [cstep] of a step to its control-relevant effect. *)
From Coq Require Import List Bool Arith Lia Permutation.
From Arc Require Import Lib.AList Buffer.Protocol.
Import ListNotations.

Ltac break_match H :=
  repeat match type of H with
  | (if ?c then _ else _) = Some _ => let E := fresh "E" in destruct c eqn:E; try discriminate H
  | (match ?x with _ => _ end) = Some _ => let E := fresh "E" in destruct x eqn:E; try discriminate H
  | option_map _ ?x = Some _ => let E := fresh "E" in destruct x eqn:E; cbn [option_map] in H; try discriminate H
  end.

Ltac inv_some H :=
  try match type of H with Some _ = Some _ => inversion H; subst; clear H end.

Section Proofs.
  Context {K B Sg F : Type}.
  Variable keqb : K -> K -> bool.
  Variable seqb : Sg -> Sg -> bool.
  Variable sigf : B -> Sg.
  Variable nrows : B -> nat.
  Variable flushf : list B -> flush_res F.
  Hypothesis keqb_spec : forall a b, reflect (a = b) (keqb a b).
  Hypothesis seqb_spec : forall a b, reflect (a = b) (seqb a b).
  Hypothesis K_dec : forall a b : K, {a = b} + {a <> b}.
  Hypothesis B_dec : forall a b : B, {a = b} + {a <> b}.

  Notation item := (item K B).
  Notation task := (task K B).
  Notation st := (st K B Sg F).
  Notation label := (label K B).
  Notation step := (step keqb seqb sigf nrows flushf).
  Notation run := (run keqb seqb sigf nrows flushf).
  Notation append := (append keqb seqb sigf nrows).
  Notation extract := (extract keqb).
  Notation complete := (complete flushf).

  Lemma item_dec : forall a b : item, {a = b} + {a <> b}.
  Proof. decide equality. apply Nat.eq_dec. Qed.

  Notation c x l := (count_occ item_dec l x).

  Definition flat (bf : list (K * (Sg * list item))) : list item := flat_map (fun kv => snd (snd kv)) bf.

  Lemma lookup_none_remove {V} k (bf : list (K * V)) : lookup keqb k bf = None -> remove keqb k bf = bf.
  Proof.
    induction bf as [|[k' v] r IH]; cbn; [reflexivity|]. destruct (keqb k k'); [discriminate|].
    intros H. rewrite IH by exact H. reflexivity.
  Qed.

  Lemma flat_remove_some x k bf sg items : NoDup (keys bf) -> lookup keqb k bf = Some (sg, items) ->
    c x (flat bf) = c x items + c x (flat (remove keqb k bf)).
  Proof.
    induction bf as [|[k' v] r IH]; cbn; [discriminate|]. intros Hn. inversion Hn; subst.
    destruct (keqb_spec k k') as [->|Hne].
    - intros E; inversion E; subst. cbn. rewrite count_occ_app. f_equal.
      rewrite lookup_none_remove; [reflexivity|].
      destruct (lookup keqb k' r) eqn:El; [|reflexivity]. exfalso. apply H1.
      clear -El keqb_spec. induction r as [|[k2 v2] r IH]; cbn in *; [discriminate|].
      destruct (keqb_spec k' k2); [left; congruence|right; apply IH; exact El].
    - intros E. unfold flat in *. cbn. rewrite !count_occ_app. rewrite (IH H2 E). lia.
  Qed.

  Lemma remove_nth_count {A} (f : A -> list item) x l i t : nth_error l i = Some t ->
    c x (flat_map f l) = c x (f t) + c x (flat_map f (remove_nth i l)).
  Proof.
    revert i. induction l as [|a l IH]; intros [|i]; cbn; try discriminate.
    - intros E; inversion E; subst. rewrite count_occ_app. reflexivity.
    - intros E. rewrite !count_occ_app, (IH _ E). lia.
  Qed.

  Lemma flat_map_app_count {A} (f : A -> list item) x l1 l2 : c x (flat_map f (l1 ++ l2)) = c x (flat_map f l1) + c x (flat_map f l2).
  Proof. rewrite flat_map_app, count_occ_app. reflexivity. Qed.

  Definition cnt (s : st) (x : item) : nat := c x (all_items s).

  Lemma cnt_unfold s x : cnt s x =
    c x (flat (buffers s)) + c x (task_items (queue s)) + c x (busy_items s) + c x (stored_items s) + c x (dropped_items s).
  Proof. unfold cnt, all_items, volatile_items, buffer_items, flat. rewrite !count_occ_app. lia. Qed.

  Definition one (it x : item) : nat := if item_dec it x then 1 else 0.

  Lemma c_single it x : c x [it] = one it x.
  Proof. unfold one. cbn. destruct (item_dec it x); reflexivity. Qed.

  Lemma append_cnt cfg (s : st) it (s1 : st) x : NoDup (keys (buffers s)) -> append cfg s it = Some s1 ->
    cnt s1 x = cnt s x + one it x /\ accepted s1 = accepted s /\ next_id s1 = next_id s
    /\ wal_active s1 = wal_active s /\ wal_files s1 = wal_files s /\ replaying s1 = replaying s.
  Proof.
    intros Hn H. unfold Protocol.append in H.
    destruct (lookup keqb (it_key it) (buffers s)) as [[sg items]|] eqn:El.
    - destruct (seqb sg (sigf (it_b it))); [|discriminate]. inversion H; subst; clear H.
      rewrite !cnt_unfold. pose proof (flat_remove_some x _ _ _ _ Hn El) as R.
      destruct (max_size cfg <=? _); destruct (closing s); cbn;
        unfold busy_items, task_items, stored_items, dropped_items in *; cbn;
        rewrite ?flat_map_app_count, ?count_occ_app; cbn; rewrite ?count_occ_app, ?app_nil_r, ?c_single; cbn;
        unfold flat, one in *; destruct (item_dec it x); (split; [lia|repeat split]).
    - inversion H; subst; clear H. rewrite !cnt_unfold. pose proof (lookup_none_remove _ _ El) as R.
      destruct (max_size cfg <=? _); destruct (closing s); cbn;
        unfold busy_items, task_items, stored_items, dropped_items in *; cbn;
        rewrite ?R, ?flat_map_app_count, ?count_occ_app; cbn; rewrite ?count_occ_app, ?app_nil_r, ?c_single; cbn;
        unfold flat, one in *; destruct (item_dec it x); (split; [lia|repeat split]).
  Qed.


  Lemma append_nodup cfg (s : st) it (s1 : st) : NoDup (keys (buffers s)) -> append cfg s it = Some s1 -> NoDup (keys (buffers s1)).
  Proof.
    intros Hn H. unfold Protocol.append in H.
    destruct (lookup keqb (it_key it) (buffers s)) as [[sg items]|] eqn:El.
    - destruct (seqb sg (sigf (it_b it))); [|discriminate]. inversion H; subst; clear H.
      destruct (max_size cfg <=? _); destruct (closing s); cbn [buffers set_vol set_ctl];
        first [apply (nodup_remove keqb); exact Hn | apply (nodup_insert keqb keqb_spec); exact Hn].
    - inversion H; subst; clear H.
      destruct (max_size cfg <=? _); destruct (closing s); cbn [buffers set_vol set_ctl];
        first [apply (nodup_remove keqb); exact Hn | apply (nodup_insert keqb keqb_spec); exact Hn].
  Qed.

  Lemma extract_nodup (s : st) k r (s1 : st) : NoDup (keys (buffers s)) -> extract s k r = Some s1 -> NoDup (keys (buffers s1)).
  Proof.
    intros Hn H. unfold Protocol.extract in H. destruct (lookup keqb k (buffers s)) as [[sg items]|]; [|discriminate].
    inversion H; subst; cbn [buffers set_vol set_ctl]. apply (nodup_remove keqb). exact Hn.
  Qed.

  Lemma complete_buffers (s : st) t o (s1 : st) : complete s t o = Some s1 -> buffers s1 = buffers s.
  Proof.
    intros H. unfold Protocol.complete in H. destruct (flushf _); [destruct o; [|destruct (_ <? _); [|discriminate]]| |];
      inversion H; subst; reflexivity.
  Qed.

  Lemma unclean_buffers (s : st) : buffers (unclean s) = buffers s.
  Proof. unfold unclean. destruct (closing s); reflexivity. Qed.

  Lemma step_nodup cfg (s : st) l (s' : st) : NoDup (keys (buffers s)) -> step cfg s l = Some s' -> NoDup (keys (buffers s')).
  Proof.
    intros Hn H. unfold Protocol.step in H. destruct (crashed s); [discriminate|].
    destruct l; break_match H; inv_some H; try (destruct (wal_on cfg && _)); cbn [buffers set_vol set_ctl set_out set_wal set_acc]; rewrite ?unclean_buffers;
      first [ exact Hn | eapply append_nodup; eassumption | eapply extract_nodup; eassumption
            | (erewrite complete_buffers by eassumption; exact Hn) | constructor ].
  Qed.


  Lemma extract_cnt (s : st) k r (s1 : st) x : NoDup (keys (buffers s)) -> extract s k r = Some s1 ->
    cnt s1 x = cnt s x /\ accepted s1 = accepted s.
  Proof.
    intros Hn H. unfold Protocol.extract in H. destruct (lookup keqb k (buffers s)) as [[sg items]|] eqn:El; [|discriminate].
    inversion H; subst; clear H. rewrite !cnt_unfold. pose proof (flat_remove_some x _ _ _ _ Hn El) as R. cbn.
    unfold busy_items, task_items, stored_items, dropped_items in *; cbn.
    rewrite ?flat_map_app_count; cbn. rewrite ?app_nil_r. unfold flat in *.
    split; [lia|reflexivity].
  Qed.

  Lemma complete_cnt (s : st) t o (s1 : st) x : complete s t o = Some s1 ->
    cnt s1 x = cnt s x + c x (t_items t) /\ accepted s1 = accepted s.
  Proof.
    intros H. unfold Protocol.complete in H. rewrite !cnt_unfold.
    destruct (flushf (map it_b (t_items t))) as [files| |]; [destruct o as [|mask]; [|destruct (length (select mask files) <? length files); [|discriminate]]| |];
      inversion H; subst; clear H; cbn; unfold stored_items, dropped_items, busy_items, task_items, flat; cbn;
      try destruct (is_nil (select mask files)); cbn; rewrite ?flat_map_app_count; cbn; rewrite ?app_nil_r; (split; [lia|reflexivity]).
  Qed.

  Lemma unclean_cnt (s : st) x : cnt (unclean s) x = cnt s x /\ accepted (unclean s) = accepted s.
  Proof. unfold unclean. destruct (closing s); split; reflexivity. Qed.

  Ltac norm := rewrite !cnt_unfold in *; cbn in *; unfold busy_items, task_items, stored_items, dropped_items, flat in *; cbn in *;
               rewrite ?flat_map_app_count, ?count_occ_app in *; cbn in *; rewrite ?app_nil_r in *;
               try match goal with Eq : queue ?s = _ :: _, Hc : context [queue ?s] |- _ => rewrite Eq in Hc; cbn in Hc; rewrite count_occ_app in Hc end.

  Lemma step_count cfg (s : st) l (s' : st) : NoDup (keys (buffers s)) -> (forall x, cnt s x = c x (accepted s)) ->
    no_replay l = true -> step cfg s l = Some s' -> forall x, cnt s' x = c x (accepted s').
  Proof.
    intros Hn Hc Hl H x. specialize (Hc x). unfold Protocol.step in H. destruct (crashed s); [discriminate|].
    destruct l; try discriminate Hl; clear Hl; break_match H; inv_some H.
    - (* LWrite *)
      destruct (append_cnt cfg s _ _ x Hn E) as [E1 [E2 _]].
      destruct (wal_on cfg && wal_ok); rewrite !cnt_unfold in *; cbn; rewrite count_occ_app, c_single, E2; cbn in *; 
        unfold busy_items, task_items, stored_items, dropped_items, flat in *; lia.
    - pose proof (remove_nth_count (fun p : role * task => t_items (snd p)) x _ _ _ E) as R. norm. lia.
    - pose proof (remove_nth_count (fun p : role * task => t_items (snd p)) x _ _ _ E) as R. norm. lia.
    - pose proof (remove_nth_count (fun p : role * task => t_items (snd p)) x _ _ _ E) as R. norm. lia.
    - destruct (unclean_cnt s0 x) as [-> ->]. destruct (extract_cnt _ _ _ _ x Hn E) as [-> ->]. exact Hc.
    - destruct (unclean_cnt s0 x) as [-> ->]. destruct (extract_cnt _ _ _ _ x Hn E) as [-> ->]. exact Hc.
    - destruct (extract_cnt _ _ _ _ x Hn H) as [-> ->]. exact Hc.
    - norm. lia.
    - destruct (complete_cnt _ _ _ _ x H) as [-> ->]. pose proof (remove_nth_count (fun p : role * task => t_items (snd p)) x _ _ _ E) as R. norm. lia.
    - destruct (complete_cnt _ _ _ _ x H) as [-> ->]. pose proof (remove_nth_count (fun p : role * task => t_items (snd p)) x _ _ _ E) as R. norm. lia.
    - destruct (complete_cnt _ _ _ _ x H) as [-> ->]. pose proof (remove_nth_count (fun p : role * task => t_items (snd p)) x _ _ _ E) as R. norm. lia.
    - destruct (complete_cnt _ _ _ _ x H) as [-> ->]. pose proof (remove_nth_count (fun p : role * task => t_items (snd p)) x _ _ _ E) as R. norm. lia.
    - norm. lia.
    - norm. lia.
    - norm. lia.
    - destruct (extract_cnt _ _ _ _ x Hn H) as [-> ->]. exact Hc.
    - norm. lia.
    - norm. lia.
    - norm. lia.
    - norm. lia.
    - norm. lia.
    - norm. lia.
  Qed.


  (* ---------------- control invariant ---------------- *)
  Definition ctl_ok (cfg : config) (s : st) : Prop :=
    (phase s = POpen -> closing s = false) /\
    (phase s <> POpen -> closing s = true) /\
    (closing s = true -> clean s = true -> has_role RPending (busy s) = false /\ has_role RHeldW (busy s) = false) /\
    (phase s = PFlushing \/ phase s = PClosed -> workers s = false /\ has_role RInflight (busy s) = false /\ has_role RHeldBg (busy s) = false) /\
    (phase s <> PFlushing -> has_role RHeldClose (busy s) = false) /\
    (phase s = PClosed -> clean s = true -> buffers s = [] /\ (fix_drain cfg = true -> queue s = [])).

  Lemma has_role_app r (l : list (role * task)) r' t : has_role r (l ++ [(r', t)]) = has_role r l || role_eqb r' r.
  Proof. unfold has_role. rewrite existsb_app. cbn. rewrite orb_false_r. reflexivity. Qed.

  Lemma has_role_remove r (l : list (role * task)) i : has_role r l = false -> has_role r (remove_nth i l) = false.
  Proof.
    unfold has_role. revert i. induction l as [|a l IH]; intros [|i]; cbn; try reflexivity.
    - intros H. apply orb_false_iff in H. tauto.
    - intros H. apply orb_false_iff in H. destruct H as [-> H]. cbn. apply IH. exact H.
  Qed.

  Lemma phase_eqb_eq a b : phase_eqb a b = true <-> a = b.
  Proof. destruct a, b; cbn; split; intros; try reflexivity; try discriminate. Qed.

  Lemma append_ctl cfg (s : st) it (s1 : st) : append cfg s it = Some s1 ->
    closing s1 = closing s /\ workers s1 = workers s /\ phase s1 = phase s /\ queue s1 = queue s /\
    clean s1 = (if closing s then false else clean s) /\
    (busy s1 = busy s \/ exists t, busy s1 = busy s ++ [(RPending, t)]).
  Proof.
    intros H. unfold Protocol.append in H.
    destruct (lookup keqb (it_key it) (buffers s)) as [[sg items]|]; [destruct (seqb sg (sigf (it_b it))); [|discriminate]|];
      inversion H; subst; clear H; destruct (max_size cfg <=? _); destruct (closing s) eqn:Ec; cbn; rewrite ?Ec;
      repeat split; try (left; reflexivity); try (right; eexists; reflexivity).
  Qed.

  Lemma extract_ctl (s : st) k r (s1 : st) : extract s k r = Some s1 ->
    closing s1 = closing s /\ workers s1 = workers s /\ phase s1 = phase s /\ queue s1 = queue s /\ clean s1 = clean s /\
    exists t, busy s1 = busy s ++ [(r, t)].
  Proof.
    intros H. unfold Protocol.extract in H. destruct (lookup keqb k (buffers s)) as [[sg items]|]; [|discriminate].
    inversion H; subst; cbn. repeat split. eexists; reflexivity.
  Qed.

  Lemma complete_ctl (s : st) t o (s1 : st) : complete s t o = Some s1 ->
    closing s1 = closing s /\ workers s1 = workers s /\ phase s1 = phase s /\ queue s1 = queue s /\ clean s1 = clean s /\
    busy s1 = busy s /\ buffers s1 = buffers s.
  Proof.
    intros H. unfold Protocol.complete in H. destruct (flushf _); [destruct o; [|destruct (_ <? _); [|discriminate]]| |];
      inversion H; subst; cbn; repeat split.
  Qed.

  Lemma role_cases (r : role) : r = RPending \/ r = RInflight \/ r = RHeldW \/ r = RHeldBg \/ r = RHeldClose.
  Proof. destruct r; tauto. Qed.

  Ltac ctl_tac :=
    repeat match goal with
    | H : _ /\ _ |- _ => destruct H
    | H : exists _, _ |- _ => destruct H
    | H : phase_eqb _ _ = true |- _ => apply phase_eqb_eq in H
    | H : _ && _ = true |- _ => apply andb_true_iff in H
    | H : negb _ = true |- _ => apply negb_true_iff in H
    | H : _ || _ = true |- _ => apply orb_true_iff in H
    | H : is_nil ?l = true |- _ => destruct l; [clear H|discriminate H]
    end.


  Lemma unclean_ctl (s : st) : closing (unclean s) = closing s /\ workers (unclean s) = workers s /\ phase (unclean s) = phase s /\
    queue (unclean s) = queue s /\ busy (unclean s) = busy s /\ buffers (unclean s) = buffers s /\
    clean (unclean s) = (if closing s then false else clean s).
  Proof. unfold unclean. destruct (closing s) eqn:E; cbn; rewrite ?E; repeat split. Qed.

  Definition same3 (s s' : st) : Prop := closing s' = closing s /\ workers s' = workers s /\ phase s' = phase s.

  (* what one step does to the control-relevant part of the state *)
  Inductive cstep (cfg : config) (s s' : st) : Prop :=
  | cs_same : same3 s s' -> clean s' = clean s -> busy s' = busy s -> buffers s' = buffers s -> queue s' = queue s -> cstep cfg s s'
  | cs_append : same3 s s' -> queue s' = queue s -> clean s' = (if closing s then false else clean s) ->
      (busy s' = busy s \/ exists t, busy s' = busy s ++ [(RPending, t)]) -> cstep cfg s s'
  | cs_enq i : same3 s s' -> clean s' = clean s -> busy s' = remove_nth i (busy s) -> buffers s' = buffers s ->
      has_role RPending (busy s) = true ->
      (queue s' = queue s \/ (closing s = false /\ exists t, queue s' = queue s ++ [t])) -> cstep cfg s s'
  | cs_extract r t : same3 s s' -> queue s' = queue s -> busy s' = busy s ++ [(r, t)] ->
      ((r = RHeldW /\ clean s' = (if closing s then false else clean s)) \/ (r = RHeldBg /\ workers s = true /\ clean s' = clean s)
       \/ (r = RHeldClose /\ phase s = PFlushing /\ clean s' = clean s)) -> cstep cfg s s'
  | cs_deq t : workers s = true -> same3 s s' -> clean s' = clean s -> busy s' = busy s ++ [(RInflight, t)] ->
      buffers s' = buffers s -> queue s = t :: queue s' -> cstep cfg s s'
  | cs_done i : same3 s s' -> clean s' = clean s -> queue s' = queue s -> buffers s' = buffers s -> busy s' = remove_nth i (busy s) -> cstep cfg s s'
  | cs_begin : phase s = POpen -> closing s' = true -> phase s' = PWaiting -> workers s' = workers s ->
      clean s' = negb (has_role RPending (busy s)) && negb (has_role RHeldW (busy s)) ->
      busy s' = busy s -> buffers s' = buffers s -> queue s' = queue s -> cstep cfg s s'
  | cs_wait : phase s = PWaiting -> has_role RInflight (busy s) = false -> has_role RHeldBg (busy s) = false ->
      closing s' = closing s -> workers s' = false -> phase s' = PFlushing -> clean s' = clean s ->
      busy s' = busy s -> buffers s' = buffers s -> queue s' = queue s -> cstep cfg s s'
  | cs_drain t : fix_drain cfg = true -> phase s = PFlushing -> same3 s s' -> clean s' = clean s -> busy s' = busy s ++ [(RHeldClose, t)] ->
      buffers s' = buffers s -> queue s = t :: queue s' -> cstep cfg s s'
  | cs_end : phase s = PFlushing -> has_role RHeldClose (busy s) = false ->
      (clean s = true -> buffers s = [] /\ (fix_drain cfg = true -> queue s = [])) ->
      closing s' = closing s -> workers s' = workers s -> phase s' = PClosed -> clean s' = clean s ->
      busy s' = busy s -> buffers s' = buffers s -> queue s' = queue s -> cstep cfg s s'
  | cs_restart : closing s' = false -> workers s' = true -> phase s' = POpen -> clean s' = true ->
      busy s' = [] -> buffers s' = [] -> queue s' = [] -> cstep cfg s s'.

  Lemma nth_error_has_role (l : list (role * task)) i r t : nth_error l i = Some (r, t) -> has_role r l = true.
  Proof.
    intros H. unfold has_role. apply existsb_exists. exists (r, t). split; [eapply nth_error_In; exact H|]. destruct r; reflexivity.
  Qed.

  Lemma extract_ctl' (s : st) k r (s1 : st) : extract s k r = Some s1 ->
    same3 s s1 /\ queue s1 = queue s /\ clean s1 = clean s /\ exists t, busy s1 = busy s ++ [(r, t)].
  Proof.
    intros H. unfold Protocol.extract in H. destruct (lookup keqb k (buffers s)) as [[sg items]|]; [|discriminate].
    inversion H; subst; cbn. unfold same3; cbn. repeat split. eexists; reflexivity.
  Qed.

  Lemma step_cstep cfg (s : st) l (s' : st) : step cfg s l = Some s' -> cstep cfg s s'.
  Proof.
    intros H. unfold Protocol.step in H. destruct (crashed s); [discriminate|].
    destruct l; break_match H; inv_some H.
    - (* LWrite *) destruct (append_ctl _ _ _ _ E) as [A1 [A2 [A3 [A4 [A5 A6]]]]].
      apply cs_append; destruct (wal_on cfg && wal_ok); unfold same3; cbn; auto.
    - (* LEnqueue closing *) apply (cs_enq _ _ _ i); unfold same3; cbn; auto. eapply nth_error_has_role; eassumption.
    - apply (cs_enq _ _ _ i); unfold same3; cbn; auto. eapply nth_error_has_role; eassumption. right. split; [assumption|eexists; reflexivity].
    - apply (cs_enq _ _ _ i); unfold same3; cbn; auto. eapply nth_error_has_role; eassumption.
    - (* LSchemaFlush *) destruct (extract_ctl' _ _ _ _ E) as [[A1 [A2 A3]] [A4 [A5 [t A6]]]]. destruct (unclean_ctl s0) as [U1 [U2 [U3 [U4 [U5 [U6 U7]]]]]].
      apply (cs_extract _ _ _ RHeldW t); [unfold same3; repeat split; congruence|congruence|congruence|]. left. split; [reflexivity|]. rewrite U7, A1, A5. reflexivity.
    - destruct (extract_ctl' _ _ _ _ E) as [[A1 [A2 A3]] [A4 [A5 [t A6]]]]. destruct (unclean_ctl s0) as [U1 [U2 [U3 [U4 [U5 [U6 U7]]]]]].
      apply (cs_extract _ _ _ RHeldW t); [unfold same3; repeat split; congruence|congruence|congruence|]. left. split; [reflexivity|]. rewrite U7, A1, A5. reflexivity.
    - (* LAgeExtract *) destruct (extract_ctl' _ _ _ _ H) as [A1 [A4 [A5 [t A6]]]].
      apply (cs_extract _ _ _ RHeldBg t); auto.
    - (* LDequeue *) apply (cs_deq _ _ _ t); unfold same3; cbn; auto.
    - (* LDone *) destruct (complete_ctl _ _ _ _ H) as [A1 [A2 [A3 [A4 [A5 [A6 A7]]]]]]. apply (cs_done _ _ _ i); unfold same3; cbn in *; auto.
    - destruct (complete_ctl _ _ _ _ H) as [A1 [A2 [A3 [A4 [A5 [A6 A7]]]]]]. apply (cs_done _ _ _ i); unfold same3; cbn in *; auto.
    - destruct (complete_ctl _ _ _ _ H) as [A1 [A2 [A3 [A4 [A5 [A6 A7]]]]]]. apply (cs_done _ _ _ i); unfold same3; cbn in *; auto.
    - destruct (complete_ctl _ _ _ _ H) as [A1 [A2 [A3 [A4 [A5 [A6 A7]]]]]]. apply (cs_done _ _ _ i); unfold same3; cbn in *; auto.
    - (* LCloseBegin *) apply phase_eqb_eq in E. apply cs_begin; cbn; auto.
    - (* LCloseWait *) ctl_tac. apply cs_wait; cbn; auto.
    - (* LCloseDrain *) ctl_tac. apply (cs_drain _ _ _ t); unfold same3; cbn; auto.
    - (* LCloseExtract *) apply phase_eqb_eq in E. destruct (extract_ctl' _ _ _ _ H) as [A1 [A4 [A5 [t A6]]]].
      apply (cs_extract _ _ _ RHeldClose t); auto.
    - (* LCloseEnd *) apply andb_true_iff in E. destruct E as [E12 E3]. apply andb_true_iff in E12. destruct E12 as [E1 E2].
      apply phase_eqb_eq in E1. apply negb_true_iff in E2.
      apply cs_end; cbn; auto.
      intros Hcl. rewrite Hcl in E3. cbn in E3. apply andb_true_iff in E3. destruct E3 as [E3 E4].
      split; [destruct (buffers s); [reflexivity|discriminate]|]. intros Hf. rewrite Hf in E4. cbn in E4.
      destruct (queue s); [reflexivity|discriminate].
    - apply cs_same; unfold same3; cbn; auto.
    - apply cs_same; unfold same3; cbn; auto.
    - apply cs_same; unfold same3; cbn; auto.
    - apply cs_same; unfold same3; cbn; auto.
    - apply cs_same; unfold same3; cbn; auto.
    - (* LReplayEntry *) destruct (append_ctl _ _ _ _ E2) as [A1 [A2 [A3 [A4 [A5 A6]]]]].
      apply cs_append; unfold same3; cbn; auto.
    - apply cs_same; unfold same3; cbn; auto.
    - (* LReplayFileKeep *) apply cs_same; unfold same3; cbn; auto.
    - apply cs_same; unfold same3; cbn; auto.
    - apply cs_restart; reflexivity.
  Qed.

End Proofs.
