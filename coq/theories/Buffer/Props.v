(* C03 - Accepted rows are flushed exactly once into their hour partition.
   Only property statements live here; proofs are in KernelProofs.v, ProtocolCount.v,
   ProtocolInv.v and Proofs.v. *)
From Coq Require Import List ZArith NArith Bool Lia Permutation Sorting.Sorted SetoidList SetoidPermutation.
From Arc Require Import Lib.AList Buffer.Model Buffer.Proofs.
Import ListNotations.
Open Scope Z_scope.

(* (a) kernels ------------------------------------------------------------------------- *)

(* HourBucketID is the floor, for every timestamp (negative ones included) and every
   positive hour length (the deployed constant is instantiated in Obligations.v). *)
Theorem C03_bucket_floor : forall H t, 0 < H ->
  let b := hour_bucket_id H t in b * H <= t < (b + 1) * H.
Proof. exact bucket_floor. Qed.
Print Assumptions C03_bucket_floor.

(* groupByHour: bucket ids are distinct, the index lists partition 0..n-1, every index list is
   non-empty and increasing, and every index sits in the bucket of its own hour - hence every
   row index is in exactly one bucket, the right one. *)
Theorem C03_group_partition : forall H ts,
  let g := group_by_hour H ts in
  NoDup (map bk_id g) /\
  Permutation (concat (map bk_idx g)) (seq 0 (length ts)) /\
  (forall b, In b g -> StronglySorted lt (bk_idx b) /\ bk_idx b <> [] /\
      forall j, In j (bk_idx b) -> (j < length ts)%nat /\ hour_bucket_id H (nth j ts 0) = bk_id b).
Proof. exact group_partition. Qed.
Print Assumptions C03_group_partition.

(* permuteByTime, for every threshold and every int64 time column: nil only when the column is
   already non-decreasing; otherwise a permutation of 0..n-1 that is sorted by (time, original
   index) - i.e. the image is non-decreasing and the sort is stable. *)
Theorem C03_sort_perm_sorted : forall thr ts, Forall int64 ts ->
  match permute_by_time thr ts with
  | None => StronglySorted Z.le ts
  | Some p => Permutation p (seq 0 (length ts)) /\ StronglySorted (tlt ts) p
  end.
Proof. exact permute_by_time_ok. Qed.
Print Assumptions C03_sort_perm_sorted.

(* both sort paths on their own, whatever the threshold would have chosen: the comparison path
   (modelled as the stable sort; sort.Slice is trusted library code) and the 8-pass LSD radix
   path with the sign-bit bias and the single-bucket skip. *)
Theorem C03_sort_paths : forall ts,
  stable_sorted ts (permute_by_time_sort ts) /\ (Forall int64 ts -> stable_sorted ts (radix_permute_by_time ts)).
Proof. intros ts. split; [apply sort_path_sorted|apply radix_path_sorted]. Qed.
Print Assumptions C03_sort_paths.

(* what a sorted permutation means for the written file *)
Theorem C03_sorted_image : forall ts p, stable_sorted ts p ->
  StronglySorted Z.le (map (fun i => nth i ts 0) p) /\ Permutation (map (fun i => nth i ts 0) p) ts.
Proof. intros ts p H. destruct (stable_sorted_image ts p H) as [A [B _]]. split; assumption. Qed.
Print Assumptions C03_sorted_image.

(* mergeBatches on well-formed batches whose shared columns have one type: no error, no panic;
   column by column the merged cells are the concatenation of the batches' cells, NULL exactly
   where a batch lacks the column or marks the value invalid; the merged schema is the union. *)
Theorem C03_merge_rows : forall bs, bs <> [] -> Forall wf_batch bs -> types_agree bs ->
  exists m, merge_batches bs = MOk m /\ wf_batch m /\ batch_rows m = total_rows bs /\
    (forall n, col_cells m n = flat_map (fun b => col_cells b n) bs) /\
    (forall n, In n (map fst (b_cols m)) <-> exists b, In b bs /\ In n (map fst (b_cols b))) /\
    times_of m = Some (flat_map times_list bs).
Proof. exact merge_rows. Qed.
Print Assumptions C03_merge_rows.

(* one flush (merge + per-hour split + sort): at most one file per hour, every file non-empty,
   time-sorted, all its rows in the hour of its directory; the files together hold exactly the
   rows of the flushed batches (multiset, absent column = NULL). *)
Theorem C03_flush_files : forall H thr bs, 0 < H -> bs <> [] ->
  Forall wf_batch bs -> types_agree bs -> Forall batch_times_ok bs -> (0 < total_rows bs)%nat ->
  exists files, flush_batches H thr bs = FOk files /\
    NoDup (map fst files) /\ Forall (file_ok H) files /\
    PermutationA row_equiv (flat_map (fun f => rows_of (snd f)) files) (flat_map rows_of bs).
Proof. exact flush_batches_rows. Qed.
Print Assumptions C03_flush_files.

(* bufferSchemaKey (the value compared on every write to decide whether a batch may join a
   buffer) is sound: two well-formed batches with the same key have the same column types, for
   EVERY column name (plain signature form and length-prefixed form; the two never coincide).
   Hence batches that share a buffer never make mergeBatches' type assertion fail. *)
Theorem C03_key_sound : forall b1 b2, wf_batch b1 -> wf_batch b2 ->
  buffer_schema_key b1 = buffer_schema_key b2 -> types_agree [b1; b2].
Proof. exact key_sound. Qed.
Print Assumptions C03_key_sound.

(* (b) protocol ------------------------------------------------------------------------ *)

(* Conservation, for every configuration, every number of writers / workers / FlushAll callers
   and every interleaving of their atomic sections (any label list without WAL replay), with
   or without storage failures: the accepted batches are exactly the batches that are
   buffered, queued, carried by some goroutine, stored by a complete flush, or dropped. *)
Theorem C03_conservation : forall H thr cfg ls s,
  brun H thr cfg binit ls = Some s -> forallb (@no_replay N batch) ls = true ->
  Permutation (all_items s) (accepted s).
Proof.
  intros H thr cfg ls s. apply (conservation N.eqb bytes_eqb buffer_schema_key batch_rows (bflush H thr) N_eqb_spec' N.eq_dec batch_dec).
Qed.
Print Assumptions C03_conservation.

(* every complete flush that any interleaving performs writes what C03_flush_files says *)
Theorem C03_stored_files : forall H thr, 0 < H -> forall cfg ls s,
  brun H thr cfg binit ls = Some s -> forallb (@no_replay N batch) ls = true -> inputs_ok s ->
  forall r, In r (stored s) -> s_full r = true ->
    (forall it, In it (s_items r) -> it_key it = s_key r) /\
    NoDup (map fst (s_files r)) /\ Forall (file_ok H) (s_files r) /\
    PermutationA row_equiv (flat_map (fun f => rows_of (snd f)) (s_files r)) (flat_map rows_of (map it_b (s_items r))).
Proof. exact stored_files_ok. Qed.
Print Assumptions C03_stored_files.

(* About the OLD variant (the Close before 2ed39c6, fix_drain = false), kept as the record of the
   defect and as the failing input the check replays when the fix is reverted: a schedule in which
   every writer has returned before Close starts, no storage write fails and the queue never
   overflows ends with Close completed and three of four accepted batches never written. *)
Theorem C03_close_refuted :
  exists ls s, brun Hreal thr_real (wit_cfg false) binit ls = Some s /\
    forallb (fun l : label N batch => no_replay l && outcome_ok l) ls = true /\
    phase s = PClosed /\ clean s = true /\ inputs_ok s /\ dropped s = [] /\
    length (accepted s) = 4%nat /\ length (stored_items s) = 1%nat /\ length (queue s) = 3%nat /\
    ~ Permutation (accepted s) (stored_items s).
Proof. exact close_refuted. Qed.
Print Assumptions C03_close_refuted.

(* The code as it is (Close drains the queue after the workers exit: fix_drain = true): for every
   interleaving without storage failures, once Close has completed with no writer / FlushAll
   activity after it began and no queue overflow, nothing is left in memory and the stored
   files hold exactly the accepted rows (each once). *)
Theorem C03_flush_close_stores_all : forall H thr, 0 < H -> forall cfg ls s,
  brun H thr cfg binit ls = Some s ->
  forallb (fun l : label N batch => no_replay l && outcome_ok l) ls = true ->
  fix_drain cfg = true -> phase s = PClosed -> clean s = true -> inputs_ok s ->
  (forall t r, In (t, r) (dropped s) -> r <> DQueueFull) ->
  dropped s = [] /\ buffers s = [] /\ queue s = [] /\ busy s = [] /\
  Permutation (accepted s) (stored_items s) /\
  PermutationA row_equiv (flat_map (fun f => rows_of (snd (snd f))) (stored_kfiles s))
                         (flat_map rows_of (map it_b (accepted s))).
Proof. exact flush_close_stores_all. Qed.
Print Assumptions C03_flush_close_stores_all.

(* PRIMARY: the property for the code as it is.  For ALL interleavings of any number of writers,
   flush workers, the age flusher, FlushAll callers and Close (any label list without WAL replay
   and without injected storage failures), once Close has completed with no writer activity after
   it began and no queue overflow (C07's subject): every accepted row is stored exactly once; every
   written file lies in the directory of the hour of all its rows, is time-sorted, and a flush
   writes at most one file per hour; nothing is left in memory.  The only hypothesis on the inputs
   is that the accepted batches are well formed (int64 time column, equal column lengths, >= 1 row). *)
Theorem C03_accepted_rows_stored_once : forall H thr, 0 < H -> forall cfg ls s,
  brun H thr cfg binit ls = Some s ->
  forallb (fun l : label N batch => no_replay l && outcome_ok l) ls = true ->
  fix_drain cfg = true -> phase s = PClosed -> clean s = true -> inputs_ok s ->
  (forall t r, In (t, r) (dropped s) -> r <> DQueueFull) ->
  Permutation (accepted s) (stored_items s) /\
  PermutationA row_equiv (flat_map (fun f => rows_of (snd (snd f))) (stored_kfiles s)) (flat_map rows_of (map it_b (accepted s))) /\
  (forall r, In r (stored s) ->
     (forall it, In it (s_items r) -> it_key it = s_key r) /\ NoDup (map fst (s_files r)) /\ Forall (file_ok H) (s_files r)) /\
  buffers s = [] /\ queue s = [] /\ busy s = [] /\ dropped s = [].
Proof. exact accepted_rows_stored_once. Qed.
Print Assumptions C03_accepted_rows_stored_once.

(* non-vacuity: the hypotheses of the guarded theorem are met by a concrete run (the witness
   schedule, continued with the drain) that stores all four batches *)
Example C03_guarded_nonvacuous :
  exists s, brun Hreal thr_real (wit_cfg true) binit wit_labels_fixed = Some s /\
    forallb (fun l : label N batch => no_replay l && outcome_ok l) wit_labels_fixed = true /\
    phase s = PClosed /\ clean s = true /\ inputs_ok s /\ dropped s = [] /\ length (stored_items s) = 4%nat.
Proof. exact fixed_close_nonvacuous. Qed.

(* non-vacuity of the kernel hypotheses: a two-batch merge with a sparse column and a NULL *)
Example C03_merge_nonvacuous :
  let b1 := {| b_cols := [(time_name, {| c_ty := TInt; c_vals := [VZ (-1); VZ 5] |}); (vname, {| c_ty := TInt; c_vals := [VZ 7; VZ 8] |})];
               b_valid := [(vname, [true; false])] |} in
  let b2 := {| b_cols := [(time_name, {| c_ty := TInt; c_vals := [VZ 3600000000] |})]; b_valid := [] |} in
  exists files, flush_batches Hreal thr_real [b1; b2] = FOk files /\ map fst files = [-1; 0; 1] /\
    flat_map (fun f => col_cells (snd f) vname) files = [Some (VZ 7); None; None].
Proof. eexists. vm_compute. repeat split. Qed.
