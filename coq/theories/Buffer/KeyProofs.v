(* Buffer area: the buffer routing key (bufferSchemaKey, 5cfca39) is sound - two well-formed batches
   with the same key have the same (name, type) entries, in the plain "name:typ,..." form as well as
   in the length-prefixed form, and the two forms never coincide.  Hence batches that share a
   buffer agree on the type of every column (no mergeBatches type-assertion panic). *)
From Coq Require Import List ZArith NArith Bool Lia Permutation.
From Arc Require Import Buffer.Kernels Buffer.KernelProofs.
Import ListNotations.

Lemma app_sep {A} (c : A) : forall a a' x x', ~ In c a -> ~ In c a' -> a ++ c :: x = a' ++ c :: x' -> a = a' /\ x = x'.
Proof.
  induction a as [|h a IH]; intros [|h' a'] x x' Ha Ha' E; cbn in *.
  - inversion E; auto.
  - inversion E; subst. exfalso. apply Ha'. left. reflexivity.
  - inversion E; subst. exfalso. apply Ha. left. reflexivity.
  - inversion E; subst. destruct (IH a' x x') as [-> ->]; auto.
Qed.

Lemma app_sep_none {A} (c : A) a x a' : ~ In c a' -> a ++ c :: x = a' -> False.
Proof. intros H E. apply H. rewrite <- E. apply in_or_app. right. left. reflexivity. Qed.

Definition enc (e : name * ty) : list N := fst e ++ 58%N :: ty_tag (snd e).

Lemma join_sig_cons e r : join_sig (e :: r) = match r with [] => enc e | _ => enc e ++ 44%N :: join_sig r end.
Proof. destruct r; cbn [join_sig]; unfold enc; cbn; rewrite <- ?app_assoc; reflexivity. Qed.

Lemma tag_no (c : N) t : c = 44%N \/ c = 58%N -> ~ In c (ty_tag t).
Proof. intros [-> | ->]; destruct t; cbn; intuition discriminate. Qed.

Lemma ty_tag_inj t t' : ty_tag t = ty_tag t' -> t = t'.
Proof. destruct t, t'; cbn; intros E; try reflexivity; discriminate. Qed.

Lemma enc_inj e e' : enc e = enc e' -> e = e'.
Proof.
  unfold enc. intros E. apply (f_equal (@rev N)) in E. rewrite !rev_app_distr in E. cbn [rev] in E. rewrite <- !app_assoc in E. cbn in E.
  destruct (app_sep 58%N _ _ _ _ ltac:(rewrite <- in_rev; apply tag_no; auto) ltac:(rewrite <- in_rev; apply tag_no; auto) E) as [E1 E2].
  apply (f_equal (@rev N)) in E1, E2. rewrite !rev_involutive in E1, E2. apply ty_tag_inj in E1.
  destruct e, e'; cbn in *; congruence.
Qed.

Definition comma_free (n : name) : Prop := ~ In 44%N n.

Lemma enc_comma_free e : comma_free (fst e) -> ~ In 44%N (enc e).
Proof. intros H Hin. unfold enc in Hin. apply in_app_iff in Hin. destruct Hin as [Hin|[Hin|Hin]]; [auto|discriminate|eapply tag_no; [left; reflexivity|exact Hin]]. Qed.

Lemma join_sig_inj : forall l l', Forall (fun e => comma_free (fst e)) l -> Forall (fun e => comma_free (fst e)) l' ->
  join_sig l = join_sig l' -> l = l'.
Proof.
  induction l as [|e r IH]; intros [|e' r'] Hl Hl' E.
  - reflexivity.
  - exfalso. rewrite join_sig_cons in E. cbn in E. destruct r'; unfold enc in E; destruct (fst e'); discriminate.
  - exfalso. rewrite join_sig_cons in E. cbn in E. destruct r; unfold enc in E; destruct (fst e); discriminate.
  - inversion Hl; subst. inversion Hl'; subst. rewrite !join_sig_cons in E.
    pose proof (enc_comma_free e H1) as C1. pose proof (enc_comma_free e' H3) as C2.
    destruct r as [|e2 r], r' as [|e2' r'].
    + f_equal. apply enc_inj. exact E.
    + exfalso. symmetry in E. eapply app_sep_none; [exact C1|exact E].
    + exfalso. eapply app_sep_none; [exact C2|exact E].
    + destruct (app_sep 44%N _ _ _ _ C1 C2 E) as [E1 E2]. f_equal; [apply enc_inj; exact E1|apply IH; assumption].
Qed.

(* ---------- sorted_entries ---------- *)
Lemma insert_perm e l : Permutation (insert_by_name e l) (e :: l).
Proof.
  induction l as [|x r IH]; cbn; [reflexivity|]. destruct (bytes_ltb (fst e) (fst x)); [reflexivity|].
  rewrite IH. apply perm_swap.
Qed.
Lemma sort_entries_perm l : Permutation (fold_right insert_by_name [] l) l.
Proof. induction l; cbn; [reflexivity|]. rewrite insert_perm. constructor. exact IHl. Qed.

Lemma entries_of_lookup b n c : lookupn n (b_cols b) = Some c -> In (n, c_ty c) (sorted_entries (b_cols b)).
Proof.
  intros H. apply lookupn_in in H. unfold sorted_entries. eapply Permutation_in; [symmetry; apply sort_entries_perm|].
  apply in_map_iff. exists (n, c). split; [reflexivity|exact H].
Qed.
Lemma entries_to_lookup b n t : wf_batch b -> In (n, t) (sorted_entries (b_cols b)) -> exists c, lookupn n (b_cols b) = Some c /\ c_ty c = t.
Proof.
  intros Hb H. unfold sorted_entries in H. apply (Permutation_in _ (sort_entries_perm _)) in H.
  apply in_map_iff in H. destruct H as [[n' c] [E Hin]]. cbn in E. inversion E; subst. exists c. split; [|reflexivity].
  apply in_lookupn; [apply (wf_names _ Hb)|exact Hin].
Qed.

Lemma entries_agree b1 b2 : wf_batch b1 -> wf_batch b2 -> sorted_entries (b_cols b1) = sorted_entries (b_cols b2) -> types_agree [b1; b2].
Proof.
  intros H1 H2 E.
  assert (Hsame : forall x y, (x = b1 \/ x = b2) -> (y = b1 \/ y = b2) -> forall n c1 c2,
            lookupn n (b_cols x) = Some c1 -> lookupn n (b_cols y) = Some c2 -> c_ty c1 = c_ty c2).
  { intros x y Hx Hy n c1 c2 L1 L2.
    assert (Ex : sorted_entries (b_cols x) = sorted_entries (b_cols y)) by (destruct Hx as [-> | ->]; destruct Hy as [-> | ->]; congruence).
    assert (Wy : wf_batch y) by (destruct Hy as [-> | ->]; assumption).
    pose proof (entries_of_lookup x n c1 L1) as I1. rewrite Ex in I1.
    destruct (entries_to_lookup y n _ Wy I1) as [c [Lc Ec]]. congruence. }
  intros x y n c1 c2 Hx Hy. apply Hsame; [destruct Hx as [<-|[<-|[]]]; auto|destruct Hy as [<-|[<-|[]]]; auto].
Qed.

(* ---------- plain keys ---------- *)
Definition plain_batch (b : batch) : Prop := forallb (fun nc : name * col => name_plain (fst nc)) (b_cols b) = true.

Lemma name_plain_spec n : name_plain n = true -> sig_visible n = true /\ comma_free n.
Proof.
  unfold name_plain, sig_visible, comma_free. intros H. apply andb_true_iff in H. destruct H as [H1 H2]. split; [exact H1|].
  intros Hin. apply negb_true_iff in H2. assert (existsb (N.eqb 44) n = true) by (apply existsb_exists; exists 44%N; split; [exact Hin|reflexivity]). congruence.
Qed.

Lemma plain_signature b : plain_batch b -> column_signature b = join_sig (sorted_entries (b_cols b)) /\
  Forall (fun e => comma_free (fst e)) (sorted_entries (b_cols b)).
Proof.
  intros Hp. unfold plain_batch in Hp. rewrite forallb_forall in Hp. split.
  - unfold column_signature, sorted_entries. rewrite filter_all; [reflexivity|]. intros x Hx. apply name_plain_spec. apply Hp. exact Hx.
  - apply Forall_forall. intros e He. unfold sorted_entries in He. apply (Permutation_in _ (sort_entries_perm _)) in He.
    apply in_map_iff in He. destruct He as [nc [<- Hin]]. cbn. apply name_plain_spec. apply Hp. exact Hin.
Qed.

(* ---------- the length-prefixed form ---------- *)
Definition dval (l : list N) : nat := fold_left (fun a d => (10 * a + (N.to_nat d - 48))%nat) l 0%nat.

Lemma dec_aux_val : forall fuel n acc, (n < fuel)%nat ->
  fold_left (fun a d => (10 * a + (N.to_nat d - 48))%nat) (dec_bytes_aux fuel n acc) 0%nat
  = fold_left (fun a d => (10 * a + (N.to_nat d - 48))%nat) acc n.
Proof.
  induction fuel as [|f IH]; intros n acc Hn; [lia|]. cbn [dec_bytes_aux].
  assert (Hd : (N.to_nat (N.of_nat (48 + n mod 10)) - 48 = n mod 10)%nat) by (rewrite Nat2N.id; lia).
  destruct (Nat.eqb_spec (n / 10) 0) as [E|E].
  - cbn [fold_left]. rewrite Hd. f_equal. pose proof (Nat.div_mod n 10 ltac:(lia)). lia.
  - rewrite IH.
    + cbn [fold_left]. rewrite Hd. f_equal. pose proof (Nat.div_mod n 10 ltac:(lia)). lia.
    + pose proof (Nat.div_lt n 10). destruct n; [cbn in E; lia|]. specialize (H ltac:(lia) ltac:(lia)). lia.
Qed.

Lemma dec_bytes_inj n m : dec_bytes n = dec_bytes m -> n = m.
Proof.
  intros E. apply (f_equal dval) in E. unfold dval, dec_bytes in E. rewrite !dec_aux_val in E by lia. cbn in E. exact E.
Qed.

Lemma dec_aux_digits : forall fuel n acc, Forall (fun d => d <> 58%N) acc -> Forall (fun d => d <> 58%N) (dec_bytes_aux fuel n acc).
Proof.
  induction fuel as [|f IH]; intros n acc Ha; cbn [dec_bytes_aux]; [exact Ha|].
  assert (Hd : N.of_nat (48 + n mod 10) <> 58%N).
  { pose proof (Nat.mod_upper_bound n 10 ltac:(lia)). lia. }
  destruct (Nat.eqb (n / 10) 0); [constructor; assumption|]. apply IH. constructor; assumption.
Qed.
Lemma dec_no_colon n : ~ In 58%N (dec_bytes n).
Proof.
  intros Hin. pose proof (dec_aux_digits (S n) n [] ltac:(constructor)) as F. rewrite Forall_forall in F. exact (F _ Hin eq_refl).
Qed.

Definition enc2 (e : name * ty) : list N := dec_bytes (length (fst e)) ++ [58%N] ++ fst e ++ [58%N] ++ ty_tag (snd e) ++ [59%N].

Lemma tag_no59 t : ~ In 59%N (ty_tag t).
Proof. destruct t; cbn; intuition discriminate. Qed.

Lemma app_same_len {A} : forall (a a' x x' : list A), length a = length a' -> a ++ x = a' ++ x' -> a = a' /\ x = x'.
Proof.
  induction a as [|h a IH]; intros [|h' a'] x x' L E; try discriminate L.
  - split; [reflexivity|exact E].
  - injection L as L. injection E as Eh Et. destruct (IH a' x x' L Et) as [-> ->]. subst. split; reflexivity.
Qed.

Lemma enc2_inj : forall l l', flat_map enc2 l = flat_map enc2 l' -> l = l'.
Proof.
  induction l as [|e r IH]; intros [|e' r'] E; cbn [flat_map] in E.
  - reflexivity.
  - exfalso. unfold enc2 in E. destruct (dec_bytes (length (fst e'))) eqn:D; cbn in E; discriminate.
  - exfalso. unfold enc2 in E. destruct (dec_bytes (length (fst e))) eqn:D; cbn in E; discriminate.
  - unfold enc2 in E. rewrite <- !app_assoc in E. cbn [app] in E.
    destruct (app_sep 58%N _ _ _ _ (dec_no_colon _) (dec_no_colon _) E) as [E1 E2].
    apply dec_bytes_inj in E1.
    destruct (app_same_len _ _ _ _ E1 E2) as [En E4].
    inversion E4 as [E5].
    destruct (app_sep 59%N _ _ _ _ (tag_no59 _) (tag_no59 _) E5) as [Et Er].
    apply ty_tag_inj in Et. f_equal; [destruct e, e'; cbn in *; congruence|apply IH; exact Er].
Qed.

Lemma last_app' {A} (a b : list A) d : b <> [] -> last (a ++ b) d = last b d.
Proof.
  intros Hb. induction a as [|x a IH]; [reflexivity|]. cbn [app].
  destruct (a ++ b) eqn:E; [apply app_eq_nil in E; destruct E; congruence|].
  first [exact IH | cbn [last]; rewrite <- E; exact IH].
Qed.

Lemma flat_enc2_last l : l <> [] -> last (0%N :: flat_map enc2 l) 0%N = 59%N.
Proof.
  intros Hne. destruct (exists_last Hne) as [l0 [e ->]]. rewrite flat_map_app. cbn [flat_map]. rewrite app_nil_r.
  unfold enc2 at 2. rewrite !app_assoc. rewrite app_comm_cons. apply last_last.
Qed.

Lemma tag_last t : last (ty_tag t) 0%N <> 59%N /\ ty_tag t <> [].
Proof. destruct t; cbn; split; discriminate. Qed.

Lemma enc_last e : last (enc e) 0%N <> 59%N.
Proof.
  unfold enc. change (fst e ++ 58%N :: ty_tag (snd e)) with (fst e ++ ([58%N] ++ ty_tag (snd e))).
  rewrite app_assoc. rewrite last_app' by apply tag_last. apply tag_last.
Qed.

Lemma join_sig_last l : l <> [] -> last (join_sig l) 0%N <> 59%N.
Proof.
  induction l as [|e r IH]; [congruence|]. intros _. rewrite join_sig_cons. destruct r as [|e2 r]; [apply enc_last|].
  specialize (IH ltac:(discriminate)).
  assert (Hn : join_sig (e2 :: r) <> []).
  { rewrite join_sig_cons. unfold enc. destruct r; destruct (fst e2); discriminate. }
  change (enc e ++ 44%N :: join_sig (e2 :: r)) with (enc e ++ ([44%N] ++ join_sig (e2 :: r))). rewrite app_assoc.
  rewrite last_app' by exact Hn. exact IH.
Qed.

Theorem key_sound b1 b2 : wf_batch b1 -> wf_batch b2 -> buffer_schema_key b1 = buffer_schema_key b2 -> types_agree [b1; b2].
Proof.
  intros W1 W2 E. apply entries_agree; try assumption.
  assert (Hne : forall b, wf_batch b -> sorted_entries (b_cols b) <> []).
  { intros b Wb. destruct (wf_time _ Wb) as [tc [L _]]. pose proof (entries_of_lookup b _ _ L) as I. intros En. rewrite En in I. destruct I. }
  unfold buffer_schema_key in E.
  destruct (forallb _ (b_cols b1)) eqn:P1; destruct (forallb _ (b_cols b2)) eqn:P2.
  - destruct (plain_signature b1 P1) as [S1 F1]. destruct (plain_signature b2 P2) as [S2 F2]. rewrite S1, S2 in E.
    apply join_sig_inj; assumption.
  - exfalso. destruct (plain_signature b1 P1) as [S1 _]. rewrite S1 in E.
    apply (join_sig_last _ (Hne b1 W1)). rewrite E. apply (flat_enc2_last _ (Hne b2 W2)).
  - exfalso. destruct (plain_signature b2 P2) as [S2 _]. rewrite S2 in E.
    apply (join_sig_last _ (Hne b2 W2)). rewrite <- E. apply (flat_enc2_last _ (Hne b1 W1)).
  - inversion E as [E']. apply enc2_inj. exact E'.
Qed.
