(* Buffer area: proofs about the pure kernels of Kernels.v. *)
From Coq Require Import List ZArith NArith Bool Lia Permutation Sorting.Sorted Sorting.Mergesort SetoidList SetoidPermutation RelationClasses.
From Arc Require Import Buffer.Kernels.
Import ListNotations.
Open Scope Z_scope.

(* ---------------------------------------------------------------- *)
Lemma bucket_floor : forall H t, 0 < H ->
  let b := hour_bucket_id H t in b * H <= t < (b + 1) * H.
Proof.
  intros H t HH. unfold hour_bucket_id. cbv zeta.
  pose proof (Z.quot_rem' t H) as E.
  destruct (Z.ltb_spec t 0) as [Hneg|Hpos]; cbn [andb].
  - assert (B: - H < Z.rem t H <= 0).
    { pose proof (Z.rem_bound_pos_neg t H HH ltac:(lia)). lia. }
    destruct (Z.eqb_spec (Z.rem t H) 0) as [E0|E0]; cbn [negb]; nia.
  - pose proof (Z.rem_bound_pos t H Hpos HH) as B. nia.
Qed.

Lemma bucket_unique : forall H t b, 0 < H -> b * H <= t < (b + 1) * H -> hour_bucket_id H t = b.
Proof.
  intros H t b HH Hb. pose proof (bucket_floor H t HH) as F. cbv zeta in F. nia.
Qed.

(* ---------------------------------------------------------------- *)
Definition hb := hour_bucket_id.

Lemma group_loop_fold H ts : forall i last bs,
  (match last with Some l => True | None => True end) ->
  group_loop H ts i last bs =
  fold_left (fun bs p => bk_add (hb H (snd p)) (fst p) bs) (combine (seq i (length ts)) ts) bs.
Proof.
  induction ts as [|t r IH]; intros i last bs _; cbn [group_loop length seq combine fold_left]; [reflexivity|].
  destruct last as [l|].
  - destruct (Z.eqb_spec (hour_bucket_id H t) l) as [E|E].
    + rewrite IH by exact I. unfold hb. cbn [fst snd]. rewrite E. reflexivity.
    + rewrite IH by exact I. reflexivity.
  - rewrite IH by exact I. reflexivity.
Qed.

(* invariant of the accumulated (reversed) buckets after indices [0, k) *)
Record ginv (H : Z) (ts : list Z) (k : nat) (bs : list (Z * list nat)) : Prop := {
  g_nodup : NoDup (map fst bs);
  g_perm : Permutation (concat (map snd bs)) (seq 0 k);
  g_sorted : forall id l, In (id, l) bs -> StronglySorted (fun a b => (b < a)%nat) l /\ l <> [];
  g_id : forall id l j, In (id, l) bs -> In j l -> hb H (nth j ts 0) = id
}.

Lemma bk_add_fst id i bs x : In x (map fst (bk_add id i bs)) <-> x = id \/ In x (map fst bs).
Proof.
  induction bs as [|[id' l] r IH]; cbn; [intuition|].
  destruct (Z.eqb_spec id' id); cbn; [subst; intuition|]. rewrite IH. intuition.
Qed.

Lemma bk_add_nodup id i bs : NoDup (map fst bs) -> NoDup (map fst (bk_add id i bs)).
Proof.
  induction bs as [|[id' l] r IH]; cbn; intros Hn.
  - constructor; [intros []|constructor].
  - inversion Hn; subst. destruct (Z.eqb_spec id' id); cbn; [constructor; assumption|].
    constructor; [|apply IH; assumption].
    rewrite bk_add_fst. intros [E|E]; [congruence|contradiction].
Qed.

Lemma bk_add_perm id i bs : Permutation (concat (map snd (bk_add id i bs))) (i :: concat (map snd bs)).
Proof.
  induction bs as [|[id' l] r IH]; cbn; [reflexivity|].
  destruct (Z.eqb_spec id' id); cbn; [reflexivity|].
  rewrite IH. symmetry. apply Permutation_middle.
Qed.

Lemma bk_add_in id i bs id2 l2 : In (id2, l2) (bk_add id i bs) ->
  In (id2, l2) bs \/ (id2 = id /\ ((l2 = [i] /\ ~ In id (map fst bs)) \/ exists l, l2 = i :: l /\ In (id, l) bs)).
Proof.
  induction bs as [|[id' l] r IH]; cbn.
  - intros [E|[]]. inversion E; subst. right. split; [reflexivity|]. left. split; [reflexivity|tauto].
  - destruct (Z.eqb_spec id' id); cbn.
    + subst. intros [E|E]; [|tauto]. inversion E; subst. right. split; [reflexivity|]. right. exists l. tauto.
    + intros [E|E]; [left; left; exact E|].
      destruct (IH E) as [?|[-> [[-> Hn]|[l0 [-> Hl]]]]]; [tauto| |].
      * right. split; [reflexivity|]. left. split; [reflexivity|]. intros [?|?]; [congruence|tauto].
      * right. split; [reflexivity|]. right. exists l0. tauto.
Qed.

Lemma ginv_step H ts k bs : (k < length ts)%nat -> ginv H ts k bs ->
  ginv H ts (S k) (bk_add (hb H (nth k ts 0)) k bs).
Proof.
  intros Hk [Hn Hp Hs Hi]. split.
  - apply bk_add_nodup; exact Hn.
  - rewrite bk_add_perm, Hp. rewrite seq_S. cbn. apply Permutation_cons_append.
  - intros id l Hin. destruct (bk_add_in _ _ _ _ _ Hin) as [?|[-> [[-> _]|[l0 [-> Hl]]]]].
    + eapply Hs; eassumption.
    + split; [repeat constructor|discriminate].
    + split; [|discriminate]. destruct (Hs _ _ Hl) as [Hss _]. constructor; [exact Hss|].
      apply Forall_forall. intros x Hx.
      assert (In x (seq 0 k)).
      { eapply Permutation_in; [exact Hp|]. apply in_concat. exists l0. split; [|exact Hx].
        apply in_map_iff. exists (hb H (nth k ts 0), l0). tauto. }
      apply in_seq in H0. lia.
  - intros id l j Hin Hj. destruct (bk_add_in _ _ _ _ _ Hin) as [?|[-> [[-> _]|[l0 [-> Hl]]]]].
    + eapply Hi; eassumption.
    + destruct Hj as [<-|[]]. reflexivity.
    + destruct Hj as [<-|Hj]; [reflexivity|]. eapply Hi; eassumption.
Qed.

Lemma fold_ginv H ts : forall (suffix pre : list Z) bs,
  ts = pre ++ suffix ->
  ginv H ts (length pre) bs ->
  ginv H ts (length ts) (fold_left (fun bs p => bk_add (hb H (snd p)) (fst p) bs) (combine (seq (length pre) (length suffix)) suffix) bs).
Proof.
  induction suffix as [|t r IH]; intros pre bs Hts Hinv; cbn [length seq combine fold_left].
  - rewrite app_nil_r in Hts. subst. exact Hinv.
  - cbn [fst snd]. specialize (IH (pre ++ [t])). rewrite app_length in IH. cbn [length] in IH.
    replace (length pre + 1)%nat with (S (length pre)) in IH by lia.
    apply IH.
    + rewrite <- app_assoc. exact Hts.
    + assert (nth (length pre) ts 0 = t).
      { rewrite Hts. rewrite app_nth2 by lia. rewrite Nat.sub_diag. reflexivity. }
      rewrite <- H0. apply ginv_step; [|exact Hinv]. rewrite Hts, app_length. cbn. lia.
Qed.

Lemma ss_app {A} (R : A -> A -> Prop) l1 l2 : StronglySorted R l1 -> StronglySorted R l2 ->
  (forall x y, In x l1 -> In y l2 -> R x y) -> StronglySorted R (l1 ++ l2).
Proof.
  induction l1 as [|a l1 IH]; cbn; intros H1 H2 Hc; [exact H2|].
  inversion H1; subst. constructor.
  - apply IH; [assumption|assumption|intros; apply Hc; [right|]; assumption].
  - apply Forall_app. split; [assumption|]. apply Forall_forall. intros y Hy. apply Hc; [left; reflexivity|exact Hy].
Qed.

Lemma ss_rev l : StronglySorted (fun a b => (b < a)%nat) l -> StronglySorted lt (rev l).
Proof.
  induction 1; cbn; [constructor|]. apply ss_app; [assumption|repeat constructor|].
  intros x y Hx [<-|[]]. apply in_rev in Hx. rewrite Forall_forall in H0. apply H0. exact Hx.
Qed.

Lemma group_partition H ts :
  let g := group_by_hour H ts in
  NoDup (map bk_id g) /\
  Permutation (concat (map bk_idx g)) (seq 0 (length ts)) /\
  (forall b, In b g -> StronglySorted lt (bk_idx b) /\ bk_idx b <> [] /\
      forall j, In j (bk_idx b) -> (j < length ts)%nat /\ hb H (nth j ts 0) = bk_id b).
Proof.
  cbv zeta. unfold group_by_hour. rewrite group_loop_fold by exact I.
  pose proof (fold_ginv H ts ts [] [] eq_refl) as G. cbn [length] in G.
  assert (G0 : ginv H ts 0 []).
  { split; cbn; [constructor|reflexivity|intros ? ? []|intros ? ? ? []]. }
  specialize (G G0). remember (fold_left _ _ _) as bs. clear Heqbs G0.
  destruct G as [Hn Hp Hs Hi].
  assert (Hperm : Permutation (concat (map bk_idx (map (fun p => {| bk_id := fst p; bk_idx := rev (snd p) |}) bs))) (seq 0 (length ts))).
  { rewrite <- Hp. clear. induction bs as [|[id l] r IH]; cbn; [reflexivity|].
    apply Permutation_app; [symmetry; apply Permutation_rev|exact IH]. }
  split; [|split].
  - rewrite map_map. cbn. exact Hn.
  - exact Hperm.
  - intros b Hb. apply in_map_iff in Hb. destruct Hb as [[id l] [<- Hin]]. cbn.
    destruct (Hs _ _ Hin) as [Hss Hne]. split; [|split].
    + clear -Hss. apply ss_rev. exact Hss.
    + intros E. apply Hne. destruct l; [reflexivity|]. cbn in E. destruct (rev l); discriminate.
    + intros j Hj. apply in_rev in Hj. split; [|eapply Hi; eassumption].
      assert (In j (seq 0 (length ts))).
      { eapply Permutation_in; [exact Hp|]. apply in_concat. exists l. split; [|exact Hj].
        apply in_map_iff. exists (id, l). tauto. }
      apply in_seq in H0. lia.
Qed.

(* ---------------------------------------------------------------- *)


Lemma ss_impl {A} (R R' : A -> A -> Prop) l : (forall x y, In x l -> In y l -> R x y -> R' x y) ->
  StronglySorted R l -> StronglySorted R' l.
Proof.
  intros Hi Hs. induction Hs; [constructor|]. constructor.
  - apply IHHs. intros; apply Hi; try (right; assumption); assumption.
  - rewrite Forall_forall in *. intros y Hy. apply Hi; [left; reflexivity|right; exact Hy|apply H; exact Hy].
Qed.

Lemma ss_map {A B} (f : A -> B) (R : B -> B -> Prop) l :
  StronglySorted (fun x y => R (f x) (f y)) l -> StronglySorted R (map f l).
Proof.
  induction 1; cbn; constructor; [assumption|]. rewrite Forall_forall in *.
  intros y Hy. apply in_map_iff in Hy. destruct Hy as [x [<- Hx]]. apply H0; exact Hx.
Qed.

Lemma ss_filter {A} (R : A -> A -> Prop) p l : StronglySorted R l -> StronglySorted R (filter p l).
Proof.
  induction 1; cbn; [constructor|]. destruct (p a); [|assumption]. constructor; [assumption|].
  rewrite Forall_forall in *. intros y Hy. apply filter_In in Hy. apply H0; tauto.
Qed.

Lemma ss_nodup_strict {A B} (R : A -> A -> Prop) (f : A -> B) l : StronglySorted R l -> NoDup (map f l) ->
  StronglySorted (fun x y => R x y /\ f x <> f y) l.
Proof.
  induction 1; cbn; intros Hn; [constructor|]. inversion Hn; subst. constructor; [apply IHStronglySorted; assumption|].
  rewrite Forall_forall in *. intros y Hy. split; [apply H0; exact Hy|].
  intros E. apply H3. rewrite E. apply in_map. exact Hy.
Qed.

Definition tlt (ts : list Z) (i j : nat) : Prop :=
  nth i ts 0 < nth j ts 0 \/ (nth i ts 0 = nth j ts 0 /\ (i < j)%nat).

Definition stable_sorted (ts : list Z) (p : list nat) : Prop :=
  Permutation p (seq 0 (length ts)) /\ StronglySorted (tlt ts) p.

Lemma in_combine_seq_l (ts : list Z) : forall k t i, In (t, i) (combine ts (seq k (length ts))) ->
  (k <= i)%nat /\ nth (i - k) ts 0 = t.
Proof.
  induction ts as [|a r IH]; cbn; intros k t i; [intros []|].
  intros [E|Hin].
  - inversion E; subst. rewrite Nat.sub_diag. split; [lia|reflexivity].
  - destruct (IH _ _ _ Hin) as [Hle Hn]. split; [lia|].
    replace (i - k)%nat with (S (i - S k)) by lia. exact Hn.
Qed.

Lemma map_snd_combine_seq {A} (ts : list A) k : map snd (combine ts (seq k (length ts))) = seq k (length ts).
Proof. revert k. induction ts; cbn; intros; [reflexivity|]. rewrite IHts. reflexivity. Qed.

Lemma leb_trans : RelationClasses.Transitive (fun x y => is_true (TimeIdxOrder.leb x y)).
Proof.
  intros [a i] [b j] [c k]. unfold TimeIdxOrder.leb, is_true; cbn [fst snd].
  rewrite !orb_true_iff, !andb_true_iff, !Z.ltb_lt, !Z.eqb_eq, !Nat.leb_le. lia.
Qed.

Lemma sort_path_sorted ts : stable_sorted ts (permute_by_time_sort ts).
Proof.
  unfold permute_by_time_sort. set (l := combine ts (seq 0 (length ts))).
  pose proof (TimeIdxSort.Permuted_sort l) as Hp.
  pose proof (TimeIdxSort.StronglySorted_sort l leb_trans) as Hs.
  assert (Hsnd : Permutation (map snd (TimeIdxSort.sort l)) (seq 0 (length ts))).
  { rewrite <- Hp. unfold l. rewrite map_snd_combine_seq. reflexivity. }
  split; [exact Hsnd|].
  apply ss_map.
  assert (Hnd : NoDup (map snd (TimeIdxSort.sort l))).
  { eapply Permutation_NoDup; [symmetry; exact Hsnd|apply seq_NoDup]. }
  pose proof (ss_nodup_strict _ snd _ Hs Hnd) as Hs2.
  eapply ss_impl; [|exact Hs2]. cbv beta.
  intros [a i] [b j] Hx Hy [Hle Hne]. cbn [snd] in *.
  assert (Hx' : In (a, i) l) by (eapply Permutation_in; [symmetry; exact Hp|exact Hx]).
  assert (Hy' : In (b, j) l) by (eapply Permutation_in; [symmetry; exact Hp|exact Hy]).
  apply in_combine_seq_l in Hx'. apply in_combine_seq_l in Hy'.
  rewrite Nat.sub_0_r in *. destruct Hx' as [_ <-]. destruct Hy' as [_ <-].
  unfold tlt. unfold TimeIdxOrder.leb, is_true in Hle. cbn [fst snd] in Hle.
  rewrite orb_true_iff, andb_true_iff, Z.ltb_lt, Z.eqb_eq, Nat.leb_le in Hle. lia.
Qed.

(* ---------------------------------------------------------------- *)
(* ---- the bias ---- *)
Lemma land_small_pow2 u : 0 <= u < two63 -> Z.land u two63 = 0.
Proof.
  intros Hu. apply Z.bits_inj'. intros n Hn. rewrite Z.land_spec, Z.bits_0.
  change two63 with (2 ^ 63). rewrite Z.pow2_bits_eqb by lia.
  destruct (Z.eqb_spec 63 n) as [<-|]; [|apply andb_false_r].
  rewrite andb_true_r. destruct (Z.eq_dec u 0) as [->|]; [apply Z.bits_0|].
  apply Z.bits_above_log2; [lia|]. apply Z.log2_lt_pow2; [lia|]. change (2 ^ 63) with two63. lia.
Qed.

Lemma radix_bias_spec t : - two63 <= t < two63 -> radix_bias t = t + two63.
Proof.
  intros Ht. unfold radix_bias.
  destruct (Z_lt_le_dec t 0) as [Hneg|Hpos].
  - assert (E : t mod two64 = (t + two63) + two63).
    { symmetry. rewrite <- (Z.mod_unique_pos t two64 (-1) (t + two64)); unfold two63, two64 in *; lia. }
    rewrite E. rewrite (Z.add_nocarry_lxor (t + two63) two63) by (apply land_small_pow2; lia).
    rewrite Z.lxor_assoc, Z.lxor_nilpotent, Z.lxor_0_r. reflexivity.
  - rewrite Z.mod_small by (unfold two63, two64 in *; lia).
    symmetry. apply Z.add_nocarry_lxor. apply land_small_pow2. lia.
Qed.

(* ---- digits ---- *)
Definition low (s k : Z) : Z := k mod 2 ^ s.

Lemma digit_spec s k : 0 <= s -> digit s k = (k / 2 ^ s) mod 256.
Proof.
  intros Hs. unfold digit. rewrite Z.shiftr_div_pow2 by exact Hs.
  change 255 with (Z.ones 8). rewrite Z.land_ones by lia. reflexivity.
Qed.

Lemma digit_range s k : 0 <= s -> 0 <= digit s k < 256.
Proof. intros Hs. rewrite digit_spec by exact Hs. apply Z.mod_pos_bound. lia. Qed.

Lemma low_step s k : 0 <= s -> low (s + 8) k = low s k + 2 ^ s * digit s k.
Proof.
  intros Hs. unfold low. rewrite digit_spec by exact Hs.
  rewrite Z.pow_add_r by lia. change (2 ^ 8) with 256.
  apply Z.rem_mul_r; [|lia]. pose proof (Z.pow_pos_nonneg 2 s); lia.
Qed.

Lemma low_range s k : 0 <= s -> 0 <= low s k < 2 ^ s.
Proof. intros. unfold low. apply Z.mod_pos_bound. apply Z.pow_pos_nonneg; lia. Qed.

(* order on (index, key) pairs by the low [s] bits of the key, ties by index *)
Definition rlow (s : Z) (x y : nat * Z) : Prop :=
  low s (snd x) < low s (snd y) \/ (low s (snd x) = low s (snd y) /\ (fst x < fst y)%nat).

(* ---- stable distribution ---- *)
Lemma filter_or_perm {A} (p q : A -> bool) l : (forall x, In x l -> p x = true -> q x = true -> False) ->
  Permutation (filter p l ++ filter q l) (filter (fun x => p x || q x) l).
Proof.
  induction l as [|a l IH]; cbn; intros Hd; [reflexivity|].
  assert (IH' := IH (fun x Hx => Hd x (or_intror Hx))).
  destruct (p a) eqn:Ep, (q a) eqn:Eq; cbn.
  - exfalso. eapply Hd; [left; reflexivity|exact Ep|exact Eq].
  - constructor. exact IH'.
  - rewrite <- Permutation_middle. constructor. exact IH'.
  - exact IH'.
Qed.

Lemma distribute_perm {A} (dg : A -> Z) (ds : list Z) (l : list A) : NoDup ds ->
  Permutation (flat_map (fun d => filter (fun x => dg x =? d) l) ds) (filter (fun x => existsb (fun d => dg x =? d) ds) l).
Proof.
  induction ds as [|d ds IH]; cbn; intros Hn.
  - induction l; cbn; [reflexivity|assumption].
  - inversion Hn; subst. rewrite IH by assumption. apply filter_or_perm.
    intros x _ E1 E2. apply Z.eqb_eq in E1. subst. apply existsb_exists in E2.
    destruct E2 as [d' [Hin E]]. apply Z.eqb_eq in E. subst. contradiction.
Qed.

Lemma filter_all {A} (p : A -> bool) l : (forall x, In x l -> p x = true) -> filter p l = l.
Proof.
  induction l as [|a l IH]; cbn; intros H; [reflexivity|]. rewrite (H a (or_introl eq_refl)).
  f_equal. apply IH. intros; apply H; right; assumption.
Qed.

Lemma distribute_sorted {A} (dg : A -> Z) (R : A -> A -> Prop) (ds : list Z) (l : list A) :
  StronglySorted Z.lt ds -> StronglySorted R l ->
  StronglySorted (fun x y => dg x < dg y \/ (dg x = dg y /\ R x y))
                 (flat_map (fun d => filter (fun x => dg x =? d) l) ds).
Proof.
  intros Hds Hl. induction Hds as [|d ds Hds IH Hall]; cbn; [constructor|].
  apply ss_app.
  - eapply ss_impl; [|apply ss_filter; exact Hl]. cbv beta. intros x y Hx Hy HR.
    apply filter_In in Hx. apply filter_In in Hy. destruct Hx as [_ Ex]. destruct Hy as [_ Ey].
    apply Z.eqb_eq in Ex. apply Z.eqb_eq in Ey. right. split; [congruence|exact HR].
  - exact IH.
  - intros x y Hx Hy. apply filter_In in Hx. destruct Hx as [_ Ex]. apply Z.eqb_eq in Ex.
    apply in_flat_map in Hy. destruct Hy as [d' [Hd' Hy]]. apply filter_In in Hy. destruct Hy as [_ Ey].
    apply Z.eqb_eq in Ey. rewrite Forall_forall in Hall. specialize (Hall d' Hd'). left. lia.
Qed.

Lemma digits256_sorted : StronglySorted Z.lt digits256.
Proof.
  unfold digits256. apply ss_map.
  assert (forall k n, StronglySorted (fun x y => Z.of_nat x < Z.of_nat y) (seq k n)).
  { intros k n. revert k. induction n; intros k; cbn; constructor; [apply IHn|].
    apply Forall_forall. intros y Hy. apply in_seq in Hy. lia. }
  apply H.
Qed.

Lemma digits256_in d : 0 <= d < 256 -> In d digits256.
Proof.
  intros Hd. unfold digits256. apply in_map_iff. exists (Z.to_nat d). split; [lia|]. apply in_seq. lia.
Qed.

Lemma digits256_nodup : NoDup digits256.
Proof.
  pose proof digits256_sorted as H. induction H; constructor; [|assumption].
  intros Hin. rewrite Forall_forall in H0. specialize (H0 a Hin). lia.
Qed.

(* the tagged formulation of the model equals the plain one *)
Lemma tagged_filter s (src : list (nat * Z)) d :
  map snd (filter (fun q : Z * (nat * Z) => fst q =? d) (map (fun p => (digit s (snd p), p)) src))
  = filter (fun p => digit s (snd p) =? d) src.
Proof.
  induction src as [|a r IH]; cbn; [reflexivity|]. destruct (digit s (snd a) =? d); cbn; rewrite IH; reflexivity.
Qed.

Lemma radix_pass_spec s src : 0 <= s ->
  StronglySorted (rlow s) src ->
  Permutation (radix_pass s src) src /\ StronglySorted (rlow (s + 8)) (radix_pass s src).
Proof.
  intros Hs Hss. unfold radix_pass. destruct src as [|s0 r]; [split; [reflexivity|constructor]|].
  set (src := s0 :: r) in *.
  destruct (forallb _ _) eqn:Eall.
  - split; [reflexivity|].
    rewrite forallb_forall in Eall.
    assert (Hd : forall x, In x src -> digit s (snd x) = digit s (snd s0)).
    { intros x Hx. specialize (Eall (digit s (snd x), x)). cbn [fst] in Eall. apply Z.eqb_eq. apply Eall.
      apply in_map_iff. exists x. tauto. }
    eapply ss_impl; [|exact Hss]. intros x y Hx Hy HR. unfold rlow in *.
    rewrite !low_step by exact Hs. rewrite (Hd x Hx), (Hd y Hy). lia.
  - clear Eall.
    assert (Eq : flat_map (fun d => map snd (filter (fun q : Z * (nat * Z) => fst q =? d) (map (fun p => (digit s (snd p), p)) src))) digits256
                 = flat_map (fun d => filter (fun p => digit s (snd p) =? d) src) digits256).
    { apply flat_map_ext. intros d. apply tagged_filter. }
    rewrite Eq. split.
    + rewrite (distribute_perm (fun p => digit s (snd p)) digits256 src digits256_nodup).
      rewrite filter_all; [reflexivity|]. intros x _. apply existsb_exists. exists (digit s (snd x)).
      split; [apply digits256_in; apply digit_range; exact Hs|apply Z.eqb_refl].
    + eapply ss_impl; [|apply (distribute_sorted (fun p => digit s (snd p)) (rlow s) digits256 src digits256_sorted Hss)].
      cbv beta. intros x y _ _ HR. unfold rlow in *. rewrite !low_step by exact Hs.
      pose proof (low_range s (snd x) Hs). pose proof (low_range s (snd y) Hs).
      pose proof (digit_range s (snd x) Hs). pose proof (digit_range s (snd y) Hs).
      assert (0 < 2 ^ s) by (apply Z.pow_pos_nonneg; lia). nia.
Qed.

Lemma radix_fold_spec (shifts : list Z) : forall s src,
  0 <= s -> StronglySorted (rlow s) src ->
  (forall k, (k < length shifts)%nat -> nth_error shifts k = Some (s + 8 * Z.of_nat k)) ->
  let out := fold_left (fun src sh => radix_pass sh src) shifts src in
  Permutation out src /\ StronglySorted (rlow (s + 8 * Z.of_nat (length shifts))) out.
Proof.
  induction shifts as [|sh r IH]; intros s src Hs Hss Hsh; cbn [fold_left length].
  - cbv zeta. replace (s + 8 * Z.of_nat 0) with s by lia. split; [reflexivity|exact Hss].
  - cbv zeta. assert (sh = s) by (specialize (Hsh 0%nat ltac:(cbn; lia)); cbn in Hsh; inversion Hsh; lia). subst sh.
    destruct (radix_pass_spec s src Hs Hss) as [Hp Hs'].
    specialize (IH (s + 8) (radix_pass s src) ltac:(lia) Hs').
    destruct IH as [Hp2 Hs2].
    + intros k Hk. specialize (Hsh (S k) ltac:(cbn; lia)). cbn in Hsh. rewrite Hsh. f_equal. lia.
    + split; [rewrite Hp2; exact Hp|].
      replace (s + 8 * Z.of_nat (S (length r))) with (s + 8 + 8 * Z.of_nat (length r)) by lia. exact Hs2.
Qed.

Lemma combine_seq_fst {A} (l : list A) k : map fst (combine (seq k (length l)) l) = seq k (length l).
Proof. revert k. induction l; cbn; intros; [reflexivity|]. rewrite IHl. reflexivity. Qed.

Lemma in_combine_seq_r {A} (d : A) (l : list A) : forall k i x, In (i, x) (combine (seq k (length l)) l) ->
  (k <= i)%nat /\ nth (i - k) l d = x.
Proof.
  induction l as [|a r IH]; cbn; intros k i x; [intros []|]. intros [E|Hin].
  - inversion E; subst. rewrite Nat.sub_diag. split; [lia|reflexivity].
  - destruct (IH _ _ _ Hin) as [Hle Hn]. split; [lia|]. replace (i - k)%nat with (S (i - S k)) by lia. exact Hn.
Qed.

Definition int64 (t : Z) : Prop := - two63 <= t < two63.

Lemma radix_path_sorted ts : Forall int64 ts -> stable_sorted ts (radix_permute_by_time ts).
Proof.
  intros Hr. unfold radix_permute_by_time.
  set (src := combine (seq 0 (length ts)) (map radix_bias ts)).
  assert (Hlen : length (map radix_bias ts) = length ts) by apply map_length.
  assert (H0 : StronglySorted (rlow 0) src).
  { unfold src. rewrite <- Hlen. generalize (map radix_bias ts) as ks. intros ks. generalize 0%nat as k.
    induction ks as [|a r IH]; intros k; cbn; constructor; [apply IH|].
    apply Forall_forall. intros [i x] Hin. apply (in_combine_seq_r 0) in Hin. unfold rlow, low. cbn [fst snd].
    rewrite !Z.mod_1_r. right. split; [reflexivity|lia]. }
  destruct (radix_fold_spec radix_shifts 0 src ltac:(lia) H0) as [Hp Hs].
  { intros k Hk. do 8 (destruct k as [|k]; [reflexivity|]). cbn in Hk. lia. }
  cbv zeta in Hp, Hs. change (0 + 8 * Z.of_nat (length radix_shifts)) with 64 in Hs.
  set (out := fold_left _ _ _) in *.
  split.
  - rewrite Hp. unfold src. rewrite <- Hlen at 1. rewrite combine_seq_fst. rewrite Hlen. reflexivity.
  - apply ss_map. eapply ss_impl; [|exact Hs]. cbv beta. intros [i x] [j y] Hx Hy HR.
    assert (Hx' : In (i, x) src) by (eapply Permutation_in; [exact Hp|exact Hx]).
    assert (Hy' : In (j, y) src) by (eapply Permutation_in; [exact Hp|exact Hy]).
    unfold src in Hx', Hy'. rewrite <- Hlen in Hx', Hy'.
    pose proof (in_combine_seq_r 0 _ _ _ _ Hx') as [_ Ex]. pose proof (in_combine_seq_r 0 _ _ _ _ Hy') as [_ Ey].
    rewrite Nat.sub_0_r in *.
    assert (Hi : (i < length ts)%nat).
    { apply in_combine_l in Hx'. apply in_seq in Hx'. lia. }
    assert (Hj : (j < length ts)%nat).
    { apply in_combine_l in Hy'. apply in_seq in Hy'. lia. }
    rewrite Forall_forall in Hr.
    assert (Bi : int64 (nth i ts 0)) by (apply Hr; apply nth_In; exact Hi).
    assert (Bj : int64 (nth j ts 0)) by (apply Hr; apply nth_In; exact Hj).
    change 0 with (radix_bias 0 - two63) in Ex, Ey.
    assert (Ex2 : x = radix_bias (nth i ts 0)).
    { rewrite <- Ex. erewrite nth_indep by (rewrite map_length; exact Hi). rewrite (map_nth radix_bias). reflexivity. }
    assert (Ey2 : y = radix_bias (nth j ts 0)).
    { rewrite <- Ey. erewrite nth_indep by (rewrite map_length; exact Hj). rewrite (map_nth radix_bias). reflexivity. }
    unfold rlow, low in HR. cbn [fst snd] in *. unfold tlt.
    rewrite Ex2, Ey2 in HR. rewrite !radix_bias_spec in HR by assumption.
    unfold int64 in Bi, Bj. change (2 ^ 64) with two64 in HR.
    rewrite !Z.mod_small in HR by (unfold two63, two64 in *; lia). lia.
Qed.

(* ---------------------------------------------------------------- *)
Lemma bytes_eqb_eq a b : bytes_eqb a b = true <-> a = b.
Proof.
  revert b. induction a as [|x a IH]; destruct b as [|y b]; cbn; try (split; [discriminate|discriminate]); [tauto|].
  rewrite andb_true_iff, N.eqb_eq, IH. split; [intros [-> ->]; reflexivity|intros E; inversion E; tauto].
Qed.
Lemma name_eqb_refl n : name_eqb n n = true.
Proof. apply bytes_eqb_eq. reflexivity. Qed.
Lemma name_eqb_spec a b : reflect (a = b) (name_eqb a b).
Proof. apply iff_reflect. symmetry. apply bytes_eqb_eq. Qed.

Lemma lookupn_in {V} n (l : list (name * V)) v : lookupn n l = Some v -> In (n, v) l.
Proof.
  induction l as [|[k x] r IH]; cbn; [discriminate|]. destruct (name_eqb_spec n k) as [->|].
  - intros E; inversion E; left; reflexivity.
  - intros E; right; apply IH; exact E.
Qed.
Lemma lookupn_none {V} n (l : list (name * V)) : lookupn n l = None <-> ~ In n (map fst l).
Proof.
  induction l as [|[k x] r IH]; cbn; [tauto|]. destruct (name_eqb_spec n k) as [->|Hne].
  - split; [discriminate|]. intros H; exfalso; apply H; left; reflexivity.
  - rewrite IH. split; [intros H [E|E]; [congruence|tauto]|tauto].
Qed.
Lemma in_lookupn {V} n (l : list (name * V)) v : NoDup (map fst l) -> In (n, v) l -> lookupn n l = Some v.
Proof.
  induction l as [|[k x] r IH]; cbn; [tauto|]. intros Hn [E|Hin].
  - inversion E; subst. rewrite name_eqb_refl. reflexivity.
  - inversion Hn; subst. destruct (name_eqb_spec n k) as [->|Hne].
    + exfalso. apply H1. apply in_map_iff. exists (k, v). tauto.
    + apply IH; assumption.
Qed.
Lemma lookupn_map {V W} (g : name -> V -> W) n (l : list (name * V)) :
  lookupn n (map (fun p => (fst p, g (fst p) (snd p))) l) = option_map (g n) (lookupn n l).
Proof.
  induction l as [|[k x] r IH]; cbn; [reflexivity|]. destruct (name_eqb_spec n k) as [->|]; [reflexivity|exact IH].
Qed.
Lemma lookupn_app {V} n (a b : list (name * V)) :
  lookupn n (a ++ b) = match lookupn n a with Some v => Some v | None => lookupn n b end.
Proof. induction a as [|[k x] r IH]; cbn; [reflexivity|]. destruct (name_eqb n k); [reflexivity|exact IH]. Qed.
Lemma lookupn_filter {V} (p : name * V -> bool) n (l : list (name * V)) : NoDup (map fst l) ->
  lookupn n (filter p l) = match lookupn n l with Some v => if p (n, v) then Some v else None | None => None end.
Proof.
  induction l as [|[k x] r IH]; cbn; intros Hn; [reflexivity|]. inversion Hn; subst.
  destruct (name_eqb_spec n k) as [->|Hne].
  - destruct (p (k, x)) eqn:Ep; cbn; [rewrite name_eqb_refl; reflexivity|].
    rewrite IH by assumption. assert (lookupn k r = None) by (apply lookupn_none; assumption). rewrite H. reflexivity.
  - destruct (p (k, x)); cbn; [destruct (name_eqb_spec n k); [congruence|]|]; apply IH; assumption.
Qed.

(* ---------------- column types ---------------- *)
Fixpoint first_type (n : name) (bs : list batch) : option ty :=
  match bs with
  | [] => None
  | b :: r => match lookupn n (b_cols b) with Some c => Some (c_ty c) | None => first_type n r end
  end.

Lemma add_types_lookup n cs : forall acc,
  lookupn n (add_types cs acc) = match lookupn n acc with Some t => Some t | None => option_map c_ty (lookupn n cs) end.
Proof.
  induction cs as [|[k c] r IH]; intros acc; cbn [add_types].
  - destruct (lookupn n acc); reflexivity.
  - destruct (lookupn k acc) eqn:Ek.
    + rewrite IH. destruct (lookupn n acc) eqn:En; [reflexivity|]. cbn. destruct (name_eqb_spec n k) as [->|]; [congruence|reflexivity].
    + rewrite IH. rewrite lookupn_app. destruct (lookupn n acc) eqn:En; [reflexivity|]. cbn.
      destruct (name_eqb_spec n k) as [->|]; [reflexivity|]. destruct (lookupn n r); reflexivity.
Qed.

Lemma add_types_nodup cs : forall acc, NoDup (map fst acc) -> NoDup (map fst (add_types cs acc)).
Proof.
  induction cs as [|[k c] r IH]; intros acc Hn; cbn [add_types]; [exact Hn|].
  destruct (lookupn k acc) eqn:Ek; [apply IH; exact Hn|]. apply IH.
  rewrite map_app. cbn. apply NoDup_app_iff || idtac.
  apply lookupn_none in Ek. clear -Hn Ek. induction acc as [|a acc IH]; cbn in *; [constructor; [tauto|constructor]|].
  inversion Hn; subst. constructor.
  - rewrite in_app_iff. cbn. intros [?|[?|[]]]; [tauto|]. apply Ek. left. congruence.
  - apply IH; [assumption|tauto].
Qed.

Lemma col_types_lookup n bs : forall acc,
  lookupn n (fold_left (fun acc b => add_types (b_cols b) acc) bs acc)
  = match lookupn n acc with Some t => Some t | None => first_type n bs end.
Proof.
  induction bs as [|b r IH]; intros acc; cbn [fold_left first_type].
  - destruct (lookupn n acc); reflexivity.
  - rewrite IH, add_types_lookup. destruct (lookupn n acc); [reflexivity|]. destruct (lookupn n (b_cols b)); reflexivity.
Qed.

Lemma col_types_nodup bs : forall acc, NoDup (map fst acc) ->
  NoDup (map fst (fold_left (fun acc b => add_types (b_cols b) acc) bs acc)).
Proof. induction bs; intros acc Hn; cbn; [exact Hn|]. apply IHbs. apply add_types_nodup. exact Hn. Qed.

(* ---------------- well-formed batches ---------------- *)
Record wf_batch (b : batch) : Prop := {
  wf_names : NoDup (map fst (b_cols b));
  wf_vnames : NoDup (map fst (b_valid b));
  wf_time : exists tc, lookupn time_name (b_cols b) = Some tc /\ c_ty tc = TInt;
  wf_len : forall n c, In (n, c) (b_cols b) -> length (c_vals c) = batch_rows b;
  wf_vlen : forall n bits, In (n, bits) (b_valid b) -> length bits = batch_rows b
}.

Definition types_agree (bs : list batch) : Prop :=
  forall b1 b2 n c1 c2, In b1 bs -> In b2 bs -> lookupn n (b_cols b1) = Some c1 -> lookupn n (b_cols b2) = Some c2 -> c_ty c1 = c_ty c2.

Definition dblock (n : name) (t : ty) (b : batch) : list val :=
  match lookupn n (b_cols b) with Some c => c_vals c | None => repeat (zero_of t) (batch_rows b) end.
Definition vblock (n : name) (b : batch) : list bool :=
  match lookupn n (b_cols b) with
  | Some _ => valid_bits b n (batch_rows b)
  | None => repeat false (batch_rows b)
  end.

Lemma splice_exact {A} (pre v : list A) z rest off : off = length pre ->
  splice (pre ++ repeat z (length v + rest)) off v = (pre ++ v) ++ repeat z rest.
Proof.
  intros ->. unfold splice. rewrite firstn_app, firstn_all, Nat.sub_diag, firstn_O, app_nil_r.
  rewrite app_length, repeat_length. replace (length pre + (length v + rest) - length pre)%nat with (length v + rest)%nat by lia.
  rewrite (firstn_all2 v) by lia.
  rewrite skipn_app. rewrite skipn_all2 by lia. cbn [app].
  replace (length pre + length v - length pre)%nat with (length v) by lia.
  rewrite repeat_app, skipn_app, skipn_all2 by (rewrite repeat_length; lia).
  rewrite repeat_length, Nat.sub_diag. cbn. rewrite <- app_assoc. reflexivity.
Qed.

Lemma total_rows_cons b r : total_rows (b :: r) = (batch_rows b + total_rows r)%nat.
Proof. reflexivity. Qed.

Lemma merge_col_data_spec n t : forall bs pre off,
  Forall wf_batch bs ->
  (forall b c, In b bs -> lookupn n (b_cols b) = Some c -> c_ty c = t) ->
  off = length pre ->
  merge_col_data n t bs off (pre ++ repeat (zero_of t) (total_rows bs)) = Some (pre ++ flat_map (dblock n t) bs).
Proof.
  induction bs as [|b r IH]; intros pre off Hwf Hty Hoff; cbn [merge_col_data flat_map].
  - cbn. reflexivity.
  - inversion Hwf as [|? ? Hb Hr]; subst. rewrite total_rows_cons. unfold dblock at 1.
    destruct (lookupn n (b_cols b)) as [c|] eqn:El.
    + rewrite (Hty b c (or_introl eq_refl) El). 
      assert (ty_eqb t t = true) by (destruct t; reflexivity). rewrite H.
      assert (Hlen : length (c_vals c) = batch_rows b) by (eapply wf_len; [exact Hb|apply lookupn_in; exact El]).
      rewrite <- Hlen. rewrite splice_exact by reflexivity.
      rewrite (IH (pre ++ c_vals c)); [rewrite <- app_assoc; reflexivity|assumption| |rewrite app_length; lia].
      intros; eapply Hty; [right|]; eassumption.
    + rewrite repeat_app, app_assoc.
      rewrite (IH (pre ++ repeat (zero_of t) (batch_rows b))); [rewrite <- app_assoc; reflexivity|assumption| |rewrite app_length, repeat_length; lia].
      intros; eapply Hty; [right|]; eassumption.
Qed.

Lemma fill_true_exact pre n rest off : off = length pre ->
  fill_true (pre ++ repeat false (n + rest)) off n = (pre ++ repeat true n) ++ repeat false rest.
Proof.
  intros ->. unfold fill_true. rewrite firstn_app, firstn_all, Nat.sub_diag, firstn_O, app_nil_r.
  rewrite skipn_app, skipn_all2 by lia. cbn [app]. replace (length pre + n - length pre)%nat with n by lia.
  rewrite repeat_app, skipn_app, skipn_all2 by (rewrite repeat_length; lia).
  rewrite repeat_length, Nat.sub_diag. cbn. rewrite <- app_assoc. reflexivity.
Qed.

Lemma copy_bits_exact pre (bits : list bool) rest off : off = length pre ->
  copy_bits (pre ++ repeat false (length bits + rest)) off (length bits) bits = (pre ++ bits) ++ repeat false rest.
Proof.
  intros ->. unfold copy_bits. rewrite Nat.min_id. rewrite firstn_app, firstn_all, Nat.sub_diag, firstn_O, app_nil_r.
  rewrite firstn_all. rewrite skipn_app, skipn_all2 by lia. cbn [app].
  replace (length pre + length bits - length pre)%nat with (length bits) by lia.
  rewrite repeat_app, skipn_app, skipn_all2 by (rewrite repeat_length; lia).
  rewrite repeat_length, Nat.sub_diag. cbn. rewrite <- app_assoc. reflexivity.
Qed.

Lemma merge_col_valid_spec n : forall bs pre off,
  Forall wf_batch bs -> off = length pre ->
  merge_col_valid n bs off (pre ++ repeat false (total_rows bs)) = pre ++ flat_map (vblock n) bs.
Proof.
  induction bs as [|b r IH]; intros pre off Hwf Hoff; cbn [merge_col_valid flat_map].
  - cbn. reflexivity.
  - inversion Hwf as [|? ? Hb Hr]; subst. rewrite total_rows_cons. unfold vblock at 1.
    destruct (lookupn n (b_cols b)) as [c|] eqn:El.
    + unfold valid_bits. destruct (lookupn n (b_valid b)) as [bits|] eqn:Ev.
      * assert (Hlen : length bits = batch_rows b) by (eapply wf_vlen; [exact Hb|apply lookupn_in; exact Ev]).
        rewrite <- Hlen. rewrite copy_bits_exact by reflexivity.
        rewrite (IH (pre ++ bits)); [rewrite <- app_assoc; reflexivity|assumption|rewrite app_length; lia].
      * rewrite fill_true_exact by reflexivity.
        rewrite (IH (pre ++ repeat true (batch_rows b))); [rewrite <- app_assoc; reflexivity|assumption|rewrite app_length, repeat_length; lia].
    + rewrite repeat_app, app_assoc.
      rewrite (IH (pre ++ repeat false (batch_rows b))); [rewrite <- app_assoc; reflexivity|assumption|rewrite app_length, repeat_length; lia].
Qed.

(* ---------------------------------------------------------------- *)
Lemma all_some_map {A B} (f : A -> option B) (g : A -> B) l :
  (forall x, In x l -> f x = Some (g x)) -> all_some (map f l) = Some (map g l).
Proof.
  induction l as [|a l IH]; cbn; intros H; [reflexivity|]. rewrite (H a (or_introl eq_refl)).
  rewrite IH; [reflexivity|]. intros; apply H; right; assumption.
Qed.

Lemma zip_cells_app a1 b1 a2 b2 : length a1 = length b1 ->
  zip_cells (a1 ++ a2) (b1 ++ b2) = zip_cells a1 b1 ++ zip_cells a2 b2.
Proof.
  revert b1. induction a1 as [|x a1 IH]; destruct b1 as [|y b1]; cbn; try discriminate; [reflexivity|].
  intros E. rewrite IH by lia. reflexivity.
Qed.

Lemma zip_cells_length a b : length a = length b -> length (zip_cells a b) = length a.
Proof. revert b. induction a; destruct b; cbn; try discriminate; [reflexivity|]. intros. rewrite IHa; lia. Qed.

Lemma zip_flat_map {X} (f : X -> list val) (g : X -> list bool) l :
  (forall x, In x l -> length (f x) = length (g x)) ->
  zip_cells (flat_map f l) (flat_map g l) = flat_map (fun x => zip_cells (f x) (g x)) l.
Proof.
  induction l as [|a l IH]; cbn; intros H; [reflexivity|].
  rewrite zip_cells_app by (apply H; left; reflexivity). rewrite IH; [reflexivity|]. intros; apply H; right; assumption.
Qed.

Lemma zip_repeat_false z n : zip_cells (repeat z n) (repeat false n) = repeat None n.
Proof. induction n; cbn; [reflexivity|]. rewrite IHn. reflexivity. Qed.

Lemma all_true_repeat l : forallb (fun x : bool => x) l = true -> l = repeat true (length l).
Proof. induction l as [|[] l IH]; cbn; intros H; [reflexivity| |discriminate]. rewrite <- IH by exact H. reflexivity. Qed.

Lemma flat_map_repeat {X A} (z : A) (f : X -> nat) l : flat_map (fun x => repeat z (f x)) l = repeat z (fold_right (fun x n => (f x + n)%nat) 0%nat l).
Proof. induction l; cbn; [reflexivity|]. rewrite IHl, repeat_app. reflexivity. Qed.

Lemma flat_map_length_sum {X A} (f : X -> list A) (g : X -> nat) l : (forall x, In x l -> length (f x) = g x) ->
  length (flat_map f l) = fold_right (fun x n => (g x + n)%nat) 0%nat l.
Proof.
  induction l; cbn; intros H; [reflexivity|]. rewrite app_length, IHl, (H a (or_introl eq_refl)); [reflexivity|].
  intros; apply H; right; assumption.
Qed.

Lemma first_type_some n bs t : first_type n bs = Some t ->
  exists b c, In b bs /\ lookupn n (b_cols b) = Some c /\ c_ty c = t.
Proof.
  induction bs as [|b r IH]; cbn; [discriminate|]. destruct (lookupn n (b_cols b)) as [c|] eqn:E.
  - intros H; inversion H; subst. exists b, c. tauto.
  - intros H. destruct (IH H) as [b' [c [? ?]]]. exists b', c. tauto.
Qed.
Lemma first_type_none n bs : first_type n bs = None -> forall b, In b bs -> lookupn n (b_cols b) = None.
Proof.
  induction bs as [|b r IH]; cbn; [tauto|]. destruct (lookupn n (b_cols b)) eqn:E; [discriminate|].
  intros H b' [<-|Hin]; [exact E|apply IH; assumption].
Qed.

Lemma dblock_length n t b : wf_batch b -> length (dblock n t b) = batch_rows b.
Proof.
  intros Hb. unfold dblock. destruct (lookupn n (b_cols b)) eqn:E; [|apply repeat_length].
  eapply wf_len; [exact Hb|apply lookupn_in; exact E].
Qed.
Lemma vblock_length n b : wf_batch b -> length (vblock n b) = batch_rows b.
Proof.
  intros Hb. unfold vblock, valid_bits. destruct (lookupn n (b_cols b)); [|apply repeat_length].
  destruct (lookupn n (b_valid b)) eqn:E; [|apply repeat_length].
  eapply wf_vlen; [exact Hb|apply lookupn_in; exact E].
Qed.

Lemma zip_block n t b : wf_batch b -> zip_cells (dblock n t b) (vblock n b) = col_cells b n.
Proof.
  intros Hb. unfold dblock, vblock, col_cells. destruct (lookupn n (b_cols b)) as [c|] eqn:E.
  - assert (length (c_vals c) = batch_rows b) by (eapply wf_len; [exact Hb|apply lookupn_in; exact E]).
    rewrite H. reflexivity.
  - apply zip_repeat_false.
Qed.

Lemma flat_map_ext_in' {A B} (f g : A -> list B) l : (forall a, In a l -> f a = g a) -> flat_map f l = flat_map g l.
Proof. induction l; cbn; intros H; [reflexivity|]. rewrite (H a (or_introl eq_refl)), IHl; [reflexivity|]. intros; apply H; right; assumption. Qed.

Lemma total_rows_fold bs : total_rows bs = fold_right (fun x n => (batch_rows x + n)%nat) 0%nat bs.
Proof. reflexivity. Qed.

Lemma map_flat_map {A B C} (f : B -> C) (g : A -> list B) l : map f (flat_map g l) = flat_map (fun x => map f (g x)) l.
Proof. induction l; cbn; [reflexivity|]. rewrite map_app, IHl. reflexivity. Qed.

Definition times_list (b : batch) : list Z := match times_of b with Some ts => ts | None => [] end.

Theorem merge_rows bs : bs <> [] -> Forall wf_batch bs -> types_agree bs ->
  exists m, merge_batches bs = MOk m /\ wf_batch m /\ batch_rows m = total_rows bs /\
    (forall n, col_cells m n = flat_map (fun b => col_cells b n) bs) /\
    (forall n, In n (map fst (b_cols m)) <-> exists b, In b bs /\ In n (map fst (b_cols b))) /\
    times_of m = Some (flat_map times_list bs).
Proof.
  intros Hne Hwf Hag. destruct bs as [|b1 [|b2 r]]; [congruence| |].
  - exists b1. inversion Hwf as [|? ? Hb1 _]; subst. cbn [merge_batches total_rows fold_right flat_map].
    split; [reflexivity|]. split; [exact Hb1|]. split; [lia|]. split; [|split].
    + intros n. rewrite app_nil_r. reflexivity.
    + intros n. split; [intros H; exists b1; split; [left; reflexivity|exact H]|].
      intros [b [[<-|[]] H]]. exact H.
    + rewrite app_nil_r. unfold times_list. destruct (wf_time _ Hb1) as [tc [El Et]]. unfold times_of. rewrite El, Et. reflexivity.
  - set (bs := b1 :: b2 :: r) in *.
    unfold merge_batches. fold bs.
    set (cts := col_types bs). set (total := total_rows bs).
    assert (Hcl : forall n, lookupn n cts = first_type n bs).
    { intros n. unfold cts, col_types. rewrite col_types_lookup. reflexivity. }
    assert (Hcn : NoDup (map fst cts)).
    { unfold cts, col_types. apply col_types_nodup. constructor. }
    assert (Hty : forall n t, lookupn n cts = Some t -> forall b c, In b bs -> lookupn n (b_cols b) = Some c -> c_ty c = t).
    { intros n t Hl b c Hb Hc. rewrite Hcl in Hl. destruct (first_type_some _ _ _ Hl) as [b' [c' [Hb' [Hc' <-]]]].
      exact (Hag b b' n c c' Hb Hb' Hc Hc'). }
    assert (Hdata : forall nt, In nt cts ->
      (match merge_col_data (fst nt) (snd nt) bs 0 (repeat (zero_of (snd nt)) total) with
       | Some vs => Some (fst nt, {| c_ty := snd nt; c_vals := vs |}) | None => None end)
      = Some (fst nt, {| c_ty := snd nt; c_vals := flat_map (dblock (fst nt) (snd nt)) bs |})).
    { intros [n t] Hin. cbn [fst snd].
      pose proof (merge_col_data_spec n t bs [] 0 Hwf) as M. cbn [app length] in M. unfold total. rewrite M; [reflexivity| |reflexivity].
      intros b c Hb Hc. eapply Hty; [apply in_lookupn; eassumption|eassumption|eassumption]. }
    rewrite (all_some_map _ _ _ Hdata).
    set (cols := map (fun nt : name * ty => (fst nt, {| c_ty := snd nt; c_vals := flat_map (dblock (fst nt) (snd nt)) bs |})) cts).
    set (needs := existsb (fun b => negb (is_nil (b_valid b))) bs || existsb (fun b => Nat.ltb (length (b_cols b)) (length cts)) bs).
    assert (Hvmap : map (fun nt : name * ty => (fst nt, merge_col_valid (fst nt) bs 0 (repeat false total))) cts
                    = map (fun nt : name * ty => (fst nt, flat_map (vblock (fst nt)) bs)) cts).
    { apply map_ext. intros [n t]. cbn [fst]. pose proof (merge_col_valid_spec n bs [] 0 Hwf eq_refl) as M. cbn [app] in M.
      unfold total. rewrite M. reflexivity. }
    rewrite Hvmap.
    set (valid := if needs then filter (fun nv : name * list bool => negb (forallb (fun x => x) (snd nv)))
                                     (map (fun nt : name * ty => (fst nt, flat_map (vblock (fst nt)) bs)) cts) else []).
    set (m := {| b_cols := cols; b_valid := valid |}).
    exists m. split; [reflexivity|].
    assert (Hlc : forall n, lookupn n cols = option_map (fun t => {| c_ty := t; c_vals := flat_map (dblock n t) bs |}) (lookupn n cts)).
    { intros n. unfold cols. apply (lookupn_map (fun n t => {| c_ty := t; c_vals := flat_map (dblock n t) bs |})). }
    assert (Hdl : forall n t, length (flat_map (dblock n t) bs) = total).
    { intros n t. unfold total. rewrite total_rows_fold. apply flat_map_length_sum.
      intros b Hb. apply dblock_length. rewrite Forall_forall in Hwf. apply Hwf. exact Hb. }
    assert (Hvl : forall n, length (flat_map (vblock n) bs) = total).
    { intros n. unfold total. rewrite total_rows_fold. apply flat_map_length_sum.
      intros b Hb. apply vblock_length. rewrite Forall_forall in Hwf. apply Hwf. exact Hb. }
    assert (Htime : lookupn time_name cts = Some TInt).
    { rewrite Hcl. unfold bs. cbn [first_type]. inversion Hwf as [|? ? Hb1 _]; subst.
      destruct (wf_time _ Hb1) as [tc [-> ->]]. reflexivity. }
    assert (Hrows : batch_rows m = total).
    { unfold batch_rows, times_of. cbn [b_cols m]. rewrite Hlc, Htime. cbn. rewrite map_length. apply Hdl. }
    assert (Hvb : forall n t, lookupn n cts = Some t -> valid_bits m n total = flat_map (vblock n) bs).
    { intros n t Hl. unfold valid_bits. cbn [b_valid m]. unfold valid. destruct needs eqn:En.
      - rewrite lookupn_filter.
        2:{ rewrite map_map. cbn [fst]. exact Hcn. }
        rewrite (lookupn_map (fun n (_ : ty) => flat_map (vblock n) bs)). rewrite Hl. cbn [option_map snd].
        destruct (forallb (fun x => x) (flat_map (vblock n) bs)) eqn:Ea; cbn [negb]; [|reflexivity].
        rewrite (all_true_repeat _ Ea), Hvl. reflexivity.
      - cbn [lookupn]. unfold needs in En. apply orb_false_iff in En. destruct En as [En1 En2].
        assert (Hb : forall b, In b bs -> vblock n b = repeat true (batch_rows b)).
        { intros b Hb. unfold vblock, valid_bits.
          assert (Ev : b_valid b = []).
          { rewrite <- negb_true_iff, <- forallb_existsb || idtac.
            destruct (b_valid b) eqn:Ev; [reflexivity|]. exfalso.
            assert (existsb (fun b => negb (is_nil (b_valid b))) bs = true).
            { apply existsb_exists. exists b. split; [exact Hb|]. rewrite Ev. reflexivity. }
            congruence. }
          rewrite Ev. cbn [lookupn].
          assert (Hincl : incl (map fst cts) (map fst (b_cols b))).
          { apply NoDup_length_incl.
            - rewrite Forall_forall in Hwf. apply (wf_names _ (Hwf b Hb)).
            - rewrite !map_length.
              destruct (Nat.ltb (length (b_cols b)) (length cts)) eqn:El.
              + exfalso. assert (existsb (fun b => Nat.ltb (length (b_cols b)) (length cts)) bs = true).
                { apply existsb_exists. exists b. tauto. } congruence.
              + apply Nat.ltb_ge in El. exact El.
            - intros x Hx. destruct (lookupn x cts) eqn:Ex.
              + apply lookupn_in in Ex. apply in_map_iff. exists (x, t0). tauto.
              + exfalso. rewrite Hcl in Ex. pose proof (first_type_none _ _ Ex b Hb) as Hnone.
                apply lookupn_none in Hnone. contradiction. }
          destruct (lookupn n (b_cols b)) eqn:Ec; [reflexivity|]. exfalso.
          apply lookupn_none in Ec. apply Ec. apply Hincl. apply lookupn_in in Hl. apply in_map_iff. exists (n, t). tauto. }
        rewrite (flat_map_ext_in' _ _ _ Hb).
        rewrite flat_map_repeat. reflexivity. }
    assert (Hcells : forall n, col_cells m n = flat_map (fun b => col_cells b n) bs).
    { intros n. unfold col_cells at 1. cbn [b_cols m]. rewrite Hlc. destruct (lookupn n cts) as [t|] eqn:El; cbn [option_map c_vals].
      - rewrite Hdl. rewrite (Hvb n t El). rewrite zip_flat_map.
        + apply flat_map_ext_in'. intros b Hb. apply zip_block. rewrite Forall_forall in Hwf. apply Hwf. exact Hb.
        + intros b Hb. rewrite Forall_forall in Hwf. rewrite dblock_length, vblock_length by (apply Hwf; exact Hb). reflexivity.
      - rewrite Hrows. rewrite Hcl in El. pose proof (first_type_none _ _ El) as Hn.
        assert (E : forall b, In b bs -> col_cells b n = repeat None (batch_rows b)).
        { intros b Hb. unfold col_cells. rewrite (Hn b Hb). reflexivity. }
        rewrite (flat_map_ext_in' _ _ _ E). rewrite flat_map_repeat. reflexivity. }
    split; [|split; [exact Hrows|split; [exact Hcells|split]]].
    + split.
      * cbn [b_cols m]. unfold cols. rewrite map_map. cbn [fst]. exact Hcn.
      * cbn [b_valid m]. unfold valid. destruct needs; [|constructor].
        assert (forall (l : list (name * list bool)) p, NoDup (map fst l) -> NoDup (map fst (filter p l))).
        { intros l p. induction l as [|a l IH]; cbn; intros Hn; [constructor|]. inversion Hn; subst.
          destruct (p a); cbn; [constructor; [|apply IH; assumption]|apply IH; assumption].
          intros Hin. apply H1. apply in_map_iff in Hin. destruct Hin as [x [<- Hx]]. apply filter_In in Hx. apply in_map. tauto. }
        apply H. rewrite map_map. cbn [fst]. exact Hcn.
      * exists {| c_ty := TInt; c_vals := flat_map (dblock time_name TInt) bs |}. cbn [b_cols m]. rewrite Hlc, Htime. split; reflexivity.
      * intros n c Hin. cbn [b_cols m] in Hin. unfold cols in Hin. apply in_map_iff in Hin. destruct Hin as [[n' t] [E _]].
        cbn [fst snd] in E. inversion E; subst. cbn [c_vals]. rewrite Hrows. apply Hdl.
      * intros n bits Hin. cbn [b_valid m] in Hin. unfold valid in Hin. destruct needs; [|destruct Hin].
        apply filter_In in Hin. destruct Hin as [Hin _]. apply in_map_iff in Hin. destruct Hin as [[n' t] [E _]].
        cbn [fst] in E. inversion E; subst. rewrite Hrows. apply Hvl.
    + intros n. cbn [b_cols m]. unfold cols. rewrite map_map. cbn [fst]. split.
      * intros Hin. destruct (lookupn n cts) eqn:El; [|apply lookupn_none in El; contradiction].
        rewrite Hcl in El. destruct (first_type_some _ _ _ El) as [b [c [Hb [Hc _]]]]. exists b. split; [exact Hb|].
        apply lookupn_in in Hc. apply in_map_iff. exists (n, c). tauto.
      * intros [b [Hb Hin]]. destruct (lookupn n cts) eqn:El.
        -- apply lookupn_in in El. apply in_map_iff. exists (n, t). tauto.
        -- exfalso. rewrite Hcl in El. pose proof (first_type_none _ _ El b Hb) as Hn. apply lookupn_none in Hn. contradiction.
    + unfold times_of. cbn [b_cols m]. rewrite Hlc, Htime. cbn [option_map c_ty c_vals]. f_equal.
      rewrite map_flat_map.
      apply flat_map_ext_in'. intros b Hb. rewrite Forall_forall in Hwf. specialize (Hwf b Hb).
      unfold dblock, times_list, times_of. destruct (wf_time _ Hwf) as [tc [El Et]]. rewrite El, Et. reflexivity.
Qed.

(* ---------------------------------------------------------------- *)
Definition nondecr (l : list Z) : Prop := StronglySorted Z.le l.

Lemma already_sorted_spec ts : already_sorted ts = true -> nondecr ts.
Proof.
  unfold nondecr. induction ts as [|a [|b r] IH]; cbn [already_sorted]; intros H; [constructor|repeat constructor|].
  destruct (Z.ltb_spec b a); [discriminate|]. specialize (IH H). constructor; [exact IH|].
  inversion IH; subst. constructor; [lia|]. rewrite Forall_forall in *. intros x Hx. specialize (H4 x Hx). lia.
Qed.

(* the full claim about permuteByTime *)
Definition perm_ok (ts : list Z) (r : option (list nat)) : Prop :=
  match r with
  | None => nondecr ts
  | Some p => stable_sorted ts p
  end.

Lemma permute_by_time_ok thr ts : Forall int64 ts -> perm_ok ts (permute_by_time thr ts).
Proof.
  intros Hr. unfold permute_by_time. destruct ts as [|t0 r]; [constructor|].
  destruct (already_sorted (t0 :: r)) eqn:E; [apply already_sorted_spec; exact E|].
  destruct (Z.of_nat (length (t0 :: r)) <? thr); cbn [perm_ok]; [apply sort_path_sorted|apply radix_path_sorted; exact Hr].
Qed.

Lemma map_nth_seq {A} (d : A) l : map (fun i => nth i l d) (seq 0 (length l)) = l.
Proof.
  induction l as [|a l IH]; [reflexivity|]. cbn [length seq map nth]. f_equal.
  rewrite <- seq_shift, map_map. exact IH.
Qed.

Lemma stable_sorted_image ts p : stable_sorted ts p ->
  nondecr (map (fun i => nth i ts 0) p) /\ Permutation (map (fun i => nth i ts 0) p) ts /\ Forall (fun i => (i < length ts)%nat) p.
Proof.
  intros [Hp Hs]. split; [|split].
  - unfold nondecr. apply ss_map. eapply ss_impl; [|exact Hs]. cbv beta. unfold tlt. intros; lia.
  - rewrite Hp. rewrite map_nth_seq. reflexivity.
  - apply Forall_forall. intros i Hi. assert (In i (seq 0 (length ts))) by (eapply Permutation_in; eassumption). apply in_seq in H. lia.
Qed.

(* ---------------------------------------------------------------- *)
Lemma slice_is_permute b idx : slice_batch b idx = permute_batch b idx.
Proof. reflexivity. Qed.

Lemma nth_zip_cells vs bits z i : length vs = length bits -> (i < length vs)%nat ->
  nth i (zip_cells vs bits) None = if nth i bits false then Some (nth i vs z) else None.
Proof.
  revert bits i. induction vs as [|v vs IH]; destruct bits as [|b bits]; cbn; try discriminate; intros i E Hi; [lia|].
  destruct i; [reflexivity|]. apply IH; lia.
Qed.

Lemma zip_cells_map_nth vs bits z idx : length vs = length bits -> Forall (fun i => (i < length vs)%nat) idx ->
  zip_cells (map (fun i => nth i vs z) idx) (map (fun i => nth i bits false) idx)
  = map (fun i => nth i (zip_cells vs bits) None) idx.
Proof.
  intros E. induction idx as [|i idx IH]; cbn; intros H; [reflexivity|]. inversion H; subst.
  rewrite IH by assumption. rewrite (nth_zip_cells vs bits z) by assumption. reflexivity.
Qed.

Lemma nth_repeat' {A} (x d : A) n i : (i < n)%nat -> nth i (repeat x n) d = x.
Proof. revert i. induction n; intros i H; [lia|]. destruct i; cbn; [reflexivity|apply IHn; lia]. Qed.

Lemma col_length b n : wf_batch b -> length (col_cells b n) = batch_rows b.
Proof.
  intros Hb. unfold col_cells. destruct (lookupn n (b_cols b)) as [c|] eqn:E; [|apply repeat_length].
  assert (length (c_vals c) = batch_rows b) by (eapply wf_len; [exact Hb|apply lookupn_in; exact E]).
  rewrite zip_cells_length; [exact H|]. unfold valid_bits. destruct (lookupn n (b_valid b)) eqn:Ev; [|rewrite repeat_length; reflexivity].
  rewrite H. symmetry. eapply wf_vlen; [exact Hb|apply lookupn_in; exact Ev].
Qed.

Lemma nth_map_default {A B} (f : A -> B) l j d d' : (j < length l)%nat -> nth j (map f l) d' = f (nth j l d).
Proof. revert j. induction l as [|a l IH]; cbn; intros j H; [lia|]. destruct j; [reflexivity|apply IH; lia]. Qed.

Section Permute.
  Variables (b : batch) (idx : list nat).
  Hypothesis Hb : wf_batch b.
  Hypothesis Hidx : Forall (fun i => (i < batch_rows b)%nat) idx.
  Let b' := permute_batch b idx.

  Lemma permute_lookup n : lookupn n (b_cols b') =
    option_map (fun c => {| c_ty := c_ty c; c_vals := apply_perm (zero_of (c_ty c)) (c_vals c) idx |}) (lookupn n (b_cols b)).
  Proof. unfold b', permute_batch. cbn [b_cols]. apply (lookupn_map (fun _ c => {| c_ty := c_ty c; c_vals := apply_perm (zero_of (c_ty c)) (c_vals c) idx |})). Qed.

  Lemma permute_vlookup n : lookupn n (b_valid b') = option_map (fun bits => apply_perm false bits idx) (lookupn n (b_valid b)).
  Proof. unfold b', permute_batch. cbn [b_valid]. apply (lookupn_map (fun _ bits => apply_perm false bits idx)). Qed.

  Lemma permute_times ts : times_of b = Some ts -> times_of b' = Some (map (fun i => nth i ts 0) idx).
  Proof.
    unfold times_of. rewrite permute_lookup. destruct (lookupn time_name (b_cols b)) as [c|]; [|discriminate]. cbn [option_map c_ty c_vals].
    destruct (c_ty c); try discriminate. intros E; inversion E; subst. f_equal. unfold apply_perm. rewrite map_map.
    apply map_ext. intros i. change 0 with (val_z (zero_of TInt)). rewrite map_nth. reflexivity.
  Qed.

  Lemma permute_rows : batch_rows b' = length idx.
  Proof.
    unfold batch_rows. destruct (wf_time _ Hb) as [tc [El Et]].
    assert (times_of b = Some (map val_z (c_vals tc))) by (unfold times_of; rewrite El, Et; reflexivity).
    rewrite (permute_times _ H). apply map_length.
  Qed.

  Lemma permute_cells n : col_cells b' n = map (fun i => nth i (col_cells b n) None) idx.
  Proof.
    unfold col_cells. rewrite permute_lookup. destruct (lookupn n (b_cols b)) as [c|] eqn:E; cbn [option_map c_vals].
    - assert (Hl : length (c_vals c) = batch_rows b) by (eapply wf_len; [exact Hb|apply lookupn_in; exact E]).
      unfold valid_bits. rewrite permute_vlookup. unfold apply_perm. rewrite map_length.
      destruct (lookupn n (b_valid b)) as [bits|] eqn:Ev; cbn [option_map].
      + assert (length bits = batch_rows b) by (eapply wf_vlen; [exact Hb|apply lookupn_in; exact Ev]).
        apply zip_cells_map_nth; [lia|]. rewrite Hl. exact Hidx.
      + rewrite <- (zip_cells_map_nth _ (repeat true (length (c_vals c))) (zero_of (c_ty c))).
        * f_equal. rewrite Hl. generalize Hidx. generalize idx as l. clear.
          induction l as [|i l IH]; cbn; intros H; [reflexivity|]. inversion H; subst. rewrite IH by assumption.
          rewrite nth_repeat' by assumption. reflexivity.
        * rewrite repeat_length. reflexivity.
        * rewrite Hl. exact Hidx.
    - rewrite permute_rows. clear. induction idx as [|i l IH]; cbn; [reflexivity|]. rewrite IH. f_equal.
      destruct (Nat.lt_ge_cases i (batch_rows b)); [rewrite nth_repeat' by assumption; reflexivity|].
      rewrite nth_overflow by (rewrite repeat_length; lia). reflexivity.
  Qed.

  Lemma permute_wf : wf_batch b'.
  Proof.
    split.
    - unfold b', permute_batch. cbn [b_cols]. rewrite map_map. cbn [fst]. apply (wf_names _ Hb).
    - unfold b', permute_batch. cbn [b_valid]. rewrite map_map. cbn [fst]. apply (wf_vnames _ Hb).
    - destruct (wf_time _ Hb) as [tc [El Et]]. rewrite permute_lookup, El. cbn. eexists. split; [reflexivity|exact Et].
    - intros n c Hin. rewrite permute_rows. unfold b', permute_batch in Hin. cbn [b_cols] in Hin.
      apply in_map_iff in Hin. destruct Hin as [[n0 c0] [E _]]. inversion E; subst. cbn. unfold apply_perm. apply map_length.
    - intros n bits Hin. rewrite permute_rows. unfold b', permute_batch in Hin. cbn [b_valid] in Hin.
      apply in_map_iff in Hin. destruct Hin as [[n0 c0] [E _]]. inversion E; subst. cbn. unfold apply_perm. apply map_length.
  Qed.

  Lemma permute_row_at j : (j < length idx)%nat -> row_at b' j = row_at b (nth j idx 0%nat).
  Proof.
    intros Hj. unfold row_at. replace (b_cols b') with (map (fun nc : name * col => (fst nc, {| c_ty := c_ty (snd nc); c_vals := apply_perm (zero_of (c_ty (snd nc))) (c_vals (snd nc)) idx |})) (b_cols b)) by reflexivity.
    rewrite map_map. cbn [fst].
    apply map_ext. intros [n c]. cbn [fst]. f_equal. fold b'. rewrite permute_cells.
    apply (nth_map_default (fun i => nth i (col_cells b n) None) idx j 0%nat None). exact Hj.
  Qed.

  Lemma permute_rows_of : rows_of b' = map (row_at b) idx.
  Proof.
    unfold rows_of. rewrite permute_rows.
    rewrite <- (map_nth_seq 0%nat idx) at 2. rewrite map_map.
    apply map_ext_in. intros j Hj. apply in_seq in Hj. apply permute_row_at. lia.
  Qed.
End Permute.

Lemma rows_perm b idx : wf_batch b -> Permutation idx (seq 0 (batch_rows b)) ->
  Permutation (rows_of (permute_batch b idx)) (rows_of b).
Proof.
  intros Hb Hp. rewrite permute_rows_of.
  - unfold rows_of. apply Permutation_map. exact Hp.
  - exact Hb.
  - apply Forall_forall. intros i Hi. assert (In i (seq 0 (batch_rows b))) by (eapply Permutation_in; eassumption). apply in_seq in H. lia.
Qed.

Definition batch_times_ok (b : batch) : Prop := exists ts, times_of b = Some ts /\ Forall int64 ts.

Lemma times_rows b ts : times_of b = Some ts -> batch_rows b = length ts.
Proof. unfold batch_rows. intros ->. reflexivity. Qed.

Lemma sort_batch_spec thr b : wf_batch b -> batch_times_ok b ->
  wf_batch (sort_batch thr b) /\ Permutation (rows_of (sort_batch thr b)) (rows_of b) /\
  exists ts ts', times_of b = Some ts /\ times_of (sort_batch thr b) = Some ts' /\ nondecr ts' /\ Permutation ts' ts.
Proof.
  intros Hb [ts [Ht Hr]]. unfold sort_batch. rewrite Ht.
  pose proof (permute_by_time_ok thr ts Hr) as Hok.
  destruct (permute_by_time thr ts) as [p|]; cbn [perm_ok] in Hok.
  - destruct (stable_sorted_image _ _ Hok) as [Hnd [Hpm Hlt]]. destruct Hok as [Hp _].
    assert (Hidx : Forall (fun i => (i < batch_rows b)%nat) p) by (rewrite (times_rows _ _ Ht); exact Hlt).
    split; [apply permute_wf; assumption|]. split.
    + apply rows_perm; [exact Hb|]. rewrite (times_rows _ _ Ht). exact Hp.
    + exists ts, (map (fun i => nth i ts 0) p). split; [reflexivity|]. split; [apply permute_times; assumption|]. tauto.
  - split; [exact Hb|]. split; [reflexivity|]. exists ts, ts. split; [reflexivity|]. split; [exact Ht|]. split; [exact Hok|reflexivity].
Qed.

(* ---- min / max ---- *)
Lemma list_min_le d l : list_min d l <= d /\ Forall (fun x => list_min d l <= x) l.
Proof.
  unfold list_min. revert d. induction l as [|a l IH]; intros d; cbn; [split; [lia|constructor]|].
  destruct (IH (Z.min d a)) as [H1 H2]. split; [lia|]. constructor; [lia|exact H2].
Qed.
Lemma list_max_ge d l : d <= list_max d l /\ Forall (fun x => x <= list_max d l) l.
Proof.
  unfold list_max. revert d. induction l as [|a l IH]; intros d; cbn; [split; [lia|constructor]|].
  destruct (IH (Z.max d a)) as [H1 H2]. split; [lia|]. constructor; [lia|exact H2].
Qed.

Lemma hb_mono H a b : 0 < H -> a <= b -> hour_bucket_id H a <= hour_bucket_id H b.
Proof.
  intros HH Hab. pose proof (bucket_floor H a HH) as Fa. pose proof (bucket_floor H b HH) as Fb. cbv zeta in *. nia.
Qed.

Definition file_ok (H : Z) (f : Z * batch) : Prop :=
  wf_batch (snd f) /\ exists ts, times_of (snd f) = Some ts /\ ts <> [] /\ nondecr ts /\ Forall (fun t => hour_bucket_id H t = fst f) ts.

Theorem flush_files H thr b : 0 < H -> wf_batch b -> batch_times_ok b -> (0 < batch_rows b)%nat ->
  exists files, flush_partitioned H thr b = Some files /\
    NoDup (map fst files) /\
    Permutation (flat_map (fun f => rows_of (snd f)) files) (rows_of b) /\
    Forall (file_ok H) files.
Proof.
  intros HH Hb Hok Hpos. destruct Hok as [ts [Ht Hr]]. unfold flush_partitioned. rewrite Ht.
  pose proof (times_rows _ _ Ht) as Hrows.
  destruct ts as [|t0 r]; [cbn in Hrows; lia|]. set (ts := t0 :: r) in *.
  destruct (Z.eqb_spec (hour_bucket_id H (list_min t0 ts)) (hour_bucket_id H (list_max t0 ts))) as [E|E].
  - eexists. split; [reflexivity|]. cbn [map fst flat_map snd]. rewrite app_nil_r.
    destruct (sort_batch_spec thr b Hb (ex_intro _ ts (conj Ht Hr))) as [Hw [Hp [ts1 [ts' [E1 [E2 [Hnd Hpm]]]]]]].
    split; [repeat constructor; intros []|]. split; [exact Hp|]. constructor; [|constructor].
    split; [exact Hw|]. cbn [snd fst]. exists ts'. split; [exact E2|]. rewrite Ht in E1. inversion E1; subst ts1.
    split; [intros ->; apply Permutation_nil in Hpm; discriminate|]. split; [exact Hnd|].
    apply Forall_forall. intros t Hin. assert (In t ts) by (eapply Permutation_in; eassumption).
    destruct (list_min_le t0 ts) as [_ Hmin]. destruct (list_max_ge t0 ts) as [_ Hmax]. rewrite Forall_forall in Hmin, Hmax.
    pose proof (hb_mono H _ _ HH (Hmin t H0)). pose proof (hb_mono H _ _ HH (Hmax t H0)). lia.
  - eexists. split; [reflexivity|].
    destruct (group_partition H ts) as [Hn [Hp Hall]]. set (g := group_by_hour H ts) in *.
    assert (Hidx : forall bk, In bk g -> Forall (fun i => (i < batch_rows b)%nat) (bk_idx bk)).
    { intros bk Hbk. apply Forall_forall. intros j Hj. rewrite Hrows. apply (Hall bk Hbk). exact Hj. }
    split; [|split].
    + rewrite map_map. cbn [fst]. exact Hn.
    + rewrite flat_map_concat_map, map_map. cbn [snd].
      transitivity (concat (map (fun bk => map (row_at b) (bk_idx bk)) g)).
      * clear Hn Hp. induction g as [|bk g IH]; cbn; [reflexivity|]. apply Permutation_app.
        -- rewrite slice_is_permute.
           assert (Hs : wf_batch (permute_batch b (bk_idx bk))) by (apply permute_wf; exact Hb).
           assert (Hto : batch_times_ok (permute_batch b (bk_idx bk))).
           { eexists. split; [apply permute_times; exact Ht|]. apply Forall_forall. intros t Hin. apply in_map_iff in Hin.
             destruct Hin as [j [<- Hj]]. rewrite Forall_forall in Hr. apply Hr. apply nth_In. rewrite <- Hrows.
             specialize (Hidx bk (or_introl eq_refl)). rewrite Forall_forall in Hidx. apply Hidx. exact Hj. }
           destruct (sort_batch_spec thr _ Hs Hto) as [_ [Hp' _]]. rewrite Hp'.
           rewrite permute_rows_of; [reflexivity|exact Hb|apply Hidx; left; reflexivity].
        -- apply IH; intros; [apply Hall|apply Hidx]; right; assumption.
      * rewrite <- (map_map bk_idx (map (row_at b))). rewrite <- concat_map. unfold rows_of. apply Permutation_map. rewrite Hrows. exact Hp.
    + apply Forall_forall. intros [h fb] Hin. apply in_map_iff in Hin. destruct Hin as [bk [Eq Hbk]]. inversion Eq; subst. clear Eq.
      rewrite slice_is_permute.
      assert (Hs : wf_batch (permute_batch b (bk_idx bk))) by (apply permute_wf; exact Hb).
      assert (Hti : times_of (permute_batch b (bk_idx bk)) = Some (map (fun i => nth i ts 0) (bk_idx bk))) by (apply permute_times; exact Ht).
      assert (Hto : batch_times_ok (permute_batch b (bk_idx bk))).
      { eexists. split; [exact Hti|]. apply Forall_forall. intros t Hin. apply in_map_iff in Hin.
        destruct Hin as [j [<- Hj]]. rewrite Forall_forall in Hr. apply Hr. apply nth_In. rewrite <- Hrows.
        specialize (Hidx bk Hbk). rewrite Forall_forall in Hidx. apply Hidx. exact Hj. }
      destruct (sort_batch_spec thr _ Hs Hto) as [Hw [_ [ts1 [ts' [E1 [E2 [Hnd Hpm]]]]]]].
      split; [exact Hw|]. cbn [fst snd]. exists ts'. split; [exact E2|]. rewrite Hti in E1. inversion E1; subst ts1.
      destruct (Hall bk Hbk) as [_ [Hne Hj]].
      split; [|split; [exact Hnd|]].
      * intros ->. apply Permutation_nil in Hpm. destruct (bk_idx bk); [congruence|discriminate].
      * apply Forall_forall. intros t Hin. assert (Hin' : In t (map (fun i => nth i ts 0) (bk_idx bk))) by (eapply Permutation_in; eassumption).
        apply in_map_iff in Hin'. destruct Hin' as [j [<- Hjin]]. apply Hj. exact Hjin.
Qed.


(* ---------------------------------------------------------------- *)
(* rows up to "absent column = NULL" *)
Definition row_equiv (r1 r2 : row) : Prop := forall n, row_get r1 n = row_get r2 n.

#[export] Instance row_equiv_equiv : Equivalence row_equiv.
Proof.
  split; [intros r n; reflexivity|intros a b H n; symmetry; apply H|intros a b c H1 H2 n; rewrite H1; apply H2].
Qed.

Lemma nth_repeat_none {A} n i : nth i (repeat (@None A) n) None = None.
Proof. revert i. induction n; intros [|i]; cbn; auto. Qed.

Lemma row_get_row_at b i n : row_get (row_at b i) n = nth i (col_cells b n) None.
Proof.
  unfold row_get, row_at. rewrite (lookupn_map (fun n (_ : col) => nth i (col_cells b n) None)).
  destruct (lookupn n (b_cols b)) eqn:E; cbn [option_map]; [reflexivity|].
  unfold col_cells. rewrite E. symmetry. apply nth_repeat_none.
Qed.

Lemma rows_col b n : wf_batch b -> map (fun r => row_get r n) (rows_of b) = col_cells b n.
Proof.
  intros Hb. unfold rows_of. rewrite map_map. rewrite <- (col_length b n Hb).
  rewrite <- (map_nth_seq None (col_cells b n)) at 2. apply map_ext. intros i. apply row_get_row_at.
Qed.

Lemma colwise_eqlistA l1 l2 : (forall n, map (fun r => row_get r n) l1 = map (fun r => row_get r n) l2) ->
  eqlistA row_equiv l1 l2.
Proof.
  revert l2. induction l1 as [|a l1 IH]; intros l2 H.
  - specialize (H []). destruct l2; [constructor|discriminate].
  - destruct l2 as [|b l2]; [specialize (H []); discriminate|]. constructor.
    + intros n. specialize (H n). cbn in H. inversion H. reflexivity.
    + apply IH. intros n. specialize (H n). cbn in H. inversion H. reflexivity.
Qed.

Lemma merged_rows_equiv bs m : Forall wf_batch bs -> wf_batch m ->
  (forall n, col_cells m n = flat_map (fun b => col_cells b n) bs) ->
  eqlistA row_equiv (rows_of m) (flat_map rows_of bs).
Proof.
  intros Hwf Hm Hc. apply colwise_eqlistA. intros n. rewrite rows_col by exact Hm. rewrite Hc.
  rewrite map_flat_map.
  apply flat_map_ext_in'. intros b Hb. symmetry. apply rows_col. rewrite Forall_forall in Hwf. apply Hwf. exact Hb.
Qed.

(* every file produced by a flush: one per hour, rows of that hour only, time-sorted;
   together exactly the rows of the flushed batches *)
Theorem flush_batches_rows H thr bs : 0 < H -> bs <> [] ->
  Forall wf_batch bs -> types_agree bs -> Forall batch_times_ok bs -> (0 < total_rows bs)%nat ->
  exists files, flush_batches H thr bs = FOk files /\
    NoDup (map fst files) /\ Forall (file_ok H) files /\
    PermutationA row_equiv (flat_map (fun f => rows_of (snd f)) files) (flat_map rows_of bs).
Proof.
  intros HH Hne Hwf Hag Hto Hpos.
  destruct (merge_rows bs Hne Hwf Hag) as [m [Em [Hm [Hrows [Hcells [_ Htimes]]]]]].
  assert (Hmt : batch_times_ok m).
  { exists (flat_map times_list bs). split; [exact Htimes|]. apply Forall_forall. intros t Hin.
    apply in_flat_map in Hin. destruct Hin as [b [Hb Ht]]. rewrite Forall_forall in Hto. destruct (Hto b Hb) as [ts [E Hr]].
    unfold times_list in Ht. rewrite E in Ht. rewrite Forall_forall in Hr. apply Hr. exact Ht. }
  destruct (flush_files H thr m HH Hm Hmt ltac:(lia)) as [files [Ef [Hn [Hp Hok]]]].
  exists files. unfold flush_batches. rewrite Em, Ef. split; [reflexivity|]. split; [exact Hn|]. split; [exact Hok|].
  etransitivity; [apply Permutation_PermutationA; [typeclasses eauto|exact Hp]|].
  apply eqlistA_PermutationA. apply merged_rows_equiv; assumption.
Qed.
