(* C03 obligations on the parameters regenerated from /repo on every run
   (coq/gen/Params_Buffer.v, written by tools/lib_buffer.py: microPerHour,
   radixSkipThreshold, schemaEvolutionMaxIters as evaluated by the Go compiler). *)
From Coq Require Import List ZArith NArith Bool Lia Permutation Sorting.Sorted SetoidList SetoidPermutation.
From Arc Require Import Lib.AList Buffer.Model Buffer.Proofs Buffer.Props.
From ArcGen Require Import Params_Buffer.
Import ListNotations.
Open Scope Z_scope.

(* PRIMARY obligation: at the constants of the current source (microPerHour, radixSkipThreshold,
   schemaEvolutionMaxIters as evaluated by the Go compiler) the hour length is one hour of
   microseconds, the bucket function is the floor, permuteByTime sorts, and the end-to-end statement
   C03_accepted_rows_stored_once holds *)
Theorem C03_deployed :
  (micro_per_hour = 3600 * 1000000 /\ 0 < micro_per_hour /\ 0 <= radix_skip_threshold /\ 0 < schema_evolution_max_iters) /\
  (forall t, let b := hour_bucket_id micro_per_hour t in b * micro_per_hour <= t < (b + 1) * micro_per_hour) /\
  (forall ts, Forall int64 ts ->
     match permute_by_time radix_skip_threshold ts with
     | None => StronglySorted Z.le ts
     | Some p => Permutation p (seq 0 (length ts)) /\ StronglySorted (tlt ts) p
     end) /\
  (forall cfg ls s,
     brun micro_per_hour radix_skip_threshold cfg binit ls = Some s ->
     forallb (fun l : label N batch => no_replay l && outcome_ok l) ls = true ->
     fix_drain cfg = true -> phase s = PClosed -> clean s = true -> inputs_ok s ->
     (forall t r, In (t, r) (dropped s) -> r <> DQueueFull) ->
     Permutation (accepted s) (stored_items s) /\
     PermutationA row_equiv (flat_map (fun f => rows_of (snd (snd f))) (stored_kfiles s)) (flat_map rows_of (map it_b (accepted s))) /\
     (forall r, In r (stored s) ->
        (forall it, In it (s_items r) -> it_key it = s_key r) /\ NoDup (map fst (s_files r)) /\ Forall (file_ok micro_per_hour) (s_files r)) /\
     buffers s = [] /\ queue s = [] /\ busy s = [] /\ dropped s = []).
Proof.
  assert (P : micro_per_hour = 3600 * 1000000 /\ 0 < micro_per_hour /\ 0 <= radix_skip_threshold /\ 0 < schema_evolution_max_iters)
    by (vm_compute; repeat split; intro; discriminate).
  split; [exact P|]. destruct P as [_ [Hp _]]. split; [intros t; apply C03_bucket_floor; exact Hp|].
  split; [intros ts; apply C03_sort_perm_sorted|]. apply C03_accepted_rows_stored_once. exact Hp.
Qed.
Print Assumptions C03_deployed.
