(* C03 obligations on the parameters regenerated from /repo on every run
   (coq/gen/Params_Buffer.v, written by tools/lib_buffer.py: microPerHour,
   radixSkipThreshold, schemaEvolutionMaxIters as evaluated by the Go compiler). *)
From Coq Require Import List ZArith NArith Bool Lia Permutation Sorting.Sorted SetoidList SetoidPermutation.
From Arc Require Import Lib.AList Buffer.Model Buffer.Proofs Buffer.Props.
From ArcGen Require Import Params_Buffer.
Import ListNotations.
Open Scope Z_scope.

(* the hour length really is one hour of microseconds and the other constants are sane *)
Theorem C03_params_ok :
  micro_per_hour = 3600 * 1000000 /\ 0 < micro_per_hour /\ 0 <= radix_skip_threshold /\ 0 < schema_evolution_max_iters.
Proof. vm_compute. repeat split; intro; discriminate. Qed.
Print Assumptions C03_params_ok.

(* the deployed bucket function is the floor to the hour, for every int64 (indeed every) timestamp *)
Theorem C03_deployed_bucket_floor : forall t,
  let b := hour_bucket_id micro_per_hour t in b * micro_per_hour <= t < (b + 1) * micro_per_hour.
Proof. intros t. apply C03_bucket_floor. destruct C03_params_ok as [_ [Hp _]]. exact Hp. Qed.
Print Assumptions C03_deployed_bucket_floor.

(* the deployed permuteByTime (with the threshold found in the source) *)
Theorem C03_deployed_sort : forall ts, Forall int64 ts ->
  match permute_by_time radix_skip_threshold ts with
  | None => StronglySorted Z.le ts
  | Some p => Permutation p (seq 0 (length ts)) /\ StronglySorted (tlt ts) p
  end.
Proof. intros ts. apply C03_sort_perm_sorted. Qed.
Print Assumptions C03_deployed_sort.

(* the guarded end-to-end statement at the deployed constants *)
Theorem C03_deployed_stores_all : forall cfg ls s,
  brun micro_per_hour radix_skip_threshold cfg binit ls = Some s ->
  forallb (fun l : label N batch => no_replay l && outcome_ok l) ls = true ->
  fix_drain cfg = true -> phase s = PClosed -> clean s = true -> inputs_ok s ->
  (forall t r, In (t, r) (dropped s) -> r <> DQueueFull) ->
  dropped s = [] /\ buffers s = [] /\ queue s = [] /\ busy s = [] /\
  Permutation (accepted s) (stored_items s) /\
  PermutationA row_equiv (flat_map (fun f => rows_of (snd (snd f))) (stored_kfiles s))
                         (flat_map rows_of (map it_b (accepted s))).
Proof. apply C03_flush_close_stores_all. destruct C03_params_ok as [_ [Hp _]]. exact Hp. Qed.
Print Assumptions C03_deployed_stores_all.
